(* update_subtree refines its set-level specification: the removed part, the re-pointed children
   and the inserted copy (named by rename) are exactly what the documented meaning yields
   (property C04, part 4 continued). *)
From Coq Require Import List Arith Bool Lia.
From GolemV Require Import Graph.Heap Graph.Ops Graph.OpsSpec Graph.OpsBase Graph.OpsDfs Graph.OpsProofs
  Graph.OpsProofs2 Graph.OpsChar Graph.OpsRefine Graph.OpsSink Graph.OpsRefine2.
Import ListNotations.

(* ------------------------------------------------------------------ the walk does not depend on spare fuel *)
Lemma fold_dstep_mono : forall par k,
  (forall g n l, dfs_add par k g n = Ok l -> dfs_add par (S k) g n = Ok l) ->
  forall ps acc l, fold_left (dstep par k) ps acc = Ok l -> fold_left (dstep par (S k)) ps acc = Ok l.
Proof.
  intros par k IH. induction ps as [|p t IHt]; intros acc l E; [exact E|].
  destruct acc as [g1|e]; simpl in *; [|rewrite fold_dstep_raise in E; discriminate].
  destruct (dfs_add par k g1 p) as [g2|e] eqn:E1; [|rewrite fold_dstep_raise in E; discriminate].
  rewrite (IH _ _ _ E1). apply IHt. exact E.
Qed.

Lemma dfs_add_mono : forall par k g n l, dfs_add par k g n = Ok l -> dfs_add par (S k) g n = Ok l.
Proof.
  intros par. induction k as [|k IH]; intros g n l E; [discriminate|].
  rewrite dfs_add_S in *. destruct (memb n g); [exact E|].
  apply fold_dstep_mono; assumption.
Qed.

Lemma fold_dstep_ext : forall par1 par2 k,
  (forall g n, dfs_add par1 k g n = dfs_add par2 k g n) ->
  forall ps acc, fold_left (dstep par1 k) ps acc = fold_left (dstep par2 k) ps acc.
Proof.
  intros par1 par2 k IH. induction ps as [|p t IHt]; intros acc; simpl; [reflexivity|].
  destruct acc as [g1|e]; simpl; [rewrite IH|]; apply IHt.
Qed.

Lemma dfs_add_ext_par : forall par1 par2, (forall x, par1 x = par2 x) ->
  forall k g n, dfs_add par1 k g n = dfs_add par2 k g n.
Proof.
  intros par1 par2 EQ. induction k as [|k IH]; intros g n; [reflexivity|].
  rewrite !dfs_add_S. destruct (memb n g); [reflexivity|]. rewrite EQ. apply fold_dstep_ext. exact IH.
Qed.

Lemma fold_dstep_extends : forall par k ps g0 g', fold_left (dstep par k) ps (Ok g0) = Ok g' -> exists l, g' = g0 ++ l.
Proof.
  intros par k. induction ps as [|p t IH]; intros g0 g' E; simpl in E.
  - inversion E; subst. exists []. rewrite app_nil_r. reflexivity.
  - destruct (dfs_add par k g0 p) as [g1|e] eqn:E1; [|rewrite fold_dstep_raise in E; discriminate].
    destruct (dfs_add_ext _ _ _ _ _ E1) as [l1 ->]. destruct (IH _ _ E) as [l2 ->].
    exists (l1 ++ l2). rewrite app_assoc. reflexivity.
Qed.

(* the walk meets its start node first *)
Lemma closure_head : forall h n R, closure h n = Ok R -> exists t, R = n :: t.
Proof.
  unfold closure, add_node_g. intros h n R E. rewrite dfs_add_S in E. simpl in E.
  destruct (fold_dstep_extends _ _ _ _ _ E) as [l ->]. exists l. reflexivity.
Qed.

(* parent lists read off the abstract universe are the heap's parent lists *)
Lemma a_parents_flat : forall h x l, NoDup l ->
  map fst (filter (fun e : nat * nat => snd e =? x) (flat_map (fun c => map (fun p => (p, c)) (pars h c)) l)) =
  if memb x l then pars h x else [].
Proof.
  intros h x. induction l as [|c t IH]; intros ND; simpl; [reflexivity|].
  inversion ND as [|? ? Hc NDt]; subst.
  assert (F : forall ps, map fst (filter (fun e : nat * nat => snd e =? x) (map (fun p => (p, c)) ps)) =
                         if c =? x then ps else []).
  { induction ps as [|p ps IHp]; simpl; [destruct (c =? x); reflexivity|].
    destruct (c =? x) eqn:E; simpl; [f_equal|]; exact IHp. }
  rewrite filter_app, map_app.
  assert (IH' := IH NDt).
  match goal with |- ?A ++ ?B = _ =>
    replace B with (if memb x t then pars h x else []) by (symmetry; exact IH');
    replace A with (if c =? x then pars h c else []) by (symmetry; apply F) end.
  rewrite Nat.eqb_sym. destruct (Nat.eqb_spec x c) as [->|N]; simpl.
  - apply memb_false in Hc. rewrite Hc. apply app_nil_r.
  - reflexivity.
Qed.

Lemma a_parents_universe : forall h x, a_parents (universe h) x = pars h x.
Proof.
  intros h x. unfold a_parents, universe, abs, edges_of. simpl.
  rewrite a_parents_flat by apply seq_NoDup.
  destruct (memb x (seq 0 (length h))) eqn:M; [reflexivity|].
  apply memb_false in M. rewrite in_seq in M. symmetry. apply pars_out. lia.
Qed.

Lemma a_anc_universe_list : forall h n R, closure h n = Ok R -> a_anc (universe h) n = R.
Proof.
  intros h n R E. unfold a_anc, closure, add_node_g in *.
  replace (length (an (universe h))) with (length h) by (unfold universe; simpl; rewrite seq_length; reflexivity).
  rewrite (dfs_add_ext_par (a_parents (universe h)) (pars h) (a_parents_universe h)).
  pose proof (dfs_add_mono _ _ _ _ _ E) as M.
  match goal with |- match ?x with _ => _ end = _ => replace x with (@Ok (list ref) R) by (symmetry; exact M) end.
  reflexivity.
Qed.

(* ------------------------------------------------------------------ update_subtree *)
Theorem update_subtree_refines : forall h g old new h4 g3, WF h g ->
  guard_b (h, g) (OUpdSub old new) = true -> update_subtree h g old new = Ok (h4, g3) ->
  a_equiv (abs h4 g3) (spec_update_subtree (universe h) (abs h g) old new).
Proof.
  intros h g old new h4 g3 W G E.
  destruct (update_subtree_facts_exact h g old new W G) as [h4' [g3' [Bs [E' [W' [_ [_ [_ [_ [_ [_ EX]]]]]]]]]]].
  destruct EX as [R [g2 [EC [L4 [XC [XM [W2 [ES MG2]]]]]]]].
  rewrite E in E'. inversion E'; subst h4' g3'. clear E' Bs.
  simpl in G. repeat rewrite andb_true_iff in G. destruct G as [[[G1 G2] _] _].
  apply memb_In in G1. apply Nat.ltb_lt in G2.
  set (base := length h) in *. set (ren := rename R base) in *.
  destruct (closure_spec _ _ _ EC) as [NDR [HnR [RC RS]]].
  destruct (closure_head _ _ _ EC) as [Rt ER].
  assert (NW : ren new = base).
  { unfold ren, rename. rewrite ER. simpl. rewrite Nat.eqb_refl. apply Nat.add_0_r. }
  assert (RenI : forall r, In r R -> exists i, ren r = base + i /\ i < length R /\ nth i R 0 = r).
  { intros r Hr. apply rename_In. exact Hr. }
  assert (RenN : forall i, i < length R -> ren (nth i R 0) = base + i).
  { intros i Li. pose proof (index_of_nth R i NDR Li) as X. unfold ren, rename.
    match goal with |- match ?a with _ => _ end = _ => replace a with (Some i) by (symmetry; exact X) end. reflexivity. }
  assert (Vg : forall r, In r g -> r < base) by (apply (wf_valid _ _ W)).
  (* the copies are exactly the nodes reachable from the copy of new *)
  assert (FWD : forall a b, reach h a b -> In a R -> reach h4 (ren a) (ren b)).
  { intros a b Rab. unfold reach in *. induction Rab as [a|a q b Hq Hr IHr]; intros Ha; [constructor|].
    destruct (RenI a Ha) as [i [Ei [Li Ni]]].
    econstructor; [|apply IHr; eapply RC; eauto].
    rewrite Ei. rewrite (proj2 (XC i Li)), Ni. apply in_map. exact Hq. }
  assert (COPY : forall x, reach h4 base x <-> exists i, i < length R /\ x = base + i).
  { intros x. split.
    - intros Rx. apply (reach_closed_set h4 (fun y => exists i, i < length R /\ y = base + i) base x Rx).
      + exists 0. split; [rewrite ER; simpl; lia|lia].
      + intros y p [i [Li ->]] Hp. rewrite (proj2 (XC i Li)) in Hp. apply in_map_iff in Hp.
        destruct Hp as [q [<- Hq]]. destruct (RenI q) as [j [Ej [Lj _]]].
        * eapply RC; [apply nth_In; exact Li|exact Hq].
        * exists j. auto.
    - intros [i [Li ->]]. rewrite <- (RenN i Li). rewrite <- NW at 1. apply FWD; [|exact HnR].
      apply RS. apply nth_In. exact Li. }
  (* members after sort_nodes *)
  assert (MG : forall x, In x g3 <-> (In x g /\ ~ reach h old x) \/ exists i, i < length R /\ x = base + i).
  { intros x. rewrite (sort_nodes_same_set h4 g2 g3 (wf_heap _ _ W2) (wf_valid _ _ W2) (wf_closed _ _ W2) ES x).
    rewrite MG2. fold base ren. rewrite NW, COPY. tauto. }
  (* the specification side *)
  unfold spec_update_subtree.
  rewrite (a_anc_universe_list h new R EC).
  replace (length (an (universe h))) with base by (unfold universe; simpl; rewrite seq_length; reflexivity).
  fold ren.
  pose proof (a_anc_abs h g old W G1) as AO.
  assert (SEQ : forall x, In x (seq 0 (length h)) <-> x < base) by (intros x; rewrite in_seq; unfold base; lia).
  assert (VR : forall r, In r R -> r < base) by (eapply closure_valid; eauto; apply (wf_heap _ _ W)).
  split; [|split]; simpl.
  - intros x. rewrite MG, in_app_iff, filter_In, negb_true_iff, memb_false, AO, in_map_iff. split.
    + intros [A|[i [Li ->]]]; [left; exact A|right]. exists (nth i R 0). split; [apply RenN; exact Li|apply nth_In; exact Li].
    + intros [A|[r [<- Hr]]]; [left; exact A|right]. destruct (RenI r Hr) as [i [Ei [Li _]]]. exists i. auto.
  - intros [q x]. rewrite edges_of_In, MG, !in_app_iff. split.
    + intros [[[Hx NRx]|[i [Li ->]]] Hq].
      * apply (proj2 (XM x Hx NRx)) in Hq. fold base ren in Hq. destruct Hq as [[-> Ho]|[Hq NRq]].
        -- right. left. rewrite NW. apply in_map_iff. exists x. split; [reflexivity|].
           apply filter_In. split; [apply a_children_In; simpl; apply edges_of_In; auto|].
           rewrite negb_true_iff, memb_false, AO. exact NRx.
        -- left. apply filter_In. split; [apply edges_of_In; auto|]. simpl.
           rewrite andb_true_iff, !negb_true_iff, !memb_false, !AO. auto.
      * rewrite (proj2 (XC i Li)) in Hq. apply in_map_iff in Hq. destruct Hq as [p [<- Hp]].
        right. right. apply in_map_iff. exists (p, nth i R 0). simpl. split; [rewrite (RenN i Li); reflexivity|].
        apply filter_In. simpl. split; [|apply memb_In; apply nth_In; exact Li].
        apply edges_of_In. split; [apply SEQ; apply VR; apply nth_In; exact Li|exact Hp].
    + intros [Hq|[Hq|Hq]].
      * apply filter_In in Hq. destruct Hq as [A B]. simpl in B. apply edges_of_In in A.
        rewrite andb_true_iff, !negb_true_iff, !memb_false, !AO in B. destruct A as [A1 A2]. destruct B as [B1 B2].
        split; [left; auto|]. apply (proj2 (XM x A1 B2)). right. auto.
      * apply in_map_iff in Hq. destruct Hq as [c [Ec Hc]]. inversion Ec; subst q x. clear Ec.
        apply filter_In in Hc. destruct Hc as [A B]. apply a_children_In in A. simpl in A. apply edges_of_In in A.
        rewrite negb_true_iff, memb_false, AO in B. destruct A as [A1 A2].
        split; [left; auto|]. apply (proj2 (XM c A1 B)). left. fold base ren. rewrite NW. auto.
      * apply in_map_iff in Hq. destruct Hq as [[p c] [Ec Hc]]. simpl in Ec. inversion Ec; subst q x. clear Ec.
        apply filter_In in Hc. destruct Hc as [A B]. simpl in B. apply memb_In in B. apply edges_of_In in A.
        destruct (RenI c B) as [i [Ei [Li Ni]]]. rewrite Ei. split; [right; exists i; auto|].
        rewrite (proj2 (XC i Li)), Ni. apply in_map. tauto.
  - intros [x l]. rewrite labels_of_In, MG, in_app_iff, filter_In, labels_of_In, in_map_iff. simpl.
    rewrite negb_true_iff, memb_false, AO. split.
    + intros [[[Hx NRx]|[i [Li ->]]] ->].
      * left. rewrite (proj1 (XM x Hx NRx)). auto.
      * right. exists (nth i R 0, label (get h (nth i R 0))). simpl.
        split; [rewrite (RenN i Li), (proj1 (XC i Li)); reflexivity|].
        apply filter_In. simpl. split; [|apply memb_In; apply nth_In; exact Li].
        apply labels_of_In. split; [apply SEQ; apply VR; apply nth_In; exact Li|reflexivity].
    + intros [[[Hx ->] NRx]|[[r l'] [Ec Hc]]].
      * split; [left; auto|]. symmetry. apply (proj1 (XM x Hx NRx)).
      * simpl in Ec. inversion Ec; subst x l'. clear Ec. apply filter_In in Hc. destruct Hc as [A B].
        simpl in B. apply memb_In in B. apply labels_of_In in A. destruct A as [_ ->].
        destruct (RenI r B) as [i [Ei [Li Ni]]]. rewrite Ei. split; [right; exists i; auto|].
        rewrite (proj1 (XC i Li)), Ni. reflexivity.
Qed.
