(* Every editing operation refines its set-level specification inside its domain, and the
   executable oracle holds_b is true on the model's own result for every operation
   (property C04, part 4 complete). *)
From Coq Require Import List Arith Bool.
From GolemV Require Import Graph.Heap Graph.Ops Graph.OpsSpec Graph.OpsBase Graph.OpsProofs Graph.OpsProofs2
  Graph.OpsAcyclic Graph.OpsRefine Graph.OpsOracle Graph.OpsRefine2 Graph.OpsCleanup Graph.OpsRefine3.
Import ListNotations.

Theorem op_refines_spec_all : forall s o s', WF (fst s) (snd s) -> guard_b s o = true ->
  spec_guard_b s o = true -> run_op s o = Ok s' ->
  a_eqb (abs (fst s') (snd s')) (spec_op (universe (fst s)) (abs (fst s) (snd s)) o) = true.
Proof.
  intros s o s' W G SG E.
  destruct (refined_op o) eqn:RO; [apply (op_refines_spec s o s' W G RO E)|].
  destruct s as [h g]. destruct s' as [h' g']. simpl in W |- *. apply a_eqb_iff.
  destruct o as [ns|n|n m|n|old new|old new|p c|p c cl]; simpl in RO; try discriminate; simpl run_op in E; simpl spec_op.
  - apply (update_node_refines h g old new h' g' W G SG E).
  - apply (update_subtree_refines h g old new h' g' W G E).
  - destruct cl; [|discriminate].
    simpl in G. apply andb_true_iff in G. destruct G as [G1 G2]. apply memb_In in G1. apply memb_In in G2.
    apply (disconnect_cleanup_refines h g p c h' g' W G1 G2 E).
Qed.

(* on the model's own result the property oracle is true, for every operation *)
Theorem model_holds_all : forall s o s', run_op s o = Ok s' -> holds_b s o (OOk (fst s') (snd s')) = true.
Proof.
  intros s o s' E. unfold holds_b. destruct (in_domain s o) eqn:D; [|reflexivity].
  destruct (model_wf_acyclic s o s' D E) as [A B]. rewrite A, B. simpl. rewrite andb_true_r.
  unfold holds_spec. destruct (spec_guard_b s o) eqn:SG; [|reflexivity]. simpl.
  unfold in_domain in D. apply andb_true_iff in D. destruct D as [D1 D2]. apply wf_b_iff in D1.
  apply (op_refines_spec_all s o s' D1 D2 SG E).
Qed.
