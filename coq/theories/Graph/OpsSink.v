(* In an acyclic parent-closed graph with exactly one childless member every member is an
   ancestor of that member: sort_nodes loses no member (towards the refinement of update_node /
   update_subtree, property C04). *)
From Coq Require Import List Arith Bool Lia.
From GolemV Require Import Graph.Heap Graph.Ops Graph.OpsSpec Graph.OpsBase Graph.OpsDfs Graph.OpsProofs
  Graph.OpsAcyclic.
Import ListNotations.

(* a list of nodes in which every element is followed by one of its parents *)
Fixpoint ppath (h : heap) (l : list ref) : Prop :=
  match l with
  | a :: (b :: _) as t => In b (pars h a) /\ ppath h t
  | _ => True
  end.

Lemma ppath_app_r : forall h l1 l2, ppath h (l1 ++ l2) -> ppath h l2.
Proof.
  induction l1 as [|a t IH]; simpl; intros l2 P; [exact P|].
  destruct (t ++ l2) eqn:E; [destruct t; destruct l2; simpl in *; try discriminate; exact I|].
  destruct P as [_ P]. apply IH. rewrite E. exact P.
Qed.

Lemma ppath_tc : forall h m a b, ppath h (a :: m ++ [b]) -> tc h a b.
Proof.
  induction m as [|c m IH]; intros a b P.
  - simpl in P. apply tc_edge. tauto.
  - simpl in P. destruct P as [A P]. exists c. split; [exact A|]. apply tc_reach. apply IH. exact P.
Qed.

Lemma ppath_prefix : forall h l1 l2, ppath h (l1 ++ l2) -> ppath h l1.
Proof.
  induction l1 as [|a t IH]; simpl; intros l2 P; [exact I|].
  destruct t as [|b t']; [exact I|]. simpl in *. destruct P as [A P]. split; [exact A|]. apply (IH l2). exact P.
Qed.

Lemma ppath_reach_last : forall h l a x, ppath h (a :: l ++ [x]) -> reach h a x.
Proof. intros. apply tc_reach. eapply ppath_tc. eauto. Qed.

Lemma dup_split : forall l : list nat, ~ NoDup l -> exists a l1 l2 l3, l = l1 ++ a :: l2 ++ a :: l3.
Proof.
  induction l as [|x t IH]; intros H.
  - exfalso. apply H. constructor.
  - destruct (in_dec Nat.eq_dec x t) as [I|I].
    + apply in_split in I. destruct I as [l2 [l3 ->]]. exists x, [], l2, l3. reflexivity.
    + destruct IH as [a [l1 [l2 [l3 ->]]]].
      * intros N. apply H. constructor; assumption.
      * exists a, (x :: l1), l2, l3. reflexivity.
Qed.

(* a parent path through members that is longer than the member list closes a cycle *)
Lemma long_ppath_cycle : forall h g l, ppath h l -> incl l g -> length g < length l ->
  exists a, In a g /\ on_cycle h a.
Proof.
  intros h g l P I L.
  assert (ND : ~ NoDup l).
  { intros N. pose proof (NoDup_incl_length N I). lia. }
  destruct (dup_split l ND) as [a [l1 [l2 [l3 ->]]]].
  exists a. split; [apply I; apply in_or_app; right; left; reflexivity|].
  apply on_cycle_tc. apply ppath_app_r in P.
  replace (a :: l2 ++ a :: l3) with ((a :: l2 ++ [a]) ++ l3) in P by (simpl; rewrite <- app_assoc; reflexivity).
  apply ppath_prefix in P. eapply ppath_tc. exact P.
Qed.

Lemma sink_reaches_all_gen : forall h g r, acyclic h g -> root_nodes h g = [r] ->
  forall x, In x g -> reach h r x.
Proof.
  intros h g r AC ER.
  assert (ROOT : forall d, In d g -> node_children h g d = [] -> d = r).
  { intros d Hd Hc. assert (X : In d (root_nodes h g)).
    { unfold root_nodes. apply filter_In. split; [exact Hd|]. rewrite Hc. reflexivity. }
    rewrite ER in X. destruct X as [X|[]]. auto. }
  (* either r reaches x, or there is a parent path of k members ending in x *)
  assert (K : forall k x, In x g -> reach h r x \/
            exists l, length l = k /\ ppath h (l ++ [x]) /\ incl l g).
  { induction k as [|k IH]; intros x Hx.
    - right. exists []. repeat split; simpl; auto. intros y [].
    - destruct (IH x Hx) as [A|[l [L [P I]]]]; [left; exact A|].
      (* d: the first node of the path *)
      destruct l as [|d t].
      + destruct (node_children h g x) as [|c cs] eqn:Ec.
        * left. rewrite (ROOT x Hx Ec). constructor.
        * right. assert (Hc : In c (node_children h g x)) by (rewrite Ec; left; reflexivity).
          apply node_children_In in Hc. destruct Hc as [Hc1 Hc2]. exists [c]. simpl in L. subst k.
          split; [reflexivity|]. split; [simpl; split; [exact Hc2|constructor]|].
          intros y [<-|[]]. exact Hc1.
      + assert (Hd : In d g) by (apply I; left; reflexivity).
        destruct (node_children h g d) as [|c cs] eqn:Ec.
        * left. rewrite <- (ROOT d Hd Ec). simpl in P. eapply ppath_reach_last. exact P.
        * right. assert (Hc : In c (node_children h g d)) by (rewrite Ec; left; reflexivity).
          apply node_children_In in Hc. destruct Hc as [Hc1 Hc2]. exists (c :: d :: t). simpl in L.
          split; [simpl; lia|]. split.
          -- simpl. split; [exact Hc2|]. exact P.
          -- intros y [<-|Hy]; [exact Hc1|apply I; exact Hy]. }
  intros x Hx. destruct (K (S (length g)) x Hx) as [A|[l [L [P I]]]]; [exact A|exfalso].
  destruct (long_ppath_cycle h g (l ++ [x]) P) as [a [Ha OC]].
  - intros y Hy. apply in_app_or in Hy. destruct Hy as [Hy|[<-|[]]]; auto.
  - rewrite app_length. simpl. unfold graph, ref in *. lia.
  - apply (AC a Ha a (reach_refl _ _)). exact OC.
Qed.

Theorem sink_reaches_all : forall h g r, WF h g -> acyclic h g -> root_nodes h g = [r] ->
  forall x, In x g -> reach h r x.
Proof. intros h g r _. apply sink_reaches_all_gen. Qed.

(* sort_nodes keeps the member set of a well-formed acyclic graph *)
Theorem sort_nodes_keeps : forall h g g', WF h g -> acyclic h g -> sort_nodes h g = Ok g' ->
  forall x, In x g' <-> In x g.
Proof.
  intros h g g' W AC E x. split; [apply (sort_nodes_incl h g g' W E)|].
  unfold sort_nodes in E.
  destruct (root_nodes h g) as [|r [|r2 rs]] eqn:ER; try (inversion E; subst; auto; fail).
  destruct (negb (closed_b h g)); [discriminate|].
  destruct (has_cycle h g); [inversion E; subst; auto|].
  intros Hx. destruct (hierarchy_spec _ _ _ E) as [_ [_ [_ RS]]]. apply RS.
  eapply sink_reaches_all; eauto.
Qed.

(* ... and of every parent-closed graph (a cyclic one is not sorted at all) *)
Theorem sort_nodes_same_set : forall h g g', heap_ok h -> (forall r, In r g -> r < length h) ->
  (forall r p, In r g -> In p (pars h r) -> In p g) ->
  sort_nodes h g = Ok g' -> forall x, In x g' <-> In x g.
Proof.
  intros h g g' HK V CL E x. unfold sort_nodes in E.
  destruct (root_nodes h g) as [|r [|r2 rs]] eqn:ER; try (inversion E; subst; tauto).
  destruct (negb (closed_b h g)); [discriminate|].
  destruct (has_cycle h g) eqn:HC; [inversion E; subst; tauto|].
  assert (Hr : In r g).
  { assert (X : In r (root_nodes h g)) by (rewrite ER; left; reflexivity).
    unfold root_nodes in X. apply filter_In in X. tauto. }
  assert (AC : acyclic h g).
  { intros m Hm. apply hierarchy_ok_iff; [exact HK|apply V; exact Hm|].
    unfold has_cycle in HC. destruct (is_ok (hierarchy h m)) eqn:X; [reflexivity|].
    assert (Y : existsb (fun r => negb (is_ok (hierarchy h r))) g = true).
    { apply existsb_exists. exists m. split; [exact Hm|]. rewrite X. reflexivity. }
    congruence. }
  destruct (hierarchy_spec _ _ _ E) as [_ [_ [_ RS]]]. rewrite RS. split.
  - intros R. apply (reachP_closed (pars h) (fun y => In y g) r x R Hr). intros y p Hy Hp. eapply CL; eauto.
  - intros Hx. eapply sink_reaches_all_gen; eauto.
Qed.
