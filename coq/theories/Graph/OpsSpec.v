(* Set-level specification of the graph editing operations (property C04), written from the
   docstrings of golem/core/dag/graph.py, on an abstract graph: node set, edge set
   (parent, child), labels.  Lists are read as sets (a_eqb).  Also: the boolean domain of the
   theorems (guard_b), the comparison of model and observed behaviour (agree) and the
   executable form of the property's clauses evaluated on observed behaviour (holds_b).
   Definitions only. *)
From Coq Require Import List Arith Bool.
From GolemV Require Import Graph.Heap Graph.Ops.
Import ListNotations.

(* ------------------------------------------------------------------ abstract graphs *)
Record agraph := mkA {
  an : list ref;                 (* node set *)
  ae : list (ref * ref);         (* edge set: (parent, child) *)
  al : list (ref * nat)          (* label of every node *)
}.

Definition edges_of (h : heap) (g : list ref) : list (ref * ref) :=
  flat_map (fun c => map (fun p => (p, c)) (pars h c)) g.
Definition labels_of (h : heap) (g : list ref) : list (ref * nat) :=
  map (fun r => (r, label (get h r))) g.

(* the graph a (heap, member list) pair denotes *)
Definition abs (h : heap) (g : graph) : agraph := mkA g (edges_of h g) (labels_of h g).
(* all node objects that exist, members or not: where inserted nodes come from *)
Definition universe (h : heap) : agraph := abs h (seq 0 (length h)).

Definition eqb2 (a b : nat * nat) : bool := (fst a =? fst b) && (snd a =? snd b).
Definition mem2 (e : nat * nat) (l : list (nat * nat)) : bool := existsb (eqb2 e) l.
Definition incl_b (l1 l2 : list nat) : bool := forallb (fun x => memb x l2) l1.
Definition incl2_b (l1 l2 : list (nat * nat)) : bool := forallb (fun x => mem2 x l2) l1.
Definition seteq_b (l1 l2 : list nat) : bool := incl_b l1 l2 && incl_b l2 l1.
Definition seteq2_b (l1 l2 : list (nat * nat)) : bool := incl2_b l1 l2 && incl2_b l2 l1.

(* same node set, same edge set, same labels *)
Definition a_eqb (A B : agraph) : bool :=
  seteq_b (an A) (an B) && seteq2_b (ae A) (ae B) && seteq2_b (al A) (al B).

Definition a_parents (A : agraph) (x : ref) : list ref :=
  map fst (filter (fun e => snd e =? x) (ae A)).
Definition a_children (A : agraph) (x : ref) : list ref :=
  map snd (filter (fun e => fst e =? x) (ae A)).

(* x together with all its ancestors *)
Definition a_anc (A : agraph) (x : ref) : list ref :=
  match dfs_add (a_parents A) (2 + length (an A)) [] x with Ok l => l | Raise _ => [] end.

(* sub-graph induced by a parent-closed node set R *)
Definition a_restrict (U : agraph) (R : list ref) : agraph :=
  mkA R (filter (fun e => memb (snd e) R) (ae U)) (filter (fun x => memb (fst x) R) (al U)).

Definition a_union (A B : agraph) : agraph := mkA (an A ++ an B) (ae A ++ ae B) (al A ++ al B).

(* remove the nodes X with every edge touching them *)
Definition a_remove (A : agraph) (X : list ref) : agraph :=
  mkA (filter (fun x => negb (memb x X)) (an A))
      (filter (fun e => negb (memb (fst e) X) && negb (memb (snd e) X)) (ae A))
      (filter (fun x => negb (memb (fst x) X)) (al A)).

Definition pairs (P C : list ref) : list (ref * ref) :=
  flat_map (fun p => map (fun c => (p, c)) C) P.

Definition a_map (f : ref -> ref) (A : agraph) : agraph :=
  mkA (map f (an A)) (map (fun e => (f (fst e), f (snd e))) (ae A)) (map (fun x => (f (fst x), snd x)) (al A)).

(* ------------------------------------------------------------------ documented meaning *)
(* add_node: "Adds new node to the graph together with its parent nodes" *)
Definition spec_add (U A : agraph) (n : ref) : agraph := a_union A (a_restrict U (a_anc U n)).

(* delete_node: "Removes node from the graph. If node has only one child, then connects all of
   the node parents to it";  reconnect none / single / all *)
Definition spec_delete (A : agraph) (n : ref) (m : mode) : agraph :=
  let P := filter (fun p => negb (p =? n)) (a_parents A n) in
  let C := dedupe (a_children A n) in
  let C' := filter (fun c => negb (c =? n)) C in
  let A' := a_remove A [n] in
  let extra := match m with
               | RNone => []
               | RSingle => if length C =? 1 then pairs P C' else []
               | RAll => pairs P C'
               end in
  mkA (an A') (ae A' ++ extra) (al A').

(* delete_subtree: "Deletes given node with all its parents. Deletes all edges from removed
   nodes to remaining graph nodes" *)
Definition spec_delete_subtree (A : agraph) (n : ref) : agraph := a_remove A (a_anc A n).

(* update_node: "Replaces old_node node with new_node": new takes the place of old in every
   edge of the graph; then the graph is completed with new and all its ancestors (objects that
   are not remaining members contribute the parent links they have as objects) *)
Definition spec_update_node (U A : agraph) (old new : ref) : agraph :=
  let f := fun x => if x =? old then new else x in
  let keep := filter (fun x => negb (x =? old)) (an A) in
  let E1 := ae (a_map f A) ++ filter (fun e => negb (memb (snd e) keep)) (ae U) in
  let T := mkA (an U) E1 (al U) in
  let N := keep ++ a_anc T new in
  mkA N (filter (fun e => memb (snd e) N) E1) (filter (fun x => memb (fst x) N) (al U)).

(* update_subtree: "Changes old_subtree subtree to new_subtree": old and its ancestors go, a
   copy of new and its ancestors comes, the children of old hang on the copy of new.
   The copy of the i-th node of new's subtree is the object `length (an U) + i`. *)
Definition spec_update_subtree (U A : agraph) (old new : ref) : agraph :=
  let S := a_anc A old in
  let R := a_anc U new in
  let base := length (an U) in
  let B' := a_map (rename R base) (a_restrict U R) in
  let A' := a_remove A S in
  let link := map (fun c => (base, c)) (filter (fun c => negb (memb c S)) (a_children A old)) in
  mkA (an A' ++ an B') (ae A' ++ link ++ ae B') (al A' ++ al B').

(* connect_nodes: "Adds edge between parent and child" *)
Definition spec_connect (A : agraph) (p c : ref) : agraph := mkA (an A) ((p, c) :: ae A) (al A).

(* disconnect_nodes: "Removes an edge between two nodes" *)
Definition spec_disconnect (A : agraph) (p c : ref) : agraph :=
  mkA (an A) (filter (fun e => negb (eqb2 e (p, c))) (ae A)) (al A).

(* clean_up_leftovers: starting with the former parent, repeatedly remove a node all of whose
   children are gone and that is the former parent or a parent of a removed node.
   Round-based least fixed point (independent of visiting order). *)
Definition cleanup_round (A : agraph) (p : ref) (X : list ref) : list ref :=
  X ++ filter (fun x => negb (memb x X) &&
                        ((x =? p) || existsb (fun y => memb x (a_parents A y)) X) &&
                        incl_b (a_children A x) X) (an A).
Fixpoint iter {T} (k : nat) (f : T -> T) (x : T) : T :=
  match k with O => x | S k' => iter k' f (f x) end.
Definition cleanup_set (A : agraph) (p : ref) : list ref :=
  iter (S (length (an A))) (cleanup_round A p) [].

Definition spec_disconnect_cleanup (A : agraph) (p c : ref) : agraph :=
  let A1 := spec_disconnect A p c in
  if mem2 (p, c) (ae A) then a_remove A1 (cleanup_set A1 p) else A.

Definition spec_op (U A : agraph) (o : op) : agraph :=
  match o with
  | OAlloc _ => A
  | OAdd n => spec_add U A n
  | ODelete n m => spec_delete A n m
  | ODelSub n => spec_delete_subtree A n
  | OUpdNode a b => spec_update_node U A a b
  | OUpdSub a b => spec_update_subtree U A a b
  | OConnect p c => spec_connect A p c
  | ODisconnect p c false => spec_disconnect A p c
  | ODisconnect p c true => spec_disconnect_cleanup A p c
  end.

(* ------------------------------------------------------------------ domain of the theorems *)
(* inserted nodes R (a node with its ancestors): UniqueList parent containers without
   duplicates, and no uid shared inside R or with a member *)
Definition ins_ok (h : heap) (g : graph) (R : list ref) : bool :=
  forallb (fun r => uniq (get h r) && nodup_b (pars h r)) R &&
  uid_inj_b h (g ++ filter (fun r => negb (memb r g)) R).

Definition guard_b (s : state) (o : op) : bool :=
  let h := fst s in let g := snd s in
  match o with
  | OAlloc ns => forallb (fun nd => forallb (fun p => p <? length h + length ns) (parents nd)) ns
  | OAdd n => (n <? length h) &&
              match closure h n with Ok R => ins_ok h g R | Raise _ => false end
  | ODelete n _ => memb n g
  | ODelSub n => memb n g && is_ok (hierarchy h n)
  | OUpdNode old new => memb old g && (new <? length h) && negb (memb new g) &&
              match closure h new with Ok R => ins_ok h g R | Raise _ => false end
  | OUpdSub old new => memb old g && (new <? length h) && is_ok (hierarchy h old) &&
              match hierarchy h new with Ok R => ins_ok h [] R | Raise _ => false end
  | OConnect p c => memb p g && memb c g
  | ODisconnect p c _ => memb p g && memb c g
  end.

(* every operation of the sequence is applied inside its domain *)
Fixpoint guards_ok (s : state) (os : list op) : bool :=
  match os with
  | [] => true
  | o :: t => guard_b s o && match run_op s o with Ok s' => guards_ok s' t | Raise _ => false end
  end.

(* the operation does not explicitly add an edge that closes a cycle, and inserted material
   is itself acyclic (and, for update_node, does not hang on members) *)
Definition acyc_guard_b (s : state) (o : op) : bool :=
  let h := fst s in let g := snd s in
  match o with
  | OAlloc _ => true
  | OAdd n => is_ok (hierarchy h n)
  | OUpdNode _ new => is_ok (hierarchy h new) &&
        match closure h new with Ok R => forallb (fun r => negb (memb r g)) R | Raise _ => false end
  | OConnect p c => match closure h p with Ok R => negb (memb c R) | Raise _ => false end
  | _ => true
  end.

(* the set-level meaning of update_node is stated for a new node that does not hang on the
   node it replaces *)
Definition spec_guard_b (s : state) (o : op) : bool :=
  match o with
  | OUpdNode old new => match closure (fst s) new with Ok R => negb (memb old R) | Raise _ => false end
  | _ => true
  end.

Definition acyclic_b (h : heap) (g : graph) : bool := negb (has_cycle h g).

(* every operation of the sequence is applied inside its domain and closes no cycle *)
Fixpoint aguards_ok (s : state) (os : list op) : bool :=
  match os with
  | [] => true
  | o :: t => guard_b s o && acyc_guard_b s o &&
              match run_op s o with Ok s' => aguards_ok s' t | Raise _ => false end
  end.

(* ------------------------------------------------------------------ comparison with the code *)
Inductive obs := OOk (h : heap) (g : graph) | ORaise (e : exn).

Fixpoint insert_sorted (x : nat) (l : list nat) : list nat :=
  match l with
  | [] => [x]
  | y :: t => if x <=? y then x :: l else y :: insert_sorted x t
  end.
Definition sort (l : list nat) : list nat := fold_right insert_sorted [] l.

Fixpoint list_eqb (a b : list nat) : bool :=
  match a, b with
  | [], [] => true
  | x :: a', y :: b' => (x =? y) && list_eqb a' b'
  | _, _ => false
  end.

(* uids up to renaming: replace every uid by the position of its first occurrence *)
Definition canon_uids (l : list nat) : list nat :=
  map (fun u => match index_of u l with Some i => i | None => 0 end) l.

Definition node_eqb (a b : node) : bool :=
  (label a =? label b) && list_eqb (sort (parents a)) (sort (parents b)) && Bool.eqb (uniq a) (uniq b).

Fixpoint forallb2 {A} (f : A -> A -> bool) (l r : list A) : bool :=
  match l, r with
  | [], [] => true
  | a :: l', b :: r' => f a b && forallb2 f l' r'
  | _, _ => false
  end.

(* member list and parent lists as multisets, labels, container kinds, uids up to renaming *)
Definition state_eqb (s1 s2 : state) : bool :=
  list_eqb (sort (snd s1)) (sort (snd s2)) &&
  forallb2 node_eqb (fst s1) (fst s2) &&
  list_eqb (canon_uids (map uid (fst s1))) (canon_uids (map uid (fst s2))).

(* model result = observed result *)
Definition agree (s : state) (o : op) (ob : obs) : bool :=
  match run_op s o, ob with
  | Ok s', OOk ho go => state_eqb s' (ho, go)
  | Raise Unmodelled, _ => true          (* the model declines to predict (never inside the domain) *)
  | Raise e, ORaise e' => exn_eqb e e'
  | _, _ => false
  end.

(* The property's clauses on the OBSERVED behaviour: from a well-formed graph and arguments in
   the domain, the operation does not raise, the observed graph is well-formed, its node set /
   edge set / labels are what the documented meaning yields on the previous graph, and an
   acyclic graph stays acyclic unless the operation explicitly closes a cycle. *)
Definition holds_wf (ho : heap) (go : graph) : bool := wf_b ho go.
Definition holds_spec (s : state) (o : op) (ho : heap) (go : graph) : bool :=
  negb (spec_guard_b s o) ||
  a_eqb (abs ho go) (spec_op (universe (fst s)) (abs (fst s) (snd s)) o).
Definition holds_acyclic (s : state) (o : op) (ho : heap) (go : graph) : bool :=
  if acyclic_b (fst s) (snd s) && acyc_guard_b s o then acyclic_b ho go else true.

Definition in_domain (s : state) (o : op) : bool := wf_b (fst s) (snd s) && guard_b s o.

Definition holds_b (s : state) (o : op) (ob : obs) : bool :=
  if in_domain s o then
    match ob with
    | ORaise _ => false
    | OOk ho go => holds_wf ho go && holds_spec s o ho go && holds_acyclic s o ho go
    end
  else true.

(* what the driver evaluates per step *)
Definition declined (s : state) (o : op) : bool :=
  match run_op s o with Raise Unmodelled => true | _ => false end.

(* what the driver evaluates per step: [agree; holds_b; in_domain; well-formed; follows the
   specification; acyclicity kept; model declined]  (the shared sub-results are computed once) *)
Definition check (s : state) (o : op) (ob : obs) : list bool :=
  let r := run_op s o in
  let dom := in_domain s o in
  let decl := match r with Raise Unmodelled => true | _ => false end in
  let ag := match r, ob with
            | Ok s', OOk ho go => state_eqb s' (ho, go)
            | Raise Unmodelled, _ => true
            | Raise e, ORaise e' => exn_eqb e e'
            | _, _ => false
            end in
  match ob with
  | OOk ho go =>
      let w := holds_wf ho go in
      let sp := holds_spec s o ho go in
      let ac := holds_acyclic s o ho go in
      [ag && negb (decl && dom); if dom then w && sp && ac else true; dom; w; sp; ac; decl]
  | ORaise _ => [ag && negb (decl && dom); negb dom; dom; false; false; false; decl]
  end.
