(* User node classes that keep their parents in an ordinary list (container kind uniq = false):
   the clauses of property C04 that do not depend on the container kind - connect_nodes and
   disconnect_nodes keep "no parent linked twice" and follow their documented meaning.
   (delete_node / update_node extend parent lists and do link a parent twice with plain lists:
   C04_plain_lists_break_WF_refuted.) *)
From Coq Require Import List Arith Bool Lia.
From GolemV Require Import Graph.Heap Graph.Ops Graph.OpsSpec Graph.OpsBase.
Import ListNotations.

(* well-formedness without the container-kind clause *)
Definition wf_plain_b (h : heap) (g : graph) : bool :=
  heap_ok_b h && nodup_b g && forallb (fun r => r <? length h) g && uid_inj_b h g &&
  forallb (fun r => nodup_b (pars h r)) g && closed_b h g.

Definition plain_op (o : op) : bool :=
  match o with OConnect _ _ | ODisconnect _ _ _ => true | _ => false end.

Definition in_domain_plain (s : state) (o : op) : bool :=
  wf_plain_b (fst s) (snd s) && guard_b s o && plain_op o.

Definition holds_plain_b (s : state) (o : op) (ob : obs) : bool :=
  if in_domain_plain s o then
    match ob with
    | ORaise _ => false
    | OOk ho go => wf_plain_b ho go && holds_spec s o ho go && holds_acyclic s o ho go
    end
  else true.

Definition check2 (s : state) (o : op) (ob : obs) : list bool :=
  check s o ob ++ [holds_plain_b s o ob; in_domain_plain s o].

(* connect_nodes never links a parent twice, whatever the container kind: the explicit test
   "child already among the children of parent" does the work for plain lists *)
Theorem connect_keeps_nodup_any_container : forall h g p c h' g', c < length h -> In c g ->
  connect_nodes h g p c = Ok (h', g') -> forall r, NoDup (pars h r) -> NoDup (pars h' r).
Proof.
  intros h g p c h' g' Vc Hc E r ND. unfold connect_nodes in E.
  destruct (memb c (node_children h g p)) eqn:M; inversion E; subst; [exact ND|].
  rewrite pars_set_pars by exact Vc. destruct (Nat.eqb_spec c r) as [->|N]; [|exact ND].
  apply memb_false in M. rewrite node_children_In in M.
  unfold pl_append. destruct (uniq (get h r) && memb p (pars h r)); [exact ND|].
  apply NoDup_snoc; [exact ND|tauto].
Qed.

Theorem disconnect_keeps_nodup_any_container : forall h g p c cl h' g', c < length h ->
  disconnect_nodes h g p c cl = Ok (h', g') -> forall r, NoDup (pars h r) -> NoDup (pars h' r).
Proof.
  intros h g p c cl h' g' Vc E r ND. unfold disconnect_nodes in E.
  destruct (negb (memb p (pars h c))); [inversion E; subst; exact ND|].
  destruct (negb (memb p g) || negb (memb c g)); [inversion E; subst; exact ND|].
  destruct (list_remove p (pars h c)) as [ps|e] eqn:ER; [|discriminate]. cbn [bind] in E.
  assert (X : NoDup (pars (set_pars h c ps) r)).
  { rewrite pars_set_pars by exact Vc. destruct (Nat.eqb_spec c r) as [->|N]; [|exact ND].
    apply (list_remove_nodup _ _ _ ER ND). }
  destruct cl.
  - destruct (clean_up _ _ g p); [|discriminate]. cbn [bind] in E. inversion E; subst. exact X.
  - inversion E; subst. exact X.
Qed.
