(* C12 - executable model of the structural queries of GOLEM graphs.

   golem/core/dag/graph_utils.py : graph_has_cycle, ordered_subnodes_hierarchy, node_depth,
                                   distance_to_primary_level, distance_to_root_level
   golem/core/dag/linked_graph.py: root_nodes, node_children, get_edges, depth

   A graph is `dg` (QueriesSpec.v): entry i = the parents (`nodes_from`) of node i in their list
   order; node i is the i-th element of `graph.nodes`.  Node identity = index (node equality is
   object identity in GOLEM, uids are distinct).  Definitions only.                          *)
From Coq Require Import List Arith Bool ZArith.
From GolemV Require Import Graph.QueriesSpec.
Import ListNotations.

Inductive res (A : Type) := Ok (a : A) | Raise | OutOfFuel.   (* Raise = ValueError *)
Arguments Ok {A} a.
Arguments Raise {A}.
Arguments OutOfFuel {A}.

Definition nodes (g : dg) : list nat := seq 0 (length g).

(* ---------------------------------------------------------------------------------------- *)
(* root_nodes / node_children / get_edges                                                    *)
(* ---------------------------------------------------------------------------------------- *)
(* [other for other in nodes if other.nodes_from and node in other.nodes_from] *)
Definition node_children (g : dg) (v : nat) : list nat :=
  filter (fun c => memb v (parents g c)) (nodes g).

(* [node for node in nodes if not any(node_children(node))] *)
Definition root_nodes (g : dg) : list nat :=
  filter (fun v => match node_children g v with [] => true | _ => false end) (nodes g).

(* for node in nodes: for parent in node.nodes_from: edges.append((parent, node)) *)
Definition get_edges (g : dg) : list (nat * nat) :=
  flat_map (fun c => map (fun p => (p, c)) (parents g c)) (nodes g).

(* ---------------------------------------------------------------------------------------- *)
(* graph_has_cycle: the literal iterative depth-first search                                 *)
(* ---------------------------------------------------------------------------------------- *)
(* dictionaries uid -> bool whose entries start as False *)
Definition get (l : list bool) (i : nat) : bool := nth i l false.

Fixpoint set (l : list bool) (i : nat) (b : bool) : list bool :=
  match l, i with
  | [], O => [b]
  | [], S k => false :: set [] k b
  | _ :: r, O => b :: r
  | x :: r, S k => x :: set r k b
  end.

Record cstate := { c_stack : list nat;      (* head = top of the stack *)
                   c_vis : list bool;       (* visited *)
                   c_ons : list bool }.     (* on_stack *)

(* for parent in cur_node.nodes_from:
       if not visited[parent]: stack.append(parent)
       elif on_stack[parent]: return True
   None = `return True` *)
Fixpoint scan (ps : list nat) (vis ons : list bool) (stk : list nat) : option (list nat) :=
  match ps with
  | [] => Some stk
  | p :: r => if negb (get vis p) then scan r vis ons (p :: stk)
              else if get ons p then None
              else scan r vis ons stk
  end.

(* body of `while len(stack) > 0` for cur = stack[-1]; None = `return True` *)
Definition cbody (g : dg) (cur : nat) (rest : list nat) (vis ons : list bool) : option cstate :=
  let '(vis1, ons1, stk1) :=
    if negb (get vis cur) then (set vis cur true, set ons cur true, cur :: rest)
    else (vis, set ons cur false, rest) in
  match scan (parents g cur) vis1 ons1 stk1 with
  | None => None
  | Some stk2 => Some {| c_stack := stk2; c_vis := vis1; c_ons := ons1 |}
  end.

Inductive cres := CTrue | CDone (vis ons : list bool) | CFuel.

Fixpoint inner (fuel : nat) (g : dg) (s : cstate) : cres :=
  match fuel with
  | O => CFuel
  | S k => match c_stack s with
           | [] => CDone (c_vis s) (c_ons s)
           | cur :: rest => match cbody g cur rest (c_vis s) (c_ons s) with
                            | None => CTrue
                            | Some s' => inner k g s'
                            end
           end
  end.

(* for node in graph.nodes: if visited[node]: continue; stack.append(node); while ... *)
Fixpoint outer (fuel : nat) (g : dg) (vs : list nat) (vis ons : list bool) : option bool :=
  match vs with
  | [] => Some false
  | v :: r => if get vis v then outer fuel g r vis ons
              else match inner fuel g {| c_stack := [v]; c_vis := vis; c_ons := ons |} with
                   | CTrue => Some true
                   | CFuel => None
                   | CDone vis' ons' => outer fuel g r vis' ons'
                   end
  end.

(* `fuel` bounds the iterations of each run of the while loop; None = out of fuel *)
Definition has_cycle_fuel (fuel : nat) (g : dg) : option bool :=
  outer fuel g (nodes g) (repeat false (length g)) (repeat false (length g)).

Definition n_edges (g : dg) : nat := length (concat g).

Definition cycle_fuel (g : dg) : nat := 2 * (length g + n_edges g) + 2.

Definition has_cycle (g : dg) : option bool := has_cycle_fuel (cycle_fuel g) g.

(* ---------------------------------------------------------------------------------------- *)
(* ordered_subnodes_hierarchy                                                                *)
(* ---------------------------------------------------------------------------------------- *)
Inductive hres := HOk (l : list nat) (started visited : list nat) | HRaise | HFuel.

(* the for loop of subtree_impl; `rec` is the recursive call; acc = `nodes` *)
Fixpoint hloop (rec : nat -> list nat -> list nat -> hres) (ps : list nat) (acc st vi : list nat) : hres :=
  match ps with
  | [] => HOk acc st vi
  | p :: r => if memb p vi then hloop rec r acc st vi
              else if memb p st then HRaise
              else match rec p (p :: st) vi with
                   | HOk l st' vi' => hloop rec r (acc ++ l) st' (p :: vi')
                   | e => e
                   end
  end.

Fixpoint subtree (fuel : nat) (g : dg) (node : nat) (st vi : list nat) : hres :=
  match fuel with
  | O => HFuel
  | S k => hloop (subtree k g) (parents g node) [node] st vi
  end.

Definition hierarchy_fuel (fuel : nat) (g : dg) (v : nat) : res (list nat) :=
  match subtree fuel g v [v] [] with
  | HOk l _ _ => Ok l
  | HRaise => Raise
  | HFuel => OutOfFuel
  end.

Definition hierarchy (g : dg) (v : nat) : res (list nat) := hierarchy_fuel (S (length g)) g v.

(* ---------------------------------------------------------------------------------------- *)
(* node_depth: path semantics of the iterator stack                                          *)
(*   path  = the list `visited` (nodes of the current path, newest first)                    *)
(*   sub   = the set `subnodes`;  fd = the dictionary `final_depth`;  maxd = `max_depth`     *)
(* ---------------------------------------------------------------------------------------- *)
Inductive dres := DOk (sub : list nat) (maxd : nat) | DCycle | DFuel.

Fixpoint lookup (k : nat) (d : list (nat * nat)) : option nat :=
  match d with
  | [] => None
  | (k', v) :: r => if Nat.eqb k k' then Some v else lookup k r
  end.

Fixpoint dict_set (k v : nat) (d : list (nat * nat)) : list (nat * nat) :=
  match d with
  | [] => [(k, v)]
  | (k', v') :: r => if Nat.eqb k k' then (k, v) :: r else (k', v') :: dict_set k v r
  end.

(* one stack entry (cur, depth_now, iter(ps)); `rec` explores a pushed parent *)
Fixpoint dloop (rec : nat -> nat -> list nat -> list nat -> nat -> dres) (fd : list (nat * nat))
               (ps : list nat) (depth_now : nat) (path sub : list nat) (maxd : nat) : dres :=
  match ps with
  | [] => DOk sub (Nat.max maxd depth_now)         (* StopIteration: pop the entry *)
  | p :: r =>
      let sub1 := p :: sub in
      if memb p path then DCycle                    (* return -1 *)
      else match lookup p fd with
           | Some d => (* entry (p, depth_now + d, iter([])) is pushed and popped at once *)
               dloop rec fd r depth_now path sub1 (Nat.max maxd (depth_now + d))
           | None =>
               match rec p (depth_now + 1) (p :: path) sub1 maxd with
               | DOk sub2 m2 => dloop rec fd r depth_now path sub2 m2
               | e => e
               end
           end
  end.

Fixpoint dexplore (fuel : nat) (g : dg) (fd : list (nat * nat))
                  (cur depth_now : nat) (path sub : list nat) (maxd : nat) : dres :=
  match fuel with
  | O => DFuel
  | S k => dloop (dexplore k g fd) fd (parents g cur) depth_now path sub maxd
  end.

(* the loop `for node in nodes` *)
Fixpoint nd_nodes (fuel : nat) (g : dg) (vs : list nat) (fd : list (nat * nat)) (sub : list nat) : res Z :=
  match vs with
  | [] => match fd with
          | [] => Raise                               (* max() of an empty sequence *)
          | _ => Ok (Z.of_nat (fold_right Nat.max 0 (map snd fd)))
          end
  | v :: r => if memb v sub then nd_nodes fuel g r fd sub
              else match dexplore fuel g fd v 1 [v] sub 0 with
                   | DCycle => Ok (-1)%Z
                   | DFuel => OutOfFuel
                   | DOk sub' m => nd_nodes fuel g r (dict_set v m fd) sub'
                   end
  end.

Definition node_depth_fuel (fuel : nat) (g : dg) (vs : list nat) : res Z := nd_nodes fuel g vs [] [].

Definition node_depth_list (g : dg) (vs : list nat) : res Z := node_depth_fuel (S (length g)) g vs.

Definition node_depth (g : dg) (v : nat) : res Z := node_depth_list g [v].

(* depth - 1 if depth > 0 else -1 *)
Definition distance_to_primary_level (g : dg) (v : nat) : res Z :=
  match node_depth g v with
  | Ok d => Ok (if (0 <? d)%Z then (d - 1)%Z else (-1)%Z)
  | e => e
  end.

(* ---------------------------------------------------------------------------------------- *)
(* LinkedGraph.depth                                                                         *)
(* ---------------------------------------------------------------------------------------- *)
Definition depth (g : dg) : res Z :=
  match g with
  | [] => Ok 0%Z
  | _ => match root_nodes g with
         | [] => Ok (-1)%Z
         | roots => match has_cycle g with
                    | None => OutOfFuel
                    | Some true => Ok (-1)%Z
                    | Some false => node_depth_list g roots
                    end
         end
  end.

(* ---------------------------------------------------------------------------------------- *)
(* distance_to_root_level                                                                    *)
(* ---------------------------------------------------------------------------------------- *)
(* for _ in range(graph.length): follow the first child; falls off the loop -> None (Raise here) *)
Fixpoint child_height (k : nat) (g : dg) (v : nat) (h : nat) : res Z :=
  match k with
  | O => Raise
  | S k' => match node_children g v with
            | [] => Ok (Z.of_nat h)
            | c :: _ => child_height k' g c (S h)
            end
  end.

Definition distance_to_root_level (g : dg) (v : nat) : res Z :=
  match has_cycle g with
  | None => OutOfFuel
  | Some true => Ok (-1)%Z
  | Some false => child_height (length g) g v 0
  end.

(* ---------------------------------------------------------------------------------------- *)
(* agreement with the observed behaviour of the implementation                               *)
(* ---------------------------------------------------------------------------------------- *)
Fixpoint leqb {A B} (e : A -> B -> bool) (l : list A) (r : list B) : bool :=
  match l, r with
  | [], [] => true
  | a :: l', b :: r' => e a b && leqb e l' r'
  | _, _ => false
  end.

Definition oeqb {A} (e : A -> A -> bool) (a b : option A) : bool :=
  match a, b with
  | None, None => true
  | Some x, Some y => e x y
  | _, _ => false
  end.

(* model result vs observation; an observation `None` stands for ValueError *)
Definition res_matches {A} (e : A -> A -> bool) (r : res A) (o : option A) : bool :=
  match r, o with
  | Ok a, Some b => e a b
  | Raise, None => true
  | _, _ => false
  end.

Definition res_is {A} (e : A -> A -> bool) (r : res A) (b : A) : bool := res_matches e r (Some b).

Definition agree_l (g : dg) (ob : obs) : list bool :=
  let vs := nodes g in
  [ oeqb eqb (has_cycle g) (Some (ob_cycle ob));
    res_is Z.eqb (depth g) (ob_depth ob);
    leqb Nat.eqb (root_nodes g) (ob_roots ob);
    leqb (leqb Nat.eqb) (map (node_children g) vs) (ob_children ob);
    leqb pair_eqb (get_edges g) (ob_edges ob);
    leqb (fun r o => res_matches (leqb Nat.eqb) r o) (map (hierarchy g) vs) (ob_hier ob);
    leqb (fun r o => res_is Z.eqb r o) (map (node_depth g) vs) (ob_ndepth ob);
    forallb (fun q => res_matches Z.eqb (node_depth_list g (fst q)) (snd q)) (ob_ndlist ob);
    leqb (fun r o => res_is Z.eqb r o) (map (distance_to_primary_level g) vs) (ob_dprim ob);
    leqb (fun r o => res_is Z.eqb r o) (map (distance_to_root_level g) vs) (ob_droot ob) ].

Definition agree (g : dg) (ob : obs) : bool := forallb (fun b => b) (agree_l g ob).

(* what the harness evaluates per case: the agreement flags followed by the property clauses *)
Definition check_case (c : dg * obs) : list bool := agree_l (fst c) (snd c) ++ holds_l (fst c) (snd c).
