(* C12 - basic facts about the specification of QueriesSpec.v: reachability, topological
   lists (finishing orders) and why they exclude cycles. *)
From Coq Require Import List Arith Bool ZArith Lia.
From GolemV Require Import Base.Closure Graph.QueriesSpec.
Import ListNotations.

Lemma memb_iff : forall x l, memb x l = true <-> In x l.
Proof.
  intros x l. unfold memb. rewrite existsb_exists. split.
  - intros [y [Hy E]]. apply Nat.eqb_eq in E. subst. exact Hy.
  - intros H. exists x. split; [exact H|apply Nat.eqb_refl].
Qed.

Lemma memb_false_iff : forall x l, memb x l = false <-> ~ In x l.
Proof.
  intros x l. split.
  - intros H Hin. apply memb_iff in Hin. congruence.
  - intros H. destruct (memb x l) eqn:E; [|reflexivity]. exfalso. apply H. apply memb_iff. exact E.
Qed.

Lemma parents_out : forall (g : dg) v, length g <= v -> parents g v = [].
Proof. intros g v H. unfold parents. apply nth_overflow. exact H. Qed.

Lemma edge_src_lt : forall (g : dg) c p, edge g c p -> c < length g.
Proof.
  intros g c p H. destruct (lt_dec c (length g)) as [L|L]; [exact L|].
  unfold edge in H. rewrite parents_out in H by lia. contradiction.
Qed.

(* ---------------------------------------------------------------------------------------- *)
(* reachability                                                                              *)
(* ---------------------------------------------------------------------------------------- *)
Lemma reach_trans : forall g x y z, reach g x y -> reach g y z -> reach g x z.
Proof.
  intros g x y z H. induction H; intros Hz; [exact Hz|].
  eapply reach_step; [eassumption|auto].
Qed.

Lemma reach_edge : forall g x y, edge g x y -> reach g x y.
Proof. intros g x y H. eapply reach_step; [exact H|apply reach_refl]. Qed.

Lemma reach_snoc : forall g x y z, reach g x y -> edge g y z -> reach g x z.
Proof. intros g x y z H E. eapply reach_trans; [exact H|apply reach_edge; exact E]. Qed.

Lemma reach_inv : forall g x y, reach g x y -> x = y \/ plus g x y.
Proof. intros g x y H. destruct H; [left; reflexivity|right; exists y; auto]. Qed.

Lemma plus_reach : forall g x y, plus g x y -> reach g x y.
Proof. intros g x y [p [E R]]. eapply reach_step; eauto. Qed.

Lemma reach_plus : forall g x y z, reach g x y -> plus g y z -> plus g x z.
Proof.
  intros g x y z H. induction H; intros P; [exact P|].
  exists y. split; [assumption|]. apply plus_reach. auto.
Qed.

Lemma plus_reach_trans : forall g x y z, plus g x y -> reach g y z -> plus g x z.
Proof. intros g x y z [p [E R]] R2. exists p. split; [exact E|eapply reach_trans; eauto]. Qed.

Lemma plus_snoc : forall g x y z, reach g x y -> edge g y z -> plus g x z.
Proof.
  intros g x y z R E. eapply reach_plus; [exact R|]. exists z. split; [exact E|apply reach_refl].
Qed.

Lemma cycle_from_step : forall g v p, edge g v p -> cycle_from g p -> cycle_from g v.
Proof. intros g v p E [w [R C]]. exists w. split; [eapply reach_step; eauto|exact C]. Qed.

Lemma on_cycle_cyclic : forall g v, cycle_from g v -> cyclic g.
Proof. intros g v [w [_ C]]. exists w. exact C. Qed.

Lemma cycle_from_inv : forall g v, cycle_from g v -> on_cycle g v \/ exists p, edge g v p /\ cycle_from g p.
Proof.
  intros g v [w [R C]]. destruct R as [x|x y z E R].
  - left. exact C.
  - right. exists y. split; [exact E|]. exists z. auto.
Qed.

(* paths as vertex lists vs reach *)
Lemma gpath_reach : forall g l v, gpath g v l -> forall w, In w l -> plus g v w.
Proof.
  intros g. induction l as [|y l IH]; intros v Hc w Hw; [contradiction|].
  simpl in Hc. destruct Hc as [E Hc]. destruct Hw as [<-|Hw].
  - exists y. split; [exact E|apply reach_refl].
  - eapply reach_plus; [apply reach_edge; exact E|]. apply IH; assumption.
Qed.

Lemma reach_gpath : forall g v w, reach g v w -> exists l, gpath g v l /\ last l v = w.
Proof.
  intros g v w H. induction H as [x|x y z E R IH].
  - exists []. split; simpl; auto.
  - destruct IH as [l [Hc Hl]]. exists (y :: l). split; [simpl; auto|]. rewrite last_cons. exact Hl.
Qed.

Lemma gpath_app : forall g a v b, gpath g v (a ++ b) <-> gpath g v a /\ gpath g (last a v) b.
Proof. intros g a v b. unfold gpath. apply chain_app. Qed.

(* ---------------------------------------------------------------------------------------- *)
(* topological lists: every element's parents occur strictly later in the list              *)
(* ---------------------------------------------------------------------------------------- *)
Fixpoint topo (g : dg) (l : list nat) : Prop :=
  match l with
  | [] => True
  | v :: r => incl (parents g v) r /\ topo g r
  end.

Lemma topo_closed : forall g l, topo g l -> forall v p, In v l -> edge g v p -> In p l.
Proof.
  intros g. induction l as [|u r IH]; intros Ht v p Hv E; [contradiction|].
  destruct Ht as [Hu Hr]. destruct Hv as [<-|Hv].
  - right. apply Hu. exact E.
  - right. eapply IH; eauto.
Qed.

Lemma topo_reach_closed : forall g l, topo g l -> forall v w, reach g v w -> In v l -> In w l.
Proof.
  intros g l Ht v w R. induction R; intros Hv; [exact Hv|].
  apply IHR. eapply topo_closed; eauto.
Qed.

Lemma topo_acyclic : forall g l, topo g l -> NoDup l -> forall v, In v l -> ~ on_cycle g v.
Proof.
  intros g. induction l as [|u r IH]; intros Ht Hnd v Hv; [contradiction|].
  destruct Ht as [Hu Hr]. inversion Hnd as [|? ? Hnin Hnd']; subst.
  destruct Hv as [<-|Hv].
  - intros [p [E R]]. apply Hnin.
    eapply topo_reach_closed; [exact Hr|exact R|]. apply Hu. exact E.
  - apply IH; assumption.
Qed.

Lemma topo_no_cycle_from : forall g l, topo g l -> NoDup l -> forall v, In v l -> ~ cycle_from g v.
Proof.
  intros g l Ht Hnd v Hv [w [R C]].
  eapply topo_acyclic; [exact Ht|exact Hnd| |exact C].
  eapply topo_reach_closed; eauto.
Qed.

Lemma topo_app_r : forall g a b, topo g (a ++ b) -> topo g b.
Proof. intros g. induction a as [|x a IH]; intros b H; [exact H|]. destruct H. auto. Qed.

(* all nodes in a duplicate-free topological list => no cycle at all *)
Lemma topo_all_acyclic : forall g l, topo g l -> NoDup l -> (forall v, v < length g -> In v l) -> ~ cyclic g.
Proof.
  intros g l Ht Hnd Hall [v C]. assert (Hv : v < length g).
  { destruct C as [p [E _]]. eapply edge_src_lt; eauto. }
  eapply topo_acyclic; eauto.
Qed.

(* maxima of lists of naturals *)
Lemma fold_max_ge : forall l x, In x l -> x <= fold_right Nat.max 0 l.
Proof.
  induction l as [|a l IH]; intros x Hx; [contradiction|].
  destruct Hx as [<-|Hx]; simpl; [lia|]. specialize (IH x Hx). lia.
Qed.

Lemma fold_max_in : forall l, l <> [] -> In (fold_right Nat.max 0 l) l.
Proof.
  induction l as [|a l IH]; intros H; [congruence|]. simpl.
  destruct l as [|b l]; [left; simpl; lia|].
  destruct (le_lt_dec (fold_right Nat.max 0 (b :: l)) a) as [Hle|Hlt].
  - left. lia.
  - right. rewrite Nat.max_r by lia. apply IH. discriminate.
Qed.

