(* C12 - checks for LARGE graphs (20 .. 500 nodes).

   The matrix oracle of QueriesSpec.v costs O(n^4) and more, and the literal path walk of node_depth
   (Queries.dexplore) is exponential on dense DAGs - exactly like the code it mirrors.  For large
   inputs this file provides
     * an efficient formulation of heights / cycle reachability: the FRONTIER of the nodes reached by
       walks with exactly k edges, advanced level by level (`next`, `hcount`); one run per query;
       QueriesBigProofs.v proves it equal to the model's node_depth / node_depth_list / depth on
       closed graphs and correct w.r.t. the specification (height, lheight, gheight, cycle_from);
     * a record of observations that asks the per-node queries for SELECTED nodes only;
     * `agree_big_l` (model = observation; the literal node_depth walk when the flag `lit` is set,
       otherwise the frontier formulation) and `holds_big_l` (property clauses on the observation).
   Definitions only. *)
From Coq Require Import List Arith Bool ZArith.
From GolemV Require Import Graph.QueriesSpec Graph.Queries.
Import ListNotations.

(* keep the first occurrence of every element; `seen` is a bitmap (dictionary of Queries.v), so
   that no comparison of unary numbers is needed *)
Fixpoint dedupm (l : list nat) (seen : list bool) : list nat :=
  match l with
  | [] => []
  | x :: r => if get seen x then dedupm r seen else x :: dedupm r (set seen x true)
  end.

(* the parents of the nodes of a frontier, each once *)
Definition next (g : dg) (front : list nat) : list nat := dedupm (flat_map (parents g) front) [].

(* lev g F k = the nodes reached from a node of F by a walk with exactly k edges *)
Fixpoint lev (g : dg) (F : list nat) (k : nat) : list nat :=
  match k with
  | O => F
  | S k' => next g (lev g F k')
  end.

(* number of consecutive non-empty levels, at most fuel *)
Fixpoint hcount (g : dg) (front : list nat) (fuel : nat) : nat :=
  match fuel with
  | O => 0
  | S k => match front with
           | [] => 0
           | _ => S (hcount g (next g front) k)
           end
  end.

Definition hlimit (g : dg) : nat := length g + 2.

(* heights of a set of start nodes; the limit is reached exactly when a cycle is reachable *)
Definition lfast (g : dg) (vs : list nat) : nat := hcount g vs (hlimit g).

(* from a count to the answer of node_depth: -1 when the limit was reached *)
Definition depth_of (g : dg) (c : nat) : Z := if Nat.eqb c (hlimit g) then (-1)%Z else Z.of_nat c.

Definition ndl_fast (g : dg) (vs : list nat) : Z := depth_of g (lfast g vs).

Definition node_depth_fast (g : dg) (v : nat) : Z := ndl_fast g [v].

Definition cycfrom_fast (g : dg) (v : nat) : bool := Nat.eqb (lfast g [v]) (hlimit g).

Definition cyclic_fast (g : dg) : bool := Nat.eqb (lfast g (seq 0 (length g))) (hlimit g).

Definition depth_fast (g : dg) : Z :=
  match g with
  | [] => 0%Z
  | _ => ndl_fast g (seq 0 (length g))
  end.

(* sinks without the pairwise scan: nodes that occur in no parent list *)
Definition sinks_fast (g : dg) : list nat :=
  let used := concat g in filter (fun v => negb (memb v used)) (seq 0 (length g)).

(* ---------------------------------------------------------------------------------------- *)
(* observations on a large graph                                                             *)
(* ---------------------------------------------------------------------------------------- *)
Record nobs := {                          (* the queries with a node argument, for one node *)
  nq_node : nat;
  nq_children : list nat;                 (* graph.node_children(v) *)
  nq_hier : option (list nat);            (* ordered_subnodes_hierarchy(v); None = ValueError *)
  nq_ndepth : Z;                          (* node_depth(v) *)
  nq_dprim : Z;                           (* distance_to_primary_level(v) *)
  nq_droot : Z                            (* distance_to_root_level(graph, v) *)
}.

Record bobs := {
  bo_cycle : bool;
  bo_depth : Z;
  bo_roots : list nat;
  bo_edges : list (nat * nat);
  bo_nodes : list nobs;
  bo_ndlist : list (list nat * option Z)
}.

(* node_depth as evaluated in the agreement: the literal walk or its proved-equal frontier form *)
Definition nd_eval (lit : bool) (g : dg) (vs : list nat) : res Z :=
  if lit then node_depth_list g vs
  else match vs with [] => Raise | _ => Ok (ndl_fast g vs) end.

Definition depth_eval (lit : bool) (g : dg) : res Z := if lit then depth g else Ok (depth_fast g).

Definition dprim_eval (lit : bool) (g : dg) (v : nat) : res Z :=
  match nd_eval lit g [v] with
  | Ok d => Ok (if (0 <? d)%Z then (d - 1)%Z else (-1)%Z)
  | e => e
  end.

Definition agree_big_l (lit : bool) (g : dg) (ob : bobs) : list bool :=
  [ oeqb eqb (has_cycle g) (Some (bo_cycle ob));
    res_is Z.eqb (depth_eval lit g) (bo_depth ob);
    leqb Nat.eqb (root_nodes g) (bo_roots ob);
    forallb (fun q => leqb Nat.eqb (node_children g (nq_node q)) (nq_children q)) (bo_nodes ob);
    leqb pair_eqb (get_edges g) (bo_edges ob);
    forallb (fun q => res_matches (leqb Nat.eqb) (hierarchy g (nq_node q)) (nq_hier q)) (bo_nodes ob);
    forallb (fun q => res_is Z.eqb (nd_eval lit g [nq_node q]) (nq_ndepth q)) (bo_nodes ob);
    forallb (fun q => res_matches Z.eqb (nd_eval lit g (fst q)) (snd q)) (bo_ndlist ob);
    forallb (fun q => res_is Z.eqb (dprim_eval lit g (nq_node q)) (nq_dprim q)) (bo_nodes ob);
    forallb (fun q => res_is Z.eqb (distance_to_root_level g (nq_node q)) (nq_droot q)) (bo_nodes ob) ].

(* the clauses of C12 on the observed answers.  Ground truth: the frontier formulation for cycles
   and depths, the definitions themselves for sinks / successors / edges, and for the ancestor
   set the model `hierarchy`, which is proved to return exactly the ancestors (C12_hierarchy_correct);
   the hierarchy is compared as a SET, the order is not demanded *)
Definition holds_big_l (g : dg) (ob : bobs) : list bool :=
  let n := length g in
  let gl := lfast g (seq 0 n) in        (* one frontier run from all nodes: cyclic_fast and depth_fast *)
  [ eqb (bo_cycle ob) (Nat.eqb gl (hlimit g));
    nodup_b (bo_roots ob) && same_set_b (bo_roots ob) (sinks_fast g);
    forallb (fun q => nodup_b (nq_children q) &&
                      same_set_b (nq_children q) (filter (fun c => adj_b g c (nq_node q)) (seq 0 n))) (bo_nodes ob);
    forallb (fun pc => adj_b g (snd pc) (fst pc)) (bo_edges ob) && nodup_pairs_b (bo_edges ob) &&
      Nat.leb (n_edges g) (length (bo_edges ob));
    Z.eqb (bo_depth ob) (match g with [] => 0%Z | _ => depth_of g gl end);
    forallb (fun q =>
      let v := nq_node q in
      match nq_hier q with
      | None => cycfrom_fast g v
      | Some l => negb (cycfrom_fast g v) &&
                  match l, hierarchy g v with
                  | h :: t, Ok (_ :: t') => Nat.eqb h v && nodup_b l && same_set_b t t'
                  | _, _ => false
                  end
      end) (bo_nodes ob);
    forallb (fun q => Z.eqb (nq_ndepth q) (node_depth_fast g (nq_node q))) (bo_nodes ob);
    forallb (fun q => match fst q with
                      | [] => true
                      | vs => match snd q with None => false | Some d => Z.eqb d (ndl_fast g vs) end
                      end) (bo_ndlist ob) ].

Definition check_big (c : bool * dg * bobs) : list bool :=
  match c with (lit, g, ob) => agree_big_l lit g ob ++ holds_big_l g ob end.
