(* C12 - the frontier formulation of QueriesBig.v (level-by-level walk of the nodes reached by
   walks with exactly k edges) is EQUAL to the model's node_depth / node_depth_list / depth on
   closed graphs, and decides cyclic / cycle_from / sink.  This is what justifies evaluating it
   instead of the literal (exponential) path walk on large dense inputs. *)
From Coq Require Import List Arith Bool ZArith Lia.
From GolemV Require Import Base.Closure Graph.QueriesSpec Graph.Queries Graph.QueriesBasics
  Graph.QueriesCycle Graph.QueriesLocal Graph.QueriesHier Graph.QueriesDepth Graph.QueriesOracle Graph.QueriesBig.
Import ListNotations.

Lemma dedupm_In : forall l seen y, In y (dedupm l seen) <-> In y l /\ get seen y = false.
Proof.
  induction l as [|x r IH]; intros seen y; simpl; [tauto|].
  destruct (get seen x) eqn:Hx.
  - rewrite IH. split; [tauto|]. intros [[<-|Hy] Hs]; [congruence|tauto].
  - simpl. rewrite IH. destruct (Nat.eq_dec x y) as [->|Hne].
    + rewrite get_set_eq. split; [intros _; auto|intros _; left; reflexivity].
    + rewrite get_set_neq by exact Hne. split; [intros [E|H]; [congruence|tauto]|tauto].
Qed.

Lemma next_In : forall g F y, In y (next g F) <-> exists x, In x F /\ edge g x y.
Proof.
  intros g F y. unfold next. rewrite dedupm_In, get_nil, in_flat_map. unfold edge. split.
  - intros [[x H] _]. exists x. exact H.
  - intros [x H]. split; [exists x; exact H|reflexivity].
Qed.

Lemma lev_iff : forall g F k x,
  In x (lev g F k) <-> exists v l, In v F /\ length l = k /\ gpath g v l /\ last l v = x.
Proof.
  intros g F. induction k as [|k IH]; intros x.
  - simpl. split.
    + intros H. exists x, []. simpl. auto.
    + intros [v [l [Hv [Hl [_ E]]]]]. destruct l; [|discriminate]. simpl in E. subst. exact Hv.
  - cbn [lev]. rewrite next_In. split.
    + intros [y [Hy E]]. apply IH in Hy. destruct Hy as [v [l [Hv [Hl [Hp Hlast]]]]].
      exists v, (l ++ [x]). split; [exact Hv|]. split; [rewrite app_length; simpl; lia|].
      split; [|apply last_last]. apply gpath_app. split; [exact Hp|]. rewrite Hlast. simpl. auto.
    + intros [v [l [Hv [Hl [Hp Hlast]]]]].
      destruct (exists_last (l := l)) as [l0 [z ->]]; [destruct l; discriminate|].
      rewrite last_last in Hlast. subst z. rewrite app_length in Hl. simpl in Hl.
      apply gpath_app in Hp. destruct Hp as [Hp0 Hp1]. simpl in Hp1.
      exists (last l0 v). split; [|apply Hp1]. apply IH. exists v, l0. repeat split; auto. lia.
Qed.

Definition ne (l : list nat) : bool := match l with [] => false | _ => true end.

Lemma ne_lev_iff : forall g F k, ne (lev g F k) = true <-> exists v l, In v F /\ length l = k /\ gpath g v l.
Proof.
  intros g F k. split.
  - intros H. destruct (lev g F k) as [|x r] eqn:E; [discriminate|].
    assert (Hin : In x (lev g F k)) by (rewrite E; left; reflexivity).
    apply lev_iff in Hin. destruct Hin as [v [l [Hv [Hl [Hp _]]]]]. exists v, l. auto.
  - intros [v [l [Hv [Hl Hp]]]]. assert (Hin : In (last l v) (lev g F k)) by (apply lev_iff; exists v, l; auto).
    destruct (lev g F k); [contradiction|reflexivity].
Qed.

Lemma ne_lev_down : forall g F k, ne (lev g F (S k)) = true -> ne (lev g F k) = true.
Proof.
  intros g F k H. apply ne_lev_iff in H. destruct H as [v [l [Hv [Hl Hp]]]]. apply ne_lev_iff.
  exists v, (firstn k l). split; [exact Hv|]. split; [rewrite firstn_length; lia|apply firstn_chain; exact Hp].
Qed.

Lemma filter_none : forall (f : nat -> bool) l, (forall x, In x l -> f x = false) -> filter f l = [].
Proof.
  intros f. induction l as [|a l IH]; intros H; [reflexivity|]. simpl.
  rewrite (H a (or_introl eq_refl)). apply IH. intros x Hx. apply H. right. exact Hx.
Qed.

Lemma hcount_cnt : forall g F fuel j,
  hcount g (lev g F j) fuel = length (filter (fun k => ne (lev g F k)) (seq j fuel)).
Proof.
  intros g F. induction fuel as [|fuel IH]; intros j; [reflexivity|].
  cbn [hcount seq filter]. destruct (lev g F j) as [|x r] eqn:E.
  - simpl. rewrite filter_none; [reflexivity|]. intros k Hk. apply in_seq in Hk.
    destruct (ne (lev g F k)) eqn:Hn; [|reflexivity]. exfalso.
    assert (D : forall i, ne (lev g F (i + j)) = true -> ne (lev g F j) = true).
    { induction i as [|i IHi]; intros Hi; [exact Hi|]. apply IHi. apply ne_lev_down. exact Hi. }
    specialize (D (k - j)). replace (k - j + j) with k in D by lia. specialize (D Hn). rewrite E in D. discriminate.
  - simpl ne. cbn [length]. rewrite <- E. change (next g (lev g F j)) with (lev g F (S j)). rewrite IH. reflexivity.
Qed.

Lemma lfast_cnt : forall g vs, lfast g vs = cnt (fun k => ne (lev g vs k)) (hlimit g).
Proof. intros g vs. unfold lfast, cnt. apply (hcount_cnt g vs (hlimit g) 0). Qed.

(* the count reaches the limit exactly when a cycle is reachable; otherwise it is the number of
   nodes on a longest path that starts in one of the nodes *)
Theorem lfast_spec : forall g vs, wf g -> (forall v, In v vs -> v < length g) -> vs <> [] ->
  (lfast g vs = hlimit g <-> exists v, In v vs /\ cycle_from g v) /\
  (lfast g vs <> hlimit g -> lheight g vs (lfast g vs)).
Proof.
  intros g vs Hwf Hr Hne. rewrite lfast_cnt. set (f := fun k => ne (lev g vs k)).
  destruct (cnt_initial f (ne_lev_down g vs) (hlimit g)) as [Hle Hini]. unfold hlimit in *.
  assert (Hlong : f (S (length g)) = true -> exists v, In v vs /\ cycle_from g v).
  { intros H. apply ne_lev_iff in H. destruct H as [v [l [Hv [Hl Hp]]]]. exists v. split; [exact Hv|].
    apply (long_path_cycle g Hwf v l Hp). lia. }
  assert (Hcyc : (exists v, In v vs /\ cycle_from g v) -> f (S (length g)) = true).
  { intros [v [Hv C]]. destruct (cycle_from_unbounded g v C (S (length g))) as [l [Hp Hl]].
    apply ne_lev_iff. exists v, (firstn (S (length g)) l). split; [exact Hv|].
    split; [rewrite firstn_length; lia|apply firstn_chain; exact Hp]. }
  split.
  - split.
    + intros E. apply Hlong. apply Hini; lia.
    + intros C. apply Hcyc in C. apply Hini in C; lia.
  - intros Hneq. assert (Hnot : f (S (length g)) <> true).
    { intros T. apply Hini in T; lia. }
    assert (H0 : f 0 = true).
    { apply ne_lev_iff. destruct vs as [|v vs']; [congruence|]. exists v, []. simpl. auto. }
    assert (Hpos : 0 < cnt f (length g + 2)) by (apply Hini; [lia|exact H0]).
    split.
    + assert (Hk : f (cnt f (length g + 2) - 1) = true) by (apply Hini; lia).
      apply ne_lev_iff in Hk. destruct Hk as [v [l [Hv [Hl Hp]]]]. exists v, l. split; [exact Hv|]. split; [exact Hp|lia].
    + intros v l Hv Hp. destruct (le_lt_dec (length l) (length g)) as [Hs|Hl].
      * assert (Hk : f (length l) = true) by (apply ne_lev_iff; exists v, l; auto).
        apply Hini in Hk; lia.
      * exfalso. apply Hnot. apply ne_lev_iff. exists v, (firstn (S (length g)) l). split; [exact Hv|].
        split; [rewrite firstn_length; lia|apply firstn_chain; exact Hp].
Qed.

(* ---------------------------------------------------------------------------------------- *)
(* equal to the model                                                                        *)
(* ---------------------------------------------------------------------------------------- *)
Theorem ndl_fast_eq : forall g vs, wf g -> (forall v, In v vs -> v < length g) -> vs <> [] ->
  node_depth_list g vs = Ok (ndl_fast g vs).
Proof.
  intros g vs Hwf Hr Hne. destruct (lfast_spec g vs Hwf Hr Hne) as [S1 S2].
  destruct (node_depth_list_correct g vs Hwf Hr Hne) as [H1 [H2 _]].
  unfold ndl_fast, depth_of. destruct (Nat.eqb (lfast g vs) (hlimit g)) eqn:E.
  - apply Nat.eqb_eq in E. apply H1, S1, E.
  - apply Nat.eqb_neq in E. apply H2, S2, E.
Qed.

Theorem node_depth_fast_eq : forall g v, wf g -> v < length g -> node_depth g v = Ok (node_depth_fast g v).
Proof.
  intros g v Hwf Hv. unfold node_depth, node_depth_fast. apply ndl_fast_eq; [exact Hwf| |discriminate].
  intros w [<-|[]]. exact Hv.
Qed.

Lemma cyclic_iff_nodes : forall g, cyclic g <-> exists v, In v (seq 0 (length g)) /\ cycle_from g v.
Proof.
  intros g. split.
  - intros [v C]. exists v. split; [apply in_seq; pose proof (on_cycle_lt g v C); lia|].
    exists v. split; [apply reach_refl|exact C].
  - intros [v [_ C]]. eapply on_cycle_cyclic. exact C.
Qed.

Lemma gheight_lheight : forall g k, gheight g k <-> lheight g (seq 0 (length g)) k.
Proof.
  intros g k. unfold gheight, lheight. split.
  - intros [[v [l [Hv H]]] U]. split; [exists v, l; split; [apply in_seq; lia|exact H]|].
    intros w l' Hw. apply U. apply in_seq in Hw. lia.
  - intros [[v [l [Hv H]]] U]. apply in_seq in Hv. split; [exists v, l; split; [lia|exact H]|].
    intros w l' Hw. apply U. apply in_seq. lia.
Qed.

Theorem depth_fast_eq : forall g, wf g -> depth g = Ok (depth_fast g).
Proof.
  intros g Hwf. destruct (depth_correct g Hwf) as [D0 D1].
  destruct g as [|row g'] eqn:Eg; [apply D0; reflexivity|]. rewrite <- Eg in *.
  assert (Hne : g <> []) by (rewrite Eg; discriminate).
  destruct (D1 Hne) as [H1 [H2 _]].
  assert (Hr : forall v, In v (seq 0 (length g)) -> v < length g) by (intros v Hv; apply in_seq in Hv; lia).
  assert (Hsne : seq 0 (length g) <> []) by (rewrite Eg; discriminate).
  destruct (lfast_spec g _ Hwf Hr Hsne) as [S1 S2].
  replace (depth_fast g) with (ndl_fast g (seq 0 (length g))) by (rewrite Eg; reflexivity).
  unfold ndl_fast, depth_of. destruct (Nat.eqb (lfast g (seq 0 (length g))) (hlimit g)) eqn:E.
  - apply Nat.eqb_eq in E. apply H1. apply cyclic_iff_nodes. apply S1. exact E.
  - apply Nat.eqb_neq in E. apply H2. apply gheight_lheight. apply S2. exact E.
Qed.

(* ---------------------------------------------------------------------------------------- *)
(* decides the specification                                                                 *)
(* ---------------------------------------------------------------------------------------- *)
Theorem cycfrom_fast_iff : forall g v, wf g -> v < length g -> (cycfrom_fast g v = true <-> cycle_from g v).
Proof.
  intros g v Hwf Hv. unfold cycfrom_fast. rewrite Nat.eqb_eq.
  assert (Hr : forall w, In w [v] -> w < length g) by (intros w [<-|[]]; exact Hv).
  destruct (lfast_spec g [v] Hwf Hr ltac:(discriminate)) as [S1 _]. rewrite S1. split.
  - intros [w [[<-|[]] C]]. exact C.
  - intros C. exists v. split; [left; reflexivity|exact C].
Qed.

Theorem cyclic_fast_iff : forall g, wf g -> (cyclic_fast g = true <-> cyclic g).
Proof.
  intros g Hwf. unfold cyclic_fast. rewrite Nat.eqb_eq. destruct g as [|row g'] eqn:Eg.
  - simpl. split; [discriminate|]. intros [v C]. apply on_cycle_lt in C. simpl in C. lia.
  - rewrite <- Eg in *.
    assert (Hr : forall v, In v (seq 0 (length g)) -> v < length g) by (intros v Hv; apply in_seq in Hv; lia).
    assert (Hsne : seq 0 (length g) <> []) by (rewrite Eg; discriminate).
    destruct (lfast_spec g _ Hwf Hr Hsne) as [S1 _]. rewrite S1. symmetry. apply cyclic_iff_nodes.
Qed.

Theorem height_fast_correct : forall g v, wf g -> v < length g -> ~ cycle_from g v -> height g v (lfast g [v]).
Proof.
  intros g v Hwf Hv NC.
  assert (Hr : forall w, In w [v] -> w < length g) by (intros w [<-|[]]; exact Hv).
  destruct (lfast_spec g [v] Hwf Hr ltac:(discriminate)) as [S1 S2].
  apply lheight_single. apply S2. intros E. apply S1 in E. destruct E as [w [[<-|[]] C]]. exact (NC C).
Qed.

Lemma in_concat_edge : forall (g : dg) v, In v (concat g) <-> exists c, edge g c v.
Proof.
  intros g v. rewrite in_concat. unfold edge, parents. split.
  - intros [row [Hrow Hv]]. destruct (In_nth g row [] Hrow) as [c [_ E]]. exists c. rewrite E. exact Hv.
  - intros [c Hc]. exists (nth c g []). split; [|exact Hc].
    destruct (lt_dec c (length g)) as [L|L]; [apply nth_In; exact L|].
    rewrite nth_overflow in Hc by lia. contradiction.
Qed.

Theorem sinks_fast_iff : forall g v, In v (sinks_fast g) <-> sink g v.
Proof.
  intros g v. unfold sinks_fast, sink. rewrite filter_In, in_seq, negb_true_iff, memb_false_iff, in_concat_edge.
  split.
  - intros [Hv H]. split; [lia|]. intros c E. apply H. exists c. exact E.
  - intros [Hv H]. split; [lia|]. intros [c E]. exact (H c E).
Qed.

(* ---------------------------------------------------------------------------------------- *)
(* what holds_big_l = all true says about the observed answers on a large graph              *)
(* ---------------------------------------------------------------------------------------- *)
Definition bobs_spec (g : dg) (ob : bobs) : Prop :=
  let n := length g in
  (bo_cycle ob = true <-> cyclic g) /\
  (NoDup (bo_roots ob) /\ forall v, In v (bo_roots ob) <-> sink g v) /\
  (* every listed pair is an edge, none twice, and there are at least as many as edges: with
     duplicate-free parent lists this is exactly the edge set *)
  (NoDup (bo_edges ob) /\ (forall p c, In (p, c) (bo_edges ob) -> edge g c p) /\ n_edges g <= length (bo_edges ob)) /\
  (bo_depth ob = depth_fast g /\ depth g = Ok (bo_depth ob)) /\
  (forall q, In q (bo_nodes ob) -> nq_node q < n ->
     (NoDup (nq_children q) /\ forall c, In c (nq_children q) <-> c < n /\ edge g c (nq_node q)) /\
     (match nq_hier q with
      | None => cycle_from g (nq_node q)
      | Some l => ~ cycle_from g (nq_node q) /\ NoDup l /\
                  exists t, l = nq_node q :: t /\ forall x, In x t <-> ancestor g (nq_node q) x
      end) /\
     ((nq_ndepth q = (-1)%Z <-> cycle_from g (nq_node q)) /\
      (~ cycle_from g (nq_node q) -> exists k, nq_ndepth q = Z.of_nat k /\ height g (nq_node q) k))).

Theorem holds_big_sound : forall g ob, wf g -> forallb (fun b => b) (holds_big_l g ob) = true -> bobs_spec g ob.
Proof.
  intros g ob Hwf H. unfold holds_big_l in H. cbv zeta in H. cbn [forallb] in H.
  repeat (apply andb_true_iff in H; let H' := fresh "C" in destruct H as [H' H]).
  clear H. unfold bobs_spec. cbv zeta.
  split.
  { apply eqb_prop in C. rewrite C. apply (cyclic_fast_iff g Hwf). }
  split.
  { apply andb_true_iff in C0. destruct C0 as [N S]. split; [apply nodup_b_iff; exact N|].
    intros v. rewrite same_set_b_iff in S. rewrite S. apply sinks_fast_iff. }
  split.
  { apply andb_true_iff in C2. destruct C2 as [C2 L]. apply andb_true_iff in C2. destruct C2 as [A N].
    split; [apply nodup_pairs_b_iff; exact N|]. split; [|apply Nat.leb_le; exact L].
    intros p c Hin. rewrite forallb_forall in A. specialize (A (p, c) Hin). apply adj_b_iff. exact A. }
  split.
  { apply Z.eqb_eq in C3. assert (E : bo_depth ob = depth_fast g).
    { rewrite C3. unfold depth_fast, ndl_fast, lfast. destruct g; reflexivity. }
    split; [exact E|]. rewrite E. apply depth_fast_eq. exact Hwf. }
  intros q Hq Hv. rewrite forallb_forall in C1, C4, C5.
  specialize (C1 q Hq). specialize (C4 q Hq). specialize (C5 q Hq). cbv zeta in C4.
  split; [|split].
  - apply andb_true_iff in C1. destruct C1 as [N S]. split; [apply nodup_b_iff; exact N|].
    intros c. rewrite same_set_b_iff in S. rewrite S, filter_In, in_seq, adj_b_iff. split; [intros [A B]; split; [lia|exact B]|].
    intros [A B]. split; [lia|exact B].
  - destruct (nq_hier q) as [l|].
    + apply andb_true_iff in C4. destruct C4 as [F1 F2]. apply negb_true_iff in F1.
      assert (NC : ~ cycle_from g (nq_node q)).
      { intros CF. apply (cycfrom_fast_iff g _ Hwf Hv) in CF. congruence. }
      split; [exact NC|]. destruct l as [|h t]; [discriminate|].
      destruct (hierarchy g (nq_node q)) as [l'| |] eqn:EH; try discriminate.
      destruct l' as [|h' t']; [discriminate|].
      apply andb_true_iff in F2. destruct F2 as [F2 F3]. apply andb_true_iff in F2. destruct F2 as [F2 F4].
      apply Nat.eqb_eq in F2. subst h. split; [apply nodup_b_iff; exact F4|].
      exists t. split; [reflexivity|]. intros x. rewrite same_set_b_iff in F3. rewrite F3.
      destruct (hierarchy_correct g (nq_node q) Hwf Hv) as [_ [HO _]].
      destruct (HO _ EH) as [_ [t'' [E HA]]]. injection E as _ <-. apply HA.
    + apply (cycfrom_fast_iff g _ Hwf Hv). exact C4.
  - apply Z.eqb_eq in C5. rewrite C5.
    destruct (node_depth_correct g (nq_node q) Hwf Hv) as [N1 [N2 N3]].
    pose proof (node_depth_fast_eq g (nq_node q) Hwf Hv) as E. split.
    + rewrite <- N1. rewrite E. split; [intros ->; reflexivity|intros X; injection X; auto].
    + intros NC. destruct (N3 NC) as [k Hk]. exists k. split; [rewrite E in Hk; injection Hk; auto|apply N2; exact Hk].
Qed.
