(* C12 - correctness and termination of the literal iterative depth-first search
   `graph_has_cycle` (model: Queries.has_cycle_fuel).

   Proof idea.  Ghost state: the stack is cut into FRAMES  seg_k ++ [g_k] ++ ... ++ seg_1 ++ [g_1]
   where g_1 .. g_k are the grey nodes (visited and on_stack) at the occurrence where they were
   marked, and seg_i are the entries pushed by the scan of g_i that are still on the stack; `fin`
   is the list of finished (black) nodes, newest first.  Invariants (framesOK / Sem below):
     K  every entry of seg_i is a parent of g_i, and g_(i+1) is a parent of g_i (grey chain);
     J  every parent of g_i is finished or sits above g_i on the stack;
     G  no entry of seg_i is one of g_1 .. g_i;
     F  `fin` is duplicate free and topological (parents of a finished node finished earlier).
   `return True` happens only when a first visit scans a grey parent: K gives the cycle.
   `return False` happens with every node in `fin`: F excludes every cycle.                   *)
From Coq Require Import List Arith Bool ZArith Lia.
From GolemV Require Import Base.Closure Graph.QueriesSpec Graph.Queries Graph.QueriesBasics.
Import ListNotations.

(* ---------------------------------------------------------------------------------------- *)
(* dictionaries                                                                              *)
(* ---------------------------------------------------------------------------------------- *)
Lemma get_nil : forall i, get [] i = false.
Proof. destruct i; reflexivity. Qed.

Lemma get_set_eq : forall i l b, get (set l i b) i = b.
Proof. induction i as [|i IH]; intros [|x l] b; simpl; auto; apply IH. Qed.

Lemma get_set_neq : forall i l b j, i <> j -> get (set l i b) j = get l j.
Proof.
  unfold get. induction i as [|i IH]; intros [|x l] b [|j] H; simpl; try congruence; auto.
  - destruct j; reflexivity.
  - rewrite IH by congruence. destruct j; reflexivity.
Qed.

Lemma get_repeat_false : forall n i, get (repeat false n) i = false.
Proof. unfold get. induction n as [|n IH]; intros [|i]; simpl; auto. Qed.

(* ---------------------------------------------------------------------------------------- *)
(* the scan of the parents                                                                   *)
(* ---------------------------------------------------------------------------------------- *)
Lemma scan_some : forall ps vis ons stk stk', scan ps vis ons stk = Some stk' ->
  exists news, stk' = news ++ stk /\
    (forall p, In p news <-> In p ps /\ get vis p = false) /\
    (forall p, In p ps -> get vis p = true -> get ons p = false) /\
    length news <= length ps.
Proof.
  induction ps as [|p r IH]; intros vis ons stk stk' H.
  - simpl in H. injection H as <-. exists []. split; [reflexivity|]. split; [|split].
    + intros p. simpl. tauto.
    + intros p [].
    + simpl. lia.
  - simpl in H. destruct (get vis p) eqn:Hv; simpl in H.
    + destruct (get ons p) eqn:Ho; [discriminate|].
      destruct (IH _ _ _ _ H) as [news [E [H1 [H2 H3]]]]. exists news.
      split; [exact E|]. split; [|split].
      * intros q. rewrite H1. simpl. split; [tauto|]. intros [[<-|Hq] Hf]; [congruence|tauto].
      * intros q [<-|Hq] Hq2; auto.
      * simpl. lia.
    + destruct (IH _ _ _ _ H) as [news [E [H1 [H2 H3]]]]. exists (news ++ [p]).
      split; [rewrite <- app_assoc; exact E|]. split; [|split].
      * intros q. rewrite in_app_iff, H1. simpl. split.
        -- intros [[Hq Hf]|[<-|[]]]; auto.
        -- intros [[<-|Hq] Hf]; auto.
      * intros q [<-|Hq] Hq2; [congruence|auto].
      * rewrite app_length. simpl. lia.
Qed.

Lemma scan_none : forall ps vis ons stk, scan ps vis ons stk = None ->
  exists p, In p ps /\ get vis p = true /\ get ons p = true.
Proof.
  induction ps as [|p r IH]; intros vis ons stk H; [discriminate|].
  simpl in H. destruct (get vis p) eqn:Hv; simpl in H.
  - destruct (get ons p) eqn:Ho.
    + exists p. simpl. auto.
    + destruct (IH _ _ _ H) as [q [Hq Hq2]]. exists q. simpl. auto.
  - destruct (IH _ _ _ H) as [q [Hq Hq2]]. exists q. simpl. auto.
Qed.

Lemma scan_black : forall ps vis ons stk,
  (forall p, In p ps -> get vis p = true /\ get ons p = false) -> scan ps vis ons stk = Some stk.
Proof.
  induction ps as [|p r IH]; intros vis ons stk H; [reflexivity|].
  simpl. destruct (H p (or_introl eq_refl)) as [-> ->]. simpl.
  apply IH. intros q Hq. apply H. right. exact Hq.
Qed.

(* ---------------------------------------------------------------------------------------- *)
(* frames                                                                                    *)
(* ---------------------------------------------------------------------------------------- *)
Definition frame := (nat * list nat)%type.

Definition flat (fr : list frame) : list nat := flat_map (fun f => snd f ++ [fst f]) fr.

Definition greys (fr : list frame) : list nat := map fst fr.

Fixpoint framesOK (g : dg) (fin above : list nat) (fr : list frame) : Prop :=
  match fr with
  | [] => True
  | f :: below =>
      incl (snd f) (parents g (fst f)) /\
      (forall p, In p (parents g (fst f)) -> In p fin \/ In p (above ++ snd f)) /\
      (forall x, In x (snd f) -> x <> fst f /\ ~ In x (greys below)) /\
      match below with f2 :: _ => edge g (fst f2) (fst f) | [] => True end /\
      framesOK g fin (above ++ snd f ++ [fst f]) below
  end.

Lemma framesOK_mono : forall g fin fin' fr above above',
  incl fin fin' -> (forall x, In x above -> In x above' \/ In x fin') ->
  framesOK g fin above fr -> framesOK g fin' above' fr.
Proof.
  intros g fin fin' fr. induction fr as [|f below IH]; intros above above' Hf Ha H; [exact I|].
  destruct H as [H1 [H2 [H3 [H4 H5]]]]. cbn [framesOK]. split; [exact H1|]. split; [|split; [exact H3|split; [exact H4|]]].
  - intros p Hp. destruct (H2 p Hp) as [Hin|Hin]; [left; apply Hf; exact Hin|].
    apply in_app_or in Hin. destruct Hin as [Hin|Hin].
    + destruct (Ha p Hin); [right; apply in_or_app; left; assumption|left; assumption].
    + right. apply in_or_app. right. exact Hin.
  - apply (IH (above ++ snd f ++ [fst f])); [exact Hf| |exact H5].
    intros x Hx. apply in_app_or in Hx. destruct Hx as [Hx|Hx].
    + destruct (Ha x Hx); [left; apply in_or_app; left; assumption|right; assumption].
    + left. apply in_or_app. right. exact Hx.
Qed.

(* the grey nodes form a path from the bottom of the stack to its top *)
Lemma greys_reach_head : forall g fin below f above,
  framesOK g fin above (f :: below) -> forall p, In p (greys (f :: below)) -> reach g p (fst f).
Proof.
  intros g fin. induction below as [|f2 below IH]; intros f above H p Hp.
  - destruct Hp as [<-|[]]. apply reach_refl.
  - destruct Hp as [<-|Hp]; [apply reach_refl|].
    destruct H as [_ [_ [_ [H4 H5]]]].
    eapply reach_snoc; [|exact H4]. eapply IH; [exact H5|exact Hp].
Qed.

Lemma flat_nil_inv : forall fr, flat fr = [] -> fr = [].
Proof.
  intros [|f fr] H; [reflexivity|]. unfold flat in H. simpl in H.
  destruct (snd f); discriminate.
Qed.

(* ---------------------------------------------------------------------------------------- *)
(* the invariant                                                                             *)
(* ---------------------------------------------------------------------------------------- *)
Record Sem (g : dg) (vis ons : list bool) (fr : list frame) (fin : list nat) : Prop := {
  s_fr : framesOK g fin [] fr;
  s_ndg : NoDup (greys fr);
  s_ons : forall v, get ons v = true <-> In v (greys fr);
  s_vis : forall v, get vis v = true <-> In v (greys fr) \/ In v fin;
  s_disj : forall v, In v (greys fr) -> ~ In v fin;
  s_ndf : NoDup fin;
  s_topo : topo g fin }.

Definition Inv (g : dg) (s : cstate) (fr : list frame) (fin : list nat) : Prop :=
  c_stack s = flat fr /\ Sem g (c_vis s) (c_ons s) fr fin.

(* between two runs of the while loop: nothing grey *)
Definition Outer (g : dg) (vis ons : list bool) (fin : list nat) : Prop := Sem g vis ons [] fin.

Definition vis_mono (vis vis' : list bool) : Prop := forall v, get vis v = true -> get vis' v = true.

(* termination measure *)
Fixpoint wsum (vis : list bool) (i : nat) (rows : list (list nat)) : nat :=
  match rows with
  | [] => 0
  | r :: rs => (if get vis i then 0 else S (length r)) + wsum vis (S i) rs
  end.

Definition phi (g : dg) (stk : list nat) (vis : list bool) : nat := length stk + wsum vis 0 g.

Lemma wsum_bound : forall vis rows i, wsum vis i rows <= length rows + length (concat rows).
Proof.
  intros vis. induction rows as [|r rs IH]; intros i; simpl; [lia|].
  rewrite app_length. specialize (IH (S i)). destruct (get vis i); lia.
Qed.

Lemma wsum_set_out : forall rows i vis x, x < i -> wsum (set vis x true) i rows = wsum vis i rows.
Proof.
  induction rows as [|r rs IH]; intros i vis x H; simpl; [reflexivity|].
  rewrite get_set_neq by lia. rewrite IH by lia. reflexivity.
Qed.

Lemma wsum_set : forall rows i vis x, i <= x < i + length rows -> get vis x = false ->
  wsum (set vis x true) i rows + S (length (nth (x - i) rows [])) = wsum vis i rows.
Proof.
  induction rows as [|r rs IH]; intros i vis x H Hv; simpl in *; [lia|].
  destruct (Nat.eq_dec x i) as [->|Hne].
  - rewrite get_set_eq, Hv, Nat.sub_diag, wsum_set_out by lia. lia.
  - rewrite get_set_neq by lia. specialize (IH (S i) vis x).
    replace (x - i) with (S (x - S i)) by lia. simpl. rewrite <- IH by (try lia; assumption). lia.
Qed.

(* ---------------------------------------------------------------------------------------- *)
(* first visit of the node on top of the stack                                               *)
(* ---------------------------------------------------------------------------------------- *)
Lemma first_visit : forall g vis ons fin x fr0,
  NoDup (greys fr0) ->
  (forall v, get ons v = true <-> In v (greys fr0)) ->
  (forall v, get vis v = true <-> In v (greys fr0) \/ In v fin) ->
  (forall v, In v (greys fr0) -> ~ In v fin) ->
  NoDup fin -> topo g fin ->
  get vis x = false ->
  framesOK g fin [x] fr0 ->
  match fr0 with f2 :: _ => edge g (fst f2) x | [] => True end ->
  match scan (parents g x) (set vis x true) (set ons x true) (x :: flat fr0) with
  | None => on_cycle g x
  | Some stk2 => exists news, stk2 = news ++ x :: flat fr0 /\ length news <= length (parents g x) /\
                   incl news (parents g x) /\
                   Sem g (set vis x true) (set ons x true) ((x, news) :: fr0) fin
  end.
Proof.
  intros g vis ons fin x fr0 Hnd Hons Hvis Hdisj Hndf Htopo Hx Hfr Hedge.
  assert (Hxg : ~ In x (greys fr0)).
  { intros Hin. assert (get vis x = true) by (apply Hvis; left; exact Hin). congruence. }
  assert (Hxf : ~ In x fin).
  { intros Hin. assert (get vis x = true) by (apply Hvis; right; exact Hin). congruence. }
  destruct (scan (parents g x) (set vis x true) (set ons x true) (x :: flat fr0)) as [stk2|] eqn:Hscan.
  - destruct (scan_some _ _ _ _ _ Hscan) as [news [E [H1 [H2 H3]]]].
    exists news. split; [exact E|]. split; [exact H3|].
    assert (Hnews : forall y, In y news -> In y (parents g x) /\ y <> x /\ get vis y = false).
    { intros y Hy. apply H1 in Hy. destruct Hy as [Hy1 Hy2]. split; [exact Hy1|].
      destruct (Nat.eq_dec y x) as [->|Hne]; [rewrite get_set_eq in Hy2; discriminate|].
      rewrite get_set_neq in Hy2 by congruence. auto. }
    split; [intros y Hy; apply (Hnews y Hy)|].
    constructor.
    + cbn [framesOK fst snd]. split; [intros y Hy; apply (Hnews y Hy)|]. split; [|split; [|split]].
      * intros p Hp. simpl.
        destruct (get (set vis x true) p) eqn:Hvp.
        -- left. specialize (H2 p Hp Hvp).
           destruct (Nat.eq_dec p x) as [->|Hne]; [rewrite get_set_eq in H2; discriminate|].
           rewrite get_set_neq in Hvp, H2 by congruence.
           apply Hvis in Hvp. destruct Hvp as [Hg|Hf]; [|exact Hf].
           apply Hons in Hg. congruence.
        -- right. apply H1. auto.
      * intros y Hy. destruct (Hnews y Hy) as [_ [Hne Hvy]]. split; [exact Hne|].
        intros Hin. assert (get vis y = true) by (apply Hvis; left; exact Hin). congruence.
      * destruct fr0; [exact I|exact Hedge].
      * eapply framesOK_mono; [apply incl_refl| |exact Hfr].
        intros y [<-|[]]. left. simpl. apply in_or_app. right. left. reflexivity.
    + simpl. constructor; assumption.
    + intros v. simpl. destruct (Nat.eq_dec v x) as [->|Hne].
      * rewrite get_set_eq. tauto.
      * rewrite get_set_neq by congruence. rewrite Hons. split; [tauto|]. intros [E2|Hin]; [congruence|exact Hin].
    + intros v. simpl. destruct (Nat.eq_dec v x) as [->|Hne].
      * rewrite get_set_eq. tauto.
      * rewrite get_set_neq by congruence. rewrite Hvis. split; [tauto|]. intros [[E2|Hin]|Hin]; [congruence|tauto|tauto].
    + intros v [<-|Hin]; [exact Hxf|apply Hdisj; exact Hin].
    + exact Hndf.
    + exact Htopo.
  - destruct (scan_none _ _ _ _ Hscan) as [p [Hp [Hvp Hop]]].
    destruct (Nat.eq_dec p x) as [->|Hne].
    + exists x. split; [exact Hp|apply reach_refl].
    + rewrite get_set_neq in Hop by congruence. apply Hons in Hop.
      exists p. split; [exact Hp|].
      destruct fr0 as [|f2 below]; [contradiction|].
      eapply reach_snoc; [|exact Hedge]. eapply greys_reach_head; [exact Hfr|exact Hop].
Qed.

(* ---------------------------------------------------------------------------------------- *)
(* one iteration of the while loop                                                           *)
(* ---------------------------------------------------------------------------------------- *)
Lemma cbody_step : forall g s fr fin cur rest,
  Inv g s fr fin -> c_stack s = cur :: rest ->
  match cbody g cur rest (c_vis s) (c_ons s) with
  | None => cyclic g
  | Some s' => (exists fr' fin', Inv g s' fr' fin') /\ vis_mono (c_vis s) (c_vis s') /\
               (cur < length g -> phi g (c_stack s') (c_vis s') < phi g (c_stack s) (c_vis s)) /\
               incl (c_stack s') (parents g cur ++ c_stack s)
  end.
Proof.
  intros g [stk vis ons] fr fin cur rest [Hstk Hsem] Hcur. simpl in *. subst stk.
  destruct Hsem as [Hfr Hnd Hons Hvis Hdisj Hndf Htopo].
  destruct fr as [|[gv seg] below]; [discriminate|].
  unfold cbody.
  destruct seg as [|x seg'].
  - (* the grey node gv is on top for the second time: it is finished *)
    unfold flat in Hcur. simpl in Hcur. injection Hcur as <- <-.
    assert (Hg : get vis gv = true) by (apply Hvis; left; left; reflexivity).
    rewrite Hg. cbn [negb].
    destruct Hfr as [_ [HJ [_ [_ Hbelow]]]]. simpl in HJ, Hbelow.
    inversion Hnd as [|? ? Hgnin Hnd']; subst.
    assert (Hgf : ~ In gv fin) by (apply Hdisj; left; reflexivity).
    rewrite scan_black.
    + split; [|split; [|split]].
      * exists below, (gv :: fin). split; [reflexivity|]. simpl. constructor.
        -- eapply framesOK_mono; [| |exact Hbelow].
           ++ intros y Hy. right. exact Hy.
           ++ intros y [<-|[]]. right. left. reflexivity.
        -- exact Hnd'.
        -- intros v. destruct (Nat.eq_dec v gv) as [->|Hne].
           ++ rewrite get_set_eq. split; [discriminate|]. intros Hin. contradiction.
           ++ rewrite get_set_neq by congruence. rewrite Hons. simpl. split; [|tauto].
              intros [E|Hin]; [congruence|exact Hin].
        -- intros v. rewrite Hvis. simpl. tauto.
        -- intros v Hin [<-|Hf]; [contradiction|]. apply (Hdisj v); [right; exact Hin|exact Hf].
        -- constructor; assumption.
        -- simpl. split; [|exact Htopo]. intros p Hp. destruct (HJ p Hp) as [Hf|[]]. exact Hf.
      * intros v Hv. exact Hv.
      * intros _. unfold phi, flat. simpl. lia.
      * simpl. intros y Hy. apply in_or_app. right. right. exact Hy.
    + intros p Hp. destruct (HJ p Hp) as [Hf|[]].
      split; [apply Hvis; right; exact Hf|].
      destruct (Nat.eq_dec p gv) as [->|Hne]; [apply get_set_eq|].
      rewrite get_set_neq by congruence.
      destruct (get ons p) eqn:Ho; [|reflexivity]. apply Hons in Ho. exfalso. apply (Hdisj p Ho Hf).
  - (* an entry x pushed by the scan of gv is on top *)
    unfold flat in Hcur. simpl in Hcur. injection Hcur as <- <-.
    change (flat_map (fun f : nat * list nat => snd f ++ [fst f]) below) with (flat below).
    destruct Hfr as [HK [HJ [HG [Hch Hbelow]]]]. cbn [fst snd] in *.
    destruct (get vis x) eqn:Hx; cbn [negb].
    + (* already visited: by G it is not grey, so it is finished: pop, nothing happens *)
      destruct (HG x (or_introl eq_refl)) as [Hxg Hxb].
      assert (Hxf : In x fin).
      { apply Hvis in Hx. destruct Hx as [[E|Hin]|Hf]; [simpl in E; congruence|contradiction|exact Hf]. }
      assert (Hxo : get ons x = false).
      { destruct (get ons x) eqn:Ho; [|reflexivity]. apply Hons in Ho. exfalso. apply (Hdisj x Ho Hxf). }
      rewrite scan_black.
      * split; [|split; [|split]].
        -- exists ((gv, seg') :: below), fin. split; [reflexivity|]. simpl. constructor.
           ++ cbn [framesOK fst snd]. split; [intros y Hy; apply HK; right; exact Hy|]. split; [|split; [|split]].
              ** intros p Hp. destruct (HJ p Hp) as [Hf|[<-|Hin]]; [left; exact Hf|left; exact Hxf|right; exact Hin].
              ** intros y Hy. apply HG. right. exact Hy.
              ** exact Hch.
              ** eapply framesOK_mono; [apply incl_refl| |exact Hbelow].
                 simpl. intros y [<-|Hy]; [right; exact Hxf|left; exact Hy].
           ++ exact Hnd.
           ++ intros v. destruct (Nat.eq_dec v x) as [->|Hne].
              ** rewrite get_set_eq. split; [discriminate|]. intros Hin. apply Hons in Hin. congruence.
              ** rewrite get_set_neq by congruence. apply Hons.
           ++ exact Hvis.
           ++ exact Hdisj.
           ++ exact Hndf.
           ++ exact Htopo.
        -- intros v Hv. exact Hv.
        -- intros _. unfold phi, flat. simpl. lia.
        -- simpl. intros y Hy. apply in_or_app. right. right. exact Hy.
      * intros p Hp. assert (Hpf : In p fin) by (eapply topo_closed; eauto).
        split; [apply Hvis; right; exact Hpf|].
        destruct (Nat.eq_dec p x) as [->|Hne]; [apply get_set_eq|].
        rewrite get_set_neq by congruence.
        destruct (get ons p) eqn:Ho; [|reflexivity]. apply Hons in Ho. exfalso. apply (Hdisj p Ho Hpf).
    + (* first visit of x *)
      pose proof (first_visit g vis ons fin x ((gv, seg') :: below) Hnd Hons Hvis Hdisj Hndf Htopo Hx) as FV.
      assert (Hfr0 : framesOK g fin [x] ((gv, seg') :: below)).
      { cbn [framesOK fst snd]. split; [intros y Hy; apply HK; right; exact Hy|]. split; [|split; [|split]].
        - intros p Hp. destruct (HJ p Hp) as [Hf|Hin]; [left; exact Hf|right; exact Hin].
        - intros y Hy. apply HG. right. exact Hy.
        - exact Hch.
        - exact Hbelow. }
      specialize (FV Hfr0 (HK x (or_introl eq_refl))).
      change (flat ((gv, seg') :: below)) with ((seg' ++ [gv]) ++ flat below) in FV.
      destruct (scan (parents g x) (set vis x true) (set ons x true) (x :: (seg' ++ [gv]) ++ flat below)) as [stk2|].
      * destruct FV as [news [E [Hlen [Hincl Hsem]]]]. subst stk2.
        split; [|split; [|split]].
        -- exists ((x, news) :: (gv, seg') :: below), fin. split; [|exact Hsem].
           simpl. unfold flat. simpl. repeat (rewrite <- app_assoc; simpl). reflexivity.
        -- intros v Hv. simpl. destruct (Nat.eq_dec x v) as [->|Hne]; [apply get_set_eq|].
           rewrite get_set_neq by exact Hne. exact Hv.
        -- intros Hlt. unfold phi. simpl c_stack. simpl c_vis.
           pose proof (wsum_set g 0 vis x) as W. simpl in W.
           rewrite Nat.sub_0_r in W. specialize (W (conj (Nat.le_0_l x) Hlt) Hx).
           unfold parents in Hlen. rewrite app_length. simpl length in *. lia.
        -- simpl. intros y Hy. apply in_app_or in Hy. apply in_or_app.
           destruct Hy as [Hy|Hy]; [left; apply Hincl; exact Hy|right; exact Hy].
      * exists x. exact FV.
Qed.

(* the first iteration of a run of the while loop: the stack holds one unvisited node *)
Lemma cbody_init : forall g vis ons fin v,
  Outer g vis ons fin -> get vis v = false ->
  match cbody g v [] vis ons with
  | None => cyclic g
  | Some s' => (exists fr' fin', Inv g s' fr' fin') /\ vis_mono vis (c_vis s') /\
               (v < length g -> phi g (c_stack s') (c_vis s') < phi g [v] vis) /\
               incl (c_stack s') (parents g v ++ [v])
  end.
Proof.
  intros g vis ons fin v [Hfr Hnd Hons Hvis Hdisj Hndf Htopo] Hv.
  unfold cbody. rewrite Hv. cbn [negb].
  pose proof (first_visit g vis ons fin v [] Hnd Hons Hvis Hdisj Hndf Htopo Hv I I) as FV.
  simpl in FV.
  destruct (scan (parents g v) (set vis v true) (set ons v true) [v]) as [stk2|].
  - destruct FV as [news [E [Hlen [Hincl Hsem]]]]. subst stk2.
    split; [|split; [|split]].
    + exists [(v, news)], fin. split; [|exact Hsem]. simpl. unfold flat. simpl. rewrite app_nil_r. reflexivity.
    + intros w Hw. simpl. destruct (Nat.eq_dec v w) as [->|Hne]; [apply get_set_eq|].
      rewrite get_set_neq by exact Hne. exact Hw.
    + intros Hlt. unfold phi. simpl c_stack. simpl c_vis.
      pose proof (wsum_set g 0 vis v) as W. simpl in W.
      rewrite Nat.sub_0_r in W. specialize (W (conj (Nat.le_0_l v) Hlt) Hv).
      unfold parents in Hlen. rewrite app_length. simpl length in *. lia.
    + simpl. intros y Hy. apply in_app_or in Hy. apply in_or_app.
      destruct Hy as [Hy|Hy]; [left; apply Hincl; exact Hy|right; exact Hy].
  - exists v. exact FV.
Qed.

(* ---------------------------------------------------------------------------------------- *)
(* the while loop                                                                            *)
(* ---------------------------------------------------------------------------------------- *)
Lemma inner_correct : forall g fuel s fr fin, Inv g s fr fin ->
  match inner fuel g s with
  | CTrue => cyclic g
  | CDone vis' ons' => (exists fin', Outer g vis' ons' fin') /\ vis_mono (c_vis s) vis'
  | CFuel => True
  end.
Proof.
  intros g. induction fuel as [|k IH]; intros s fr fin HI; [exact I|].
  cbn [inner]. destruct (c_stack s) as [|cur rest] eqn:Hstk.
  - destruct HI as [Hs Hsem]. rewrite Hstk in Hs. symmetry in Hs. apply flat_nil_inv in Hs. subst fr.
    split; [exists fin; exact Hsem|intros v Hv; exact Hv].
  - pose proof (cbody_step g s fr fin cur rest HI Hstk) as St.
    destruct (cbody g cur rest (c_vis s) (c_ons s)) as [s'|]; [|exact St].
    destruct St as [[fr' [fin' HI']] [Hm _]].
    specialize (IH s' fr' fin' HI'). destruct (inner k g s'); auto.
    destruct IH as [Ho Hm2]. split; [exact Ho|]. intros v Hv. apply Hm2, Hm, Hv.
Qed.

Lemma inner_init_correct : forall g fuel vis ons fin v, Outer g vis ons fin -> get vis v = false ->
  match inner fuel g {| c_stack := [v]; c_vis := vis; c_ons := ons |} with
  | CTrue => cyclic g
  | CDone vis' ons' => (exists fin', Outer g vis' ons' fin') /\ vis_mono vis vis' /\ get vis' v = true
  | CFuel => True
  end.
Proof.
  intros g [|k] vis ons fin v Ho Hv; [exact I|].
  cbn [inner c_stack c_vis c_ons].
  pose proof (cbody_init g vis ons fin v Ho Hv) as St.
  assert (Hset : forall s', cbody g v [] vis ons = Some s' -> get (c_vis s') v = true).
  { unfold cbody. rewrite Hv. cbn [negb]. intros s'.
    destruct (scan (parents g v) (set vis v true) (set ons v true) [v]); [|discriminate].
    intros E. injection E as <-. simpl. apply get_set_eq. }
  destruct (cbody g v [] vis ons) as [s'|]; [|exact St].
  destruct St as [[fr' [fin' HI']] [Hm _]].
  pose proof (inner_correct g k s' fr' fin' HI') as IC.
  destruct (inner k g s'); auto.
  destruct IC as [Ho' Hm2]. split; [exact Ho'|]. split.
  - intros w Hw. apply Hm2, Hm, Hw.
  - apply Hm2. apply Hset. reflexivity.
Qed.

(* ---------------------------------------------------------------------------------------- *)
(* the for loop over the nodes                                                               *)
(* ---------------------------------------------------------------------------------------- *)
Lemma outer_correct : forall g fuel vs vis ons fin, Outer g vis ons fin ->
  match outer fuel g vs vis ons with
  | Some true => cyclic g
  | Some false => exists vis' ons' fin', Outer g vis' ons' fin' /\ vis_mono vis vis' /\
                    forall v, In v vs -> get vis' v = true
  | None => True
  end.
Proof.
  intros g fuel. induction vs as [|v r IH]; intros vis ons fin Ho.
  - simpl. exists vis, ons, fin. split; [exact Ho|]. split; [intros w Hw; exact Hw|intros w []].
  - cbn [outer]. destruct (get vis v) eqn:Hv.
    + specialize (IH vis ons fin Ho). destruct (outer fuel g r vis ons) as [[|]|]; auto.
      destruct IH as [vis' [ons' [fin' [Ho' [Hm Hall]]]]]. exists vis', ons', fin'.
      split; [exact Ho'|]. split; [exact Hm|]. intros w [<-|Hw]; [apply Hm; exact Hv|apply Hall; exact Hw].
    + pose proof (inner_init_correct g fuel vis ons fin v Ho Hv) as IC.
      destruct (inner fuel g {| c_stack := [v]; c_vis := vis; c_ons := ons |}) as [|vis1 ons1|]; auto.
      destruct IC as [[fin1 Ho1] [Hm1 Hv1]].
      specialize (IH vis1 ons1 fin1 Ho1). destruct (outer fuel g r vis1 ons1) as [[|]|]; auto.
      destruct IH as [vis' [ons' [fin' [Ho' [Hm Hall]]]]]. exists vis', ons', fin'.
      split; [exact Ho'|]. split; [intros w Hw; apply Hm, Hm1, Hw|].
      intros w [<-|Hw]; [apply Hm; exact Hv1|apply Hall; exact Hw].
Qed.

Lemma outer_start : forall g n, Outer g (repeat false n) (repeat false n) [].
Proof.
  intros g n. constructor.
  - exact I.
  - constructor.
  - intros v. rewrite get_repeat_false. simpl. split; [discriminate|intros []].
  - intros v. rewrite get_repeat_false. simpl. split; [discriminate|intros [[]|[]]].
  - intros v [].
  - constructor.
  - exact I.
Qed.

(* T1.1  the answer of the literal algorithm is the truth, for every graph and every fuel on
   which the run returns *)
Theorem has_cycle_correct : forall g fuel b, has_cycle_fuel fuel g = Some b -> (b = true <-> cyclic g).
Proof.
  intros g fuel b H. unfold has_cycle_fuel in H.
  pose proof (outer_correct g fuel (nodes g) _ _ [] (outer_start g (length g))) as OC.
  rewrite H in OC. destruct b.
  - split; auto.
  - split; [discriminate|]. intros Hc. exfalso.
    destruct OC as [vis' [ons' [fin' [[_ _ _ Hvis _ Hndf Htopo] [_ Hall]]]]].
    eapply topo_all_acyclic; [exact Htopo|exact Hndf| |exact Hc].
    intros v Hv. assert (Hin : In v (nodes g)) by (apply in_seq; lia).
    apply Hall in Hin. apply Hvis in Hin. destruct Hin as [[]|Hin]. exact Hin.
Qed.

(* a `False` answer comes with a finishing order of all nodes *)
Theorem has_cycle_false_topo : forall g fuel, has_cycle_fuel fuel g = Some false ->
  exists fin, topo g fin /\ NoDup fin /\ forall v, v < length g -> In v fin.
Proof.
  intros g fuel H. unfold has_cycle_fuel in H.
  pose proof (outer_correct g fuel (nodes g) _ _ [] (outer_start g (length g))) as OC.
  rewrite H in OC. destruct OC as [vis' [ons' [fin' [[_ _ _ Hvis _ Hndf Htopo] [_ Hall]]]]].
  exists fin'. split; [exact Htopo|]. split; [exact Hndf|].
  intros v Hv. assert (Hin : In v (nodes g)) by (apply in_seq; lia).
  apply Hall in Hin. apply Hvis in Hin. destruct Hin as [[]|Hin]. exact Hin.
Qed.

(* ---------------------------------------------------------------------------------------- *)
(* termination                                                                               *)
(* ---------------------------------------------------------------------------------------- *)
Definition in_range (g : dg) (stk : list nat) : Prop := forall x, In x stk -> x < length g.

Lemma inner_terminates : forall g, wf g -> forall fuel s fr fin,
  Inv g s fr fin -> in_range g (c_stack s) -> phi g (c_stack s) (c_vis s) < fuel ->
  inner fuel g s <> CFuel.
Proof.
  intros g Hwf. induction fuel as [|k IH]; intros s fr fin HI Hr Hphi; [lia|].
  cbn [inner]. destruct (c_stack s) as [|cur rest] eqn:Hstk; [discriminate|].
  pose proof (cbody_step g s fr fin cur rest HI Hstk) as St.
  destruct (cbody g cur rest (c_vis s) (c_ons s)) as [s'|]; [|discriminate].
  destruct St as [[fr' [fin' HI']] [_ [Hdec Hincl]]].
  assert (Hcur : cur < length g) by (apply Hr; left; reflexivity).
  apply (IH s' fr' fin' HI').
  - intros x Hx. apply Hincl in Hx. rewrite Hstk in Hx. apply in_app_or in Hx.
    destruct Hx as [Hx|Hx]; [eapply Hwf; exact Hx|apply Hr; exact Hx].
  - specialize (Hdec Hcur). rewrite Hstk in Hdec. lia.
Qed.

Lemma inner_init_terminates : forall g, wf g -> forall fuel vis ons fin v,
  Outer g vis ons fin -> get vis v = false -> v < length g -> length g + n_edges g + 2 <= fuel ->
  inner fuel g {| c_stack := [v]; c_vis := vis; c_ons := ons |} <> CFuel.
Proof.
  intros g Hwf [|k] vis ons fin v Ho Hv Hlt Hfuel; [lia|].
  cbn [inner c_stack c_vis c_ons].
  pose proof (cbody_init g vis ons fin v Ho Hv) as St.
  destruct (cbody g v [] vis ons) as [s'|]; [|discriminate].
  destruct St as [[fr' [fin' HI']] [_ [Hdec Hincl]]].
  apply (inner_terminates g Hwf k s' fr' fin' HI').
  - intros x Hx. apply Hincl in Hx. apply in_app_or in Hx.
    destruct Hx as [Hx|[<-|[]]]; [eapply Hwf; exact Hx|exact Hlt].
  - specialize (Hdec Hlt). unfold phi in Hdec at 2. simpl length in Hdec.
    pose proof (wsum_bound vis g 0). unfold n_edges in Hfuel. lia.
Qed.

Lemma outer_terminates : forall g, wf g -> forall fuel, length g + n_edges g + 2 <= fuel ->
  forall vs vis ons fin, Outer g vis ons fin -> (forall v, In v vs -> v < length g) ->
  outer fuel g vs vis ons <> None.
Proof.
  intros g Hwf fuel Hfuel. induction vs as [|v r IH]; intros vis ons fin Ho Hr; [discriminate|].
  cbn [outer]. destruct (get vis v) eqn:Hv.
  - eapply IH; [exact Ho|]. intros w Hw. apply Hr. right. exact Hw.
  - pose proof (inner_init_terminates g Hwf fuel vis ons fin v Ho Hv (Hr v (or_introl eq_refl)) Hfuel) as T.
    pose proof (inner_init_correct g fuel vis ons fin v Ho Hv) as IC.
    destruct (inner fuel g {| c_stack := [v]; c_vis := vis; c_ons := ons |}) as [|vis1 ons1|];
      [discriminate| |congruence].
    destruct IC as [[fin1 Ho1] _]. eapply IH; [exact Ho1|]. intros w Hw. apply Hr. right. exact Hw.
Qed.

(* T1.2  never a hang: the stated fuel (and any larger one) suffices on closed graphs *)
Theorem has_cycle_fuel_suffices : forall g fuel, wf g -> length g + n_edges g + 2 <= fuel ->
  exists b, has_cycle_fuel fuel g = Some b.
Proof.
  intros g fuel Hwf Hfuel. unfold has_cycle_fuel.
  pose proof (outer_terminates g Hwf fuel Hfuel (nodes g) _ _ [] (outer_start g (length g))) as T.
  destruct (outer fuel g (nodes g) (repeat false (length g)) (repeat false (length g))) as [b|].
  - exists b. reflexivity.
  - exfalso. apply T; [|reflexivity]. intros v Hv. apply in_seq in Hv. lia.
Qed.

Theorem has_cycle_terminates : forall g, wf g -> exists b, has_cycle g = Some b.
Proof.
  intros g Hwf. apply has_cycle_fuel_suffices; [exact Hwf|]. unfold cycle_fuel. lia.
Qed.

(* the query as used by the other models: total on closed graphs and correct *)
Theorem has_cycle_iff : forall g, wf g -> (has_cycle g = Some true <-> cyclic g) /\ (has_cycle g = Some false <-> ~ cyclic g).
Proof.
  intros g Hwf. destruct (has_cycle_terminates g Hwf) as [b Hb].
  pose proof (has_cycle_correct g _ b Hb) as C. rewrite Hb. destruct b.
  - split; split; intros H.
    + apply C. reflexivity.
    + reflexivity.
    + discriminate.
    + exfalso. apply H. apply C. reflexivity.
  - split; split; intros H.
    + discriminate.
    + apply C in H. discriminate.
    + intros Hc. apply C in Hc. discriminate.
    + reflexivity.
Qed.
