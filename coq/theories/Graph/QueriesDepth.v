(* C12 - node_depth and LinkedGraph.depth (models: Queries.dexplore / nd_nodes / depth):
   -1 exactly when a cycle is reachable, otherwise the number of nodes on a longest path. *)
From Coq Require Import List Arith Bool ZArith Lia.
From GolemV Require Import Base.Closure Graph.QueriesSpec Graph.Queries Graph.QueriesBasics
  Graph.QueriesCycle Graph.QueriesLocal.
Import ListNotations.

(* ---------------------------------------------------------------------------------------- *)
(* heights                                                                                   *)
(* ---------------------------------------------------------------------------------------- *)
Lemma height_unique : forall g v a b, height g v a -> height g v b -> a = b.
Proof.
  intros g v a b [[la [Ha Ea]] Ua] [[lb [Hb Eb]] Ub].
  specialize (Ua lb Hb). specialize (Ub la Ha). lia.
Qed.

Lemma height_pos : forall g v k, height g v k -> exists H, k = S H.
Proof. intros g v k [[l [_ E]] _]. exists (length l). auto. Qed.

(* paths through a reachable cycle are arbitrarily long *)
Lemma plus_gpath : forall g v w, plus g v w -> exists l, l <> [] /\ gpath g v l /\ last l v = w.
Proof.
  intros g v w [p [E R]]. destruct (reach_gpath g p w R) as [l [Hl Hlast]].
  exists (p :: l). split; [discriminate|]. split; [simpl; auto|]. rewrite last_cons. exact Hlast.
Qed.

Lemma cycle_pump : forall g w b, gpath g w b -> last b w = w -> forall j,
  exists l, gpath g w l /\ last l w = w /\ j * length b <= length l.
Proof.
  intros g w b Hb Hl. induction j as [|j [l [H1 [H2 H3]]]].
  - exists []. simpl. auto.
  - exists (b ++ l). split; [apply gpath_app; rewrite Hl; auto|]. split.
    + destruct l as [|x l]; [rewrite app_nil_r; exact Hl|].
      rewrite last_app_cons. rewrite last_cons in H2. exact H2.
    + rewrite app_length. simpl. lia.
Qed.

Lemma cycle_from_unbounded : forall g v, cycle_from g v -> forall k, exists l, gpath g v l /\ k <= length l.
Proof.
  intros g v [w [R C]] k. destruct (reach_gpath g v w R) as [a [Ha Hla]].
  destruct (plus_gpath g w w C) as [b [Hne [Hb Hlb]]].
  destruct (cycle_pump g w b Hb Hlb k) as [l [H1 [_ H3]]].
  exists (a ++ l). split; [apply gpath_app; rewrite Hla; auto|].
  rewrite app_length. destruct b; [congruence|]. simpl in H3. nia.
Qed.

Lemma bounded_no_cycle : forall g v k, (forall l, gpath g v l -> S (length l) <= k) -> ~ cycle_from g v.
Proof.
  intros g v k H C. destruct (cycle_from_unbounded g v C k) as [l [Hl Hk]]. specialize (H l Hl). lia.
Qed.

Lemma height_no_cycle : forall g v k, height g v k -> ~ cycle_from g v.
Proof. intros g v k [_ H]. eapply bounded_no_cycle. exact H. Qed.

(* H is the largest height among the nodes ps (0 when there are none) *)
Definition hmax (g : dg) (ps : list nat) (H : nat) : Prop :=
  (forall p, In p ps -> exists d, height g p d /\ d <= H) /\
  (ps = [] -> H = 0) /\
  (ps <> [] -> exists p, In p ps /\ height g p H).

Lemma hmax_nil : forall g, hmax g [] 0.
Proof. intros g. split; [intros p []|]. split; [reflexivity|congruence]. Qed.

Lemma hmax_snoc : forall g done H p d, hmax g done H -> height g p d -> hmax g (done ++ [p]) (Nat.max H d).
Proof.
  intros g done H p d [H1 [H2 H3]] Hp. split; [|split].
  - intros q Hq. apply in_app_or in Hq. destruct Hq as [Hq|[<-|[]]].
    + destruct (H1 q Hq) as [dq [Hh Hle]]. exists dq. split; [exact Hh|lia].
    + exists d. split; [exact Hp|lia].
  - intros E. destruct done; discriminate.
  - intros _. destruct done as [|x done].
    + rewrite (H2 eq_refl). simpl. exists p. split; [left; reflexivity|exact Hp].
    + destruct (le_lt_dec d H) as [Hle|Hlt].
      * rewrite Nat.max_l by exact Hle. destruct H3 as [q [Hq Hh]]; [discriminate|].
        exists q. split; [apply in_or_app; left; exact Hq|exact Hh].
      * rewrite Nat.max_r by lia. exists p. split; [apply in_or_app; right; left; reflexivity|exact Hp].
Qed.

Lemma height_of_hmax : forall g v H, hmax g (parents g v) H -> height g v (S H).
Proof.
  intros g v H [H1 [H2 H3]]. split.
  - destruct (parents g v) as [|x r] eqn:E.
    + exists []. split; [exact I|]. rewrite (H2 eq_refl). reflexivity.
    + destruct H3 as [p [Hp [[l [Hl El]] _]]]; [discriminate|].
      exists (p :: l). split; [|simpl; lia]. simpl. split; [unfold edge; rewrite E; exact Hp|exact Hl].
  - intros [|p l] Hl; [simpl; lia|]. simpl in Hl. destruct Hl as [E Hl].
    destruct (H1 p E) as [d [[_ Ud] Hle]]. specialize (Ud l Hl). simpl. lia.
Qed.

(* ---------------------------------------------------------------------------------------- *)
(* the exploration of one node                                                               *)
(* ---------------------------------------------------------------------------------------- *)
Definition fd_ok (g : dg) (fd : list (nat * nat)) : Prop := forall u d, In (u, d) fd -> height g u d.

Lemma lookup_In : forall k fd d, lookup k fd = Some d -> In (k, d) fd.
Proof.
  intros k. induction fd as [|[k' v] fd IH]; intros d H; [discriminate|].
  simpl in H. destruct (Nat.eqb k k') eqn:E.
  - apply Nat.eqb_eq in E. injection H as ->. subst. left. reflexivity.
  - right. apply IH. exact H.
Qed.

Definition DPre (g : dg) (cur : nat) (path : list nat) : Prop :=
  In cur path /\ forall x, In x path -> reach g x cur.

Definition DPost (g : dg) (cur dn : nat) (sub : list nat) (maxd : nat) (r : dres) : Prop :=
  match r with
  | DOk sub' m' => exists H, height g cur (S H) /\ m' = Nat.max maxd (dn + H) /\
                     (forall s, In s sub' -> In s sub \/ plus g cur s) /\ incl sub sub'
  | DCycle => cycle_from g cur
  | DFuel => True
  end.

Definition drec_ok (g : dg) (rec : nat -> nat -> list nat -> list nat -> nat -> dres) : Prop :=
  forall p dn path sub maxd, DPre g p path -> DPost g p dn sub maxd (rec p dn path sub maxd).

Lemma dloop_ok : forall g fd rec, fd_ok g fd -> drec_ok g rec ->
  forall cur path dn sub maxd, DPre g cur path ->
  forall ps done sub_i maxd_i H,
    parents g cur = done ++ ps -> hmax g done H ->
    Nat.max maxd_i dn = Nat.max maxd (dn + H) ->
    (forall s, In s sub_i -> In s sub \/ plus g cur s) -> incl sub sub_i ->
    DPost g cur dn sub maxd (dloop rec fd ps dn path sub_i maxd_i).
Proof.
  intros g fd rec Hfd Hrec cur path dn sub maxd [Hcur Hpath].
  induction ps as [|p r IH]; intros done sub_i maxd_i H Hps Hmax Hq Hsub Hinc.
  - cbn [dloop DPost]. exists H. rewrite app_nil_r in Hps.
    split; [apply height_of_hmax; rewrite Hps; exact Hmax|]. split; [exact Hq|]. split; [exact Hsub|exact Hinc].
  - cbn [dloop].
    assert (Hedge : edge g cur p) by (unfold edge; rewrite Hps; apply in_or_app; right; left; reflexivity).
    assert (Hps' : parents g cur = (done ++ [p]) ++ r) by (rewrite <- app_assoc; exact Hps).
    assert (Hsub1 : forall s, In s (p :: sub_i) -> In s sub \/ plus g cur s).
    { intros s [<-|Hs]; [right; exists p; split; [exact Hedge|apply reach_refl]|apply Hsub; exact Hs]. }
    destruct (memb p path) eqn:Hpp.
    + apply memb_iff in Hpp. cbn [DPost]. exists cur. split; [apply reach_refl|].
      exists p. split; [exact Hedge|apply Hpath; exact Hpp].
    + destruct (lookup p fd) as [d|] eqn:Hl.
      * apply lookup_In in Hl. apply Hfd in Hl.
        apply (IH (done ++ [p]) (p :: sub_i) (Nat.max maxd_i (dn + d)) (Nat.max H d)); auto.
        -- apply hmax_snoc; assumption.
        -- lia.
        -- intros x Hx. right. apply Hinc. exact Hx.
      * assert (Hpre : DPre g p (p :: path)).
        { split; [left; reflexivity|]. intros x [<-|Hx]; [apply reach_refl|].
          eapply reach_snoc; [apply Hpath; exact Hx|exact Hedge]. }
        pose proof (Hrec p (dn + 1) (p :: path) (p :: sub_i) maxd_i Hpre) as Hp.
        destruct (rec p (dn + 1) (p :: path) (p :: sub_i) maxd_i) as [sub2 m2| |]; cbn [DPost] in Hp |- *.
        -- destruct Hp as [Hp' [Hh [-> [Hs2 Hinc2]]]].
           apply (IH (done ++ [p]) sub2 (Nat.max maxd_i (dn + 1 + Hp')) (Nat.max H (S Hp'))); auto.
           ++ apply hmax_snoc; assumption.
           ++ lia.
           ++ intros s Hs. destruct (Hs2 s Hs) as [Hs'|Hs']; [apply Hsub1; exact Hs'|].
              right. eapply reach_plus; [apply reach_edge; exact Hedge|exact Hs'].
           ++ intros x Hx. apply Hinc2. right. apply Hinc. exact Hx.
        -- eapply cycle_from_step; eauto.
        -- exact I.
Qed.

Lemma dexplore_ok : forall g fd, fd_ok g fd -> forall fuel, drec_ok g (dexplore fuel g fd).
Proof.
  intros g fd Hfd. induction fuel as [|k IH]; intros cur dn path sub maxd Hpre; [exact I|].
  cbn [dexplore].
  apply (dloop_ok g fd (dexplore k g fd) Hfd IH cur path dn sub maxd Hpre (parents g cur) [] sub maxd 0).
  - reflexivity.
  - apply hmax_nil.
  - rewrite Nat.add_0_r. reflexivity.
  - intros s Hs. left. exact Hs.
  - apply incl_refl.
Qed.

(* fuel: the recursion depth is bounded by the number of nodes *)
Definition drec_fuel_ok (g : dg) (m : nat) (rec : nat -> nat -> list nat -> list nat -> nat -> dres) : Prop :=
  forall p dn path sub maxd, NoDup path -> (forall x, In x path -> x < length g) -> m <= length path ->
    rec p dn path sub maxd <> DFuel.

Lemma dloop_fuel : forall g m rec fd, drec_fuel_ok g (S m) rec ->
  forall ps dn path sub maxd, (forall x, In x ps -> x < length g) ->
    NoDup path -> (forall x, In x path -> x < length g) -> m <= length path ->
    dloop rec fd ps dn path sub maxd <> DFuel.
Proof.
  intros g m rec fd Hrec. induction ps as [|p r IH]; intros dn path sub maxd Hps Hnd Hrng Hm.
  - cbn [dloop]. discriminate.
  - cbn [dloop]. assert (Hr : forall x, In x r -> x < length g) by (intros x Hx; apply Hps; right; exact Hx).
    destruct (memb p path) eqn:Hpp; [discriminate|]. apply memb_false_iff in Hpp.
    destruct (lookup p fd); [apply IH; assumption|].
    assert (Hp : rec p (dn + 1) (p :: path) (p :: sub) maxd <> DFuel).
    { apply Hrec; [constructor; assumption| |simpl; lia].
      intros x [<-|Hx]; [apply Hps; left; reflexivity|apply Hrng; exact Hx]. }
    destruct (rec p (dn + 1) (p :: path) (p :: sub) maxd); [apply IH; assumption|discriminate|congruence].
Qed.

Lemma dexplore_fuel : forall g fd, wf g -> forall fuel m, length g < fuel + m -> drec_fuel_ok g m (dexplore fuel g fd).
Proof.
  intros g fd Hwf. induction fuel as [|k IH]; intros m Hlt p dn path sub maxd Hnd Hrng Hm.
  - exfalso. assert (length path <= length (seq 0 (length g))).
    { apply NoDup_incl_length; [exact Hnd|]. intros x Hx. apply in_seq. specialize (Hrng x Hx). lia. }
    rewrite seq_length in H. lia.
  - cbn [dexplore]. apply (dloop_fuel g m (dexplore k g fd)); auto.
    + apply IH. lia.
    + intros x Hx. eapply Hwf. exact Hx.
Qed.

(* ---------------------------------------------------------------------------------------- *)
(* the loop over the queried nodes                                                           *)
(* ---------------------------------------------------------------------------------------- *)
Lemma dict_set_In : forall k v fd x, In x (dict_set k v fd) -> x = (k, v) \/ In x fd.
Proof.
  intros k v. induction fd as [|[k' v'] fd IH]; intros x H.
  - destruct H as [<-|[]]. left. reflexivity.
  - simpl in H. destruct (Nat.eqb k k').
    + destruct H as [<-|H]; [left; reflexivity|right; right; exact H].
    + destruct H as [<-|H]; [right; left; reflexivity|].
      destruct (IH x H); [left; assumption|right; right; assumption].
Qed.

Lemma dict_set_has : forall k v fd, In (k, v) (dict_set k v fd).
Proof.
  intros k v. induction fd as [|[k' v'] fd IH]; simpl; [left; reflexivity|].
  destruct (Nat.eqb k k'); [left; reflexivity|right; exact IH].
Qed.

Lemma dict_set_keeps : forall k v fd u d, In (u, d) fd -> exists d', In (u, d') (dict_set k v fd).
Proof.
  intros k v. induction fd as [|[k' v'] fd IH]; intros u d H; [contradiction|].
  simpl. destruct (Nat.eqb k k') eqn:E.
  - apply Nat.eqb_eq in E. subst k'. destruct H as [H|H].
    + injection H as -> ->. exists v. left. reflexivity.
    + exists d. right. exact H.
  - destruct H as [H|H].
    + exists d. left. exact H.
    + destruct (IH u d H) as [d' Hd']. exists d'. right. exact Hd'.
Qed.

(* state of the loop: entries of final_depth are heights of queried nodes; every member of
   subnodes is a proper ancestor of a node that has an entry *)
Record NdInv (g : dg) (all : list nat) (fd : list (nat * nat)) (sub : list nat) : Prop := {
  nd_fd : forall u d, In (u, d) fd -> height g u d /\ In u all;
  nd_sub : forall s, In s sub -> exists u d, In (u, d) fd /\ plus g u s }.

Definition covered (fd : list (nat * nat)) (sub : list nat) (v : nat) : Prop :=
  (exists d, In (v, d) fd) \/ In v sub.

Lemma nd_nodes_ok : forall g fuel all vs fd sub pd,
  NdInv g all fd sub -> (forall v, In v pd -> covered fd sub v) -> all = pd ++ vs ->
  match nd_nodes fuel g vs fd sub with
  | Ok z => (z = (-1)%Z /\ exists v, In v all /\ cycle_from g v) \/
            (exists k, z = Z.of_nat k /\ lheight g all k)
  | Raise => all = []
  | OutOfFuel => True
  end.
Proof.
  intros g fuel all. induction vs as [|v r IH]; intros fd sub pd Hinv Hcov Hall.
  - cbn [nd_nodes]. rewrite app_nil_r in Hall. subst pd. destruct fd as [|e fd'] eqn:Efd.
    + destruct all as [|a all']; [reflexivity|]. exfalso.
      destruct (Hcov a (or_introl eq_refl)) as [[d []]|Hs].
      destruct (nd_sub _ _ _ _ Hinv a Hs) as [u [d [[] _]]].
    + rewrite <- Efd in *. right. exists (fold_right Nat.max 0 (map snd fd)). split; [reflexivity|].
      assert (Hne : map snd fd <> []) by (rewrite Efd; discriminate).
      split.
      * pose proof (fold_max_in _ Hne) as Hin. apply in_map_iff in Hin. destruct Hin as [[u d] [Ed Hin]].
        simpl in Ed. destruct (nd_fd _ _ _ _ Hinv u d Hin) as [[[l [Hl El]] _] Hu].
        exists u, l. split; [exact Hu|]. split; [exact Hl|]. lia.
      * intros a l Ha Hl. destruct (Hcov a Ha) as [[d Hd]|Hs].
        -- destruct (nd_fd _ _ _ _ Hinv a d Hd) as [[_ Ub] _]. specialize (Ub l Hl).
           assert (d <= fold_right Nat.max 0 (map snd fd)).
           { apply fold_max_ge. apply in_map_iff. exists (a, d). auto. }
           lia.
        -- destruct (nd_sub _ _ _ _ Hinv a Hs) as [u [d [Hd Hp]]].
           destruct (nd_fd _ _ _ _ Hinv u d Hd) as [[_ Ub] _].
           destruct (plus_gpath g u a Hp) as [b [Hne2 [Hb Hlb]]].
           specialize (Ub (b ++ l)). rewrite app_length in Ub.
           assert (S (length b + length l) <= d) by (apply Ub; apply gpath_app; rewrite Hlb; auto).
           assert (d <= fold_right Nat.max 0 (map snd fd)).
           { apply fold_max_ge. apply in_map_iff. exists (u, d). auto. }
           lia.
  - cbn [nd_nodes].
    assert (Hall' : all = (pd ++ [v]) ++ r) by (rewrite <- app_assoc; exact Hall).
    assert (Hv : In v all) by (rewrite Hall; apply in_or_app; right; left; reflexivity).
    destruct (memb v sub) eqn:Hvs.
    + apply memb_iff in Hvs. apply (IH fd sub (pd ++ [v])); auto.
      intros w Hw. apply in_app_or in Hw. destruct Hw as [Hw|[<-|[]]]; [apply Hcov; exact Hw|right; exact Hvs].
    + assert (Hfd : fd_ok g fd) by (intros u d Hd; apply (nd_fd _ _ _ _ Hinv u d Hd)).
      assert (Hpre : DPre g v [v]).
      { split; [left; reflexivity|]. intros x [<-|[]]. apply reach_refl. }
      pose proof (dexplore_ok g fd Hfd fuel v 1 [v] sub 0 Hpre) as P.
      destruct (dexplore fuel g fd v 1 [v] sub 0) as [sub' m| |]; cbn [DPost] in P.
      * destruct P as [H [Hh [-> [Hs' Hinc']]]]. replace (Nat.max 0 (1 + H)) with (S H) by lia.
        apply (IH (dict_set v (S H) fd) sub' (pd ++ [v])); auto.
        -- constructor.
           ++ intros u d Hd. apply dict_set_In in Hd. destruct Hd as [E|Hd].
              ** injection E as -> ->. auto.
              ** apply (nd_fd _ _ _ _ Hinv u d Hd).
           ++ intros s Hs. destruct (Hs' s Hs) as [Ho|Hp].
              ** destruct (nd_sub _ _ _ _ Hinv s Ho) as [u [d [Hd Hp]]].
                 destruct (dict_set_keeps v (S H) fd u d Hd) as [d' Hd']. exists u, d'. auto.
              ** exists v, (S H). split; [apply dict_set_has|exact Hp].
        -- intros w Hw. apply in_app_or in Hw. destruct Hw as [Hw|[<-|[]]].
           ++ destruct (Hcov w Hw) as [[d Hd]|Hs].
              ** left. eapply dict_set_keeps. exact Hd.
              ** right. apply Hinc'. exact Hs.
           ++ left. exists (S H). apply dict_set_has.
      * left. split; [reflexivity|]. exists v. auto.
      * exact I.
Qed.

(* ---------------------------------------------------------------------------------------- *)
(* node_depth: soundness for every fuel, totality, and the iff statements                    *)
(* ---------------------------------------------------------------------------------------- *)
Theorem node_depth_fuel_sound : forall g fuel vs z, node_depth_fuel fuel g vs = Ok z ->
  (z = (-1)%Z /\ exists v, In v vs /\ cycle_from g v) \/ (exists k, z = Z.of_nat k /\ lheight g vs k).
Proof.
  intros g fuel vs z H. unfold node_depth_fuel in H.
  assert (Hinv : NdInv g vs [] []) by (constructor; [intros ? ? []|intros ? []]).
  pose proof (nd_nodes_ok g fuel vs vs [] [] [] Hinv (fun v (F : In v []) => match F with end) eq_refl) as P.
  rewrite H in P. exact P.
Qed.

Lemma nd_nodes_fuel : forall g, wf g -> forall vs fd sub, (forall v, In v vs -> v < length g) ->
  nd_nodes (S (length g)) g vs fd sub <> OutOfFuel.
Proof.
  intros g Hwf. induction vs as [|v r IH]; intros fd sub Hr.
  - cbn [nd_nodes]. destruct fd; discriminate.
  - cbn [nd_nodes]. assert (Hr' : forall w, In w r -> w < length g) by (intros w Hw; apply Hr; right; exact Hw).
    destruct (memb v sub); [apply IH; exact Hr'|].
    assert (F : dexplore (S (length g)) g fd v 1 [v] sub 0 <> DFuel).
    { apply (dexplore_fuel g fd Hwf (S (length g)) 1); [lia| | |simpl; lia].
      - constructor; [intros []|constructor].
      - intros x [<-|[]]. apply Hr. left. reflexivity. }
    destruct (dexplore (S (length g)) g fd v 1 [v] sub 0); [apply IH; exact Hr'|discriminate|congruence].
Qed.

Lemma lheight_no_cycle : forall g vs k, lheight g vs k -> forall v, In v vs -> ~ cycle_from g v.
Proof. intros g vs k [_ H] v Hv. apply (bounded_no_cycle g v k). intros l Hl. apply (H v l Hv Hl). Qed.

Lemma lheight_unique : forall g vs a b, lheight g vs a -> lheight g vs b -> a = b.
Proof.
  intros g vs a b [[va [la [Hva [Hla Ea]]]] Ua] [[vb [lb [Hvb [Hlb Eb]]]] Ub].
  specialize (Ua vb lb Hvb Hlb). specialize (Ub va la Hva Hla). lia.
Qed.

Lemma lheight_single : forall g v k, lheight g [v] k <-> height g v k.
Proof.
  intros g v k. unfold lheight, height. split.
  - intros [[w [l [[<-|[]] [Hl E]]]] U]. split; [exists l; auto|]. intros l' Hl'. apply (U v l'); [left; reflexivity|exact Hl'].
  - intros [[l [Hl E]] U]. split; [exists v, l; simpl; auto|]. intros w l' [<-|[]] Hl'. apply U. exact Hl'.
Qed.

(* T1.5 for a non-empty list of nodes: -1 iff a cycle is reachable from one of them, otherwise
   the number of nodes on the longest path starting in one of them *)
Theorem node_depth_list_correct : forall g vs, wf g -> (forall v, In v vs -> v < length g) -> vs <> [] ->
  (node_depth_list g vs = Ok (-1)%Z <-> exists v, In v vs /\ cycle_from g v) /\
  (forall k, node_depth_list g vs = Ok (Z.of_nat k) <-> lheight g vs k) /\
  ((forall v, In v vs -> ~ cycle_from g v) -> exists k, node_depth_list g vs = Ok (Z.of_nat k)).
Proof.
  intros g vs Hwf Hr Hne. unfold node_depth_list.
  pose proof (nd_nodes_fuel g Hwf vs [] [] Hr) as F.
  pose proof (node_depth_fuel_sound g (S (length g)) vs) as S0. unfold node_depth_fuel in *.
  assert (Hraise : nd_nodes (S (length g)) g vs [] [] <> Raise).
  { intros E. assert (Hinv : NdInv g vs [] []) by (constructor; [intros ? ? []|intros ? []]).
    pose proof (nd_nodes_ok g (S (length g)) vs vs [] [] [] Hinv (fun v (F : In v []) => match F with end) eq_refl) as P.
    rewrite E in P. contradiction. }
  destruct (nd_nodes (S (length g)) g vs [] []) as [z| |]; [|congruence|congruence].
  specialize (S0 z eq_refl). split; [|split].
  - split.
    + intros E. injection E as ->. destruct S0 as [[_ C]|[k [E _]]]; [exact C|lia].
    + intros [v [Hv C]]. destruct S0 as [[-> _]|[k [_ L]]]; [reflexivity|].
      exfalso. apply (lheight_no_cycle g vs k L v Hv C).
  - intros k. split.
    + intros E. injection E as ->. destruct S0 as [[E _]|[k' [E L]]]; [lia|].
      apply Nat2Z.inj in E. subst k'. exact L.
    + intros L. destruct S0 as [[_ [v [Hv C]]]|[k' [-> L']]].
      * exfalso. apply (lheight_no_cycle g vs k L v Hv C).
      * rewrite (lheight_unique g vs k k' L L'). reflexivity.
  - intros Hnc. destruct S0 as [[_ [v [Hv C]]]|[k [-> _]]].
    + exfalso. apply (Hnc v Hv C).
    + exists k. reflexivity.
Qed.

(* T1.5 for one node *)
Theorem node_depth_correct : forall g v, wf g -> v < length g ->
  (node_depth g v = Ok (-1)%Z <-> cycle_from g v) /\
  (forall k, node_depth g v = Ok (Z.of_nat k) <-> height g v k) /\
  (~ cycle_from g v -> exists k, node_depth g v = Ok (Z.of_nat k)).
Proof.
  intros g v Hwf Hv. unfold node_depth.
  assert (Hr : forall w, In w [v] -> w < length g) by (intros w [<-|[]]; exact Hv).
  destruct (node_depth_list_correct g [v] Hwf Hr ltac:(discriminate)) as [H1 [H2 H3]].
  split; [|split].
  - rewrite H1. split.
    + intros [w [[<-|[]] C]]. exact C.
    + intros C. exists v. split; [left; reflexivity|exact C].
  - intros k. rewrite H2. apply lheight_single.
  - intros C. apply H3. intros w [<-|[]]. exact C.
Qed.

(* ---------------------------------------------------------------------------------------- *)
(* LinkedGraph.depth                                                                         *)
(* ---------------------------------------------------------------------------------------- *)
Lemma topo_split : forall g a c b, topo g (a ++ c :: b) -> incl (parents g c) b.
Proof. intros g a c b H. apply topo_app_r in H. destruct H as [H _]. exact H. Qed.

(* in an acyclic graph every node is reached from a sink *)
Lemma sink_reaches_aux : forall g fin, wf g -> topo g fin -> NoDup fin -> (forall v, v < length g -> In v fin) ->
  forall a b, fin = a ++ b -> forall v, In v a -> v < length g -> exists s, sink g s /\ reach g s v.
Proof.
  intros g fin Hwf Htopo Hnd Hall. induction a as [|v a IH] using rev_ind; intros b Hfin w Hw Hlt; [contradiction|].
  rewrite <- app_assoc in Hfin. simpl in Hfin.
  apply in_app_or in Hw. destruct Hw as [Hw|[<-|[]]]; [apply (IH (v :: b) Hfin w Hw Hlt)|].
  destruct (sink_dec g v) as [S|NS]; [exists v; split; [exact S|apply reach_refl]|].
  destruct (not_sink_child g v Hlt NS) as [c [Hc E]].
  assert (Hvnot : ~ In v (a ++ b)) by (apply NoDup_remove_2; rewrite <- Hfin; exact Hnd).
  pose proof (Hall c Hc) as Hcin. rewrite Hfin in Hcin. apply in_app_or in Hcin.
  destruct Hcin as [Hca|[<-|Hcb]].
  - destruct (IH (v :: b) Hfin c Hca Hc) as [s [Hs R]]. exists s. split; [exact Hs|eapply reach_snoc; eauto].
  - exfalso. apply Hvnot. apply in_or_app. right.
    rewrite Hfin in Htopo. apply (topo_split g a v b Htopo). exact E.
  - exfalso. apply in_split in Hcb. destruct Hcb as [b1 [b2 ->]].
    apply Hvnot. apply in_or_app. right. apply in_or_app. right. right.
    assert (Hs : fin = (a ++ v :: b1) ++ c :: b2) by (rewrite Hfin, <- app_assoc; reflexivity).
    rewrite Hs in Htopo. apply (topo_split g _ c b2 Htopo). exact E.
Qed.

Lemma sink_reaches : forall g, wf g -> has_cycle g = Some false ->
  forall v, v < length g -> exists s, sink g s /\ reach g s v.
Proof.
  intros g Hwf H v Hv. destruct (has_cycle_false_topo g _ H) as [fin [Ht [Hnd Hall]]].
  apply (sink_reaches_aux g fin Hwf Ht Hnd Hall fin [] (eq_sym (app_nil_r fin)) v (Hall v Hv) Hv).
Qed.

(* a non-empty graph without sinks has a cycle *)
Lemma no_sink_cyclic : forall g, wf g -> g <> [] -> root_nodes g = [] -> cyclic g.
Proof.
  intros g Hwf Hne Hroots. destruct (has_cycle_terminates g Hwf) as [b Hb]. destruct b.
  - apply (has_cycle_correct g _ true Hb). reflexivity.
  - exfalso. assert (H0 : 0 < length g) by (destruct g; [congruence|simpl; lia]).
    destruct (sink_reaches g Hwf Hb 0 H0) as [s [Hs _]].
    apply root_nodes_spec in Hs. rewrite Hroots in Hs. exact Hs.
Qed.

Lemma gheight_no_cycle : forall g k, gheight g k -> ~ cyclic g.
Proof.
  intros g k [_ U] [v C]. assert (Hv : v < length g) by (destruct C as [p [E _]]; eapply edge_src_lt; eauto).
  apply (bounded_no_cycle g v k); [intros l Hl; apply (U v l Hv Hl)|].
  exists v. split; [apply reach_refl|exact C].
Qed.

Lemma roots_lheight : forall g k, wf g -> has_cycle g = Some false ->
  (lheight g (root_nodes g) k <-> gheight g k).
Proof.
  intros g k Hwf Hc. split.
  - intros [[v [l [Hv [Hl E]]]] U]. split.
    + exists v, l. apply root_nodes_spec in Hv. split; [apply Hv|auto].
    + intros w l' Hw Hl'. destruct (sink_reaches g Hwf Hc w Hw) as [s [Hs R]].
      destruct (reach_gpath g s w R) as [a [Ha Hla]].
      assert (P : gpath g s (a ++ l')) by (apply gpath_app; rewrite Hla; auto).
      apply root_nodes_spec in Hs. specialize (U s (a ++ l') Hs P). rewrite app_length in U. lia.
  - intros [[v [l [Hv [Hl E]]]] U]. split.
    + destruct (sink_reaches g Hwf Hc v Hv) as [s [Hs R]].
      destruct (reach_gpath g s v R) as [a [Ha Hla]].
      assert (P : gpath g s (a ++ l)) by (apply gpath_app; rewrite Hla; auto).
      pose proof (U s (a ++ l) (proj1 Hs) P) as B. rewrite app_length in B.
      exists s, (a ++ l). split; [apply root_nodes_spec; exact Hs|]. split; [exact P|].
      rewrite app_length. lia.
    + intros w l' Hw Hl'. apply root_nodes_spec in Hw. apply (U w l' (proj1 Hw) Hl').
Qed.

(* T1.6 *)
Theorem depth_correct : forall g, wf g ->
  (g = [] -> depth g = Ok 0%Z) /\
  (g <> [] -> (depth g = Ok (-1)%Z <-> cyclic g) /\
              (forall k, depth g = Ok (Z.of_nat k) <-> gheight g k) /\
              (~ cyclic g -> exists k, depth g = Ok (Z.of_nat k))).
Proof.
  intros g Hwf. split; [intros ->; reflexivity|]. intros Hne.
  unfold depth. destruct g as [|row g'] eqn:Eg; [congruence|]. rewrite <- Eg in *. clear Eg row g'.
  destruct (root_nodes g) as [|r0 rs] eqn:Er.
  - pose proof (no_sink_cyclic g Hwf Hne Er) as C. split; [|split].
    + tauto.
    + intros k. split; [intros E; injection E; lia|]. intros G. exfalso. apply (gheight_no_cycle g k G C).
    + intros NC. contradiction.
  - rewrite <- Er in *. destruct (has_cycle_terminates g Hwf) as [b Hb]. rewrite Hb.
    pose proof (has_cycle_correct g _ b Hb) as HC. destruct b.
    + assert (C : cyclic g) by (apply HC; reflexivity). split; [|split].
      * tauto.
      * intros k. split; [intros E; injection E; lia|]. intros G. exfalso. apply (gheight_no_cycle g k G C).
      * intros NC. contradiction.
    + assert (NC : ~ cyclic g) by (intros C; apply HC in C; discriminate).
      assert (Hr : forall v, In v (root_nodes g) -> v < length g) by (intros v Hv; apply root_nodes_spec in Hv; apply Hv).
      assert (Hrne : root_nodes g <> []) by (rewrite Er; discriminate).
      destruct (node_depth_list_correct g (root_nodes g) Hwf Hr Hrne) as [H1 [H2 H3]].
      split; [|split].
      * rewrite H1. split; [|intros C; contradiction].
        intros [v [_ C]]. eapply on_cycle_cyclic. exact C.
      * intros k. rewrite H2. apply roots_lheight; assumption.
      * intros _. apply H3. intros v _ C. apply NC. eapply on_cycle_cyclic. exact C.
Qed.

(* distance_to_primary_level = node_depth - 1, or -1 when a cycle is reachable *)
Theorem distance_to_primary_level_correct : forall g v, wf g -> v < length g ->
  (distance_to_primary_level g v = Ok (-1)%Z <-> cycle_from g v) /\
  (forall k, height g v (S k) -> distance_to_primary_level g v = Ok (Z.of_nat k)).
Proof.
  intros g v Hwf Hv. destruct (node_depth_correct g v Hwf Hv) as [H1 [H2 H3]].
  unfold distance_to_primary_level. split.
  - split.
    + intros E. destruct (node_depth g v) as [d| |] eqn:Ed; try discriminate.
      apply H1. f_equal. injection E as E. destruct (0 <? d)%Z eqn:L.
      * apply Z.ltb_lt in L. lia.
      * apply Z.ltb_ge in L.
        destruct (Z.eq_dec d (-1)) as [->|Hne]; [reflexivity|]. exfalso.
        assert (NC : ~ cycle_from g v) by (intros C; apply H1 in C; congruence).
        destruct (H3 NC) as [k Hk]. injection Hk as ->.
        assert (Hh : height g v k) by (apply H2; reflexivity).
        destruct (height_pos g v k Hh) as [h ->]. lia.
    + intros C. apply H1 in C. rewrite C. reflexivity.
  - intros k Hk. apply H2 in Hk. rewrite Hk.
    replace (0 <? Z.of_nat (S k))%Z with true by (symmetry; apply Z.ltb_lt; lia). f_equal. lia.
Qed.
