(* C12 - ordered_subnodes_hierarchy (model: Queries.subtree / hierarchy):
   raises ValueError exactly when a cycle is reachable from the node, otherwise returns the node
   followed by exactly its ancestors, each once.

   `visited` is kept by the model in finishing order (newest first); the proof shows it is a
   duplicate-free topological list at every moment, the nodes of `started` that are not in
   `visited` all reach the current node (they are the recursion path).                       *)
From Coq Require Import List Arith Bool ZArith Lia.
From GolemV Require Import Base.Closure Graph.QueriesSpec Graph.Queries Graph.QueriesBasics.
Import ListNotations.

Lemma NoDup_app_cons : forall (a b : list nat) p,
  NoDup a -> NoDup b -> ~ In p a -> ~ In p b -> (forall x, In x a -> ~ In x b) -> NoDup (a ++ p :: b).
Proof.
  induction a as [|y a IH]; simpl; intros b p Ha Hb Hpa Hpb Hd.
  - constructor; assumption.
  - inversion Ha as [|? ? Hy Ha']; subst. constructor.
    + intros Hin. apply in_app_or in Hin. destruct Hin as [Hin|[E|Hin]].
      * contradiction.
      * apply Hpa. left. symmetry. exact E.
      * apply (Hd y); [left; reflexivity|exact Hin].
    + apply IH; auto.
Qed.

Definition HPre (g : dg) (node : nat) (st vi : list nat) : Prop :=
  topo g vi /\ NoDup vi /\ In node st /\ ~ In node vi /\
  (forall x, In x st -> ~ In x vi -> reach g x node).

Definition HPost (g : dg) (node : nat) (st vi : list nat) (r : hres) : Prop :=
  match r with
  | HOk l st' vi' =>
      exists l' nv, l = node :: l' /\ vi' = nv ++ vi /\
        (forall x, In x l' <-> In x nv) /\ NoDup l' /\
        (forall x, In x l' -> ~ In x st) /\
        (forall x, In x st' <-> In x st \/ In x l') /\
        topo g vi' /\ NoDup vi' /\ incl (parents g node) vi' /\
        (forall x, In x l' -> plus g node x)
  | HRaise => cycle_from g node
  | HFuel => True
  end.

Definition rec_ok (g : dg) (rec : nat -> list nat -> list nat -> hres) : Prop :=
  forall p st vi, HPre g p st vi -> HPost g p st vi (rec p st vi).

(* the for loop over the parents; `done` = the parents already handled *)
Lemma hloop_ok : forall g rec, rec_ok g rec -> forall node st0 vi0, HPre g node st0 vi0 ->
  forall ps done acc st vi l' nv,
    parents g node = done ++ ps ->
    acc = node :: l' -> vi = nv ++ vi0 ->
    (forall x, In x l' <-> In x nv) -> NoDup l' ->
    (forall x, In x l' -> ~ In x st0) ->
    (forall x, In x st <-> In x st0 \/ In x l') ->
    topo g vi -> NoDup vi -> incl done vi ->
    (forall x, In x l' -> plus g node x) ->
    HPost g node st0 vi0 (hloop rec ps acc st vi).
Proof.
  intros g rec Hrec node st0 vi0 [Ht0 [Hnd0 [Hnode [Hnvi Hgrey]]]].
  induction ps as [|p r IH]; intros done acc st vi l' nv Hps Hacc Hvi Hlnv Hndl Hdisj Hst Htopo Hndv Hdone Hanc.
  - cbn [hloop HPost]. exists l', nv. rewrite app_nil_r in Hps. rewrite Hps. repeat split; auto; apply Hlnv || apply Hst.
  - cbn [hloop]. subst acc.
    assert (Hedge : edge g node p) by (unfold edge; rewrite Hps; apply in_or_app; right; left; reflexivity).
    assert (Hps' : parents g node = (done ++ [p]) ++ r) by (rewrite <- app_assoc; exact Hps).
    destruct (memb p vi) eqn:Hpv.
    + (* parent already visited *)
      apply memb_iff in Hpv.
      apply (IH (done ++ [p]) (node :: l') st vi l' nv); auto.
      intros x Hx. apply in_app_or in Hx. destruct Hx as [Hx|[<-|[]]]; auto.
    + apply memb_false_iff in Hpv. destruct (memb p st) eqn:Hpst.
      * (* started but not visited: p is on the recursion path, so it reaches node *)
        apply memb_iff in Hpst. cbn [HPost].
        assert (Hr : reach g p node).
        { apply Hst in Hpst. destruct Hpst as [H0|Hl].
          - apply Hgrey; [exact H0|]. intros Hin. apply Hpv. rewrite Hvi. apply in_or_app. right. exact Hin.
          - exfalso. apply Hpv. rewrite Hvi. apply in_or_app. left. apply Hlnv. exact Hl. }
        exists node. split; [apply reach_refl|]. exists p. split; [exact Hedge|exact Hr].
      * apply memb_false_iff in Hpst.
        assert (Hnode_st : In node st) by (apply Hst; left; exact Hnode).
        assert (Hnode_vi : ~ In node vi).
        { rewrite Hvi. intros Hin. apply in_app_or in Hin. destruct Hin as [Hin|Hin]; [|contradiction].
          apply Hlnv in Hin. apply (Hdisj node Hin Hnode). }
        assert (Hpre : HPre g p (p :: st) vi).
        { split; [exact Htopo|]. split; [exact Hndv|]. split; [left; reflexivity|]. split; [exact Hpv|].
          intros x [<-|Hx] Hxv; [apply reach_refl|].
          eapply reach_snoc; [|exact Hedge]. apply Hst in Hx. destruct Hx as [Hx|Hx].
          - apply Hgrey; [exact Hx|]. intros Hin. apply Hxv. rewrite Hvi. apply in_or_app. right. exact Hin.
          - exfalso. apply Hxv. rewrite Hvi. apply in_or_app. left. apply Hlnv. exact Hx. }
        pose proof (Hrec p (p :: st) vi Hpre) as Hp.
        destruct (rec p (p :: st) vi) as [lp st' vi'| |]; cbn [HPost] in Hp |- *.
        -- destruct Hp as [lp' [nvp [-> [-> [Hlnvp [Hndp [Hdisjp [Hstp [Htp [Hndvp [Hinclp Hancp]]]]]]]]]]].
           assert (Hp_l' : ~ In p l') by (intros Hin; apply Hpst; apply Hst; right; exact Hin).
           assert (Hp_lp' : ~ In p lp') by (intros Hin; apply (Hdisjp p Hin); left; reflexivity).
           apply (IH (done ++ [p]) ((node :: l') ++ p :: lp') st' (p :: nvp ++ vi) (l' ++ p :: lp') (p :: nvp ++ nv)).
           ++ exact Hps'.
           ++ reflexivity.
           ++ rewrite Hvi. simpl. rewrite <- app_assoc. reflexivity.
           ++ intros x. rewrite in_app_iff. simpl. rewrite in_app_iff, Hlnv, Hlnvp. tauto.
           ++ apply NoDup_app_cons; auto.
              intros x Hx Hin. apply (Hdisjp x Hin). right. apply Hst. right. exact Hx.
           ++ intros x Hx. apply in_app_or in Hx. destruct Hx as [Hx|[<-|Hx]].
              ** apply Hdisj. exact Hx.
              ** intros Hin. apply Hpst. apply Hst. left. exact Hin.
              ** intros Hin. apply (Hdisjp x Hx). right. apply Hst. left. exact Hin.
           ++ intros x. rewrite Hstp. simpl. rewrite Hst, in_app_iff. simpl. split.
              ** intros [[<-|[H|H]]|H]; auto.
              ** intros [H|[H|[<-|H]]]; auto.
           ++ simpl. split; [exact Hinclp|exact Htp].
           ++ constructor; [|exact Hndvp]. intros Hin. apply in_app_or in Hin. destruct Hin as [Hin|Hin].
              ** apply Hp_lp'. apply Hlnvp. exact Hin.
              ** contradiction.
           ++ intros x Hx. apply in_app_or in Hx. destruct Hx as [Hx|[<-|[]]].
              ** right. apply in_or_app. right. apply Hdone. exact Hx.
              ** left. reflexivity.
           ++ intros x Hx. apply in_app_or in Hx. destruct Hx as [Hx|[<-|Hx]].
              ** apply Hanc. exact Hx.
              ** exists p. split; [exact Hedge|apply reach_refl].
              ** eapply reach_plus; [apply reach_edge; exact Hedge|apply Hancp; exact Hx].
        -- eapply cycle_from_step; eauto.
        -- exact I.
Qed.

Lemma subtree_ok : forall g fuel, rec_ok g (subtree fuel g).
Proof.
  intros g. induction fuel as [|k IH]; intros node st vi Hpre; [exact I|].
  cbn [subtree].
  apply (hloop_ok g (subtree k g) IH node st vi Hpre (parents g node) [] [node] st vi [] []).
  - reflexivity.
  - reflexivity.
  - reflexivity.
  - intros x. simpl. tauto.
  - constructor.
  - intros x [].
  - intros x. simpl. tauto.
  - apply Hpre.
  - apply Hpre.
  - intros x [].
  - intros x [].
Qed.

(* T1.4 soundness and completeness of both outcomes, for every fuel on which the run returns *)
Theorem hierarchy_raise : forall g fuel v, hierarchy_fuel fuel g v = Raise -> cycle_from g v.
Proof.
  intros g fuel v H. unfold hierarchy_fuel in H.
  assert (Hpre : HPre g v [v] []).
  { repeat split; simpl; auto; try constructor. intros x [<-|[]] _. apply reach_refl. }
  pose proof (subtree_ok g fuel v [v] [] Hpre) as P.
  destruct (subtree fuel g v [v] []); try discriminate. exact P.
Qed.

Theorem hierarchy_ok : forall g fuel v l, hierarchy_fuel fuel g v = Ok l ->
  ~ cycle_from g v /\ NoDup l /\ exists l', l = v :: l' /\ forall x, In x l' <-> ancestor g v x.
Proof.
  intros g fuel v l H. unfold hierarchy_fuel in H.
  assert (Hpre : HPre g v [v] []).
  { repeat split; simpl; auto; try constructor. intros x [<-|[]] _. apply reach_refl. }
  pose proof (subtree_ok g fuel v [v] [] Hpre) as P.
  destruct (subtree fuel g v [v] []) as [l0 st' vi'| |]; try discriminate.
  injection H as ->. cbn [HPost] in P.
  destruct P as [l' [nv [-> [-> [Hlnv [Hnd [Hdisj [_ [Htopo [Hndv [Hincl Hanc]]]]]]]]]]].
  rewrite app_nil_r in *.
  assert (Hv : ~ In v l') by (intros Hin; apply (Hdisj v Hin); left; reflexivity).
  assert (Hclosed : forall x, plus g v x -> In x nv).
  { intros x [p [E R]]. eapply topo_reach_closed; [exact Htopo|exact R|]. apply Hincl. exact E. }
  split; [|split].
  - intros C. apply cycle_from_inv in C. destruct C as [C|[p [E C]]].
    + apply Hv. apply Hlnv. apply Hclosed. exact C.
    + eapply topo_no_cycle_from; [exact Htopo|exact Hndv| |exact C]. apply Hincl. exact E.
  - constructor; assumption.
  - exists l'. split; [reflexivity|]. intros x. split; [apply Hanc|].
    intros A. apply Hlnv. apply Hclosed. exact A.
Qed.

(* ---------------------------------------------------------------------------------------- *)
(* fuel: the recursion depth is bounded by the number of nodes                               *)
(* ---------------------------------------------------------------------------------------- *)
Definition in_rng (g : dg) (l : list nat) : Prop := forall x, In x l -> x < length g.

Definition HFuelPost (g : dg) (st : list nat) (r : hres) : Prop :=
  match r with
  | HOk _ st' _ => NoDup st' /\ in_rng g st' /\ length st <= length st'
  | HRaise => True
  | HFuel => False
  end.

Definition rec_fuel_ok (g : dg) (m : nat) (rec : nat -> list nat -> list nat -> hres) : Prop :=
  forall p st vi, NoDup st -> in_rng g st -> In p st -> m <= length st -> HFuelPost g st (rec p st vi).

Lemma hloop_fuel : forall g m rec, rec_fuel_ok g (S m) rec ->
  forall ps acc st vi, in_rng g ps -> NoDup st -> in_rng g st -> m <= length st ->
  HFuelPost g st (hloop rec ps acc st vi).
Proof.
  intros g m rec Hrec. induction ps as [|p r IH]; intros acc st vi Hps Hnd Hrng Hm.
  - cbn [hloop HFuelPost]. auto.
  - cbn [hloop]. assert (Hr : in_rng g r) by (intros x Hx; apply Hps; right; exact Hx).
    destruct (memb p vi); [apply IH; assumption|].
    destruct (memb p st) eqn:Hpst; [exact I|]. apply memb_false_iff in Hpst.
    assert (Hnd' : NoDup (p :: st)) by (constructor; assumption).
    assert (Hrng' : in_rng g (p :: st)).
    { intros x [<-|Hx]; [apply Hps; left; reflexivity|apply Hrng; exact Hx]. }
    pose proof (Hrec p (p :: st) vi Hnd' Hrng' (or_introl eq_refl)) as Hp. simpl length in Hp.
    specialize (Hp ltac:(lia)).
    destruct (rec p (p :: st) vi) as [lp st' vi'| |]; cbn [HFuelPost] in Hp |- *; [|exact I|exact Hp].
    destruct Hp as [Hnd2 [Hrng2 Hlen2]]. simpl in Hlen2.
    pose proof (IH (acc ++ lp) st' (p :: vi') Hr Hnd2 Hrng2 ltac:(lia)) as Hl.
    destruct (hloop rec r (acc ++ lp) st' (p :: vi')); cbn [HFuelPost] in Hl |- *; auto.
    destruct Hl as [H1 [H2 H3]]. split; [exact H1|]. split; [exact H2|lia].
Qed.

Lemma subtree_fuel : forall g, wf g -> forall fuel m, length g < fuel + m -> rec_fuel_ok g m (subtree fuel g).
Proof.
  intros g Hwf. induction fuel as [|k IH]; intros m Hlt p st vi Hnd Hrng Hp Hm.
  - exfalso. assert (length st <= length (seq 0 (length g))).
    { apply NoDup_incl_length; [exact Hnd|]. intros x Hx. apply in_seq. specialize (Hrng x Hx). lia. }
    rewrite seq_length in H. lia.
  - cbn [subtree]. apply (hloop_fuel g m (subtree k g)); auto.
    + apply IH. lia.
    + intros x Hx. eapply Hwf. exact Hx.
Qed.

Theorem hierarchy_terminates : forall g v, wf g -> v < length g -> hierarchy g v <> OutOfFuel.
Proof.
  intros g v Hwf Hv. unfold hierarchy, hierarchy_fuel.
  assert (H : HFuelPost g [v] (subtree (S (length g)) g v [v] [])).
  { apply (subtree_fuel g Hwf (S (length g)) 1); simpl; auto; try lia.
    - constructor; [intros []|constructor].
    - intros x [<-|[]]. exact Hv. }
  destruct (subtree (S (length g)) g v [v] []); [discriminate|discriminate|contradiction].
Qed.

(* T1.4  hierarchy_correct *)
Theorem hierarchy_correct : forall g v, wf g -> v < length g ->
  (hierarchy g v = Raise <-> cycle_from g v) /\
  (forall l, hierarchy g v = Ok l ->
     NoDup l /\ exists l', l = v :: l' /\ forall x, In x l' <-> ancestor g v x) /\
  (~ cycle_from g v -> exists l, hierarchy g v = Ok l).
Proof.
  intros g v Hwf Hv. pose proof (hierarchy_terminates g v Hwf Hv) as T.
  split; [|split].
  - split; [apply hierarchy_raise|]. intros C.
    destruct (hierarchy g v) as [l| |] eqn:E; [|reflexivity|congruence].
    exfalso. apply (hierarchy_ok g _ v l E). exact C.
  - intros l E. apply (hierarchy_ok g _ v l E).
  - intros C. destruct (hierarchy g v) as [l| |] eqn:E; [exists l; reflexivity| |congruence].
    exfalso. apply C. eapply hierarchy_raise. exact E.
Qed.
