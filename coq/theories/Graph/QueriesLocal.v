(* C12 - root_nodes, node_children and get_edges return exactly the sinks, the successors and
   the edge set. *)
From Coq Require Import List Arith Bool ZArith Lia.
From GolemV Require Import Base.Closure Graph.QueriesSpec Graph.Queries Graph.QueriesBasics.
Import ListNotations.

Lemma in_nodes : forall g v, In v (nodes g) <-> v < length g.
Proof. intros g v. unfold nodes. rewrite in_seq. lia. Qed.

Lemma nodes_NoDup : forall g, NoDup (nodes g).
Proof. intros g. apply seq_NoDup. Qed.

(* node_children v = the nodes that have v among their parents, each once, in listing order *)
Theorem node_children_spec : forall g v c, In c (node_children g v) <-> c < length g /\ edge g c v.
Proof.
  intros g v c. unfold node_children. rewrite filter_In, in_nodes, memb_iff. reflexivity.
Qed.

Theorem node_children_NoDup : forall g v, NoDup (node_children g v).
Proof. intros g v. apply NoDup_filter, nodes_NoDup. Qed.

Lemma node_children_nil : forall g v, node_children g v = [] <-> forall c, ~ edge g c v.
Proof.
  intros g v. split.
  - intros H c E. assert (Hin : In c (node_children g v)).
    { apply node_children_spec. split; [eapply edge_src_lt; exact E|exact E]. }
    rewrite H in Hin. exact Hin.
  - intros H. destruct (node_children g v) as [|c r] eqn:E; [reflexivity|].
    exfalso. apply (H c). assert (Hin : In c (node_children g v)) by (rewrite E; left; reflexivity).
    apply node_children_spec in Hin. apply Hin.
Qed.

(* root_nodes = the sinks (nodes that are nobody's parent), each once, in listing order *)
Theorem root_nodes_spec : forall g v, In v (root_nodes g) <-> sink g v.
Proof.
  intros g v. unfold root_nodes, sink. rewrite filter_In, in_nodes. split.
  - intros [Hv H]. split; [exact Hv|]. apply node_children_nil.
    destruct (node_children g v); [reflexivity|discriminate].
  - intros [Hv H]. split; [exact Hv|]. apply node_children_nil in H. rewrite H. reflexivity.
Qed.

Theorem root_nodes_NoDup : forall g, NoDup (root_nodes g).
Proof. intros g. apply NoDup_filter, nodes_NoDup. Qed.

Lemma sink_dec : forall g v, {sink g v} + {~ sink g v}.
Proof.
  intros g v. destruct (in_dec Nat.eq_dec v (root_nodes g)) as [H|H].
  - left. apply root_nodes_spec. exact H.
  - right. intros S. apply H. apply root_nodes_spec. exact S.
Qed.

Lemma not_sink_child : forall g v, v < length g -> ~ sink g v -> exists c, c < length g /\ edge g c v.
Proof.
  intros g v Hv H. destruct (node_children g v) as [|c r] eqn:E.
  - exfalso. apply H. split; [exact Hv|]. apply node_children_nil. exact E.
  - exists c. apply node_children_spec. rewrite E. left. reflexivity.
Qed.

(* get_edges = the (parent, child) pairs *)
Theorem get_edges_spec : forall g p c, In (p, c) (get_edges g) <-> edge g c p.
Proof.
  intros g p c. unfold get_edges. rewrite in_flat_map. split.
  - intros [c' [_ H]]. apply in_map_iff in H. destruct H as [p' [E H]]. injection E as -> ->. exact H.
  - intros H. exists c. split; [apply in_nodes; eapply edge_src_lt; exact H|].
    apply in_map_iff. exists p. split; [reflexivity|exact H].
Qed.

Lemma NoDup_flat_map_snd : forall (f : nat -> list nat) (l : list nat),
  NoDup l -> (forall c, In c l -> NoDup (f c)) ->
  NoDup (flat_map (fun c => map (fun p => (p, c)) (f c)) l).
Proof.
  intros f. induction l as [|c l IH]; intros Hnd Hf; [constructor|].
  inversion Hnd as [|? ? Hnin Hnd']; subst. simpl.
  assert (H1 : NoDup (map (fun p => (p, c)) (f c))).
  { assert (Hc : NoDup (f c)) by (apply Hf; left; reflexivity).
    induction Hc as [|x r Hx Hr IHr]; [constructor|]. simpl. constructor; [|exact IHr].
    intros Hin. apply in_map_iff in Hin. destruct Hin as [y [E Hy]]. injection E as ->. contradiction. }
  assert (H2 : NoDup (flat_map (fun c => map (fun p => (p, c)) (f c)) l)).
  { apply IH; [exact Hnd'|]. intros c' Hc'. apply Hf. right. exact Hc'. }
  assert (H3 : forall x, In x (map (fun p => (p, c)) (f c)) ->
                         ~ In x (flat_map (fun c => map (fun p => (p, c)) (f c)) l)).
  { intros x Hx Hin. apply in_map_iff in Hx. destruct Hx as [p [<- _]].
    apply in_flat_map in Hin. destruct Hin as [c' [Hc' Hin]].
    apply in_map_iff in Hin. destruct Hin as [p' [E _]]. injection E as _ ->. contradiction. }
  revert H1 H3. generalize (map (fun p => (p, c)) (f c)). intros a Ha Hd.
  induction Ha as [|x r Hx Hr IHr]; [exact H2|]. simpl. constructor.
  - intros Hin. apply in_app_or in Hin. destruct Hin as [Hin|Hin]; [contradiction|].
    apply (Hd x); [left; reflexivity|exact Hin].
  - apply IHr. intros y Hy. apply Hd. right. exact Hy.
Qed.

(* every edge is listed once when the parent lists are duplicate free (they are UniqueLists) *)
Theorem get_edges_NoDup : forall g, (forall v, NoDup (parents g v)) -> NoDup (get_edges g).
Proof.
  intros g H. unfold get_edges. apply NoDup_flat_map_snd; [apply nodes_NoDup|]. intros c _. apply H.
Qed.
