(* C12 - reflection of the independent oracle of QueriesSpec.v (boolean matrices, transitive
   closure by n-fold composition, exact-length walk matrices) to the Props of the
   specification.  Shows that `holds_l` decides the stated property on closed graphs. *)
From Coq Require Import List Arith Bool ZArith Lia.
From GolemV Require Import Base.Closure Graph.QueriesSpec Graph.QueriesBasics.
Import ListNotations.

Lemma adj_b_iff : forall g c p, adj_b g c p = true <-> edge g c p.
Proof.
  intros g c p. unfold adj_b, edge. rewrite existsb_exists. split.
  - intros [y [Hy E]]. apply Nat.eqb_eq in E. subst. exact Hy.
  - intros H. exists p. split; [exact H|apply Nat.eqb_refl].
Qed.

Lemma mrel_adjm : forall g, wf g -> forall x y, mrel (length g) (adjm g) x y <-> edge g x y.
Proof.
  intros g Hwf x y. unfold mrel, adjm. split.
  - intros [Hx [Hy H]]. rewrite mget_mk in H by assumption. apply adj_b_iff. exact H.
  - intros E. assert (Hx : x < length g) by (eapply edge_src_lt; exact E).
    assert (Hy : y < length g) by (eapply Hwf; exact E).
    split; [exact Hx|]. split; [exact Hy|]. rewrite mget_mk by assumption. apply adj_b_iff. exact E.
Qed.

Lemma mget_adjm : forall g, wf g -> forall x y, mget (adjm g) x y = true <-> edge g x y.
Proof.
  intros g Hwf x y. rewrite <- (mrel_adjm g Hwf). unfold mrel, adjm. split.
  - intros H. destruct (mget_mk_range _ _ _ _ H). auto.
  - intros [_ [_ H]]. exact H.
Qed.

Lemma chain_adjm : forall g, wf g -> forall l x, chain (mrel (length g) (adjm g)) x l <-> gpath g x l.
Proof.
  intros g Hwf. unfold gpath. induction l as [|y l IH]; intros x; simpl; [tauto|].
  rewrite IH, (mrel_adjm g Hwf). tauto.
Qed.

Lemma last_in : forall (l : list nat) d, l <> [] -> In (last l d) l.
Proof.
  intros l d H. destruct (exists_last H) as [l0 [z ->]]. rewrite last_last.
  apply in_or_app. right. left. reflexivity.
Qed.

(* closure matrix = "y is an ancestor of x" *)
Theorem plus_b_iff : forall g, wf g -> forall x y, plus_b (mk_oracle g) x y = true <-> plus g x y.
Proof.
  intros g Hwf x y. unfold plus_b, mk_oracle. cbn [or_tc]. rewrite tc_iff. split.
  - intros [_ [l [Hne [Hc Hl]]]]. apply (chain_adjm g Hwf) in Hc.
    apply (gpath_reach g l x Hc). rewrite <- Hl. apply last_in. exact Hne.
  - intros P. destruct P as [p [E R]]. split; [eapply edge_src_lt; exact E|].
    destruct (reach_gpath g p y R) as [l [Hl Hlast]].
    exists (p :: l). split; [discriminate|]. split.
    + apply (chain_adjm g Hwf). simpl. auto.
    + rewrite last_cons. exact Hlast.
Qed.

Theorem oncyc_b_iff : forall g, wf g -> forall v, oncyc_b (mk_oracle g) v = true <-> on_cycle g v.
Proof. intros g Hwf v. apply plus_b_iff. exact Hwf. Qed.

Lemma on_cycle_lt : forall g v, on_cycle g v -> v < length g.
Proof. intros g v [p [E _]]. eapply edge_src_lt; exact E. Qed.

Theorem cyclic_b_iff : forall g, wf g -> (cyclic_b (mk_oracle g) = true <-> cyclic g).
Proof.
  intros g Hwf. unfold cyclic_b. rewrite existsb_exists. change (or_n (mk_oracle g)) with (length g). split.
  - intros [v [_ H]]. exists v. apply (oncyc_b_iff g Hwf). exact H.
  - intros [v C]. exists v. split; [apply in_seq; pose proof (on_cycle_lt g v C); lia|].
    apply (oncyc_b_iff g Hwf). exact C.
Qed.

Theorem cycfrom_b_iff : forall g, wf g -> forall v, cycfrom_b (mk_oracle g) v = true <-> cycle_from g v.
Proof.
  intros g Hwf v. unfold cycfrom_b. rewrite orb_true_iff, existsb_exists.
  change (or_n (mk_oracle g)) with (length g). split.
  - intros [H|[w [_ H]]].
    + exists v. split; [apply reach_refl|apply (oncyc_b_iff g Hwf); exact H].
    + apply andb_true_iff in H. destruct H as [H1 H2]. exists w.
      split; [apply plus_reach; apply (plus_b_iff g Hwf); exact H1|apply (oncyc_b_iff g Hwf); exact H2].
  - intros [w [R C]]. destruct (reach_inv g v w R) as [<-|P].
    + left. apply (oncyc_b_iff g Hwf). exact C.
    + right. exists w. split; [apply in_seq; pose proof (on_cycle_lt g w C); lia|].
      apply andb_true_iff. split; [apply (plus_b_iff g Hwf); exact P|apply (oncyc_b_iff g Hwf); exact C].
Qed.

Lemma plus_tgt_lt : forall g, wf g -> forall x y, plus g x y -> y < length g.
Proof.
  intros g Hwf x y [p [E R]]. revert E. revert x. induction R as [z|a b c E2 R IH]; intros x E.
  - eapply Hwf; exact E.
  - eapply IH. exact E2.
Qed.

Theorem anc_b_iff : forall g, wf g -> forall v a, In a (anc_b (mk_oracle g) v) <-> ancestor g v a.
Proof.
  intros g Hwf v a. unfold anc_b, ancestor. rewrite filter_In, (plus_b_iff g Hwf).
  change (or_n (mk_oracle g)) with (length g). rewrite in_seq. split; [tauto|].
  intros P. split; [pose proof (plus_tgt_lt g Hwf v a P); lia|exact P].
Qed.

Theorem sink_b_iff : forall g, wf g -> forall v, v < length g -> (sink_b (mk_oracle g) v = true <-> sink g v).
Proof.
  intros g Hwf v Hv. unfold sink_b, sink. rewrite negb_true_iff. cbn [mk_oracle or_adj or_n]. split.
  - intros H. split; [exact Hv|]. intros c E.
    assert (T : existsb (fun c0 => mget (adjm g) c0 v) (seq 0 (length g)) = true).
    { apply existsb_exists. exists c. split; [apply in_seq; pose proof (edge_src_lt g c v E); lia|].
      apply (mget_adjm g Hwf). exact E. }
    congruence.
  - intros [_ H]. destruct (existsb (fun c0 => mget (adjm g) c0 v) (seq 0 (length g))) eqn:T; [|reflexivity].
    apply existsb_exists in T. destruct T as [c [_ T]]. apply (mget_adjm g Hwf) in T. exfalso. apply (H c T).
Qed.

(* ---------------------------------------------------------------------------------------- *)
(* heights from the exact-length walk matrices                                               *)
(* ---------------------------------------------------------------------------------------- *)
Lemma filter_map_length : forall {A B} (p : B -> bool) (h : A -> B) (l : list A),
  length (filter p (map h l)) = length (filter (fun x => p (h x)) l).
Proof.
  intros A B p h. induction l as [|a l IH]; simpl; [reflexivity|].
  destruct (p (h a)); simpl; rewrite IH; reflexivity.
Qed.

Definition cnt (f : nat -> bool) (N : nat) : nat := length (filter f (seq 0 N)).

Lemma cnt_S : forall f N, cnt f (S N) = cnt f N + (if f N then 1 else 0).
Proof.
  intros f N. unfold cnt. rewrite seq_S, filter_app, app_length. simpl.
  destruct (f N); reflexivity.
Qed.

Lemma down_closed : forall f, (forall k, f (S k) = true -> f k = true) -> forall N k, k <= N -> f N = true -> f k = true.
Proof.
  intros f Hd. induction N as [|N IH]; intros k Hk HN.
  - replace k with 0 by lia. exact HN.
  - destruct (Nat.eq_dec k (S N)) as [->|Hne]; [exact HN|]. apply IH; [lia|apply Hd; exact HN].
Qed.

Lemma cnt_initial : forall f, (forall k, f (S k) = true -> f k = true) ->
  forall N, cnt f N <= N /\ forall k, k < N -> (f k = true <-> k < cnt f N).
Proof.
  intros f Hd. induction N as [|N [IH1 IH2]].
  - split; [unfold cnt; simpl; lia|intros k Hk; lia].
  - rewrite cnt_S. destruct (f N) eqn:HN.
    + assert (Hall : forall k, k < N -> k < cnt f N).
      { intros k Hk. apply IH2; [exact Hk|]. apply (down_closed f Hd N k); [lia|exact HN]. }
      assert (cnt f N = N).
      { destruct N as [|N']; [unfold cnt; reflexivity|]. specialize (Hall N' ltac:(lia)). lia. }
      split; [lia|]. intros k Hk. split; [intros _; lia|]. intros _.
      apply (down_closed f Hd N k); [lia|exact HN].
    + split; [lia|]. intros k Hk. rewrite Nat.add_0_r. destruct (Nat.eq_dec k N) as [->|Hne].
      * split; [congruence|lia].
      * apply IH2. lia.
Qed.

Lemma firstn_chain : forall (E : nat -> nat -> Prop) l x k, chain E x l -> chain E x (firstn k l).
Proof.
  intros E. induction l as [|y l IH]; intros x k H; destruct k; simpl; auto.
  simpl in H. destruct H. split; auto.
Qed.

Section Height.
  Variable g : dg.
  Hypothesis Hwf : wf g.
  Let n := length g.
  Let a := adjm g.

  Definition has_walk (v k : nat) : bool := row_nonempty n (wk n a k) v.

  Lemma has_walk_iff : forall v k, has_walk v k = true <-> v < n /\ exists l, length l = k /\ gpath g v l.
  Proof.
    intros v k. unfold has_walk. rewrite row_nonempty_iff. split.
    - intros [y [_ H]]. apply wk_iff in H. destruct H as [Hv [l [Hl [Hc _]]]].
      split; [exact Hv|]. exists l. split; [exact Hl|apply (chain_adjm g Hwf); exact Hc].
    - intros [Hv [l [Hl Hp]]].
      assert (Hy : last l v < n).
      { destruct l as [|y l]; [exact Hv|].
        assert (P : plus g v (last (y :: l) v)) by (apply (gpath_reach g _ v Hp); apply last_in; discriminate).
        apply (plus_tgt_lt g Hwf v _ P). }
      exists (last l v). split; [exact Hy|]. apply wk_iff. split; [exact Hv|].
      exists l. split; [exact Hl|]. split; [apply (chain_adjm g Hwf); exact Hp|reflexivity].
  Qed.

  Lemma has_walk_down : forall v k, has_walk v (S k) = true -> has_walk v k = true.
  Proof.
    intros v k H. apply has_walk_iff in H. destruct H as [Hv [l [Hl Hp]]]. apply has_walk_iff.
    split; [exact Hv|]. exists (firstn k l). split; [rewrite firstn_length; lia|].
    apply firstn_chain. exact Hp.
  Qed.

  Lemma height_b_cnt : forall v, height_b (mk_oracle g) v = cnt (has_walk v) (S n).
  Proof.
    intros v. unfold height_b, cnt. cbn [mk_oracle or_wks or_n]. rewrite filter_map_length. reflexivity.
  Qed.

  Lemma long_path_cycle : forall v l, gpath g v l -> n < length l -> cycle_from g v.
  Proof.
    intros v l Hp Hlen.
    assert (Hw : walk (mrel n a) v l (last l v)) by (split; [apply (chain_adjm g Hwf); exact Hp|reflexivity]).
    destruct (long_walk_cycle (mrel n a) n (mrel_range n a) l v _ Hw Hlen) as [u [m [Hu [Hne [Hc Hl]]]]].
    apply (chain_adjm g Hwf) in Hc. exists u. split.
    - apply plus_reach. apply (gpath_reach g l v Hp u Hu).
    - apply (gpath_reach g m u Hc). pose proof (last_in m u Hne) as Hi. rewrite Hl in Hi. exact Hi.
  Qed.

  (* for a node that reaches no cycle the count is the number of nodes on the longest path *)
  Theorem height_b_correct : forall v, v < n -> ~ cycle_from g v -> height g v (height_b (mk_oracle g) v).
  Proof.
    intros v Hv NC. rewrite height_b_cnt.
    destruct (cnt_initial (has_walk v) (has_walk_down v) (S n)) as [Hle Hini].
    assert (H0 : has_walk v 0 = true) by (apply has_walk_iff; split; [exact Hv|exists []; split; [reflexivity|exact I]]).
    assert (Hpos : 0 < cnt (has_walk v) (S n)) by (apply Hini; [lia|exact H0]).
    split.
    - assert (Hk : has_walk v (cnt (has_walk v) (S n) - 1) = true) by (apply Hini; lia).
      apply has_walk_iff in Hk. destruct Hk as [_ [l [Hl Hp]]]. exists l. split; [exact Hp|lia].
    - intros l Hp. destruct (le_lt_dec (length l) n) as [Hs|Hl].
      + assert (Hk : has_walk v (length l) = true) by (apply has_walk_iff; split; [exact Hv|exists l; auto]).
        apply Hini in Hk; lia.
      + exfalso. apply NC. eapply long_path_cycle; eauto.
  Qed.

  Theorem gheight_b_correct : 0 < n -> ~ cyclic g -> gheight g (gheight_b (mk_oracle g)).
  Proof.
    intros Hn NC. unfold gheight_b. cbn [mk_oracle or_n]. fold n.
    assert (Hh : forall v, v < n -> height g v (height_b (mk_oracle g) v)).
    { intros v Hv. apply height_b_correct; [exact Hv|]. intros C. apply NC. eapply on_cycle_cyclic. exact C. }
    set (hs := map (height_b (mk_oracle g)) (seq 0 n)).
    assert (Hne : hs <> []) by (unfold hs; destruct n; [lia|discriminate]).
    split.
    - assert (Hin : In (fold_right Nat.max 0 hs) hs).
      { clear - Hne. induction hs as [|x l IH]; [congruence|]. simpl.
        destruct l as [|b l]; [left; simpl; lia|].
        destruct (le_lt_dec (fold_right Nat.max 0 (b :: l)) x) as [Hle|Hlt].
        - left. lia.
        - right. rewrite Nat.max_r by lia. apply IH. discriminate. }
      apply in_map_iff in Hin. destruct Hin as [v [E Hv]]. apply in_seq in Hv.
      destruct (Hh v ltac:(lia)) as [[l [Hp El]] _]. exists v, l. split; [lia|]. split; [exact Hp|]. lia.
    - intros v l Hv Hp. destruct (Hh v Hv) as [_ U]. specialize (U l Hp).
      assert (height_b (mk_oracle g) v <= fold_right Nat.max 0 hs).
      { assert (Hin : In (height_b (mk_oracle g) v) hs) by (apply in_map; apply in_seq; lia).
        clear - Hin. induction hs as [|x r IH]; [contradiction|]. destruct Hin as [<-|Hin]; simpl; [lia|].
        specialize (IH Hin). lia. }
      lia.
  Qed.
End Height.

(* ---------------------------------------------------------------------------------------- *)
(* the clauses of holds_l that speak about one answer                                        *)
(* ---------------------------------------------------------------------------------------- *)
Theorem h_cycle_sound : forall g ob, wf g -> h_cycle (mk_oracle g) ob = true -> (ob_cycle ob = true <-> cyclic g).
Proof.
  intros g ob Hwf H. unfold h_cycle in H. apply eqb_prop in H. rewrite H. apply cyclic_b_iff. exact Hwf.
Qed.

Theorem h_depth_sound : forall g ob, wf g -> h_depth (mk_oracle g) ob = true ->
  (g = [] -> ob_depth ob = 0%Z) /\
  (g <> [] -> (ob_depth ob = (-1)%Z <-> cyclic g) /\ (~ cyclic g -> exists k, ob_depth ob = Z.of_nat k /\ gheight g k)).
Proof.
  intros g ob Hwf H. unfold h_depth in H. apply Z.eqb_eq in H. change (or_n (mk_oracle g)) with (length g) in H.
  split.
  - intros ->. exact H.
  - intros Hne. assert (Hn : 0 < length g) by (destruct g; [congruence|simpl; lia]).
    destruct (length g =? 0) eqn:E0; [apply Nat.eqb_eq in E0; lia|].
    destruct (cyclic_b (mk_oracle g)) eqn:Ec.
    + apply (cyclic_b_iff g Hwf) in Ec. split; [tauto|]. intros NC. contradiction.
    + assert (NC : ~ cyclic g) by (intros C; apply (cyclic_b_iff g Hwf) in C; congruence).
      split; [split; [lia|intros C; contradiction]|].
      intros _. exists (gheight_b (mk_oracle g)). split; [exact H|]. apply gheight_b_correct; assumption.
Qed.

Theorem node_depth_truth_sound : forall g, wf g -> forall v, v < length g ->
  (node_depth_truth (mk_oracle g) v = (-1)%Z <-> cycle_from g v) /\
  (~ cycle_from g v -> exists k, node_depth_truth (mk_oracle g) v = Z.of_nat k /\ height g v k).
Proof.
  intros g Hwf v Hv. unfold node_depth_truth. destruct (cycfrom_b (mk_oracle g) v) eqn:E.
  - apply (cycfrom_b_iff g Hwf) in E. split; [tauto|]. intros NC. contradiction.
  - assert (NC : ~ cycle_from g v) by (intros C; apply (cycfrom_b_iff g Hwf) in C; congruence).
    split; [split; [lia|intros C; contradiction]|].
    intros _. exists (height_b (mk_oracle g) v). split; [reflexivity|]. apply height_b_correct; assumption.
Qed.

(* ---------------------------------------------------------------------------------------- *)
(* holds_l as a whole: what a `true` says about the observed answers                         *)
(* ---------------------------------------------------------------------------------------- *)
Lemma nodup_b_iff : forall l, nodup_b l = true <-> NoDup l.
Proof.
  induction l as [|x l IH]; simpl.
  - split; [constructor|reflexivity].
  - rewrite andb_true_iff, negb_true_iff, IH, memb_false_iff. split.
    + intros [H1 H2]. constructor; assumption.
    + intros H. inversion H; subst. auto.
Qed.

Lemma incl_b_iff : forall l r, incl_b l r = true <-> incl l r.
Proof.
  intros l r. unfold incl_b, incl. rewrite forallb_forall. split; intros H x Hx.
  - apply memb_iff. apply H. exact Hx.
  - apply memb_iff. apply H. exact Hx.
Qed.

Lemma same_set_b_iff : forall l r, same_set_b l r = true <-> forall x, In x l <-> In x r.
Proof.
  intros l r. unfold same_set_b. rewrite andb_true_iff, !incl_b_iff. unfold incl. split.
  - intros [H1 H2] x. split; auto.
  - intros H. split; intros x Hx; apply H; exact Hx.
Qed.

Lemma pair_eqb_iff : forall a b, pair_eqb a b = true <-> a = b.
Proof.
  intros [a1 a2] [b1 b2]. unfold pair_eqb. simpl. rewrite andb_true_iff, !Nat.eqb_eq. split.
  - intros [-> ->]. reflexivity.
  - intros E. injection E as -> ->. auto.
Qed.

Lemma nodup_pairs_b_iff : forall l, nodup_pairs_b l = true <-> NoDup l.
Proof.
  induction l as [|x l IH]; simpl.
  - split; [constructor|reflexivity].
  - rewrite andb_true_iff, negb_true_iff, IH. split.
    + intros [H1 H2]. constructor; [|exact H2]. intros Hin.
      assert (T : existsb (pair_eqb x) l = true) by (apply existsb_exists; exists x; split; [exact Hin|apply pair_eqb_iff; reflexivity]).
      congruence.
    + intros H. inversion H as [|? ? Hn Hd]; subst. split; [|exact Hd].
      destruct (existsb (pair_eqb x) l) eqn:T; [|reflexivity].
      apply existsb_exists in T. destruct T as [y [Hy E]]. apply pair_eqb_iff in E. subst y. contradiction.
Qed.

Lemma for_nodes_spec : forall {A} n (l : list A) f d, for_nodes n l f = true ->
  length l = n /\ forall v, v < n -> f v (nth v l d) = true.
Proof.
  intros A n l f d H. unfold for_nodes in H. apply andb_true_iff in H. destruct H as [H1 H2].
  apply Nat.eqb_eq in H1. split; [exact H1|]. intros v Hv. rewrite forallb_forall in H2.
  specialize (H2 (v, nth v l d)). apply H2.
  assert (E : nth v (combine (seq 0 n) l) (0, d) = (v, nth v l d)).
  { rewrite combine_nth by (rewrite seq_length; lia). rewrite seq_nth by exact Hv. reflexivity. }
  rewrite <- E. apply nth_In. rewrite combine_length, seq_length. lia.
Qed.

Lemma lheight_of_heights : forall g (hb : nat -> nat) vs, vs <> [] ->
  (forall v, In v vs -> height g v (hb v)) -> lheight g vs (fold_right Nat.max 0 (map hb vs)).
Proof.
  intros g hb vs Hne Hh. split.
  - assert (Hin : In (fold_right Nat.max 0 (map hb vs)) (map hb vs)).
    { apply fold_max_in. destruct vs; [congruence|discriminate]. }
    apply in_map_iff in Hin. destruct Hin as [v [E Hv]].
    destruct (Hh v Hv) as [[l [Hp El]] _]. exists v, l. split; [exact Hv|]. split; [exact Hp|lia].
  - intros v l Hv Hp. destruct (Hh v Hv) as [_ U]. specialize (U l Hp).
    assert (hb v <= fold_right Nat.max 0 (map hb vs)) by (apply fold_max_ge; apply in_map; exact Hv).
    lia.
Qed.

(* the meaning of the observed answers demanded by C12 *)
Definition obs_spec (g : dg) (ob : obs) : Prop :=
  let n := length g in
  (ob_cycle ob = true <-> cyclic g) /\
  (NoDup (ob_roots ob) /\ forall v, In v (ob_roots ob) <-> sink g v) /\
  (length (ob_children ob) = n /\ forall v, v < n ->
     NoDup (nth v (ob_children ob) []) /\ forall c, In c (nth v (ob_children ob) []) <-> c < n /\ edge g c v) /\
  (NoDup (ob_edges ob) /\ forall p c, In (p, c) (ob_edges ob) <-> edge g c p) /\
  ((g = [] -> ob_depth ob = 0%Z) /\
   (g <> [] -> (ob_depth ob = (-1)%Z <-> cyclic g) /\
               (~ cyclic g -> exists k, ob_depth ob = Z.of_nat k /\ gheight g k))) /\
  (length (ob_hier ob) = n /\ forall v, v < n ->
     match nth v (ob_hier ob) None with
     | None => cycle_from g v
     | Some l => ~ cycle_from g v /\ NoDup l /\ exists l', l = v :: l' /\ forall x, In x l' <-> ancestor g v x
     end) /\
  (length (ob_ndepth ob) = n /\ forall v, v < n ->
     (nth v (ob_ndepth ob) 0%Z = (-1)%Z <-> cycle_from g v) /\
     (~ cycle_from g v -> exists k, nth v (ob_ndepth ob) 0%Z = Z.of_nat k /\ height g v k)) /\
  (forall vs r, In (vs, r) (ob_ndlist ob) -> vs <> [] -> (forall v, In v vs -> v < n) ->
     exists d, r = Some d /\ (d = (-1)%Z <-> exists v, In v vs /\ cycle_from g v) /\
       ((forall v, In v vs -> ~ cycle_from g v) -> exists k, d = Z.of_nat k /\ lheight g vs k)).

Theorem holds_b_sound : forall g ob, wf g -> holds_b g ob = true -> obs_spec g ob.
Proof.
  intros g ob Hwf H. unfold holds_b, holds_l in H. cbn [forallb] in H.
  repeat (apply andb_true_iff in H; let H' := fresh "C" in destruct H as [H' H]).
  clear H. unfold obs_spec. cbv zeta.
  split; [apply h_cycle_sound; assumption|].
  split.
  { unfold h_roots in C0. apply andb_true_iff in C0. destruct C0 as [N S].
    split; [apply nodup_b_iff; exact N|]. intros v. rewrite same_set_b_iff in S. rewrite S, filter_In.
    change (or_n (mk_oracle g)) with (length g). rewrite in_seq. split.
    - intros [Hv Hs]. apply (sink_b_iff g Hwf v); [lia|exact Hs].
    - intros Hs. pose proof (proj1 Hs) as Hv. split; [lia|apply (sink_b_iff g Hwf v Hv); exact Hs]. }
  split.
  { unfold h_children in C1. change (or_n (mk_oracle g)) with (length g) in C1.
    destruct (for_nodes_spec _ _ _ [] C1) as [L F]. split; [exact L|]. intros v Hv. specialize (F v Hv).
    apply andb_true_iff in F. destruct F as [N S]. split; [apply nodup_b_iff; exact N|].
    intros c. rewrite same_set_b_iff in S. rewrite S, filter_In, in_seq.
    cbn [mk_oracle or_adj]. rewrite (mget_adjm g Hwf). split; [intros [A B]; split; [lia|exact B]|].
    intros [A B]. split; [lia|exact B]. }
  split.
  { unfold h_edges in C2. apply andb_true_iff in C2. destruct C2 as [C2 N].
    apply andb_true_iff in C2. destruct C2 as [S1 S2].
    split; [apply nodup_pairs_b_iff; exact N|]. intros p c. cbn [mk_oracle or_adj or_n] in S1, S2. split.
    - intros Hin. rewrite forallb_forall in S1. specialize (S1 (p, c) Hin). simpl in S1.
      apply (mget_adjm g Hwf). exact S1.
    - intros E. rewrite forallb_forall in S2.
      assert (Hc : In c (seq 0 (length g))) by (apply in_seq; pose proof (edge_src_lt g c p E); lia).
      specialize (S2 c Hc). rewrite forallb_forall in S2.
      assert (Hp : In p (seq 0 (length g))) by (apply in_seq; pose proof (Hwf c p E); lia).
      specialize (S2 p Hp). apply orb_true_iff in S2. destruct S2 as [S2|S2].
      + apply negb_true_iff in S2. apply (mget_adjm g Hwf) in E. congruence.
      + apply existsb_exists in S2. destruct S2 as [y [Hy Ey]]. apply pair_eqb_iff in Ey. subst y. exact Hy. }
  split; [apply h_depth_sound; assumption|].
  split.
  { unfold h_hier in C4. change (or_n (mk_oracle g)) with (length g) in C4.
    destruct (for_nodes_spec _ _ _ None C4) as [L F]. split; [exact L|]. intros v Hv. specialize (F v Hv).
    destruct (nth v (ob_hier ob) None) as [l|].
    - apply andb_true_iff in F. destruct F as [F1 F2]. apply negb_true_iff in F1.
      split; [intros CF; apply (cycfrom_b_iff g Hwf) in CF; congruence|].
      destruct l as [|h t]; [discriminate|]. apply andb_true_iff in F2. destruct F2 as [F2 F3].
      apply andb_true_iff in F2. destruct F2 as [F2 F4]. apply Nat.eqb_eq in F2. subst h.
      split; [apply nodup_b_iff; exact F4|]. exists t. split; [reflexivity|].
      intros x. rewrite same_set_b_iff in F3. rewrite F3. apply anc_b_iff. exact Hwf.
    - apply (cycfrom_b_iff g Hwf). exact F. }
  split.
  { unfold h_ndepth in C5. change (or_n (mk_oracle g)) with (length g) in C5.
    destruct (for_nodes_spec _ _ _ 0%Z C5) as [L F]. split; [exact L|]. intros v Hv. specialize (F v Hv).
    apply Z.eqb_eq in F. rewrite F. apply node_depth_truth_sound; assumption. }
  { intros vs r Hin Hne Hrng. unfold h_ndlist in C6. rewrite forallb_forall in C6.
    specialize (C6 (vs, r) Hin). cbn [fst snd] in C6.
    destruct vs as [|v0 vs']; [congruence|]. destruct r as [d|]; [|discriminate].
    exists d. split; [reflexivity|]. apply Z.eqb_eq in C6.
    destruct (existsb (cycfrom_b (mk_oracle g)) (v0 :: vs')) eqn:Ex.
    - apply existsb_exists in Ex. destruct Ex as [v [Hv Cv]]. apply (cycfrom_b_iff g Hwf) in Cv.
      split; [split; [intros _; exists v; auto|intros _; exact C6]|].
      intros NC. exfalso. apply (NC v Hv Cv).
    - assert (NC : forall v, In v (v0 :: vs') -> ~ cycle_from g v).
      { intros v Hv Cv. apply (cycfrom_b_iff g Hwf) in Cv.
        assert (T : existsb (cycfrom_b (mk_oracle g)) (v0 :: vs') = true) by (apply existsb_exists; exists v; auto).
        congruence. }
      split; [split; [lia|intros [v [Hv Cv]]; exfalso; apply (NC v Hv Cv)]|].
      intros _. eexists. split; [exact C6|]. apply lheight_of_heights; [discriminate|].
      intros v Hv. apply height_b_correct; [exact Hwf|apply Hrng; exact Hv|apply NC; exact Hv]. }
Qed.
