From Coq Require Import List Arith Bool ZArith Lia.
From GolemV Require Import Base.Closure Graph.QueriesSpec Graph.Queries.
Import ListNotations.

Lemma stub_nodes_length : forall g, length (nodes g) = length g.
Proof. intros g. unfold nodes. apply seq_length. Qed.
