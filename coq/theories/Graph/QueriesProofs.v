(* C12 - proofs about the structural queries.  The development is split by query:
     QueriesBasics.v  reachability, topological (finishing) lists exclude cycles
     QueriesCycle.v   graph_has_cycle: correctness for every fuel, termination (frames invariant)
     QueriesLocal.v   root_nodes / node_children / get_edges
     QueriesHier.v    ordered_subnodes_hierarchy
     QueriesDepth.v   node_depth, LinkedGraph.depth
     QueriesOracle.v  reflection of the independent closure oracle used by holds_l
     QueriesBig(Proofs).v  frontier formulation for large graphs: equal to the model, decides the spec
   This file gathers them and adds statements that connect the model to the oracle. *)
From Coq Require Import List Arith Bool ZArith Lia.
From GolemV Require Export Base.Closure Graph.QueriesSpec Graph.Queries Graph.QueriesBasics
  Graph.QueriesCycle Graph.QueriesLocal Graph.QueriesHier Graph.QueriesDepth Graph.QueriesOracle
  Graph.QueriesBig Graph.QueriesBigProofs.
Import ListNotations.

Lemma wf_b_iff : forall g, wf_b g = true <-> wf g.
Proof.
  intros g. unfold wf_b, wf. rewrite forallb_forall. split.
  - intros H v p Hp. destruct (lt_dec v (length g)) as [Hv|Hv].
    + assert (Hin : In (parents g v) g) by (unfold parents; apply nth_In; exact Hv).
      specialize (H _ Hin). rewrite forallb_forall in H. apply Nat.ltb_lt. apply H. exact Hp.
    + rewrite parents_out in Hp by lia. contradiction.
  - intros H ps Hps. apply forallb_forall. intros p Hp. apply Nat.ltb_lt.
    destruct (In_nth g ps [] Hps) as [v [Hv E]]. apply (H v p). unfold parents. rewrite E. exact Hp.
Qed.

(* the model's answer to the cycle query is what the independent oracle computes *)
Theorem has_cycle_oracle : forall g, wf g -> has_cycle g = Some (cyclic_b (mk_oracle g)).
Proof.
  intros g Hwf. destruct (has_cycle_terminates g Hwf) as [b Hb]. rewrite Hb. f_equal.
  pose proof (has_cycle_correct g _ b Hb) as C. pose proof (cyclic_b_iff g Hwf) as O.
  destruct b, (cyclic_b (mk_oracle g)); try reflexivity.
  - assert (true = true) as T by reflexivity. apply C in T. apply O in T. discriminate.
  - assert (true = true) as T by reflexivity. apply O in T. apply C in T. discriminate.
Qed.

(* the model's hierarchy satisfies the clause that holds_l checks on observations *)
Theorem hierarchy_oracle : forall g v, wf g -> v < length g ->
  match hierarchy g v with
  | Raise => cycfrom_b (mk_oracle g) v = true
  | Ok l => cycfrom_b (mk_oracle g) v = false /\ NoDup l /\
            exists l', l = v :: l' /\ forall x, In x l' <-> In x (anc_b (mk_oracle g) v)
  | OutOfFuel => False
  end.
Proof.
  intros g v Hwf Hv. destruct (hierarchy_correct g v Hwf Hv) as [H1 [H2 H3]].
  pose proof (hierarchy_terminates g v Hwf Hv) as T.
  destruct (hierarchy g v) as [l| |] eqn:E.
  - destruct (H2 l eq_refl) as [Hnd [l' [-> Hanc]]]. split; [|split; [exact Hnd|]].
    + destruct (cycfrom_b (mk_oracle g) v) eqn:C; [|reflexivity].
      apply (cycfrom_b_iff g Hwf) in C. apply H1 in C. discriminate.
    + exists l'. split; [reflexivity|]. intros x. rewrite Hanc. symmetry. apply anc_b_iff. exact Hwf.
  - apply (cycfrom_b_iff g Hwf). apply H1. reflexivity.
  - congruence.
Qed.

(* the model's node depth is the oracle's ground truth *)
Theorem node_depth_oracle : forall g v, wf g -> v < length g ->
  node_depth g v = Ok (node_depth_truth (mk_oracle g) v).
Proof.
  intros g v Hwf Hv. destruct (node_depth_correct g v Hwf Hv) as [H1 [H2 H3]].
  destruct (node_depth_truth_sound g Hwf v Hv) as [O1 O2].
  destruct (cycfrom_b (mk_oracle g) v) eqn:C.
  - assert (CF : cycle_from g v) by (apply (cycfrom_b_iff g Hwf); exact C).
    rewrite (proj2 O1 CF). apply H1. exact CF.
  - assert (NC : ~ cycle_from g v) by (intros CF; apply (cycfrom_b_iff g Hwf) in CF; congruence).
    destruct (O2 NC) as [k [-> Hk]]. apply H2. exact Hk.
Qed.
