(* C12 - graph-theoretic ground truth for the structural queries of GOLEM graphs.

   A graph is `dg := list (list nat)`: entry i lists the parents (`nodes_from`) of node i, nodes
   are the indices 0 .. length-1 in the order of `graph.nodes`.

   This file contains
     1. the mathematical specification as Props (edge, reach, plus, cyclic, cycle_from,
        ancestors, height = number of nodes on a longest path);
     2. an INDEPENDENT executable decision procedure (boolean matrices: transitive closure by
        n-fold relational composition, exact-length walk matrices) - it shares nothing with the
        depth-first searches modelled in Queries.v;
     3. the record of observations made on the implementation and `holds_l` / `holds_b`, the
        clauses of property C12 evaluated on those observations with the oracle of 2.
   Definitions only; the reflection lemmas (oracle <-> Props) are in QueriesProofs.v.       *)
From Coq Require Import List Arith Bool ZArith.
From GolemV Require Import Base.Closure.
Import ListNotations.

Definition dg := list (list nat).

Definition parents (g : dg) (v : nat) : list nat := nth v g [].

(* every parent is a node of the graph (the graph is closed) *)
Definition wf (g : dg) : Prop := forall v p, In p (parents g v) -> p < length g.

Definition wf_b (g : dg) : bool := forallb (forallb (fun p => p <? length g)) g.

(* ---------------------------------------------------------------------------------------- *)
(* 1. specification                                                                          *)
(* ---------------------------------------------------------------------------------------- *)
(* edge g c p : p is a parent of c *)
Definition edge (g : dg) (c p : nat) : Prop := In p (parents g c).

Inductive reach (g : dg) : nat -> nat -> Prop :=
| reach_refl : forall x, reach g x x
| reach_step : forall x y z, edge g x y -> reach g y z -> reach g x z.

(* at least one edge: y is an ancestor of x *)
Definition plus (g : dg) (x y : nat) : Prop := exists p, edge g x p /\ reach g p y.

Definition ancestor (g : dg) (v a : nat) : Prop := plus g v a.

Definition on_cycle (g : dg) (v : nat) : Prop := plus g v v.

Definition cyclic (g : dg) : Prop := exists v, on_cycle g v.

(* a cycle is reachable from v (through parents) *)
Definition cycle_from (g : dg) (v : nat) : Prop := exists w, reach g v w /\ on_cycle g w.

(* v is a sink: nobody's parent.  (GOLEM calls the sinks "root nodes".) *)
Definition sink (g : dg) (v : nat) : Prop := v < length g /\ forall c, ~ edge g c v.

(* a path v -> l1 -> l2 ... through parents, as the list of the nodes after v *)
Definition gpath (g : dg) (v : nat) (l : list nat) : Prop := chain (edge g) v l.

(* k = number of nodes on a longest path that starts in v and follows parents, i.e. on a
   longest path that ENDS in v in the direction of the data flow.  No such k exists when a
   cycle is reachable from v. *)
Definition height (g : dg) (v k : nat) : Prop :=
  (exists l, gpath g v l /\ S (length l) = k) /\ (forall l, gpath g v l -> S (length l) <= k).

(* number of nodes on a longest path that starts in one of the nodes vs *)
Definition lheight (g : dg) (vs : list nat) (k : nat) : Prop :=
  (exists v l, In v vs /\ gpath g v l /\ S (length l) = k) /\
  (forall v l, In v vs -> gpath g v l -> S (length l) <= k).

(* number of nodes on a longest path of a non-empty graph *)
Definition gheight (g : dg) (k : nat) : Prop :=
  (exists v l, v < length g /\ gpath g v l /\ S (length l) = k) /\
  (forall v l, v < length g -> gpath g v l -> S (length l) <= k).

(* ---------------------------------------------------------------------------------------- *)
(* 2. independent oracle                                                                     *)
(* ---------------------------------------------------------------------------------------- *)
Definition adj_b (g : dg) (c p : nat) : bool := existsb (Nat.eqb p) (parents g c).

Definition adjm (g : dg) : bmat := mk (length g) (adj_b g).

Record oracle := { or_n : nat; or_adj : bmat; or_tc : bmat; or_wks : list bmat }.

Definition mk_oracle (g : dg) : oracle :=
  let n := length g in
  let a := adjm g in
  {| or_n := n; or_adj := a; or_tc := tc n a; or_wks := map (wk n a) (seq 0 (S n)) |}.

Definition plus_b (o : oracle) (x y : nat) : bool := mget (or_tc o) x y.

Definition oncyc_b (o : oracle) (v : nat) : bool := plus_b o v v.

Definition cyclic_b (o : oracle) : bool := existsb (oncyc_b o) (seq 0 (or_n o)).

Definition cycfrom_b (o : oracle) (v : nat) : bool :=
  oncyc_b o v || existsb (fun w => plus_b o v w && oncyc_b o w) (seq 0 (or_n o)).

Definition anc_b (o : oracle) (v : nat) : list nat := filter (plus_b o v) (seq 0 (or_n o)).

(* number of k in 0..n such that a walk with exactly k edges starts in v: for a node that
   reaches no cycle this is the number of nodes on the longest path *)
Definition height_b (o : oracle) (v : nat) : nat :=
  length (filter (fun W => row_nonempty (or_n o) W v) (or_wks o)).

Definition gheight_b (o : oracle) : nat :=
  fold_right Nat.max 0 (map (height_b o) (seq 0 (or_n o))).

Definition sink_b (o : oracle) (v : nat) : bool :=
  negb (existsb (fun c => mget (or_adj o) c v) (seq 0 (or_n o))).

(* ---------------------------------------------------------------------------------------- *)
(* 3. observations and the property clauses                                                  *)
(* ---------------------------------------------------------------------------------------- *)
Record obs := {
  ob_cycle : bool;                          (* graph_has_cycle(graph) *)
  ob_depth : Z;                             (* graph.depth *)
  ob_roots : list nat;                      (* graph.root_nodes(), as indices into graph.nodes *)
  ob_children : list (list nat);            (* graph.node_children(v) for every node v *)
  ob_edges : list (nat * nat);              (* graph.get_edges(): (parent, child) pairs *)
  ob_hier : list (option (list nat));       (* ordered_subnodes_hierarchy(v); None = ValueError *)
  ob_ndepth : list Z;                       (* node_depth(v) for every node v *)
  ob_ndlist : list (list nat * option Z);   (* node_depth(list of nodes); None = ValueError *)
  ob_dprim : list Z;                        (* distance_to_primary_level(v) *)
  ob_droot : list Z                         (* distance_to_root_level(graph, v) *)
}.

Definition memb (x : nat) (l : list nat) : bool := existsb (Nat.eqb x) l.

Fixpoint nodup_b (l : list nat) : bool :=
  match l with
  | [] => true
  | x :: r => negb (memb x r) && nodup_b r
  end.

Definition incl_b (l r : list nat) : bool := forallb (fun x => memb x r) l.

Definition same_set_b (l r : list nat) : bool := incl_b l r && incl_b r l.

Definition pair_eqb (a b : nat * nat) : bool := Nat.eqb (fst a) (fst b) && Nat.eqb (snd a) (snd b).

Fixpoint nodup_pairs_b (l : list (nat * nat)) : bool :=
  match l with
  | [] => true
  | x :: r => negb (existsb (pair_eqb x) r) && nodup_pairs_b r
  end.

(* forallb over positions 0..n-1 of an observed list that must have length n *)
Definition for_nodes {A} (n : nat) (l : list A) (f : nat -> A -> bool) : bool :=
  Nat.eqb (length l) n && forallb (fun va => f (fst va) (snd va)) (combine (seq 0 n) l).

Definition h_cycle (o : oracle) (ob : obs) : bool := eqb (ob_cycle ob) (cyclic_b o).

Definition h_roots (o : oracle) (ob : obs) : bool :=
  nodup_b (ob_roots ob) && same_set_b (ob_roots ob) (filter (sink_b o) (seq 0 (or_n o))).

Definition h_children (o : oracle) (ob : obs) : bool :=
  for_nodes (or_n o) (ob_children ob) (fun v cs =>
    nodup_b cs && same_set_b cs (filter (fun c => mget (or_adj o) c v) (seq 0 (or_n o)))).

(* every listed pair is an edge, every edge is listed, no pair twice *)
Definition h_edges (g : dg) (o : oracle) (ob : obs) : bool :=
  forallb (fun pc => mget (or_adj o) (snd pc) (fst pc)) (ob_edges ob) &&
  forallb (fun c => forallb (fun p => negb (mget (or_adj o) c p) || existsb (pair_eqb (p, c)) (ob_edges ob))
                            (seq 0 (or_n o))) (seq 0 (or_n o)) &&
  nodup_pairs_b (ob_edges ob).

Definition h_depth (o : oracle) (ob : obs) : bool :=
  Z.eqb (ob_depth ob)
        (if Nat.eqb (or_n o) 0 then 0%Z else if cyclic_b o then (-1)%Z else Z.of_nat (gheight_b o)).

Definition h_hier (o : oracle) (ob : obs) : bool :=
  for_nodes (or_n o) (ob_hier ob) (fun v r =>
    match r with
    | None => cycfrom_b o v
    | Some l => negb (cycfrom_b o v) &&
                match l with
                | [] => false
                | h :: t => Nat.eqb h v && nodup_b l && same_set_b t (anc_b o v)
                end
    end).

Definition node_depth_truth (o : oracle) (v : nat) : Z :=
  if cycfrom_b o v then (-1)%Z else Z.of_nat (height_b o v).

Definition h_ndepth (o : oracle) (ob : obs) : bool :=
  for_nodes (or_n o) (ob_ndepth ob) (fun v d => Z.eqb d (node_depth_truth o v)).

(* node_depth of a non-empty list of nodes: the maximum, -1 when one of them reaches a cycle *)
Definition h_ndlist (o : oracle) (ob : obs) : bool :=
  forallb (fun q =>
    match fst q with
    | [] => true
    | vs => match snd q with
            | None => false
            | Some d => Z.eqb d (if existsb (cycfrom_b o) vs then (-1)%Z
                                 else Z.of_nat (fold_right Nat.max 0 (map (height_b o) vs)))
            end
    end) (ob_ndlist ob).

(* the clauses of C12 on the observed behaviour, one boolean per clause *)
Definition holds_l (g : dg) (ob : obs) : list bool :=
  let o := mk_oracle g in
  [h_cycle o ob; h_roots o ob; h_children o ob; h_edges g o ob; h_depth o ob;
   h_hier o ob; h_ndepth o ob; h_ndlist o ob].

Definition holds_b (g : dg) (ob : obs) : bool := forallb (fun b => b) (holds_l g ob).
