(* C03 - executable model of the graph verifier and of the six built-in verification rules.

   golem/core/dag/graph_verifier.py     : GraphVerifier.verify (the rule loop)
   golem/core/dag/verification_rules.py : has_root, has_one_root, has_no_cycle,
                                          has_no_isolated_nodes, has_no_self_cycled_nodes,
                                          has_no_isolated_components, DEFAULT_DAG_RULES
   golem/core/adapter/adapter.py        : adapt_func (native rules are used as they are, the
                                          others receive `restore graph`), AdaptRegistry.is_native
   golem/core/dag/convert.py            : graph_structure_as_nx_graph (nodes + (parent, child) edges)

   A graph is `dg` (Graph/QueriesSpec.v, shared with C12): entry i lists the parents
   (`nodes_from`) of node i, node i is the i-th element of `graph.nodes`.
   `root_nodes`, `node_children`, `get_edges` and the literal iterative depth-first search
   `has_cycle` are the C12 models of Graph/Queries.v (imported, not copied); the breadth-first
   search of networkx.is_connected is modelled literally in Graph/RulesBfs.v.

   Definitions only; proofs are in RulesProofs.v.                                           *)
From Coq Require Import List Arith Bool.
From GolemV Require Import Base.Closure Graph.QueriesSpec Graph.Queries Graph.RulesBfs.
Import ListNotations.

(* ---------------------------------------------------------------------------------------- *)
(* 1. rule outcomes and the rule loop                                                        *)
(* ---------------------------------------------------------------------------------------- *)
(* what a call `adapt(rule)(graph)` does:
     RTrue        returns an object that is neither `False` nor `None` (the built-in rules: True)
     RFalse       returns the object `False`
     RNone        returns None
     RValueError  raises ValueError (or a subclass)
     ROther       raises anything else                                                       *)
Inductive outcome := RTrue | RFalse | RNone | RValueError | ROther.

(* what GraphVerifier.verify does: return True, return False, raise VerificationError, or let
   the rule's exception escape *)
Inductive verdict := Accept | Reject | RaiseVerification | RaiseOther.

Definition outcome_eqb (a b : outcome) : bool :=
  match a, b with
  | RTrue, RTrue | RFalse, RFalse | RNone, RNone | RValueError, RValueError | ROther, ROther => true
  | _, _ => false
  end.

Definition verdict_eqb (a b : verdict) : bool :=
  match a, b with
  | Accept, Accept | Reject, Reject | RaiseVerification, RaiseVerification | RaiseOther, RaiseOther => true
  | _, _ => false
  end.

(* the outcomes by which a rule signals a failed check *)
Definition rejects (o : outcome) : bool :=
  match o with RFalse | RValueError => true | _ => false end.

Section Verifier.
  Variable D : Type.                 (* domain graphs *)
  Variable restore : dg -> D.        (* adapter.restore *)

  (* a rule registered native takes the internal graph, any other rule takes a domain graph *)
  Inductive rule := Native (f : dg -> outcome) | Domain (f : D -> outcome).

  (* the argument a rule is called with *)
  Inductive given := GInternal (g : dg) | GDomain (d : D).

  (* adapt_func: `if is_native(fun): return fun` else `_transform(fun, f_args=restore, ...)` *)
  Definition rule_input (r : rule) (g : dg) : given :=
    match r with
    | Native _ => GInternal g
    | Domain _ => GDomain (restore g)
    end.

  Definition run_rule (r : rule) (g : dg) : outcome :=
    match r with
    | Native f => f g
    | Domain f => f (restore g)
    end.

  (* for rule in rules:
         try:    if adapt(rule)(graph) is False: return False
         except ValueError: if self._raise: raise VerificationError  else: return False
     return True *)
  Fixpoint verify (raise_flag : bool) (rules : list rule) (g : dg) : verdict :=
    match rules with
    | [] => Accept
    | r :: rest =>
        match run_rule r g with
        | RFalse => Reject
        | RValueError => if raise_flag then RaiseVerification else Reject
        | ROther => RaiseOther
        | RTrue | RNone => verify raise_flag rest g
        end
    end.

  (* the arguments of the calls made, in order: the loop stops at the first rule that does not
     pass *)
  Fixpoint calls (rules : list rule) (g : dg) : list given :=
    match rules with
    | [] => []
    | r :: rest =>
        rule_input r g ::
        match run_rule r g with
        | RTrue | RNone => calls rest g
        | _ => []
        end
    end.
End Verifier.

Arguments Native {D} f.
Arguments Domain {D} f.
Arguments GInternal {D} g.
Arguments GDomain {D} d.
Arguments rule_input {D} restore r g.
Arguments run_rule {D} restore r g.
Arguments verify {D} restore raise_flag rules g.
Arguments calls {D} restore rules g.

(* ---------------------------------------------------------------------------------------- *)
(* 2. the six built-in rules                                                                 *)
(* ---------------------------------------------------------------------------------------- *)
Definition is_nil {A} (l : list A) : bool := match l with [] => true | _ => false end.

(* graph.root_node is the single root when there is exactly one, else the list of roots;
   `if graph.root_node:` - a node is truthy, a list is truthy when non-empty *)
Definition r_has_root (g : dg) : outcome :=
  if is_nil (root_nodes g) then RFalse else RTrue.

(* isinstance(graph.root_node, GraphNode) *)
Definition r_has_one_root (g : dg) : outcome :=
  match root_nodes g with
  | [_] => RTrue
  | _ => RFalse
  end.

(* if graph_has_cycle(graph): raise ValueError.   (None = the fuel of the model ran out; it
   never does on closed graphs: Graph/QueriesCycle.v has_cycle_terminates) *)
Definition r_has_no_cycle (g : dg) : outcome :=
  match has_cycle g with
  | Some true => RValueError
  | Some false => RTrue
  | None => ROther
  end.

(* [node for node in graph.nodes if node.nodes_from and node in node.nodes_from] *)
Definition self_cycled (g : dg) : list nat :=
  filter (fun v => negb (is_nil (parents g v)) && memb v (parents g v)) (nodes g).

Definition r_no_self_cycled (g : dg) : outcome :=
  if is_nil (self_cycled g) then RTrue else RValueError.

(* graph_structure_as_nx_graph: one NetworkX node per graph node, one edge (parent, child) per
   entry of a parent list.  degree in a DiGraph = in-degree + out-degree, so a self-loop
   contributes 2.  (A parent listed twice would be one NetworkX edge; the count below would be
   larger but is zero in exactly the same cases.) *)
Definition nx_degree (g : dg) (v : nat) : nat :=
  let es := get_edges g in
  length (filter (fun e => Nat.eqb (fst e) v) es) + length (filter (fun e => Nat.eqb (snd e) v) es).

(* list(networkx.isolates(nx_graph)) *)
Definition isolates (g : dg) : list nat := filter (fun v => Nat.eqb (nx_degree g v) 0) (nodes g).

(* if len(isolated) > 0 and graph.length != 1: raise ValueError *)
Definition r_no_isolated_nodes (g : dg) : outcome :=
  if negb (is_nil (isolates g)) && negb (Nat.eqb (length g) 1) then RValueError else RTrue.

(* ud_nx_graph: the undirected NetworkX graph on the same nodes and edges.
   if number_of_nodes == 0: raise ValueError;  if not nx.is_connected(ud_nx_graph): raise ValueError
   `nx_is_connected` is the literal model of NetworkX's breadth-first search from the first
   node (Graph/RulesBfs.v); None = the fuel of the model ran out, which never happens on closed
   graphs (RulesBfsProofs.v plain_bfs_terminates) *)
Definition r_no_isolated_components (g : dg) : outcome :=
  if Nat.eqb (length g) 0 then RValueError
  else match nx_is_connected g with
       | Some true => RTrue
       | Some false => RValueError
       | None => ROther
       end.

Inductive builtin := BHasRoot | BHasOneRoot | BNoCycle | BNoIsoComponents | BNoSelfCycled | BNoIsoNodes.

Definition builtin_fn (b : builtin) : dg -> outcome :=
  match b with
  | BHasRoot => r_has_root
  | BHasOneRoot => r_has_one_root
  | BNoCycle => r_has_no_cycle
  | BNoIsoComponents => r_no_isolated_components
  | BNoSelfCycled => r_no_self_cycled
  | BNoIsoNodes => r_no_isolated_nodes
  end.

(* all six are registered native *)
Definition builtin_rule {D} (b : builtin) : rule D := Native (builtin_fn b).

(* DEFAULT_DAG_RULES = [has_root, has_no_cycle, has_no_isolated_components,
                        has_no_self_cycled_nodes, has_no_isolated_nodes] *)
Definition default_dag_rules : list builtin :=
  [BHasRoot; BNoCycle; BNoIsoComponents; BNoSelfCycled; BNoIsoNodes].

(* ---------------------------------------------------------------------------------------- *)
(* 3. the structural conditions, as Props                                                    *)
(* ---------------------------------------------------------------------------------------- *)
(* `sink`, `edge`, `cyclic` come from Graph/QueriesSpec.v (GOLEM calls the sinks "roots") *)
Definition uedge (g : dg) (x y : nat) : Prop := edge g x y \/ edge g y x.

(* undirected reachability: reflexive-transitive closure of the symmetrised edge relation *)
Inductive ureach (g : dg) : nat -> nat -> Prop :=
| ureach_refl : forall x, ureach g x x
| ureach_step : forall x y z, uedge g x y -> ureach g y z -> ureach g x z.

(* total degree of a node: parents + children (a self-loop counts on both sides) *)
Definition degree (g : dg) (v : nat) : nat := length (parents g v) + length (node_children g v).

Definition cond (b : builtin) (g : dg) : Prop :=
  match b with
  | BHasRoot => exists v, sink g v
  | BHasOneRoot => exists v, sink g v /\ forall w, sink g w -> w = v
  | BNoCycle => ~ cyclic g
  | BNoSelfCycled => forall v, ~ edge g v v
  | BNoIsoNodes => (forall v, v < length g -> degree g v > 0) \/ length g = 1
  | BNoIsoComponents => length g > 0 /\ forall u v, u < length g -> v < length g -> ureach g u v
  end.

(* ---------------------------------------------------------------------------------------- *)
(* 4. independent oracle for the structural conditions                                       *)
(*    boolean matrices only: adjacency, its transitive closure, the symmetrised adjacency    *)
(*    and its closure (n-fold relational composition, Base/Closure.v).  No depth-first or    *)
(*    breadth-first search, no root_nodes / node_children / get_edges.                       *)
(* ---------------------------------------------------------------------------------------- *)
Definition uadj_b (g : dg) (x y : nat) : bool := adj_b g x y || adj_b g y x.

Definition uadjm (g : dg) : bmat := mk (length g) (uadj_b g).

Record roracle := { ro_n : nat; ro_adj : bmat; ro_tc : bmat; ro_utc : bmat }.

Definition mk_roracle (g : dg) : roracle :=
  let n := length g in
  {| ro_n := n; ro_adj := adjm g; ro_tc := tc n (adjm g); ro_utc := tc n (uadjm g) |}.

Definition o_sink (o : roracle) (v : nat) : bool :=
  negb (existsb (fun c => mget (ro_adj o) c v) (seq 0 (ro_n o))).

Definition o_degree_pos (o : roracle) (v : nat) : bool :=
  existsb (fun w => mget (ro_adj o) v w || mget (ro_adj o) w v) (seq 0 (ro_n o)).

Definition o_cond (o : roracle) (b : builtin) : bool :=
  let vs := seq 0 (ro_n o) in
  match b with
  | BHasRoot => existsb (o_sink o) vs
  | BHasOneRoot => Nat.eqb (length (filter (o_sink o) vs)) 1
  | BNoCycle => negb (existsb (fun v => mget (ro_tc o) v v) vs)
  | BNoSelfCycled => forallb (fun v => negb (mget (ro_adj o) v v)) vs
  | BNoIsoNodes => forallb (o_degree_pos o) vs || Nat.eqb (ro_n o) 1
  | BNoIsoComponents =>
      negb (Nat.eqb (ro_n o) 0) &&
      forallb (fun u => forallb (fun v => Nat.eqb u v || mget (ro_utc o) u v) vs) vs
  end.

(* number of edges according to the adjacency matrix (pairs are (parent, child)) *)
Definition o_edge_count (o : roracle) : nat :=
  length (filter (fun pc => mget (ro_adj o) (snd pc) (fst pc))
                 (list_prod (seq 0 (ro_n o)) (seq 0 (ro_n o)))).

(* ---------------------------------------------------------------------------------------- *)
(* 5. the concrete rule language of the correspondence check                                 *)
(* ---------------------------------------------------------------------------------------- *)
(* adapters used by the harness: IdentityAdapter (restore = the same object), DirectAdapter
   (restore = a deep copy of class OptGraph), BaseNetworkxAdapter (restore = networkx.DiGraph
   whose nodes are the uids and whose edges are the (parent, child) pairs) *)
Inductive adapter := AdIdentity | AdDirect | AdNx.

(* what a user rule observed about its argument.
   AOpt same g : an OptGraph; `same` = it is the very object handed to the verifier;
                 g = its parent lists by position in `nodes`
   ANx n es    : a networkx.DiGraph with n nodes; es = its edges as (parent, child) positions
                 of the uids in the verified graph, sorted                                   *)
Inductive arg := AOpt (same : bool) (g : dg) | ANx (n : nat) (es : list (nat * nat)).

(* the (parent, child) pairs in lexicographic order, each once *)
Definition edge_pairs (g : dg) : list (nat * nat) :=
  filter (fun pc => memb (fst pc) (parents g (snd pc))) (list_prod (nodes g) (nodes g)).

Definition restore_of (ad : adapter) (g : dg) : arg :=
  match ad with
  | AdIdentity => AOpt true g
  | AdDirect => AOpt false g
  | AdNx => ANx (length g) (edge_pairs g)
  end.

(* user rules of the harness:
     UConst o        a constant outcome (ValueError is raised as ValueError, a private subclass,
                     or golem's VerificationError itself)
     UEdgesLe k f    a structural predicate evaluated on the argument received (number of
                     edges <= k; otherwise fail with `f`)
     UNodesLe k f    the same with the number of nodes (a "maximal size" rule)
     UNested bs      a composite rule: it runs an inner GraphVerifier(built-in rules bs,
                     raise_on_failure=True) on the graph it received (a NetworkX argument is first
                     adapted back to an OptGraph) and returns its result / lets its
                     VerificationError (a ValueError) escape
     UMutate m r     a rule with a side effect: it first MODIFIES the graph object it received
                     (drops its last node, cuts the parents of its first node, or renames its
                     nodes) and then answers `r`.  Its outcome is `r`; what the modification hits
                     is the subject of section 8.                                             *)
Inductive mutation := MDropLast | MCutFirst | MRename.

Inductive ubehav := UConst (o : outcome) | UEdgesLe (k : nat) (fail : outcome) | UNodesLe (k : nat) (fail : outcome)
                 | UNested (bs : list builtin) | UMutate (m : mutation) (ret : outcome).

Definition arg_edges (a : arg) : nat :=
  match a with
  | AOpt _ g => length (get_edges g)       (* len(graph.get_edges()) *)
  | ANx _ es => length es                   (* nx_graph.number_of_edges() *)
  end.

Definition arg_nodes (a : arg) : nat :=
  match a with
  | AOpt _ g => length g                    (* graph.length *)
  | ANx n _ => n                            (* nx_graph.number_of_nodes() *)
  end.

(* the graph a composite rule verifies: the OptGraph it received, or adapter.adapt(nx_graph)
   (node order kept; parents of c = sources of the edges into c) *)
Definition arg_graph (a : arg) : dg :=
  match a with
  | AOpt _ g => g
  | ANx n es => map (fun c => map fst (filter (fun pc => Nat.eqb (snd pc) c) es)) (seq 0 n)
  end.

(* what the inner verifier's answer means to the outer loop *)
Definition verdict_outcome (v : verdict) : outcome :=
  match v with
  | Accept => RTrue
  | Reject => RFalse
  | RaiseVerification => RValueError          (* VerificationError is a ValueError *)
  | RaiseOther => ROther
  end.

Definition ubehav_fn (u : ubehav) (a : arg) : outcome :=
  match u with
  | UConst o => o
  | UEdgesLe k fail => if arg_edges a <=? k then RTrue else fail
  | UNodesLe k fail => if arg_nodes a <=? k then RTrue else fail
  | UNested bs => verdict_outcome (verify (fun g => AOpt true g) true (map builtin_rule bs) (arg_graph a))
  | UMutate _ ret => ret
  end.

Inductive crule := CB (b : builtin) | CU (native : bool) (u : ubehav).

(* `bf` = the functions behind the built-in rules (builtin_fn; the harness passes a table of
   their values on the graph at hand, see check_case) *)
Definition denote_with (bf : builtin -> dg -> outcome) (c : crule) : rule arg :=
  match c with
  | CB b => Native (bf b)
  | CU true u => Native (fun g => ubehav_fn u (AOpt true g))
  | CU false u => Domain (ubehav_fn u)
  end.

Definition denote (c : crule) : rule arg := denote_with builtin_fn c.

(* the observable part of `calls`: the arguments received by the user rules (the built-in
   rules are not instrumented), tagged with the position of the rule in the rule list *)
Fixpoint user_calls_with (bf : builtin -> dg -> outcome) (ad : adapter) (i : nat) (rules : list crule) (g : dg)
  : list (nat * arg) :=
  match rules with
  | [] => []
  | c :: rest =>
      let here := match c with
                  | CB _ => []
                  | CU true _ => [(i, AOpt true g)]
                  | CU false _ => [(i, restore_of ad g)]
                  end in
      here ++ match run_rule (restore_of ad) (denote_with bf c) g with
              | RTrue | RNone => user_calls_with bf ad (S i) rest g
              | _ => []
              end
  end.

Definition user_calls := user_calls_with builtin_fn.

Record obs := { ob_verdict : verdict; ob_calls : list (nat * arg) }.

Definition dg_eqb (a b : dg) : bool := leqb (leqb Nat.eqb) a b.

Definition arg_eqb (a b : arg) : bool :=
  match a, b with
  | AOpt s g, AOpt s' g' => Bool.eqb s s' && dg_eqb g g'
  | ANx n es, ANx n' es' => Nat.eqb n n' && leqb pair_eqb es es'
  | _, _ => false
  end.

(* model = implementation: same verdict, same calls of user rules with the same arguments *)
Definition agree_with (bf : builtin -> dg -> outcome) (ad : adapter) (raise_flag : bool) (rules : list crule)
                      (g : dg) (ob : obs) : bool :=
  verdict_eqb (verify (restore_of ad) raise_flag (map (denote_with bf) rules) g) (ob_verdict ob) &&
  leqb (fun x y => Nat.eqb (fst x) (fst y) && arg_eqb (snd x) (snd y))
       (user_calls_with bf ad 0 rules g) (ob_calls ob).

Definition agree := agree_with builtin_fn.

(* ---------------------------------------------------------------------------------------- *)
(* 6. the property's clauses on the OBSERVED behaviour                                       *)
(* ---------------------------------------------------------------------------------------- *)
(* does the rule hold for the graph?  built-in rule: the structural condition of its name,
   decided by the matrix oracle; user rule: its declared behaviour is not False / ValueError *)
Definition o_rule_holds (o : roracle) (c : crule) : bool :=
  match c with
  | CB b => o_cond o b
  | CU _ (UConst r) => negb (rejects r)
  | CU _ (UEdgesLe k fail) => (o_edge_count o <=? k) || negb (rejects fail)
  | CU _ (UNodesLe k fail) => (ro_n o <=? k) || negb (rejects fail)
  | CU _ (UNested bs) => forallb (o_cond o) bs
  | CU _ (UMutate _ ret) => negb (rejects ret)
  end.

(* a user rule whose declared behaviour is to raise something other than ValueError: the
   property text does not say what the verifier does then *)
Definition c_raises_other (o : roracle) (c : crule) : bool :=
  match c with
  | CB _ => false
  | CU _ (UConst r) => outcome_eqb r ROther
  | CU _ (UEdgesLe k fail) => negb (o_edge_count o <=? k) && outcome_eqb fail ROther
  | CU _ (UNodesLe k fail) => negb (ro_n o <=? k) && outcome_eqb fail ROther
  | CU _ (UNested _) => false
  | CU _ (UMutate _ ret) => outcome_eqb ret ROther
  end.

(* the argument a user rule must have received: the internal graph itself when native, the
   restored domain graph otherwise (same structure as the verified graph, domain type) *)
Definition o_arg_ok (o : roracle) (ad : adapter) (native : bool) (g : dg) (a : arg) : bool :=
  match a with
  | AOpt same g' =>
      dg_eqb g' g &&
      (if native then same
       else match ad with AdIdentity => same | AdDirect => negb same | AdNx => false end)
  | ANx n es =>
      negb native && (match ad with AdNx => true | _ => false end) &&
      Nat.eqb n (ro_n o) &&
      forallb (fun pc => mget (ro_adj o) (snd pc) (fst pc)) es &&
      Nat.eqb (length es) (o_edge_count o) &&
      nodup_pairs_b es
  end.

Definition holds_lo (o : roracle) (ad : adapter) (raise_flag : bool) (rules : list crule) (g : dg) (ob : obs)
  : list bool :=
  let all_hold := forallb (o_rule_holds o) rules in
  let uncovered := existsb (c_raises_other o) rules in
  [ (* accepts iff every configured rule holds; a boolean unless raising was requested *)
    uncovered ||
    match ob_verdict ob with
    | Accept => all_hold
    | Reject => negb all_hold
    | RaiseVerification => raise_flag && negb all_hold
    | RaiseOther => false
    end;
    (* native rules get the internal graph, domain rules the restored domain graph *)
    forallb (fun ia => match nth_error rules (fst ia) with
                       | Some (CU native _) => o_arg_ok o ad native g (snd ia)
                       | _ => false
                       end) (ob_calls ob) ].

Definition holds_l (ad : adapter) (raise_flag : bool) (rules : list crule) (g : dg) (ob : obs) : list bool :=
  holds_lo (mk_roracle g) ad raise_flag rules g ob.

Definition holds_b (ad : adapter) (raise_flag : bool) (rules : list crule) (g : dg) (ob : obs) : bool :=
  forallb (fun b => b) (holds_l ad raise_flag rules g ob).

(* what the harness evaluates: per graph a list of runs (adapter, raise flag, rules, observed);
   the answer is [all runs agree; all runs satisfy the property].  The six built-in rules and
   the oracle are evaluated once per graph and shared by the runs (RulesProofs.v
   check_case_spec: the answer is the same as with `agree` and `holds_b` run by run). *)
Definition run := (adapter * bool * list crule * obs)%type.

Definition builtin_index (b : builtin) : nat :=
  match b with
  | BHasRoot => 0 | BHasOneRoot => 1 | BNoCycle => 2 | BNoIsoComponents => 3 | BNoSelfCycled => 4 | BNoIsoNodes => 5
  end.

Definition all_builtins : list builtin :=
  [BHasRoot; BHasOneRoot; BNoCycle; BNoIsoComponents; BNoSelfCycled; BNoIsoNodes].

Definition builtin_table (g : dg) : list outcome := map (fun b => builtin_fn b g) all_builtins.

Definition table_fn (t : list outcome) (b : builtin) (_ : dg) : outcome := nth (builtin_index b) t ROther.

Definition check_run (g : dg) (r : run) : bool * bool :=
  match r with
  | (ad, rf, rules, ob) => (agree ad rf rules g ob, holds_b ad rf rules g ob)
  end.

Definition check_run_shared (t : list outcome) (o : roracle) (g : dg) (r : run) : bool * bool :=
  match r with
  | (ad, rf, rules, ob) =>
      (agree_with (table_fn t) ad rf rules g ob, forallb (fun b => b) (holds_lo o ad rf rules g ob))
  end.

Definition check_case (c : dg * list run) : list bool :=
  let g := fst c in
  let t := builtin_table g in
  let o := mk_roracle g in
  let rs := map (check_run_shared t o g) (snd c) in
  [forallb fst rs; forallb snd rs].

(* ---------------------------------------------------------------------------------------- *)
(* 7. a verifier INSTANCE used for several graphs                                            *)
(* ---------------------------------------------------------------------------------------- *)
(* GraphVerifier keeps its adapter, its rules and the raise flag; a call reads them and changes
   nothing, so the instance after a call is the instance before it *)
Record verifier (D : Type) := { v_restore : dg -> D; v_raise : bool; v_rules : list (rule D) }.
Arguments v_restore {D} v. Arguments v_raise {D} v. Arguments v_rules {D} v.

Definition call {D} (v : verifier D) (g : dg) : verifier D * verdict :=
  (v, verify (v_restore v) (v_raise v) (v_rules v) g).

(* verifier(g1); verifier(g2); ... on one instance *)
Fixpoint call_seq {D} (v : verifier D) (gs : list dg) : list verdict :=
  match gs with
  | [] => []
  | g :: r => let vx := call v g in snd vx :: call_seq (fst vx) r
  end.

(* correspondence case: one GraphVerifier instance (one adapter instance, one list of rule
   objects) called on the graphs in order; per call the observed verdict and user-rule calls *)
Definition seq_case := (adapter * bool * list crule * list (dg * obs))%type.

Definition check_seq (c : seq_case) : list bool :=
  match c with
  | (ad, rf, rules, cl) =>
      let vs := call_seq {| v_restore := restore_of ad; v_raise := rf; v_rules := map denote rules |} (map fst cl) in
      [ Nat.eqb (length vs) (length cl) &&
        forallb (fun x => verdict_eqb (fst x) (ob_verdict (snd (snd x))) &&
                          agree ad rf rules (fst (snd x)) (snd (snd x))) (combine vs cl);
        forallb (fun go => holds_b ad rf rules (fst go) (snd go)) cl ]
  end.

(* ---------------------------------------------------------------------------------------- *)
(* 8. rules that modify the graph they are given                                             *)
(* ---------------------------------------------------------------------------------------- *)
(* state of the verified graph object: its structure and "it has nodes and they carry the name
   given by a renaming rule" (a renaming rule renames every node; what the harness observes is
   whether a node of the graph carries that name, so the mark ends when the last node goes) *)
Definition gstate := (dg * bool)%type.

(* nodes.remove(last) after removing `last` from every parent list *)
Definition drop_last (g : dg) : dg :=
  map (filter (fun p => negb (Nat.eqb p (length g - 1)))) (removelast g).

(* nodes[0].nodes_from = [] *)
Definition cut_first (g : dg) : dg := match g with [] => [] | _ :: r => [] :: r end.

Definition mutate (m : mutation) (s : gstate) : gstate :=
  match m with
  | MDropLast => let g' := drop_last (fst s) in (g', snd s && negb (is_nil g'))
  | MCutFirst => (cut_first (fst s), snd s)
  | MRename => (fst s, match fst s with [] => snd s | _ => true end)
  end.

(* is the object handed to the rule the verified graph itself?  native rules: yes (adapt_func
   returns them unchanged); domain rules: only when restore is the identity (IdentityAdapter);
   DirectAdapter hands over a deep copy, the NetworkX adapter a new DiGraph *)
Definition aliases (ad : adapter) (native : bool) : bool :=
  native || match ad with AdIdentity => true | _ => false end.

Definition rule_effect (ad : adapter) (c : crule) (s : gstate) : gstate :=
  match c with
  | CU native (UMutate m _) => if aliases ad native then mutate m s else s
  | _ => s
  end.

(* the rule loop with the state of the verified graph threaded through: each rule judges the
   graph as it is when the rule is called *)
Fixpoint verify_m (ad : adapter) (raise_flag : bool) (rules : list crule) (s : gstate) : verdict * gstate :=
  match rules with
  | [] => (Accept, s)
  | c :: rest =>
      let o := run_rule (restore_of ad) (denote c) (fst s) in
      let s' := rule_effect ad c s in
      match o with
      | RFalse => (Reject, s')
      | RValueError => (if raise_flag then RaiseVerification else Reject, s')
      | ROther => (RaiseOther, s')
      | RTrue | RNone => verify_m ad raise_flag rest s'
      end
  end.

Fixpoint user_calls_m (ad : adapter) (i : nat) (rules : list crule) (s : gstate) : list (nat * arg) :=
  match rules with
  | [] => []
  | c :: rest =>
      let here := match c with
                  | CB _ => []
                  | CU true _ => [(i, AOpt true (fst s))]
                  | CU false _ => [(i, restore_of ad (fst s))]
                  end in
      here ++ match run_rule (restore_of ad) (denote c) (fst s) with
              | RTrue | RNone => user_calls_m ad (S i) rest (rule_effect ad c s)
              | _ => []
              end
  end.

(* observation of one call: verdict, user-rule calls, and the verified graph afterwards *)
Record mobs := { mo_obs : obs; mo_final : dg; mo_renamed : bool }.

(* the same verifier called on the same graph object several times *)
Fixpoint agree_m (ad : adapter) (rf : bool) (rules : list crule) (s : gstate) (l : list mobs) : bool :=
  match l with
  | [] => true
  | m :: r =>
      let vs := verify_m ad rf rules s in
      verdict_eqb (fst vs) (ob_verdict (mo_obs m)) &&
      leqb (fun x y => Nat.eqb (fst x) (fst y) && arg_eqb (snd x) (snd y))
           (user_calls_m ad 0 rules s) (ob_calls (mo_obs m)) &&
      dg_eqb (fst (snd vs)) (mo_final m) && Bool.eqb (snd (snd vs)) (mo_renamed m) &&
      agree_m ad rf rules (snd vs) r
  end.

Definition is_mutating (c : crule) : bool := match c with CU _ (UMutate _ _) => true | _ => false end.

(* every modifying rule works on a separate object (copying adapter, rule not native) *)
Definition protected (ad : adapter) (rules : list crule) : bool :=
  forallb (fun c => match c with CU native (UMutate _ _) => negb (aliases ad native) | _ => true end) rules.

(* the property on the observed behaviour: when every modifying rule is a domain rule under a
   copying adapter ("given the RESTORED domain graph"), verification must leave the verified
   graph as it was, and every call must satisfy the clauses of holds_l for the ORIGINAL graph.
   When a modifying rule is native, or the adapter is the identity, the code hands the rule the
   verified graph itself by definition; the property text says nothing about rules with side
   effects on it, so those runs are judged by agree_m only. *)
Definition holds_m (ad : adapter) (rf : bool) (rules : list crule) (g : dg) (l : list mobs) : bool :=
  negb (protected ad rules) ||
  forallb (fun m => dg_eqb (mo_final m) g && negb (mo_renamed m) &&
                    holds_b ad rf rules g (mo_obs m)) l.

Definition mcase := (dg * adapter * bool * list crule * list mobs)%type.

Definition check_mut (c : mcase) : list bool :=
  match c with
  | (g, ad, rf, rules, l) => [agree_m ad rf rules (g, false) l; holds_m ad rf rules g l]
  end.
