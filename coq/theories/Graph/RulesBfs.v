(* C03 - literal model of the NetworkX search behind `networkx.is_connected`, as used by the rule
   has_no_isolated_components on the undirected copy of the graph:

     def is_connected(G):
         n = len(G)
         if n == 0: raise NetworkXPointlessConcept
         return len(next(connected_components(G))) == n      # component of the first node

     def _plain_bfs(G, n, source):
         adj = G._adj
         seen = {source}
         nextlevel = [source]
         while nextlevel:
             thislevel = nextlevel
             nextlevel = []
             for v in thislevel:
                 for w in adj[v]:
                     if w not in seen:
                         seen.add(w)
                         nextlevel.append(w)
                 if len(seen) == n:
                     return seen
         return seen

   Graph = `dg` (parents by position).  Definitions only; proofs in RulesBfsProofs.v.        *)
From Coq Require Import List Arith Bool.
From GolemV Require Import Graph.QueriesSpec Graph.Queries.
Import ListNotations.

(* adj[v] of the undirected graph built from the (parent, child) edges: parents and children
   (the iteration order inside adj[v] does not influence the set that is returned) *)
Definition nbrs (g : dg) (v : nat) : list nat := parents g v ++ node_children g v.

(* for w in adj[v]: if w not in seen: seen.add(w); nextlevel.append(w) *)
Fixpoint visit (ws : list nat) (seen next : list nat) : list nat * list nat :=
  match ws with
  | [] => (seen, next)
  | w :: r => if memb w seen then visit r seen next else visit r (w :: seen) (next ++ [w])
  end.

(* for v in thislevel: ... ; if len(seen) == n: return seen        (inr = `return seen`) *)
Fixpoint level (g : dg) (n : nat) (vs : list nat) (seen next : list nat) : (list nat * list nat) + list nat :=
  match vs with
  | [] => inl (seen, next)
  | v :: r => let sn := visit (nbrs g v) seen next in
              if Nat.eqb (length (fst sn)) n then inr (fst sn) else level g n r (fst sn) (snd sn)
  end.

(* while nextlevel: ...        (fuel bounds the number of levels; None = out of fuel) *)
Fixpoint bfs (fuel : nat) (g : dg) (n : nat) (seen lvl : list nat) : option (list nat) :=
  match fuel with
  | O => None
  | S k => match lvl with
           | [] => Some seen
           | _ => match level g n lvl seen [] with
                  | inr s => Some s
                  | inl sn => bfs k g n (fst sn) (snd sn)
                  end
           end
  end.

(* _plain_bfs(G, n, first node); the first node of the NetworkX graph is node 0 *)
Definition plain_bfs (g : dg) : option (list nat) := bfs (S (length g)) g (length g) [0] [0].

(* len(component of the first node) == n, for a graph with at least one node *)
Definition nx_is_connected (g : dg) : option bool :=
  match plain_bfs g with
  | Some s => Some (Nat.eqb (length s) (length g))
  | None => None
  end.
