(* C03 - the literal NetworkX breadth-first search of RulesBfs.v terminates within its fuel and
   decides "every node is connected to the first node by an undirected path".

   Invariant of the search (Inv): `seen` is duplicate-free, contains node 0, every member is a
   node reachable from 0, the pending nodes (rest of the current level ++ next level) are
   seen, and every seen node that is not pending has all its neighbours in `seen`.          *)
From Coq Require Import List Arith Bool Lia.
From GolemV Require Import Base.Closure Graph.QueriesSpec Graph.Queries Graph.QueriesBasics
  Graph.QueriesLocal Graph.RulesBfs Graph.Rules.
Import ListNotations.

(* ---- undirected reachability ---- *)
Lemma uedge_sym : forall g x y, uedge g x y -> uedge g y x.
Proof. intros g x y [H|H]; [right|left]; exact H. Qed.

Lemma ureach_trans : forall g x y z, ureach g x y -> ureach g y z -> ureach g x z.
Proof.
  intros g x y z H. induction H as [x|x a y E R IH]; intros H2; [exact H2|].
  eapply ureach_step; [exact E|apply IH; exact H2].
Qed.

Lemma ureach_sym : forall g x y, ureach g x y -> ureach g y x.
Proof.
  intros g x y H. induction H as [x|x a y E R IH]; [apply ureach_refl|].
  eapply ureach_trans; [exact IH|]. eapply ureach_step; [apply uedge_sym; exact E|apply ureach_refl].
Qed.

Lemma ureach_snoc : forall g x y z, ureach g x y -> uedge g y z -> ureach g x z.
Proof. intros g x y z R E. eapply ureach_trans; [exact R|]. eapply ureach_step; [exact E|apply ureach_refl]. Qed.

Lemma uedge_lt : forall g, wf g -> forall x y, uedge g x y -> x < length g /\ y < length g.
Proof.
  intros g Hwf x y [E|E].
  - split; [eapply edge_src_lt; exact E|eapply Hwf; exact E].
  - split; [eapply Hwf; exact E|eapply edge_src_lt; exact E].
Qed.

Lemma NoDup_app_intro : forall {A} (a b : list A),
  NoDup a -> NoDup b -> (forall x, In x a -> In x b -> False) -> NoDup (a ++ b).
Proof.
  intros A a b Ha Hb Hd. induction Ha as [|x a Hx Ha IH]; [exact Hb|].
  simpl. constructor.
  - intros Hin. apply in_app_or in Hin. destruct Hin as [Hin|Hin]; [exact (Hx Hin)|].
    apply (Hd x); [left; reflexivity|exact Hin].
  - apply IH. intros y Hy1 Hy2. apply (Hd y); [right; exact Hy1|exact Hy2].
Qed.

(* ---- neighbours ---- *)
Lemma nbrs_spec : forall g v w, In w (nbrs g v) <-> uedge g v w.
Proof.
  intros g v w. unfold nbrs, uedge. rewrite in_app_iff, node_children_spec. unfold edge at 1. split.
  - intros [H|[_ H]]; [left|right]; exact H.
  - intros [H|H]; [left; exact H|right]. split; [eapply edge_src_lt; exact H|exact H].
Qed.

(* ---- the inner loop ---- *)
Lemma visit_spec : forall ws seen next,
  exists added, visit ws seen next = (rev added ++ seen, next ++ added) /\ NoDup added /\
    (forall x, In x added -> ~ In x seen) /\ incl added ws /\
    (forall w, In w ws -> In w (rev added ++ seen)).
Proof.
  induction ws as [|w r IH]; intros seen next.
  - exists []. simpl. rewrite app_nil_r. repeat split; try constructor; intros x []; contradiction.
  - cbn [visit]. destruct (memb w seen) eqn:M.
    + destruct (IH seen next) as [added [E [Hnd [Hdis [Hinc Hall]]]]].
      exists added. split; [exact E|]. split; [exact Hnd|]. split; [exact Hdis|].
      split; [intros x Hx; right; apply Hinc; exact Hx|].
      intros x [<-|Hx]; [apply in_or_app; right; apply memb_iff; exact M|apply Hall; exact Hx].
    + destruct (IH (w :: seen) (next ++ [w])) as [added [E [Hnd [Hdis [Hinc Hall]]]]].
      apply memb_false_iff in M.
      exists (w :: added). split; [|split; [|split; [|split]]].
      * rewrite E. cbn [rev]. rewrite <- !app_assoc. reflexivity.
      * constructor; [|exact Hnd]. intros Hin. apply (Hdis w Hin). left. reflexivity.
      * intros x [<-|Hx]; [exact M|]. intros Hs. apply (Hdis x Hx). right. exact Hs.
      * intros x [<-|Hx]; [left; reflexivity|right; apply Hinc; exact Hx].
      * intros x Hx. cbn [rev]. rewrite <- app_assoc. cbn [app].
        destruct Hx as [<-|Hx]; [apply in_or_app; right; left; reflexivity|apply Hall; exact Hx].
Qed.

(* ---- the invariant ---- *)
Definition Inv (g : dg) (seen pend : list nat) : Prop :=
  NoDup seen /\ In 0 seen /\ (forall s, In s seen -> s < length g /\ ureach g 0 s) /\
  incl pend seen /\
  (forall s, In s seen -> ~ In s pend -> forall w, In w (nbrs g s) -> In w seen).

Lemma Inv_length : forall g seen pend, Inv g seen pend -> length seen <= length g.
Proof.
  intros g seen pend [Hnd [_ [Hr _]]]. rewrite <- (seq_length (length g) 0).
  apply NoDup_incl_length; [exact Hnd|]. intros x Hx. apply in_seq. destruct (Hr x Hx). lia.
Qed.

Lemma visit_inv : forall g v r seen next seen1 next1, wf g ->
  Inv g seen (v :: r ++ next) -> visit (nbrs g v) seen next = (seen1, next1) ->
  Inv g seen1 (r ++ next1) /\ length seen1 + length next = length seen + length next1.
Proof.
  intros g v r seen next seen1 next1 Hwf [Hnd [H0 [Hr [Hp Hc]]]] E.
  destruct (visit_spec (nbrs g v) seen next) as [added [E' [Hnda [Hdis [Hinc Hall]]]]].
  rewrite E in E'. injection E' as -> ->.
  assert (Hv : In v seen) by (apply Hp; left; reflexivity).
  split.
  - split; [|split; [|split; [|split]]].
    + apply NoDup_app_intro; [apply NoDup_rev; exact Hnda|exact Hnd|].
      intros x Hx Hs. apply in_rev in Hx. exact (Hdis x Hx Hs).
    + apply in_or_app. right. exact H0.
    + intros s Hs. apply in_app_or in Hs. destruct Hs as [Hs|Hs]; [|apply Hr; exact Hs].
      apply in_rev in Hs. apply Hinc in Hs. apply nbrs_spec in Hs.
      split; [apply (uedge_lt g Hwf v s Hs)|]. eapply ureach_snoc; [apply (Hr v Hv)|exact Hs].
    + intros x Hx. apply in_or_app. apply in_app_or in Hx. destruct Hx as [Hx|Hx].
      * right. apply Hp. right. apply in_or_app. left. exact Hx.
      * apply in_app_or in Hx. destruct Hx as [Hx|Hx].
        -- right. apply Hp. right. apply in_or_app. right. exact Hx.
        -- left. apply in_rev in Hx. exact Hx.
    + intros s Hs Hnp w Hw. destruct (Nat.eq_dec s v) as [->|Hsv]; [apply Hall; exact Hw|].
      apply in_app_or in Hs. destruct Hs as [Hs|Hs].
      * exfalso. apply Hnp. apply in_or_app. right. apply in_or_app. right. apply in_rev. exact Hs.
      * apply in_or_app. right. apply (Hc s Hs); [|exact Hw].
        intros [Hq|Hq]; [congruence|]. apply Hnp. apply in_app_or in Hq. apply in_or_app.
        destruct Hq as [Hq|Hq]; [left; exact Hq|right; apply in_or_app; left; exact Hq].
  - rewrite !app_length, rev_length. lia.
Qed.

(* what the search may return: reachable nodes only, and either all n nodes or a set closed
   under neighbours *)
Definition Good (g : dg) (s : list nat) : Prop :=
  NoDup s /\ In 0 s /\ (forall x, In x s -> x < length g /\ ureach g 0 x) /\
  (length s = length g \/ forall x, In x s -> forall w, In w (nbrs g x) -> In w s).

Lemma level_spec : forall g, wf g -> forall vs seen next, Inv g seen (vs ++ next) ->
  match level g (length g) vs seen next with
  | inr s => Good g s
  | inl sn => Inv g (fst sn) (snd sn) /\ length (fst sn) + length next = length seen + length (snd sn)
  end.
Proof.
  intros g Hwf. induction vs as [|v r IH]; intros seen next HI.
  - cbn [level fst snd]. split; [exact HI|reflexivity].
  - cbn [level]. destruct (visit (nbrs g v) seen next) as [seen1 next1] eqn:E. cbn [fst snd].
    destruct (visit_inv g v r seen next seen1 next1 Hwf HI E) as [HI1 HL1].
    destruct (Nat.eqb (length seen1) (length g)) eqn:L.
    + apply Nat.eqb_eq in L. destruct HI1 as [Hnd [H0 [Hr _]]].
      split; [exact Hnd|]. split; [exact H0|]. split; [exact Hr|]. left. exact L.
    + specialize (IH seen1 next1 HI1). destruct (level g (length g) r seen1 next1) as [sn|s]; [|exact IH].
      destruct IH as [HI2 HL2]. split; [exact HI2|lia].
Qed.

Lemma bfs_spec : forall g, wf g -> forall fuel seen lvl, Inv g seen lvl ->
  (length g - length seen) + (match lvl with [] => 1 | _ => 2 end) <= fuel ->
  exists s, bfs fuel g (length g) seen lvl = Some s /\ Good g s.
Proof.
  intros g Hwf. induction fuel as [|k IH]; intros seen lvl HI Hf.
  - destruct lvl; lia.
  - cbn [bfs]. destruct lvl as [|v r].
    + exists seen. split; [reflexivity|]. destruct HI as [Hnd [H0 [Hr [_ Hc]]]].
      split; [exact Hnd|]. split; [exact H0|]. split; [exact Hr|]. right.
      intros x Hx w Hw. apply (Hc x Hx); [intros []|exact Hw].
    + assert (HI' : Inv g seen ((v :: r) ++ [])) by (rewrite app_nil_r; exact HI).
      pose proof (level_spec g Hwf (v :: r) seen [] HI') as LS.
      destruct (level g (length g) (v :: r) seen []) as [[seen' next']|s].
      * cbn [fst snd] in LS. destruct LS as [HI2 HL]. cbn [fst snd]. apply IH; [exact HI2|].
        pose proof (Inv_length g seen' next' HI2). simpl in HL. destruct next'; simpl in HL |- *; lia.
      * exists s. split; [reflexivity|exact LS].
Qed.

Lemma closed_reach : forall g s, (forall x, In x s -> forall w, In w (nbrs g x) -> In w s) ->
  forall x z, ureach g x z -> In x s -> In z s.
Proof.
  intros g s Hc x z R. induction R as [x|x y z E R IH]; intros Hx; [exact Hx|].
  apply IH. apply (Hc x Hx). apply nbrs_spec. exact E.
Qed.

Lemma Good_length_iff : forall g s, Good g s ->
  (length s = length g <-> forall v, v < length g -> ureach g 0 v).
Proof.
  intros g s [Hnd [H0 [Hr Hc]]].
  assert (Hsub : incl s (seq 0 (length g))) by (intros x Hx; apply in_seq; destruct (Hr x Hx); lia).
  split.
  - intros L v Hv. apply Hr.
    apply (@NoDup_length_incl nat s (seq 0 (length g)) Hnd); [rewrite seq_length; lia|exact Hsub|apply in_seq; lia].
  - intros Hall. destruct Hc as [L|Hc]; [exact L|].
    assert (Hsup : incl (seq 0 (length g)) s).
    { intros v Hv. apply in_seq in Hv. apply (closed_reach g s Hc 0 v); [apply Hall; lia|exact H0]. }
    pose proof (NoDup_incl_length Hnd Hsub) as L1. pose proof (NoDup_incl_length (seq_NoDup (length g) 0) Hsup) as L2.
    rewrite seq_length in L1, L2. lia.
Qed.

(* the search returns within S |g| levels, and is_connected is true exactly when every node is
   connected to node 0 *)
Theorem plain_bfs_terminates : forall g, wf g -> 0 < length g -> exists s, plain_bfs g = Some s /\ Good g s.
Proof.
  intros g Hwf Hn. unfold plain_bfs. apply bfs_spec; [exact Hwf| |simpl; lia].
  split; [constructor; [intros []|constructor]|]. split; [left; reflexivity|].
  split; [intros s [<-|[]]; split; [exact Hn|apply ureach_refl]|].
  split; [intros x Hx; exact Hx|]. intros s [<-|[]] Hnp. exfalso. apply Hnp. left. reflexivity.
Qed.

Theorem nx_is_connected_iff : forall g, wf g -> 0 < length g ->
  exists b, nx_is_connected g = Some b /\ (b = true <-> forall v, v < length g -> ureach g 0 v).
Proof.
  intros g Hwf Hn. destruct (plain_bfs_terminates g Hwf Hn) as [s [E G]].
  unfold nx_is_connected. rewrite E. exists (Nat.eqb (length s) (length g)). split; [reflexivity|].
  rewrite Nat.eqb_eq. apply Good_length_iff. exact G.
Qed.
