(* C03 - proofs about the verifier loop and the six built-in rules (model: Rules.v).

   Part A  the rule loop: accept <-> no rule rejects; boolean unless raising was requested;
           first-failure characterisation; user-rule protocol; which graph a rule is given
   Part B  each built-in rule passes <-> the structural condition of its name (Props of
           Graph/QueriesSpec.v + `ureach`, `degree` of Rules.v); for has_no_cycle this is the
           C12 theorem has_cycle_iff about the literal depth-first search, for connectivity
           the closure completeness theorem tc_iff of Base/Closure.v
   Part C  verifier + built-in rules: accepts exactly the graphs satisfying every configured
           rule; DEFAULT_DAG_RULES
   Part D  reflection of the independent matrix oracle used by holds_b; check_case computes
           agree / holds_b run by run                                                        *)
From Coq Require Import List Arith Bool Lia.
From GolemV Require Import Base.Closure Graph.QueriesSpec Graph.Queries Graph.QueriesBasics
  Graph.QueriesCycle Graph.QueriesLocal Graph.QueriesOracle Graph.RulesBfs Graph.Rules Graph.RulesBfsProofs.
Import ListNotations.

(* ======================================================================================== *)
(* Part A - the rule loop                                                                    *)
(* ======================================================================================== *)
Definition passes (o : outcome) : Prop := o = RTrue \/ o = RNone.

Lemma passes_iff : forall o, passes o <-> (rejects o = false /\ o <> ROther).
Proof.
  intros o. unfold passes. destruct o; simpl; split; intros H;
    try (split; [reflexivity|discriminate]); try (left; reflexivity); try (right; reflexivity);
    try (destruct H as [H|H]; discriminate);
    try (destruct H as [H1 H2]; try discriminate; exfalso; apply H2; reflexivity).
Qed.

Section LoopProofs.
  Variable D : Type.
  Variable restore : dg -> D.
  Notation rl := (rule D).
  Notation rr := (run_rule restore).
  Notation vf := (verify restore).

  (* complete description of the loop: either every rule passes and the graph is accepted, or
     the verdict is decided by the first rule that does not pass *)
  Theorem verify_first : forall rf (rules : list rl) g,
    (vf rf rules g = Accept /\ forall r, In r rules -> passes (rr r g)) \/
    (exists pre r post, rules = pre ++ r :: post /\ (forall q, In q pre -> passes (rr q g)) /\
       ((rr r g = RFalse /\ vf rf rules g = Reject) \/
        (rr r g = RValueError /\ vf rf rules g = (if rf then RaiseVerification else Reject)) \/
        (rr r g = ROther /\ vf rf rules g = RaiseOther))).
  Proof.
    intros rf rules g. induction rules as [|r rest IH].
    - left. split; [reflexivity|]. intros r [].
    - cbn [verify]. destruct (rr r g) eqn:E.
      + destruct IH as [[HA HP]|[pre [q [post [-> [Hpre Hq]]]]]].
        * left. split; [exact HA|]. intros x [<-|Hx]; [left; exact E|apply HP; exact Hx].
        * right. exists (r :: pre), q, post. split; [reflexivity|]. split; [|exact Hq].
          intros x [<-|Hx]; [left; exact E|apply Hpre; exact Hx].
      + right. exists [], r, rest. split; [reflexivity|]. split; [intros x []|]. left. auto.
      + destruct IH as [[HA HP]|[pre [q [post [-> [Hpre Hq]]]]]].
        * left. split; [exact HA|]. intros x [<-|Hx]; [right; exact E|apply HP; exact Hx].
        * right. exists (r :: pre), q, post. split; [reflexivity|]. split; [|exact Hq].
          intros x [<-|Hx]; [right; exact E|apply Hpre; exact Hx].
      + right. exists [], r, rest. split; [reflexivity|]. split; [intros x []|]. right. left. auto.
      + right. exists [], r, rest. split; [reflexivity|]. split; [intros x []|]. right. right. auto.
  Qed.

  (* T1.1  accept <-> no configured rule returns False or raises ValueError (rules that raise
     something else excluded) *)
  Theorem verify_iff : forall rf (rules : list rl) g,
    (forall r, In r rules -> rr r g <> ROther) ->
    (vf rf rules g = Accept <-> forall r, In r rules -> rr r g <> RFalse /\ rr r g <> RValueError).
  Proof.
    intros rf rules g. induction rules as [|r rest IH]; intros HO.
    - split; [intros _ r []|reflexivity].
    - assert (HO' : forall q, In q rest -> rr q g <> ROther) by (intros q Hq; apply HO; right; exact Hq).
      specialize (IH HO'). cbn [verify]. pose proof (HO r (or_introl eq_refl)) as Hr.
      destruct (rr r g) eqn:E.
      + rewrite IH. split.
        * intros H q [<-|Hq]; [rewrite E; split; discriminate|apply H; exact Hq].
        * intros H q Hq. apply H. right. exact Hq.
      + split; [discriminate|]. intros H. destruct (H r (or_introl eq_refl)) as [H1 _]. congruence.
      + rewrite IH. split.
        * intros H q [<-|Hq]; [rewrite E; split; discriminate|apply H; exact Hq].
        * intros H q Hq. apply H. right. exact Hq.
      + split; [destruct rf; discriminate|]. intros H. destruct (H r (or_introl eq_refl)) as [_ H2]. congruence.
      + congruence.
  Qed.

  (* the same with the boolean `rejects` *)
  Corollary verify_iff_rejects : forall rf (rules : list rl) g,
    (forall r, In r rules -> rr r g <> ROther) ->
    (vf rf rules g = Accept <-> forall r, In r rules -> rejects (rr r g) = false).
  Proof.
    intros rf rules g HO. rewrite (verify_iff rf rules g HO). split; intros H r Hr; specialize (H r Hr).
    - destruct (rr r g); simpl; try reflexivity; destruct H; congruence.
    - destruct (rr r g); simpl in H; split; congruence.
  Qed.

  (* T1.1  without raise_on_failure the result is a boolean *)
  Theorem verify_boolean : forall (rules : list rl) g,
    (forall r, In r rules -> rr r g <> ROther) ->
    vf false rules g = Accept \/ vf false rules g = Reject.
  Proof.
    intros rules g HO. destruct (verify_first false rules g) as [[HA _]|[pre [r [post [-> [_ H]]]]]].
    - left. exact HA.
    - right. destruct H as [[_ H]|[[_ H]|[E _]]]; [exact H|exact H|].
      exfalso. apply (HO r); [apply in_or_app; right; left; reflexivity|exact E].
  Qed.

  (* with raise_on_failure the only exception is VerificationError, raised exactly when the run
     without the flag returns False because of a ValueError; acceptance does not depend on the flag *)
  Theorem verify_raise_flag : forall (rules : list rl) g,
    vf false rules g = match vf true rules g with RaiseVerification => Reject | v => v end.
  Proof.
    intros rules g. induction rules as [|r rest IH]; [reflexivity|].
    cbn [verify]. destruct (rr r g); try reflexivity; exact IH.
  Qed.

  Corollary verify_accept_flag : forall rf (rules : list rl) g, vf rf rules g = Accept <-> vf false rules g = Accept.
  Proof.
    intros rf rules g. destruct rf; [|tauto]. rewrite (verify_raise_flag rules g).
    destruct (vf true rules g); split; congruence.
  Qed.

  Corollary verify_raise_requested : forall (rules : list rl) g,
    (forall r, In r rules -> rr r g <> ROther) ->
    vf true rules g = Accept \/ vf true rules g = Reject \/
    (vf true rules g = RaiseVerification /\ exists r, In r rules /\ rr r g = RValueError).
  Proof.
    intros rules g HO. destruct (verify_first true rules g) as [[HA _]|[pre [r [post [-> [_ H]]]]]].
    - left. exact HA.
    - right. destruct H as [[_ H]|[[E H]|[E _]]].
      + left. exact H.
      + right. split; [exact H|]. exists r. split; [apply in_or_app; right; left; reflexivity|exact E].
      + exfalso. apply (HO r); [apply in_or_app; right; left; reflexivity|exact E].
  Qed.

  (* T1.3  a rule placed after rules that pass decides by its own outcome: False and ValueError
     reject, True and None hand over to the remaining rules *)
  Theorem user_rule_protocol : forall rf (pre : list rl) u post g,
    (forall q, In q pre -> passes (rr q g)) ->
    vf rf (pre ++ u :: post) g =
    match rr u g with
    | RTrue | RNone => vf rf post g
    | RFalse => Reject
    | RValueError => if rf then RaiseVerification else Reject
    | ROther => RaiseOther
    end.
  Proof.
    intros rf pre u post g. induction pre as [|q pre IH]; intros Hp.
    - reflexivity.
    - change ((q :: pre) ++ u :: post) with (q :: (pre ++ u :: post)). cbn [verify].
      destruct (Hp q (or_introl eq_refl)) as [E|E]; rewrite E; apply IH; intros x Hx; apply Hp; right; exact Hx.
  Qed.

  Corollary single_rule_protocol : forall u g,
    (vf false [u] g = Reject <-> rr u g = RFalse \/ rr u g = RValueError) /\
    (vf false [u] g = Accept <-> rr u g = RTrue \/ rr u g = RNone) /\
    (vf true [u] g = RaiseVerification <-> rr u g = RValueError) /\
    (vf true [u] g = Reject <-> rr u g = RFalse).
  Proof.
    intros u g. cbn [verify]. destruct (rr u g); repeat split; intros H; try discriminate; auto;
      try (destruct H; discriminate).
  Qed.

  (* T1.4  a rule registered native is applied to the internal graph, any other rule to the
     restored domain graph *)
  Theorem domain_rule_gets_domain_graph : forall (f : D -> outcome) g,
    rule_input restore (Domain f) g = GDomain (restore g) /\ rr (Domain f) g = f (restore g).
  Proof. intros f g. split; reflexivity. Qed.

  Theorem native_rule_gets_internal_graph : forall (f : dg -> outcome) g,
    rule_input restore (Native f) g = GInternal g /\ rr (Native f : rl) g = f g.
  Proof. intros f g. split; reflexivity. Qed.

  (* the calls made by the loop: each with the input prescribed above, in rule order, every
     rule exactly once when the graph is accepted *)
  Theorem calls_inputs : forall (rules : list rl) g,
    exists k, calls restore rules g = map (fun r => rule_input restore r g) (firstn k rules).
  Proof.
    intros rules g. induction rules as [|r rest [k IH]].
    - exists 0. reflexivity.
    - cbn [calls]. destruct (rr r g).
      + exists (S k). cbn [firstn map]. rewrite IH. reflexivity.
      + exists 1. destruct rest; reflexivity.
      + exists (S k). cbn [firstn map]. rewrite IH. reflexivity.
      + exists 1. destruct rest; reflexivity.
      + exists 1. destruct rest; reflexivity.
  Qed.

  Theorem calls_accept : forall rf (rules : list rl) g, vf rf rules g = Accept ->
    calls restore rules g = map (fun r => rule_input restore r g) rules.
  Proof.
    intros rf rules g. induction rules as [|r rest IH]; [reflexivity|].
    cbn [verify calls map]. destruct (rr r g); try discriminate; try (destruct rf; discriminate);
      intros H; rewrite (IH H); reflexivity.
  Qed.

  (* two rule lists whose rules behave alike on g give the same verdict *)
  Lemma verify_ext : forall rf (l1 l2 : list rl) g,
    Forall2 (fun a b => rr a g = rr b g) l1 l2 -> vf rf l1 g = vf rf l2 g.
  Proof.
    intros rf l1 l2 g H. induction H as [|a b l1 l2 E _ IH]; [reflexivity|].
    cbn [verify]. rewrite E, IH. reflexivity.
  Qed.
End LoopProofs.

(* ======================================================================================== *)
(* Part B - the built-in rules                                                               *)
(* ======================================================================================== *)
Lemma is_nil_iff : forall {A} (l : list A), is_nil l = true <-> l = [].
Proof. intros A l. destruct l; simpl; split; congruence. Qed.

(* a duplicate-free list all of whose members equal v *)
Lemma NoDup_all_eq : forall (l : list nat) v, NoDup l -> In v l -> (forall w, In w l -> w = v) -> l = [v].
Proof.
  intros l v Hnd Hin Hall. destruct l as [|a l]; [contradiction|].
  assert (a = v) by (apply Hall; left; reflexivity). subst a.
  destruct l as [|b l]; [reflexivity|]. exfalso.
  assert (b = v) by (apply Hall; right; left; reflexivity). subst b.
  inversion Hnd as [|? ? Hn _]. apply Hn. left. reflexivity.
Qed.

(* ---- has_root ---- *)
Theorem has_root_iff : forall g,
  (r_has_root g = RTrue <-> exists v, sink g v) /\ (r_has_root g = RFalse <-> ~ exists v, sink g v).
Proof.
  intros g. unfold r_has_root. destruct (root_nodes g) as [|v r] eqn:E; simpl.
  - assert (N : ~ exists v, sink g v).
    { intros [v S]. apply root_nodes_spec in S. rewrite E in S. exact S. }
    split; split; intros H; try discriminate; try reflexivity; tauto.
  - assert (Y : exists v, sink g v).
    { exists v. apply root_nodes_spec. rewrite E. left. reflexivity. }
    split; split; intros H; try discriminate; try reflexivity; tauto.
Qed.

(* ---- has_one_root ---- *)
Theorem has_one_root_iff : forall g,
  (r_has_one_root g = RTrue <-> exists v, sink g v /\ forall w, sink g w -> w = v) /\
  (r_has_one_root g = RFalse <-> ~ exists v, sink g v /\ forall w, sink g w -> w = v).
Proof.
  intros g.
  assert (K : r_has_one_root g = RTrue <-> exists v, sink g v /\ forall w, sink g w -> w = v).
  { unfold r_has_one_root. split.
    - destruct (root_nodes g) as [|v [|v' r]] eqn:E; try discriminate. intros _.
      exists v. split.
      + apply root_nodes_spec. rewrite E. left. reflexivity.
      + intros w S. apply root_nodes_spec in S. rewrite E in S. destruct S as [<-|[]]. reflexivity.
    - intros [v [S U]].
      rewrite (NoDup_all_eq (root_nodes g) v (root_nodes_NoDup g)); [reflexivity| |].
      + apply root_nodes_spec. exact S.
      + intros w Hw. apply U. apply root_nodes_spec. exact Hw. }
  split; [exact K|]. rewrite <- K. unfold r_has_one_root.
  destruct (root_nodes g) as [|v [|v' r]]; split; intros H; try discriminate; try reflexivity; try congruence;
    exfalso; apply H; reflexivity.
Qed.

(* ---- has_no_cycle: the C12 correctness theorem of the literal depth-first search ---- *)
Theorem has_no_cycle_iff : forall g, wf g ->
  (r_has_no_cycle g = RTrue <-> ~ cyclic g) /\ (r_has_no_cycle g = RValueError <-> cyclic g).
Proof.
  intros g Hwf. destruct (has_cycle_iff g Hwf) as [HT HF]. destruct (has_cycle_terminates g Hwf) as [b Hb].
  unfold r_has_no_cycle. rewrite Hb. destruct b.
  - assert (C : cyclic g) by (apply HT; exact Hb).
    split; split; intros H; try discriminate; try reflexivity; tauto.
  - assert (C : ~ cyclic g) by (apply HF; exact Hb).
    split; split; intros H; try discriminate; try reflexivity; tauto.
Qed.

(* ---- has_no_self_cycled_nodes ---- *)
Theorem no_self_cycled_iff : forall g,
  (r_no_self_cycled g = RTrue <-> forall v, ~ edge g v v) /\
  (r_no_self_cycled g = RValueError <-> exists v, edge g v v).
Proof.
  intros g.
  assert (K : self_cycled g = [] <-> forall v, ~ edge g v v).
  { unfold self_cycled. split.
    - intros H v E.
      assert (Hin : In v (filter (fun v => negb (is_nil (parents g v)) && memb v (parents g v)) (nodes g))).
      { apply filter_In. split; [apply in_nodes; eapply edge_src_lt; exact E|].
        apply andb_true_iff. split; [|apply memb_iff; exact E].
        unfold edge in E. destruct (parents g v); [contradiction|reflexivity]. }
      rewrite H in Hin. exact Hin.
    - intros H. destruct (filter _ (nodes g)) as [|v r] eqn:E; [reflexivity|]. exfalso.
      assert (Hin : In v (v :: r)) by (left; reflexivity). rewrite <- E in Hin.
      apply filter_In in Hin. destruct Hin as [_ Hin]. apply andb_true_iff in Hin.
      apply (H v). apply memb_iff. apply Hin. }
  unfold r_no_self_cycled. destruct (self_cycled g) as [|v r] eqn:E; simpl.
  - assert (N : forall v, ~ edge g v v) by (apply K; reflexivity).
    split; split; intros H; try discriminate; try reflexivity; try exact N.
    destruct H as [v Hv]. exfalso. exact (N v Hv).
  - assert (Y : exists v, edge g v v).
    { exists v. assert (Hin : In v (self_cycled g)) by (rewrite E; left; reflexivity).
      unfold self_cycled in Hin. apply filter_In in Hin. destruct Hin as [_ Hin].
      apply andb_true_iff in Hin. apply memb_iff. apply Hin. }
    split; split; intros H; try discriminate; try reflexivity; try exact Y.
    exfalso. destruct Y as [w Hw]. exact (H w Hw).
Qed.

(* ---- has_no_isolated_nodes ---- *)
Lemma length_zero_iff : forall {A} (l : list A), length l = 0 <-> l = [].
Proof. intros A l. destruct l; simpl; split; congruence. Qed.

Lemma filter_nil_iff : forall {A} (f : A -> bool) l, filter f l = [] <-> forall x, In x l -> f x = false.
Proof.
  intros A f l. induction l as [|a l IH]; simpl.
  - split; [intros _ x []|reflexivity].
  - destruct (f a) eqn:E.
    + split; [discriminate|]. intros H. specialize (H a (or_introl eq_refl)). congruence.
    + rewrite IH. split.
      * intros H x [<-|Hx]; [exact E|apply H; exact Hx].
      * intros H x Hx. apply H. right. exact Hx.
Qed.

(* no edge touches v *)
Definition untouched (g : dg) (v : nat) : Prop := (forall p, ~ edge g v p) /\ (forall c, ~ edge g c v).

Lemma degree_zero_iff : forall g v, degree g v = 0 <-> untouched g v.
Proof.
  intros g v. unfold degree, untouched. split.
  - intros H. assert (H1 : length (parents g v) = 0) by lia. assert (H2 : length (node_children g v) = 0) by lia.
    apply length_zero_iff in H1. apply length_zero_iff in H2. split.
    + intros p E. unfold edge in E. rewrite H1 in E. exact E.
    + apply node_children_nil. exact H2.
  - intros [H1 H2]. apply node_children_nil in H2. rewrite H2.
    destruct (parents g v) as [|p r] eqn:E; [reflexivity|]. exfalso. apply (H1 p). unfold edge. rewrite E. left. reflexivity.
Qed.

Lemma nx_degree_zero_iff : forall g v, nx_degree g v = 0 <-> untouched g v.
Proof.
  intros g v. unfold nx_degree, untouched. split.
  - intros H.
    assert (H1 : filter (fun e => Nat.eqb (fst e) v) (get_edges g) = []) by (apply length_zero_iff; lia).
    assert (H2 : filter (fun e => Nat.eqb (snd e) v) (get_edges g) = []) by (apply length_zero_iff; lia).
    rewrite filter_nil_iff in H1, H2. split.
    + intros p E. apply get_edges_spec in E. specialize (H2 _ E). simpl in H2. rewrite Nat.eqb_refl in H2. discriminate.
    + intros c E. apply get_edges_spec in E. specialize (H1 _ E). simpl in H1. rewrite Nat.eqb_refl in H1. discriminate.
  - intros [H1 H2].
    assert (F1 : filter (fun e => Nat.eqb (fst e) v) (get_edges g) = []).
    { apply filter_nil_iff. intros [p c] Hin. simpl. apply Nat.eqb_neq. intros ->.
      apply get_edges_spec in Hin. exact (H2 c Hin). }
    assert (F2 : filter (fun e => Nat.eqb (snd e) v) (get_edges g) = []).
    { apply filter_nil_iff. intros [p c] Hin. simpl. apply Nat.eqb_neq. intros ->.
      apply get_edges_spec in Hin. exact (H1 p Hin). }
    rewrite F1, F2. reflexivity.
Qed.

(* the NetworkX isolates are the nodes of total degree 0 *)
Lemma isolates_spec : forall g v, In v (isolates g) <-> v < length g /\ degree g v = 0.
Proof.
  intros g v. unfold isolates. rewrite filter_In, in_nodes, Nat.eqb_eq, nx_degree_zero_iff, degree_zero_iff. reflexivity.
Qed.

Lemma degree_pos_iff : forall g v, degree g v > 0 <-> exists w, edge g v w \/ edge g w v.
Proof.
  intros g v. split.
  - intros H. unfold degree in H. destruct (parents g v) as [|p r] eqn:E.
    + destruct (node_children g v) as [|c r] eqn:E2; [simpl in H; lia|].
      exists c. right. assert (Hin : In c (node_children g v)) by (rewrite E2; left; reflexivity).
      apply node_children_spec in Hin. apply Hin.
    + exists p. left. unfold edge. rewrite E. left. reflexivity.
  - intros [w H]. destruct (Nat.eq_dec (degree g v) 0) as [Z|Z]; [|lia].
    apply degree_zero_iff in Z. destruct Z as [Z1 Z2]. destruct H as [H|H]; [exact (False_ind _ (Z1 w H))|exact (False_ind _ (Z2 w H))].
Qed.

Theorem no_isolated_nodes_iff : forall g,
  (r_no_isolated_nodes g = RTrue <-> (forall v, v < length g -> degree g v > 0) \/ length g = 1) /\
  (r_no_isolated_nodes g = RValueError <-> (exists v, v < length g /\ degree g v = 0) /\ length g <> 1).
Proof.
  intros g. unfold r_no_isolated_nodes.
  destruct (isolates g) as [|v r] eqn:E; simpl.
  - assert (P : forall v, v < length g -> degree g v > 0).
    { intros v Hv. destruct (Nat.eq_dec (degree g v) 0) as [Z|Z]; [|lia].
      assert (Hin : In v (isolates g)) by (apply isolates_spec; auto). rewrite E in Hin. contradiction. }
    split; split; intros H; try discriminate; try reflexivity; auto.
    destruct H as [[v [Hv Z]] _]. specialize (P v Hv). lia.
  - assert (I : v < length g /\ degree g v = 0) by (apply isolates_spec; rewrite E; left; reflexivity).
    destruct (Nat.eqb (length g) 1) eqn:L; simpl.
    + apply Nat.eqb_eq in L. split; split; intros H; try discriminate; try reflexivity; auto.
      destruct H as [_ H]. contradiction.
    + apply Nat.eqb_neq in L. split; split; intros H; try discriminate; try reflexivity.
      * destruct H as [H|H]; [|contradiction]. destruct I as [Hv Z]. specialize (H v Hv). lia.
      * split; [exists v; exact I|exact L].
Qed.

(* ---- has_no_isolated_components ---- *)
Lemma uadj_b_iff : forall g x y, uadj_b g x y = true <-> uedge g x y.
Proof. intros g x y. unfold uadj_b, uedge. rewrite orb_true_iff, !adj_b_iff. reflexivity. Qed.

Lemma mrel_uadjm : forall g, wf g -> forall x y, mrel (length g) (uadjm g) x y <-> uedge g x y.
Proof.
  intros g Hwf x y. unfold mrel, uadjm. split.
  - intros [Hx [Hy H]]. rewrite mget_mk in H by assumption. apply uadj_b_iff. exact H.
  - intros E. destruct (uedge_lt g Hwf x y E) as [Hx Hy].
    split; [exact Hx|]. split; [exact Hy|]. rewrite mget_mk by assumption. apply uadj_b_iff. exact E.
Qed.

Lemma uwalk_ureach : forall g, wf g -> forall l x y, walk (mrel (length g) (uadjm g)) x l y -> ureach g x y.
Proof.
  intros g Hwf. induction l as [|a l IH]; intros x y Hw.
  - destruct Hw as [_ Hl]. simpl in Hl. subst y. apply ureach_refl.
  - apply walk_cons_inv in Hw. destruct Hw as [E Hw]. apply (mrel_uadjm g Hwf) in E.
    eapply ureach_step; [exact E|apply IH; exact Hw].
Qed.

Lemma ureach_uwalk : forall g, wf g -> forall x y, ureach g x y ->
  exists l, walk (mrel (length g) (uadjm g)) x l y.
Proof.
  intros g Hwf x y H. induction H as [x|x a y E R [l IH]].
  - exists []. apply walk_nil.
  - exists (a :: l). apply walk_cons; [apply (mrel_uadjm g Hwf); exact E|exact IH].
Qed.

(* the undirected closure matrix = connected by a non-empty undirected walk *)
Theorem utc_iff : forall g, wf g -> forall x y,
  mget (tc (length g) (uadjm g)) x y = true <-> exists z, uedge g x z /\ ureach g z y.
Proof.
  intros g Hwf x y. rewrite tc_iff. split.
  - intros [_ [l [Hne Hw]]]. destruct l as [|z l]; [congruence|].
    apply walk_cons_inv in Hw. destruct Hw as [E Hw]. exists z. split.
    + apply (mrel_uadjm g Hwf). exact E.
    + eapply uwalk_ureach; eassumption.
  - intros [z [E R]]. split; [apply (uedge_lt g Hwf x z E)|].
    destruct (ureach_uwalk g Hwf z y R) as [l Hw]. exists (z :: l). split; [discriminate|].
    apply walk_cons; [apply (mrel_uadjm g Hwf); exact E|exact Hw].
Qed.

Lemma ureach_inv : forall g x y, ureach g x y -> x = y \/ exists z, uedge g x z /\ ureach g z y.
Proof. intros g x y H. destruct H as [x|x a y E R]; [left; reflexivity|right; exists a; auto]. Qed.

Theorem no_isolated_components_iff : forall g, wf g ->
  (r_no_isolated_components g = RTrue <->
     length g > 0 /\ forall u v, u < length g -> v < length g -> ureach g u v) /\
  (r_no_isolated_components g = RValueError <->
     ~ (length g > 0 /\ forall u v, u < length g -> v < length g -> ureach g u v)).
Proof.
  intros g Hwf.
  assert (K : (r_no_isolated_components g = RTrue <->
               length g > 0 /\ forall u v, u < length g -> v < length g -> ureach g u v) /\
              (r_no_isolated_components g = RTrue \/ r_no_isolated_components g = RValueError)).
  { unfold r_no_isolated_components. destruct (Nat.eqb (length g) 0) eqn:L.
    - apply Nat.eqb_eq in L. split; [|auto]. split; [discriminate|]. intros [H _]. lia.
    - apply Nat.eqb_neq in L. assert (Hn : 0 < length g) by lia.
      destruct (nx_is_connected_iff g Hwf Hn) as [b [Eb C]]. rewrite Eb. destruct b.
      + split; [|auto]. split; [intros _|reflexivity]. split; [lia|]. intros u v Hu Hv.
        eapply ureach_trans; [apply ureach_sym; apply C; [reflexivity|exact Hu]|apply C; [reflexivity|exact Hv]].
      + split; [|auto]. split; [discriminate|]. intros [_ H]. assert (false = true); [|discriminate].
        apply C. intros v Hv. apply H; [exact Hn|exact Hv]. }
  destruct K as [K X]. split; [exact K|]. rewrite <- K.
  destruct X as [E|E]; rewrite E; split; intros H; try discriminate; try reflexivity; try congruence.
Qed.

(* ---- all six at once ---- *)
(* a built-in rule passes <-> the structural condition of its name holds, and it is never
   anything but True / False / ValueError on a closed graph *)
Theorem builtin_iff : forall g b, wf g ->
  (rejects (builtin_fn b g) = false <-> cond b g) /\
  (builtin_fn b g = RTrue \/ builtin_fn b g = RFalse \/ builtin_fn b g = RValueError).
Proof.
  intros g b Hwf. destruct b; cbn [builtin_fn cond].
  - destruct (has_root_iff g) as [H1 H2]. unfold r_has_root in *. destruct (is_nil (root_nodes g)); simpl.
    + split; [|auto]. split; [discriminate|]. intros H. exfalso. apply H2; [reflexivity|exact H].
    + split; [|auto]. split; [intros _; apply H1; reflexivity|reflexivity].
  - destruct (has_one_root_iff g) as [H1 H2]. destruct (r_has_one_root g) eqn:E; simpl;
      try (assert (X : r_has_one_root g = RTrue \/ r_has_one_root g = RFalse)
             by (unfold r_has_one_root; destruct (root_nodes g) as [|? [|? ?]]; auto);
           destruct X; congruence).
    + split; [|auto]. split; [intros _; apply H1; reflexivity|reflexivity].
    + split; [|auto]. split; [discriminate|]. intros H. exfalso. apply H2; [reflexivity|exact H].
  - destruct (has_no_cycle_iff g Hwf) as [H1 H2]. destruct (has_cycle_terminates g Hwf) as [c Hc].
    unfold r_has_no_cycle in *. rewrite Hc in *. destruct c; simpl.
    + split; [|auto]. split; [discriminate|]. intros H. exfalso. apply H. apply H2. reflexivity.
    + split; [|auto]. split; [intros _; apply H1; reflexivity|reflexivity].
  - destruct (no_isolated_components_iff g Hwf) as [H1 H2].
    assert (X : r_no_isolated_components g = RTrue \/ r_no_isolated_components g = RValueError).
    { assert (N : r_no_isolated_components g <> RTrue -> r_no_isolated_components g = RValueError).
      { intros NT. apply H2. intros P. apply NT. apply H1. exact P. }
      destruct (r_no_isolated_components g); auto; right; apply N; discriminate. }
    destruct X as [E|E]; rewrite E in *; simpl.
    + split; [|auto]. split; [intros _; apply H1; reflexivity|reflexivity].
    + split; [|auto]. split; [discriminate|]. intros H. exfalso. apply H2; [reflexivity|exact H].
  - destruct (no_self_cycled_iff g) as [H1 H2]. unfold r_no_self_cycled in *. destruct (is_nil (self_cycled g)); simpl.
    + split; [|auto]. split; [intros _; apply H1; reflexivity|reflexivity].
    + split; [|auto]. split; [discriminate|]. intros H. exfalso.
      destruct H2 as [H2 _]. destruct (H2 eq_refl) as [v Hv]. exact (H v Hv).
  - destruct (no_isolated_nodes_iff g) as [H1 H2].
    assert (X : r_no_isolated_nodes g = RTrue \/ r_no_isolated_nodes g = RValueError).
    { unfold r_no_isolated_nodes. destruct (negb (is_nil (isolates g)) && negb (Nat.eqb (length g) 1)); auto. }
    destruct X as [E|E]; rewrite E in *; simpl.
    + split; [|auto]. split; [intros _; apply H1; reflexivity|reflexivity].
    + split; [|auto]. split; [discriminate|]. intros H. exfalso.
      destruct H2 as [H2 _]. destruct (H2 eq_refl) as [[v [Hv Z]] L]. destruct H as [H|H]; [specialize (H v Hv); lia|contradiction].
Qed.

(* ======================================================================================== *)
(* Part C - verifier + built-in rules                                                        *)
(* ======================================================================================== *)
Section BuiltinVerifier.
  Variable D : Type.
  Variable restore : dg -> D.

  Lemma builtin_not_other : forall g b, wf g -> run_rule restore (builtin_rule b) g <> ROther.
  Proof.
    intros g b Hwf. cbn [builtin_rule run_rule]. destruct (builtin_iff g b Hwf) as [_ [H|[H|H]]]; rewrite H; discriminate.
  Qed.

  (* the headline statement: a verifier configured with any list of built-in rules accepts a
     closed graph iff every configured rule's structural condition holds; it returns a boolean
     unless raising was requested, and then the only exception is VerificationError *)
  Theorem verify_builtins_iff : forall rf (bs : list builtin) g, wf g ->
    (verify restore rf (map builtin_rule bs) g = Accept <-> forall b, In b bs -> cond b g) /\
    (verify restore false (map builtin_rule bs) g = Accept \/ verify restore false (map builtin_rule bs) g = Reject) /\
    (verify restore rf (map builtin_rule bs) g <> RaiseOther).
  Proof.
    intros rf bs g Hwf.
    assert (HO : forall r, In r (map (@builtin_rule D) bs) -> run_rule restore r g <> ROther).
    { intros r Hr. apply in_map_iff in Hr. destruct Hr as [b [<- _]]. apply builtin_not_other. exact Hwf. }
    split; [|split].
    - rewrite (verify_iff_rejects D restore rf _ g HO). split.
      + intros H b Hb. apply (builtin_iff g b Hwf). apply (H (builtin_rule b)). apply in_map. exact Hb.
      + intros H r Hr. apply in_map_iff in Hr. destruct Hr as [b [<- Hb]].
        cbn [builtin_rule run_rule]. apply (builtin_iff g b Hwf). apply H. exact Hb.
    - apply verify_boolean. exact HO.
    - destruct (verify_first D restore rf (map builtin_rule bs) g) as [[HA _]|[pre [r [post [E [_ H]]]]]].
      + rewrite HA. discriminate.
      + destruct H as [[_ H]|[[_ H]|[Er _]]]; [rewrite H; discriminate|rewrite H; destruct rf; discriminate|].
        exfalso. apply (HO r); [rewrite E; apply in_or_app; right; left; reflexivity|exact Er].
  Qed.

  (* DEFAULT_DAG_RULES *)
  Theorem verify_default_dag_rules : forall rf g, wf g ->
    (verify restore rf (map builtin_rule default_dag_rules) g = Accept <->
       (exists v, sink g v) /\ ~ cyclic g /\
       (length g > 0 /\ forall u v, u < length g -> v < length g -> ureach g u v) /\
       (forall v, ~ edge g v v) /\
       ((forall v, v < length g -> degree g v > 0) \/ length g = 1)).
  Proof.
    intros rf g Hwf. destruct (verify_builtins_iff rf default_dag_rules g Hwf) as [H _]. rewrite H.
    unfold default_dag_rules. split.
    - intros K. repeat split.
      + apply (K BHasRoot). simpl. tauto.
      + apply (K BNoCycle). simpl. tauto.
      + apply (K BNoIsoComponents). simpl. tauto.
      + apply (K BNoIsoComponents). simpl. tauto.
      + apply (K BNoSelfCycled). simpl. tauto.
      + apply (K BNoIsoNodes). simpl. tauto.
    - intros [K1 [K2 [K3 [K4 K5]]]] b Hb. simpl in Hb.
      destruct Hb as [<-|[<-|[<-|[<-|[<-|[]]]]]]; cbn [cond]; assumption.
  Qed.

  (* built-in rules followed/preceded by arbitrary user rules that do not raise foreign
     exceptions: accept <-> every built-in condition holds and no user rule rejects *)
  Theorem verify_mixed_iff : forall rf (rules : list (rule D)) g, wf g ->
    (forall r, In r rules -> (exists b, r = builtin_rule b) \/ run_rule restore r g <> ROther) ->
    (verify restore rf rules g = Accept <->
       forall r, In r rules ->
         (forall b, r = builtin_rule b -> cond b g) /\ rejects (run_rule restore r g) = false).
  Proof.
    intros rf rules g Hwf HU.
    assert (HO : forall r, In r rules -> run_rule restore r g <> ROther).
    { intros r Hr. destruct (HU r Hr) as [[b ->]|H]; [apply builtin_not_other; exact Hwf|exact H]. }
    rewrite (verify_iff_rejects D restore rf rules g HO). split.
    - intros H r Hr. split; [|apply H; exact Hr]. intros b ->. apply (builtin_iff g b Hwf). apply (H _ Hr).
    - intros H r Hr. apply (H r Hr).
  Qed.
End BuiltinVerifier.

(* ======================================================================================== *)
(* Part D - the oracle of holds_b decides the structural conditions                          *)
(* ======================================================================================== *)
Lemma o_sink_iff : forall g, wf g -> forall v, v < length g -> (o_sink (mk_roracle g) v = true <-> sink g v).
Proof. intros g Hwf v Hv. change (o_sink (mk_roracle g) v) with (sink_b (mk_oracle g) v). apply sink_b_iff; assumption. Qed.

Lemma sink_lt : forall g v, sink g v -> v < length g.
Proof. intros g v [H _]. exact H. Qed.

Lemma o_degree_pos_iff : forall g, wf g -> forall v, v < length g ->
  (o_degree_pos (mk_roracle g) v = true <-> degree g v > 0).
Proof.
  intros g Hwf v Hv. rewrite degree_pos_iff. unfold o_degree_pos. cbn [mk_roracle ro_adj ro_n].
  rewrite existsb_exists. split.
  - intros [w [_ H]]. exists w. apply orb_true_iff in H. rewrite !(mget_adjm g Hwf) in H. exact H.
  - intros [w H]. exists w. split.
    + apply in_seq. destruct H as [H|H]; [pose proof (Hwf _ _ H)|pose proof (edge_src_lt _ _ _ H)]; lia.
    + apply orb_true_iff. rewrite !(mget_adjm g Hwf). exact H.
Qed.

Lemma forallb_seq_iff : forall n f, forallb f (seq 0 n) = true <-> forall v, v < n -> f v = true.
Proof.
  intros n f. rewrite forallb_forall. split; intros H v Hv; apply H; [apply in_seq; lia|apply in_seq in Hv; lia].
Qed.

Lemma existsb_seq_iff : forall n f, existsb f (seq 0 n) = true <-> exists v, v < n /\ f v = true.
Proof.
  intros n f. rewrite existsb_exists. split; intros [v [Hv H]]; exists v; split; auto; [apply in_seq in Hv; lia|apply in_seq; lia].
Qed.

Theorem o_cond_iff : forall g b, wf g -> (o_cond (mk_roracle g) b = true <-> cond b g).
Proof.
  intros g b Hwf. destruct b; cbn [o_cond cond]; change (ro_n (mk_roracle g)) with (length g).
  - rewrite existsb_seq_iff. split.
    + intros [v [Hv H]]. exists v. apply (o_sink_iff g Hwf v Hv). exact H.
    + intros [v S]. exists v. split; [apply (sink_lt g v S)|apply (o_sink_iff g Hwf v (sink_lt g v S)); exact S].
  - rewrite Nat.eqb_eq. split.
    + intros H. destruct (filter (o_sink (mk_roracle g)) (seq 0 (length g))) as [|v [|v' r]] eqn:E; try discriminate.
      assert (Hin : In v (filter (o_sink (mk_roracle g)) (seq 0 (length g)))) by (rewrite E; left; reflexivity).
      apply filter_In in Hin. destruct Hin as [Hv Hs]. apply in_seq in Hv.
      exists v. split; [apply (o_sink_iff g Hwf v); [lia|exact Hs]|].
      intros w S. assert (Hw : In w (filter (o_sink (mk_roracle g)) (seq 0 (length g)))).
      { apply filter_In. split; [apply in_seq; pose proof (sink_lt g w S); lia|].
        apply (o_sink_iff g Hwf w (sink_lt g w S)). exact S. }
      rewrite E in Hw. destruct Hw as [<-|[]]. reflexivity.
    + intros [v [S U]].
      rewrite (NoDup_all_eq (filter (o_sink (mk_roracle g)) (seq 0 (length g))) v); [reflexivity| | |].
      * apply NoDup_filter, seq_NoDup.
      * apply filter_In. split; [apply in_seq; pose proof (sink_lt g v S); lia|].
        apply (o_sink_iff g Hwf v (sink_lt g v S)). exact S.
      * intros w Hw. apply filter_In in Hw. destruct Hw as [Hw Hs]. apply in_seq in Hw.
        apply U. apply (o_sink_iff g Hwf w); [lia|exact Hs].
  - change (existsb (fun v => mget (ro_tc (mk_roracle g)) v v) (seq 0 (length g))) with (cyclic_b (mk_oracle g)).
    rewrite negb_true_iff. pose proof (cyclic_b_iff g Hwf) as C. destruct (cyclic_b (mk_oracle g)).
    + split; [discriminate|]. intros H. exfalso. apply H. apply C. reflexivity.
    + split; [|reflexivity]. intros _ H. apply C in H. discriminate.
  - rewrite andb_true_iff, negb_true_iff, Nat.eqb_neq, forallb_seq_iff. split.
    + intros [Hn H]. split; [lia|]. intros u v Hu Hv. specialize (H u Hu). rewrite forallb_seq_iff in H.
      specialize (H v Hv). apply orb_true_iff in H. destruct H as [H|H].
      * apply Nat.eqb_eq in H. subst. apply ureach_refl.
      * cbn [mk_roracle ro_utc] in H. apply (utc_iff g Hwf) in H. destruct H as [z [E R]]. eapply ureach_step; eassumption.
    + intros [Hn H]. split; [lia|]. intros u Hu. apply forallb_seq_iff. intros v Hv. apply orb_true_iff.
      destruct (ureach_inv g u v (H u v Hu Hv)) as [->|P]; [left; apply Nat.eqb_refl|].
      right. cbn [mk_roracle ro_utc]. apply (utc_iff g Hwf). exact P.
  - rewrite forallb_seq_iff. cbn [mk_roracle ro_adj]. split.
    + intros H v E. pose proof (edge_src_lt g v v E) as Hv. specialize (H v Hv).
      apply negb_true_iff in H. apply (mget_adjm g Hwf) in E. congruence.
    + intros H v Hv. apply negb_true_iff. destruct (mget (adjm g) v v) eqn:M; [|reflexivity].
      apply (mget_adjm g Hwf) in M. exfalso. exact (H v M).
  - rewrite orb_true_iff, Nat.eqb_eq, forallb_seq_iff. split.
    + intros [H|H]; [left|right; exact H]. intros v Hv. apply (o_degree_pos_iff g Hwf v Hv). apply H. exact Hv.
    + intros [H|H]; [left|right; exact H]. intros v Hv. apply (o_degree_pos_iff g Hwf v Hv). apply H. exact Hv.
Qed.

(* the model's verdict for built-in rules is what the oracle computes: agree and holds_b can
   only both be satisfied by the implementation's verdict *)
Theorem builtin_fn_oracle : forall g b, wf g -> rejects (builtin_fn b g) = negb (o_cond (mk_roracle g) b).
Proof.
  intros g b Hwf. destruct (builtin_iff g b Hwf) as [H _]. pose proof (o_cond_iff g b Hwf) as O.
  destruct (rejects (builtin_fn b g)), (o_cond (mk_roracle g) b); try reflexivity.
  - exfalso. assert (C : cond b g) by (apply O; reflexivity). apply H in C. discriminate.
  - exfalso. assert (C : cond b g) by (apply H; reflexivity). apply O in C. discriminate.
Qed.

(* ---- check_case evaluates agree / holds_b run by run ---- *)
Lemma table_fn_eq : forall g b, table_fn (builtin_table g) b g = builtin_fn b g.
Proof. intros g b. destruct b; reflexivity. Qed.

Lemma run_rule_denote_with : forall bf1 bf2 ad c g, (forall b, bf1 b g = bf2 b g) ->
  run_rule (restore_of ad) (denote_with bf1 c) g = run_rule (restore_of ad) (denote_with bf2 c) g.
Proof. intros bf1 bf2 ad c g H. destruct c as [b|[|] u]; cbn [denote_with run_rule]; [apply H|reflexivity|reflexivity]. Qed.

Lemma verify_denote_with : forall bf1 bf2 ad rf rules g, (forall b, bf1 b g = bf2 b g) ->
  verify (restore_of ad) rf (map (denote_with bf1) rules) g = verify (restore_of ad) rf (map (denote_with bf2) rules) g.
Proof.
  intros bf1 bf2 ad rf rules g H. induction rules as [|c rest IH]; [reflexivity|].
  cbn [map verify]. rewrite (run_rule_denote_with bf1 bf2 ad c g H), IH. reflexivity.
Qed.

Lemma user_calls_denote_with : forall bf1 bf2 ad rules i g, (forall b, bf1 b g = bf2 b g) ->
  user_calls_with bf1 ad i rules g = user_calls_with bf2 ad i rules g.
Proof.
  intros bf1 bf2 ad rules. induction rules as [|c rest IH]; intros i g H; [reflexivity|].
  cbn [user_calls_with]. rewrite (run_rule_denote_with bf1 bf2 ad c g H), (IH (S i) g H). reflexivity.
Qed.

Lemma forallb_map_comp : forall {A B} (f : B -> bool) (h : A -> B) l, forallb f (map h l) = forallb (fun x => f (h x)) l.
Proof. intros A B f h l. induction l as [|a l IH]; [reflexivity|]. simpl. rewrite IH. reflexivity. Qed.

Theorem check_case_spec : forall g runs,
  check_case (g, runs) = [forallb (fun r => fst (check_run g r)) runs; forallb (fun r => snd (check_run g r)) runs].
Proof.
  intros g runs. unfold check_case. cbn [fst snd].
  assert (E : forall r, check_run_shared (builtin_table g) (mk_roracle g) g r = check_run g r).
  { intros [[[ad rf] rules] ob]. unfold check_run_shared, check_run, agree, agree_with, holds_b, holds_l.
    rewrite (verify_denote_with (table_fn (builtin_table g)) builtin_fn ad rf rules g (table_fn_eq g)).
    rewrite (user_calls_denote_with (table_fn (builtin_table g)) builtin_fn ad rules 0 g (table_fn_eq g)).
    reflexivity. }
  rewrite (map_ext _ _ E). rewrite !forallb_map_comp. reflexivity.
Qed.

(* the user_calls of the concrete rule language are the observable part of `calls` *)
Theorem user_calls_inputs : forall ad rules g i a, In (i, a) (user_calls ad 0 rules g) ->
  exists native u, nth_error rules i = Some (CU native u) /\
                   a = if native then AOpt true g else restore_of ad g.
Proof.
  intros ad rules g. unfold user_calls.
  assert (K : forall rules k i a, In (i, a) (user_calls_with builtin_fn ad k rules g) ->
              exists native u, k <= i /\ nth_error rules (i - k) = Some (CU native u) /\
                               a = if native then AOpt true g else restore_of ad g).
  { induction rules0 as [|c rest IH]; intros k i a Hin; [contradiction|].
    cbn [user_calls_with] in Hin. apply in_app_or in Hin. destruct Hin as [Hin|Hin].
    - destruct c as [b|[|] u]; simpl in Hin; try contradiction.
      + destruct Hin as [Hin|[]]. injection Hin as <- <-. exists true, u. rewrite Nat.sub_diag. auto.
      + destruct Hin as [Hin|[]]. injection Hin as <- <-. exists false, u. rewrite Nat.sub_diag. auto.
    - assert (Hin' : In (i, a) (user_calls_with builtin_fn ad (S k) rest g)).
      { destruct (run_rule (restore_of ad) (denote_with builtin_fn c) g); try contradiction; exact Hin. }
      destruct (IH (S k) i a Hin') as [native [u [Hk [Hn Ha]]]]. exists native, u.
      split; [lia|]. split; [|exact Ha]. replace (i - k) with (S (i - S k)) by lia. exact Hn. }
  intros i a Hin. destruct (K rules 0 i a Hin) as [native [u [_ [Hn Ha]]]]. rewrite Nat.sub_0_r in Hn. eauto.
Qed.

(* ======================================================================================== *)
(* Part E - holds_b is sound: what it accepts satisfies the property's clauses as Props      *)
(* ======================================================================================== *)
(* "the rule holds for the graph", for the concrete rule language *)
Definition crule_holds (g : dg) (c : crule) : Prop :=
  match c with
  | CB b => cond b g
  | CU _ (UConst o) => rejects o = false
  | CU _ (UEdgesLe k fail) => length (edge_pairs g) <= k \/ rejects fail = false
  | CU _ (UNodesLe k fail) => length g <= k \/ rejects fail = false
  | CU _ (UNested bs) => forall b, In b bs -> cond b g
  | CU _ (UMutate _ ret) => rejects ret = false
  end.

Lemma o_edge_count_eq : forall g, o_edge_count (mk_roracle g) = length (edge_pairs g).
Proof.
  intros g. unfold o_edge_count, edge_pairs, nodes. cbn [mk_roracle ro_adj ro_n]. f_equal.
  apply filter_ext_in. intros [p c] Hin. apply in_prod_iff in Hin. destruct Hin as [Hp Hc].
  apply in_seq in Hp. apply in_seq in Hc. cbn [fst snd]. unfold adjm. rewrite mget_mk by lia. reflexivity.
Qed.

Lemma edge_pairs_spec : forall g, wf g -> forall p c, In (p, c) (edge_pairs g) <-> edge g c p.
Proof.
  intros g Hwf p c. unfold edge_pairs. rewrite filter_In, in_prod_iff, !in_nodes. cbn [fst snd].
  rewrite memb_iff. unfold edge. split; [tauto|]. intros E. split; [|exact E].
  split; [eapply Hwf; exact E|eapply edge_src_lt; exact E].
Qed.

Lemma edge_pairs_NoDup : forall g, NoDup (edge_pairs g).
Proof.
  intros g. unfold edge_pairs. apply NoDup_filter.
  assert (K : forall (l1 l2 : list nat), NoDup l1 -> NoDup l2 -> NoDup (list_prod l1 l2)).
  { induction l1 as [|a l1 IH]; intros l2 H1 H2; [constructor|].
    inversion H1 as [|? ? Ha H1']; subst. cbn [list_prod]. apply NoDup_app_intro.
    - clear -H2. induction H2 as [|y l2 Hy H2 IH2]; [constructor|]. cbn [map]. constructor; [|exact IH2].
      intros Hin. apply in_map_iff in Hin. destruct Hin as [z [E Hz]]. injection E as ->. exact (Hy Hz).
    - apply IH; assumption.
    - intros [x y] Hin1 Hin2. apply in_map_iff in Hin1. destruct Hin1 as [z [E _]]. injection E as <- <-.
      apply in_prod_iff in Hin2. destruct Hin2 as [Hin2 _]. contradiction. }
  apply K; apply seq_NoDup.
Qed.

Lemma o_rule_holds_iff : forall g c, wf g -> (o_rule_holds (mk_roracle g) c = true <-> crule_holds g c).
Proof.
  intros g c Hwf. destruct c as [b|native [o|k fail|k fail|bs|m ret]]; cbn [o_rule_holds crule_holds].
  - apply o_cond_iff. exact Hwf.
  - apply negb_true_iff.
  - rewrite orb_true_iff, negb_true_iff, Nat.leb_le, o_edge_count_eq. reflexivity.
  - rewrite orb_true_iff, negb_true_iff, Nat.leb_le. reflexivity.
  - rewrite forallb_forall. split; intros H b Hb; apply (o_cond_iff g b Hwf); apply H; exact Hb.
  - apply negb_true_iff.
Qed.

(* clause 1 of holds_l: when no configured user rule raises a foreign exception, the observed
   verdict is Accept exactly if every configured rule holds, and it is a boolean unless raising
   was requested (then VerificationError is the only other possibility) *)
Theorem holds_verdict_sound : forall ad rf rules g ob, wf g ->
  nth 0 (holds_l ad rf rules g ob) false = true ->
  existsb (c_raises_other (mk_roracle g)) rules = false ->
  (ob_verdict ob = Accept <-> forall c, In c rules -> crule_holds g c) /\
  (ob_verdict ob = Accept \/ ob_verdict ob = Reject \/ (rf = true /\ ob_verdict ob = RaiseVerification)).
Proof.
  intros ad rf rules g ob Hwf H HU. unfold holds_l, holds_lo in H. cbn [nth] in H. rewrite HU in H. simpl in H.
  assert (A : forallb (o_rule_holds (mk_roracle g)) rules = true <-> forall c, In c rules -> crule_holds g c).
  { rewrite forallb_forall. split; intros K c Hc; apply (o_rule_holds_iff g c Hwf); apply K; exact Hc. }
  destruct (ob_verdict ob).
  - split; [|auto]. split; [intros _; apply A; exact H|reflexivity].
  - split; [|auto]. split; [discriminate|]. intros K. apply A in K. rewrite K in H. discriminate.
  - apply andb_true_iff in H. destruct H as [Hrf H]. split; [|auto].
    split; [discriminate|]. intros K. apply A in K. rewrite K in H. discriminate.
  - discriminate.
Qed.

(* clause 2 of holds_l: what a recorded argument must look like *)
Definition arg_is_internal (g : dg) (a : arg) : Prop := a = AOpt true g.

Definition arg_is_restored (ad : adapter) (g : dg) (a : arg) : Prop :=
  match ad with
  | AdIdentity => a = AOpt true g                       (* the same object *)
  | AdDirect => a = AOpt false g                        (* a copy with the same structure *)
  | AdNx => exists es, a = ANx (length g) es /\ NoDup es /\ forall p c, In (p, c) es <-> edge g c p
  end.

Lemma leqb_eq : forall {A} (e : A -> A -> bool), (forall x y, e x y = true -> x = y) ->
  forall l r, leqb e l r = true -> l = r.
Proof.
  intros A e He. induction l as [|a l IH]; intros [|b r] H; simpl in H; try discriminate; [reflexivity|].
  apply andb_true_iff in H. destruct H as [H1 H2]. f_equal; [apply He; exact H1|apply IH; exact H2].
Qed.

Lemma dg_eqb_eq : forall a b, dg_eqb a b = true -> a = b.
Proof.
  unfold dg_eqb. apply leqb_eq. apply leqb_eq. intros x y H. apply Nat.eqb_eq. exact H.
Qed.

Lemma rp_pair_eqb_iff : forall a b : nat * nat, pair_eqb a b = true <-> a = b.
Proof.
  intros [a1 a2] [b1 b2]. unfold pair_eqb. cbn [fst snd]. rewrite andb_true_iff, !Nat.eqb_eq. split.
  - intros [-> ->]. reflexivity.
  - intros E. injection E as -> ->. auto.
Qed.

Lemma rp_nodup_pairs_b : forall l, nodup_pairs_b l = true -> NoDup l.
Proof.
  induction l as [|x l IH]; intros H; [constructor|]. simpl in H. apply andb_true_iff in H. destruct H as [H1 H2].
  constructor; [|apply IH; exact H2]. intros Hin. apply negb_true_iff in H1.
  assert (T : existsb (pair_eqb x) l = true).
  { apply existsb_exists. exists x. split; [exact Hin|apply rp_pair_eqb_iff; reflexivity]. }
  congruence.
Qed.

Theorem o_arg_ok_sound : forall g ad native a, wf g ->
  o_arg_ok (mk_roracle g) ad native g a = true ->
  if native then arg_is_internal g a else arg_is_restored ad g a.
Proof.
  intros g ad native a Hwf H. destruct a as [same g'|n es]; cbn [o_arg_ok] in H.
  - apply andb_true_iff in H. destruct H as [Hg Hs]. apply dg_eqb_eq in Hg. subst g'.
    destruct native; [unfold arg_is_internal; subst same; reflexivity|].
    destruct ad; cbn [arg_is_restored]; [subst same; reflexivity| |discriminate].
    apply negb_true_iff in Hs. subst same. reflexivity.
  - repeat (apply andb_true_iff in H; destruct H as [H ?]).
    apply negb_true_iff in H. subst native. destruct ad; try discriminate. cbn [arg_is_restored].
    match goal with Hn : Nat.eqb n _ = true |- _ => apply Nat.eqb_eq in Hn; cbn [mk_roracle ro_n] in Hn; subst n end.
    match goal with Hc : Nat.eqb (length es) _ = true |- _ => apply Nat.eqb_eq in Hc; rewrite o_edge_count_eq in Hc; rename Hc into Hlen end.
    match goal with Hd : nodup_pairs_b es = true |- _ => apply rp_nodup_pairs_b in Hd; rename Hd into Hnd end.
    match goal with Hf : forallb _ es = true |- _ => rename Hf into Hsub end.
    exists es. split; [reflexivity|]. split; [exact Hnd|].
    assert (I1 : incl es (edge_pairs g)).
    { intros [p c] Hin. rewrite forallb_forall in Hsub. specialize (Hsub _ Hin). cbn [fst snd mk_roracle ro_adj] in Hsub.
      apply (edge_pairs_spec g Hwf). apply (mget_adjm g Hwf). exact Hsub. }
    assert (I2 : incl (edge_pairs g) es).
    { apply NoDup_length_incl; [exact Hnd|lia|exact I1]. }
    intros p c. rewrite <- (edge_pairs_spec g Hwf). split; [apply I1|apply I2].
Qed.

Theorem holds_args_sound : forall ad rf rules g ob, wf g ->
  nth 1 (holds_l ad rf rules g ob) false = true ->
  forall i a, In (i, a) (ob_calls ob) ->
  exists native u, nth_error rules i = Some (CU native u) /\
                   if native then arg_is_internal g a else arg_is_restored ad g a.
Proof.
  intros ad rf rules g ob Hwf H i a Hin. unfold holds_l, holds_lo in H. cbn [nth] in H.
  rewrite forallb_forall in H. specialize (H _ Hin). cbn [fst snd] in H.
  destruct (nth_error rules i) as [[b|native u]|] eqn:E; try discriminate.
  exists native, u. split; [reflexivity|]. apply (o_arg_ok_sound g ad native a Hwf H).
Qed.

(* the model's own restored graphs satisfy that description *)
Theorem restore_of_is_restored : forall ad g, wf g -> arg_is_restored ad g (restore_of ad g).
Proof.
  intros ad g Hwf. destruct ad; cbn [arg_is_restored restore_of]; try reflexivity.
  exists (edge_pairs g). split; [reflexivity|]. split; [apply edge_pairs_NoDup|apply (edge_pairs_spec g Hwf)].
Qed.

(* ---- composite rules: a rule that delegates to an inner verifier with raise_on_failure ---- *)
(* the inner verifier's VerificationError is a ValueError, so to the outer loop the composite
   rule passes exactly when every inner condition holds, and never raises a foreign exception *)
Theorem nested_rule_iff : forall s bs g, wf g ->
  (rejects (ubehav_fn (UNested bs) (AOpt s g)) = false <-> forall b, In b bs -> cond b g) /\
  ubehav_fn (UNested bs) (AOpt s g) <> ROther.
Proof.
  intros s bs g Hwf. cbn [ubehav_fn arg_graph].
  destruct (verify_builtins_iff arg (fun g0 => AOpt true g0) true bs g Hwf) as [H1 [_ H3]].
  destruct (verify (fun g0 => AOpt true g0) true (map builtin_rule bs) g); cbn [verdict_outcome rejects].
  - split; [|discriminate]. split; [intros _; apply H1; reflexivity|reflexivity].
  - split; [|discriminate]. split; [discriminate|]. intros H. apply H1 in H. discriminate.
  - split; [|discriminate]. split; [discriminate|]. intros H. apply H1 in H. discriminate.
  - exfalso. apply H3. reflexivity.
Qed.

(* hence an outer verifier without raise_on_failure returns a boolean on it, False when an
   inner condition fails - whatever the inner verifier raised *)
Theorem nested_rule_outer_boolean : forall ad native bs g, wf g ->
  let v := verify (restore_of ad) false [denote (CU native (UNested bs))] g in
  match ad, native with
  | AdNx, false => True          (* the rule then works on adapt(restore g): covered by the correspondence *)
  | _, _ => (v = Accept <-> forall b, In b bs -> cond b g) /\ (v = Accept \/ v = Reject)
  end.
Proof.
  intros ad native bs g Hwf v.
  assert (K : forall s, (verify (restore_of ad) false [Native (fun g0 => ubehav_fn (UNested bs) (AOpt s g0))] g = Accept
                         <-> forall b, In b bs -> cond b g) /\
                        (verify (restore_of ad) false [Native (fun g0 => ubehav_fn (UNested bs) (AOpt s g0)) : rule arg] g = Accept \/
                         verify (restore_of ad) false [Native (fun g0 => ubehav_fn (UNested bs) (AOpt s g0)) : rule arg] g = Reject)).
  { intros s. destruct (nested_rule_iff s bs g Hwf) as [H1 H2]. cbn [verify run_rule].
    destruct (ubehav_fn (UNested bs) (AOpt s g)); cbn [rejects] in H1; try congruence.
    - split; [|auto]. split; [intros _; apply H1; reflexivity|reflexivity].
    - split; [|auto]. split; [discriminate|]. intros H. apply H1 in H. discriminate.
    - split; [|auto]. split; [intros _; apply H1; reflexivity|reflexivity].
    - split; [|auto]. split; [discriminate|]. intros H. apply H1 in H. discriminate. }
  destruct native.
  - destruct ad; exact (K true).
  - destruct ad; [exact (K true)|exact (K false)|exact I].
Qed.

(* ======================================================================================== *)
(* Part F - a verifier instance is stateless                                                 *)
(* ======================================================================================== *)
(* the verdict of the k-th call on an instance is the verdict of a fresh verifier on that graph
   alone: it does not depend on the graphs verified before (nor after), and the instance is
   unchanged by a call *)
Theorem call_keeps_instance : forall {D} (v : verifier D) g, fst (call v g) = v.
Proof. reflexivity. Qed.

Theorem verify_is_stateless : forall {D} (v : verifier D) gs,
  call_seq v gs = map (verify (v_restore v) (v_raise v) (v_rules v)) gs /\
  (forall k g, nth_error gs k = Some g ->
               nth_error (call_seq v gs) k = Some (verify (v_restore v) (v_raise v) (v_rules v) g)).
Proof.
  intros D v gs.
  assert (E : call_seq v gs = map (verify (v_restore v) (v_raise v) (v_rules v)) gs).
  { induction gs as [|g r IH]; [reflexivity|]. cbn [call_seq call fst snd map]. rewrite IH. reflexivity. }
  split; [exact E|]. intros k g H. rewrite E. apply map_nth_error. exact H.
Qed.

(* consequently the verdict for a graph is the same wherever it stands in a sequence *)
Corollary verify_order_irrelevant : forall {D} (v : verifier D) pre pre' g post post',
  nth_error (call_seq v (pre ++ g :: post)) (length pre) =
  nth_error (call_seq v (pre' ++ g :: post')) (length pre').
Proof.
  intros D v pre pre' g post post'.
  destruct (verify_is_stateless v (pre ++ g :: post)) as [_ H1].
  destruct (verify_is_stateless v (pre' ++ g :: post')) as [_ H2].
  rewrite (H1 (length pre) g), (H2 (length pre') g); [reflexivity| |];
    rewrite nth_error_app2, Nat.sub_diag by lia; reflexivity.
Qed.

(* ======================================================================================== *)
(* Part G - rules with side effects on their argument                                        *)
(* ======================================================================================== *)
(* frame theorem: when every modifying rule is a domain rule under a copying adapter
   (DirectAdapter, NetworkX adapter), the loop with the threaded graph state IS the pure loop on
   the original graph, and the verified graph is unchanged - whatever the rules do to the
   restored graphs they are given.  The same holds when no rule modifies anything. *)
Lemma rule_effect_protected : forall ad c s,
  (match c with CU native (UMutate _ _) => negb (aliases ad native) | _ => true end) = true ->
  rule_effect ad c s = s.
Proof.
  intros ad c s H. destruct c as [b|native [o|k f|k f|bs|m ret]]; try reflexivity.
  cbn [rule_effect]. apply negb_true_iff in H. rewrite H. reflexivity.
Qed.

Theorem verify_m_frame : forall ad rf rules s, protected ad rules = true ->
  verify_m ad rf rules s = (verify (restore_of ad) rf (map denote rules) (fst s), s) /\
  user_calls_m ad 0 rules s = user_calls ad 0 rules (fst s).
Proof.
  intros ad rf rules s H. unfold user_calls. generalize 0 as i.
  induction rules as [|c rest IH]; intros i; [split; reflexivity|].
  cbn [protected forallb] in H. apply andb_true_iff in H. destruct H as [Hc Hr].
  cbn [verify_m user_calls_m user_calls_with map verify]. fold (denote c).
  rewrite (rule_effect_protected ad c s Hc).
  destruct (IH Hr (S i)) as [IH1 IH2]. rewrite IH2.
  destruct (run_rule (restore_of ad) (denote c) (fst s)); split; try reflexivity; try exact IH1;
    destruct (IH Hr i) as [IH1' _]; exact IH1'.
Qed.

(* a second verification of the same graph object then gives the same answer *)
Corollary verify_m_repeat : forall ad rf rules s, protected ad rules = true ->
  verify_m ad rf rules (snd (verify_m ad rf rules s)) = verify_m ad rf rules s.
Proof. intros ad rf rules s H. destruct (verify_m_frame ad rf rules s H) as [E _]. rewrite E. cbn [snd]. exact E. Qed.

(* conversely, a rule handed the verified graph itself can change the verdict of later rules:
   a native "drop the last node" rule followed by has_one_root on  0 <- 1, 0 <- 2  *)
Theorem aliasing_rule_changes_verdict : exists ad rules g,
  fst (verify_m ad false rules (g, false)) <> verify (restore_of ad) false (map denote rules) g.
Proof.
  exists AdNx, [CU true (UMutate MDropLast RTrue); CB BNoIsoNodes], [[1]; []; []].
  vm_compute. discriminate.
Qed.

(* holds_m is sound: for protected rule lists it demands an unchanged graph and holds_b on the
   original graph for every call *)
Theorem holds_m_sound : forall ad rf rules g l, protected ad rules = true -> holds_m ad rf rules g l = true ->
  forall m, In m l -> mo_final m = g /\ mo_renamed m = false /\ holds_b ad rf rules g (mo_obs m) = true.
Proof.
  intros ad rf rules g l HP H m Hm. unfold holds_m in H. rewrite HP in H. cbn [negb orb] in H.
  rewrite forallb_forall in H. specialize (H m Hm).
  apply andb_true_iff in H. destruct H as [H H3]. apply andb_true_iff in H. destruct H as [H1 H2].
  split; [symmetry; apply dg_eqb_eq|split; [apply negb_true_iff; exact H2|exact H3]].
  unfold dg_eqb in *. clear -H1. revert H1. generalize (mo_final m) as a. intros a H.
  assert (S : forall (x y : dg), leqb (leqb Nat.eqb) x y = true -> leqb (leqb Nat.eqb) y x = true).
  { intros x y E. apply (leqb_eq (leqb Nat.eqb)) in E.
    - subst y. clear. induction x as [|r x IH]; [reflexivity|]. simpl. rewrite IH, andb_true_r.
      induction r as [|k r IHr]; [reflexivity|]. simpl. rewrite Nat.eqb_refl. exact IHr.
    - apply leqb_eq. intros u v Euv. apply Nat.eqb_eq. exact Euv. }
  apply S. exact H.
Qed.
