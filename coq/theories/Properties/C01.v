From GolemV Require Import Evo.Loop.
Theorem placeholder : True. Proof. exact I. Qed.
Print Assumptions placeholder.
