(* C01 - The optimiser returns the best solutions it recorded.
   Statements only.  Model: Evo/Loop.v (loop bookkeeping) over Archive/*.v (C08) and
   Evo/History.v (C06); proofs: Evo/LoopProofs.v.

   The loop is modelled for ALL optimiser classes at once: `pops` is the list of (label,
   population) pairs handed to _update_population before the final one - an oracle standing for
   every genetic scheme, operator set, stop criterion and seed.  `shown multi seen` are the
   hypotheses of C08 on what an archive is shown (valid fitness values of one class, pairwise
   identical or clearly separated; single-objective: one fitness per uid). *)
From Coq Require Import List Bool Arith QArith Sorted.
From GolemV Require Import Fitness.Fitness Archive.FitOrder Archive.Hof Archive.HofProofs Archive.Pareto Archive.ParetoProofs
     Evo.History Evo.Loop Evo.LoopProofs.
Import ListNotations.
Local Open Scope nat_scope.

(* the graphs returned are exactly the final archive, which is also recorded as the last
   generation of the history (labelled final choices, numbered after all others) and as the
   last archive snapshot *)
Theorem C01_result_is_final_archive : forall multi k pops,
  shown multi (concat (map snd pops)) ->
  let r := optimise multi k pops in
  let final := items (r_arch (loop multi k pops)) in
  result r = map gclass final /\
  r_pops r = pops ++ [(LFinal, final)] /\
  (exists snaps, r_snaps r = snaps ++ [final] /\ length snaps = length pops) /\
  gens (r_hist r) = gens (r_hist (loop multi k pops)) ++
                    [{| g_num := length pops; g_label := LFinal; g_members := map uid final |}].
Proof. exact result_is_final_archive. Qed.
Print Assumptions C01_result_is_final_archive.

(* the final update with the archive's own members leaves the archive as it was *)
Theorem C01_final_update_noop : forall multi k pops,
  shown multi (concat (map snd pops)) ->
  r_arch (optimise multi k pops) = r_arch (loop multi k pops).
Proof. exact final_noop. Qed.
Print Assumptions C01_final_update_noop.

(* each returned graph passes the verifier when every recorded population does *)
Theorem C01_result_verified : forall multi k pops (verified : indiv -> Prop),
  1 <= k -> shown multi (concat (map snd pops)) ->
  (forall s, In s (concat (map snd pops)) -> verified s) ->
  forall m, In m (items (r_arch (optimise multi k pops))) -> verified m.
Proof. exact result_verified. Qed.
Print Assumptions C01_result_verified.

(* single-objective mode: at most the requested number of best individuals is returned *)
Theorem C01_result_size : forall k pops,
  1 <= k -> shown_ok (concat (map snd pops)) ->
  length (result (optimise false k pops)) <= k.
Proof. exact result_size. Qed.
Print Assumptions C01_result_size.

(* single-objective mode: no individual recorded anywhere in the history has a better fitness
   than the best returned one *)
Theorem C01_single_obj_best : forall k pops,
  1 <= k -> shown_ok (concat (map snd pops)) ->
  let r := optimise false k pops in
  forall best rest, items (r_arch r) = best :: rest ->
  forall s, In s (concat (map snd (r_pops r))) -> f_better (fitness s) (fitness best) = false.
Proof. exact single_obj_best. Qed.
Print Assumptions C01_single_obj_best.

(* multi-objective mode: no returned individual is dominated by any recorded individual -
   as long as the capacity eviction of the Pareto front (5 * keep_n_best members) never fired *)
Theorem C01_multi_obj_nondominated : forall k pops,
  shown_multi (concat (map snd pops)) -> no_evict_from k run_init pops = true ->
  let r := optimise true k pops in
  forall m, In m (items (r_arch r)) ->
  forall s, In s (concat (map snd (r_pops r))) -> f_dom (fitness s) (fitness m) = false.
Proof. exact multi_obj_nondominated. Qed.
Print Assumptions C01_multi_obj_nondominated.

(* C06 clauses about the loop: one archive snapshot per generation ... *)
Theorem C01_one_snapshot_per_generation : forall multi k pops,
  length (r_snaps (loop multi k pops)) = length pops /\
  length (gens (r_hist (loop multi k pops))) = length pops.
Proof. exact loop_one_snapshot_per_generation. Qed.
Print Assumptions C01_one_snapshot_per_generation.

(* ... whose members all occur in that or an earlier generation *)
Theorem C01_snapshots : forall multi k pre c post,
  1 <= k -> shown multi (concat (map snd (pre ++ [c]))) ->
  exists s, nth_error (r_snaps (loop multi k (pre ++ c :: post))) (length pre) = Some s /\
            incl s (concat (map snd (pre ++ [c]))).
Proof. exact snapshot_members_seen. Qed.
Print Assumptions C01_snapshots.

(* the history kept by the loop is the history model of C06 run on the recorded uids *)
Theorem C01_history_is_C06_model : forall multi k pops,
  r_hist (loop multi k pops) = run_history (map (fun c => (fst c, map uid (snd c))) pops).
Proof. exact loop_history. Qed.
Print Assumptions C01_history_is_C06_model.

(* ---- non-vacuity ---- *)
(* --- extension pass: consequences along the run --- *)

(* multi-objective mode: the returned individuals are mutually non-dominated *)
Theorem C01_multi_result_antichain : forall k pops,
  shown_multi (concat (map snd pops)) -> no_evict_from k run_init pops = true ->
  let r := optimise true k pops in
  forall m m', In m (items (r_arch r)) -> In m' (items (r_arch r)) ->
  f_dom (fitness m') (fitness m) = false.
Proof. exact multi_result_antichain. Qed.
Print Assumptions C01_multi_result_antichain.

(* single-objective mode: the best-so-far never gets worse along the run: the head of the
   archive after ANY prefix of the recorded populations is not better than the best returned *)
Theorem C01_single_best_monotone : forall k pre post,
  1 <= k -> shown_ok (concat (map snd (pre ++ post))) ->
  forall h rest, items (r_arch (loop false k pre)) = h :: rest ->
  forall best rest', items (r_arch (optimise false k (pre ++ post))) = best :: rest' ->
  f_better (fitness h) (fitness best) = false.
Proof. exact single_best_monotone. Qed.
Print Assumptions C01_single_best_monotone.

(* single-objective mode: exactly min(keep_n_best, number of distinct recorded individuals)
   graphs are returned, best first *)
Theorem C01_single_result_exact : forall k pops,
  1 <= k -> shown_ok (concat (map snd pops)) ->
  let r := optimise false k pops in
  length (result r) = Nat.min k (length (nodup Nat.eq_dec (map uid (concat (map snd pops))))) /\
  StronglySorted (fun x y => f_better (fitness y) (fitness x) = false) (items (r_arch r)).
Proof. exact single_result_exact. Qed.
Print Assumptions C01_single_result_exact.

(* single-objective mode: the returned set is a k-best set of everything recorded: a recorded
   individual that is not returned is not better than any returned one *)
Theorem C01_single_result_k_best : forall k pops,
  1 <= k -> shown_ok (concat (map snd pops)) ->
  let r := optimise false k pops in
  forall s, In s (concat (map snd (r_pops r))) ->
  (forall m, In m (items (r_arch r)) -> uid m <> uid s) ->
  forall m, In m (items (r_arch r)) -> f_better (fitness s) (fitness m) = false.
Proof. exact single_result_k_best. Qed.
Print Assumptions C01_single_result_k_best.

Definition mk1 (u : nat) (v : Q) (g : nat) := {| uid := u; fitness := Single (Some v) []; gclass := g; ngen := None |}.
Definition ex_pops1 : list (label * list indiv) :=
  [(LInitial, [mk1 1 3 0; mk1 2 2 1]); (LNone, [mk1 3 2 2; mk1 2 2 1; mk1 4 1 3]); (LNone, [mk1 5 1 4; mk1 4 1 3])].

Example single_hypotheses_satisfiable :
  shown_ok (concat (map snd ex_pops1)) /\
  map uid (items (r_arch (optimise false 2 ex_pops1))) = [5; 4] /\
  result (optimise false 2 ex_pops1) = [4; 3] /\
  map (map uid) (r_snaps (optimise false 2 ex_pops1)) = [[2; 1]; [4; 3]; [5; 4]; [5; 4]].
Proof.
  split.
  - split.
    + apply sepu_b_correct. vm_compute. reflexivity.
    + intros s t Hs Ht E. simpl in Hs, Ht.
      repeat (destruct Hs as [<-|Hs]; [repeat (destruct Ht as [<-|Ht]; [try reflexivity; discriminate E|]); destruct Ht|]).
      destruct Hs.
  - vm_compute. repeat split.
Qed.

Definition mk2 (u : nat) (a b : Q) (g : nat) := {| uid := u; fitness := Multi [a; b] [1%Q; 1%Q]; gclass := g; ngen := None |}.
Definition ex_pops2 : list (label * list indiv) :=
  [(LInitial, [mk2 1 0 2 0; mk2 2 1 1 0]); (LNone, [mk2 3 2 2 0; mk2 4 2 0 0]); (LNone, [mk2 5 1 1 1; mk2 6 1 0 0])].

Example multi_hypotheses_satisfiable :
  shown_multi (concat (map snd ex_pops2)) /\ no_evict_from 1 run_init ex_pops2 = true /\
  map uid (items (r_arch (optimise true 1 ex_pops2))) = [1; 6] /\
  (* with a tiny capacity the eviction fires and the guard of the theorem is false *)
  no_evict_from 1 run_init (ex_pops2 ++ [(LNone, [mk2 7 3 (-1) 0; mk2 8 4 (-2) 0; mk2 9 5 (-3) 0; mk2 10 6 (-4) 0])]) = false.
Proof.
  split.
  - split.
    + apply sepu_b_correct. vm_compute. reflexivity.
    + intros f Hf. simpl in Hf. repeat (destruct Hf as [<-|Hf]; [eexists; eexists; reflexivity|]). destruct Hf.
  - vm_compute. repeat split.
Qed.
