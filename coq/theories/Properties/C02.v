(* C02 - Variation operators never alter parents and emit only verified offspring.
   Only statements, closed by `exact` / short glue, each followed by Print Assumptions.
   Model: Evo/Variation.v; proofs: Evo/VariationProofs.v.

   Vocabulary (VariationProofs.v).  A store holds three heaps (node objects, graph objects,
   individual objects); allocation appends, so the objects that existed before a call are the
   cells below the old sizes.
     mut_footprint f / cross_footprint f : the FOOTPRINT hypothesis on the mutation / crossover
        function - given graphs that live in a region of the memory no reference leaves (the fresh
        copies do) it changes nothing outside the region, only allocates, and returns graphs of
        the region.  The functions are otherwise arbitrary.
     stable1 verifier : a verdict depends only on objects that exist when it is given.
     valid_pop s pop  : no dangling reference in the memory; every member exists, its graph object
        exists and lists the parents of its nodes.   wf_pop: every member's graph is well-formed.
     untouched s s'   : every node / graph / individual object of s is identical in s'.
     reach m g x      : node object x is listed in graph object g or an ancestor of a listed node.
     new_with v s s' po o : o is an individual created after s, with operator object po, fitness
        token 0, whose graph object was created after s and is accepted by verifier v in s'.
     op_desc P s kind ps po : po has type_ = kind, operators = [name of a configured type that is
        not `none`], parent_individuals = ps, and an identity drawn after s.
     mut_rel / cross_rel : the answer for one member / one pair (see the theorems).
   All theorems hold for every configuration P, verifier, equality test, choice stream cs. *)
From Coq Require Import List String Bool Arith Lia.
From GolemV Require Import Evo.Variation Evo.VariationProofs.
Import ListNotations.
Local Open Scope list_scope.

(* ---- (1) parents untouched: the frame theorem over deepcopy ---------------------------- *)
Theorem C02_mutation_parents_untouched :
  forall P verifier geq mutfun, mut_footprint mutfun ->
  forall cs s pop, valid_pop s pop ->
    untouched s (fst (mutation_call P verifier geq mutfun cs s pop)).
Proof. exact mutation_parents_untouched. Qed.
Print Assumptions C02_mutation_parents_untouched.

Theorem C02_crossover_parents_untouched :
  forall P verifier crossfun, cross_footprint crossfun ->
  forall cs s pop, valid_pop s pop ->
    untouched s (fst (crossover_call P verifier crossfun cs s pop)).
Proof. exact crossover_parents_untouched. Qed.
Print Assumptions C02_crossover_parents_untouched.

(* ---- (2) no sharing: no node object is reachable both from the graph of an individual the
        call created (returned or not) and from the graph of a member of the population ---- *)
Theorem C02_mutation_no_sharing :
  forall P verifier geq mutfun, mut_footprint mutfun ->
  forall cs s pop o i x, valid_pop s pop ->
    let s' := fst (mutation_call P verifier geq mutfun cs s pop) in
    List.length (ih s) <= o < List.length (ih s') -> In i pop ->
    reach (smem s') (igraph (get_ind s' o)) x -> reach (smem s') (igraph (get_ind s' i)) x -> False.
Proof. exact mutation_created_no_sharing. Qed.
Print Assumptions C02_mutation_no_sharing.

Theorem C02_crossover_no_sharing :
  forall P verifier crossfun, cross_footprint crossfun ->
  forall cs s pop o i x, valid_pop s pop ->
    let s' := fst (crossover_call P verifier crossfun cs s pop) in
    List.length (ih s) <= o < List.length (ih s') -> In i pop ->
    reach (smem s') (igraph (get_ind s' o)) x -> reach (smem s') (igraph (get_ind s' i)) x -> False.
Proof. exact crossover_created_no_sharing. Qed.
Print Assumptions C02_crossover_no_sharing.

(* ---- (3) outputs classified -------------------------------------------------------------- *)
(* mutation: every output is a member of the population returned as is, or a new individual with
   a verifier-accepted new graph whose operator is ("mutation", type applied, [the member]) *)
Theorem C02_mutation_outputs_classified :
  forall P verifier geq mutfun, mut_footprint mutfun -> stable1 verifier ->
  forall cs s pop o, valid_pop s pop ->
    let r := mutation_call P verifier geq mutfun cs s pop in
    In o (result_list (snd r)) ->
    (In o pop /\ o < List.length (ih s)) \/
    exists p po, In p pop /\ op_desc P s "mutation"%string [p] po /\ new_with verifier s (fst r) po o.
Proof. exact mutation_outputs_classified. Qed.
Print Assumptions C02_mutation_outputs_classified.

(* ... position by position: the answer for member p is p itself or a new individual derived from
   [p]; the returned list is a subsequence of these answers (the drop rule removes some) *)
Theorem C02_mutation_outputs_aligned :
  forall P verifier geq mutfun, mut_footprint mutfun -> stable1 verifier ->
  forall cs s pop, valid_pop s pop ->
    let r := mutation_call P verifier geq mutfun cs s pop in
    exists rs, Forall2 (mut_rel P verifier s (fst r)) pop rs /\
               subseq (result_list (snd r)) (map fst rs).
Proof. exact mutation_outputs_aligned. Qed.
Print Assumptions C02_mutation_outputs_aligned.

(* what mut_rel says, spelled out *)
Theorem C02_mut_rel_meaning : forall P verifier s0 sF p r,
  mut_rel P verifier s0 sF p r <->
  (fst r = p \/
   exists po, (po_kind po = "mutation"%string /\ po_parents po = [p] /\ ctr s0 <= po_id po /\
               exists t, po_names po = [type_name P t] /\ type_is_none P t = false /\
                         t < List.length (types P)) /\
              (List.length (ih s0) <= fst r /\
               exists u g', nth_error (ih sF) (fst r) = Some (mk_ind u g' (Some po) 0) /\
                            glen (smem s0) <= g' < glen (smem sF) /\ verifier (smem sF) g' = true)).
Proof. intros. reflexivity. Qed.
Print Assumptions C02_mut_rel_meaning.

(* crossover: every output is a member returned as is, or a new verified individual whose operator
   is ("crossover", type applied, (p1, p2)) for a consecutive pair (p1, p2) *)
Theorem C02_crossover_outputs_classified :
  forall P verifier crossfun, cross_footprint crossfun -> stable1 verifier ->
  forall cs s pop o, valid_pop s pop ->
    let r := crossover_call P verifier crossfun cs s pop in
    In o (result_list (snd r)) ->
    (In o pop /\ o < List.length (ih s)) \/
    exists p1 p2 po, In (p1, p2) (pairs_of pop) /\ op_desc P s "crossover"%string [p1; p2] po /\
                     new_with verifier s (fst r) po o.
Proof. exact crossover_outputs_classified. Qed.
Print Assumptions C02_crossover_outputs_classified.

(* ---- (4) crossover of n individuals returns the offspring of consecutive pairs -------------- *)
(* for n <> 1 the answer is the concatenation, over the consecutive pairs (p0,p1), (p2,p3), ...,
   of the pair itself (not applied / every attempt rejected) or of new distinct verified
   individuals that all carry ONE operator object naming (p_2k, p_2k+1) in this order *)
Theorem C02_crossover_pairs :
  forall P verifier crossfun, cross_footprint crossfun -> stable1 verifier ->
  forall cs s pop, valid_pop s pop -> List.length pop <> 1 ->
    let r := crossover_call P verifier crossfun cs s pop in
    exists oss, snd r = RList (List.concat oss) /\
                Forall2 (cross_rel P verifier s (fst r)) (pairs_of pop) oss.
Proof. exact crossover_pairs_thm. Qed.
Print Assumptions C02_crossover_pairs.

Theorem C02_cross_rel_meaning : forall P verifier s0 sF pr os,
  cross_rel P verifier s0 sF pr os <->
  (os = [fst pr; snd pr] \/
   exists po, op_desc P s0 "crossover"%string [fst pr; snd pr] po /\
              Forall (new_with verifier s0 sF po) os /\ NoDup os).
Proof. intros. reflexivity. Qed.
Print Assumptions C02_cross_rel_meaning.

(* a single individual is returned as is and nothing happens *)
Theorem C02_crossover_single : forall P verifier crossfun cs s p,
  crossover_call P verifier crossfun cs s [p] = (s, RList [p]).
Proof. exact crossover_single. Qed.
Print Assumptions C02_crossover_single.

(* the pairs are (p0,p1), (p2,p3), ...: zip(pop[::2], pop[1::2]); a last member without partner is
   left out (as the code does) *)
Theorem C02_pairs_are_consecutive : forall (pop : list iref),
  zip (evens pop) (odds pop) = pairs_of pop /\
  List.length (pairs_of pop) = Nat.div2 (List.length pop) /\
  forall x, Nat.even (List.length pop) = true -> pairs_of (pop ++ [x]) = pairs_of pop.
Proof.
  intros pop. split; [apply zip_evens_odds|]. split; [apply pairs_of_length|].
  intros x H. apply pairs_of_odd_last. exact H.
Qed.
Print Assumptions C02_pairs_are_consecutive.

(* ---- (5) offspring well-formed ----------------------------------------------------------- *)
(* given functions that keep the fresh graphs they work on well-formed, every individual the
   operator creates holds a well-formed graph: no node listed twice, no two nodes with one uid
   (whatever uids the parents have in common), no duplicate link, closed under parents *)
Theorem C02_mutation_offspring_wf :
  forall P verifier geq mutfun, mut_footprint mutfun -> stable1 verifier -> mut_keeps_wf mutfun ->
  forall cs s pop, wf_pop s pop ->
    let s' := fst (mutation_call P verifier geq mutfun cs s pop) in
    forall o, List.length (ih s) <= o < List.length (ih s') -> wf_graph (smem s') (igraph (get_ind s' o)).
Proof. exact mutation_offspring_wf. Qed.
Print Assumptions C02_mutation_offspring_wf.

Theorem C02_crossover_offspring_wf :
  forall P verifier crossfun, cross_footprint crossfun -> stable1 verifier -> cross_keeps_wf crossfun ->
  forall cs s pop, wf_pop s pop ->
    let s' := fst (crossover_call P verifier crossfun cs s pop) in
    forall o, List.length (ih s) <= o < List.length (ih s') -> wf_graph (smem s') (igraph (get_ind s' o)).
Proof. exact crossover_offspring_wf. Qed.
Print Assumptions C02_crossover_offspring_wf.

(* deepcopy itself: the copy of a well-formed graph is well-formed and keeps every uid *)
Theorem C02_deepcopy_wf : forall m g, wf_graph m g -> wf_graph (fst (deepcopy m g)) (snd (deepcopy m g)).
Proof. exact deepcopy_wf. Qed.
Print Assumptions C02_deepcopy_wf.

(* ---- the oracle of the correspondence check decides the stated notions -------------------- *)
Theorem C02_oracle_wf_reflects : forall m g, wf_graph_b m g = true <-> wf_graph m g.
Proof. exact wf_graph_b_iff. Qed.
Print Assumptions C02_oracle_wf_reflects.

Theorem C02_oracle_unchanged_sound : forall s0 s1, unchanged_b s0 s1 = true -> untouched s0 s1.
Proof. exact unchanged_b_sound. Qed.
Print Assumptions C02_oracle_unchanged_sound.

Theorem C02_oracle_fresh_sound : forall s0 s1 g, fresh_graph_b s0 s1 g = true ->
  glen (smem s0) <= g /\
  forall r, In r (get_graph (smem s1) g) ->
    nlen (smem s0) <= r /\ forall p, In p (parents (get_node (smem s1) r)) -> nlen (smem s0) <= p.
Proof. exact fresh_graph_b_sound. Qed.
Print Assumptions C02_oracle_fresh_sound.

(* the functions the correspondence check replays have the footprint property *)
Theorem C02_replay_has_footprint : forall tbl, Forall content_ok tbl -> mut_footprint (replay_mut tbl).
Proof. exact replay_mut_footprint. Qed.
Print Assumptions C02_replay_has_footprint.

(* ---- non-vacuity: the hypotheses are satisfiable by non-trivial states --------------------- *)
(* two individuals over one node heap; the second graph is a relative of the first (same uids) *)
Definition ex_store : store :=
  mk_store (mk_mem [mk_node 0 "a" "" []; mk_node 1 "b" "" [0]; mk_node 0 "a" "" []; mk_node 1 "c" "" [2]]
                   [[1; 0]; [3; 2]])
           [mk_ind 0 0 None 1; mk_ind 1 1 None 0] 2.
Definition ex_conf : config := mk_config 2 [("single_add"%string, false); ("none"%string, true)].
(* a function that answers with a three-node graph, whatever it is given *)
Definition ex_tbl : list (list cnode) := [[(5, "d"%string, ""%string, [1; 2]); (0, "a"%string, ""%string, []); (1, "b"%string, ""%string, [])]].

Example ex_valid : wf_pop ex_store [0; 1] /\ valid_pop ex_store [0; 1].
Proof.
  assert (W : wf_pop ex_store [0; 1]).
  { split.
    - split.
      + intros r nd H p Hp. do 4 (destruct r as [|r]; [inversion H; subst; simpl in Hp; unfold nlen; simpl; intuition lia|]).
        destruct r; discriminate.
      + intros g ns H r Hr. do 2 (destruct g as [|g]; [inversion H; subst; simpl in Hr; unfold nlen; simpl; intuition lia|]).
        destruct g; discriminate.
    - intros i [E|[E|[]]]; subst; (split; [simpl; lia|]); apply wf_graph_b_iff; reflexivity. }
  split; [exact W|apply wf_pop_valid; exact W].
Qed.

Example ex_footprint : mut_footprint (replay_mut ex_tbl) /\ stable1 (fun _ _ => true) /\
                       cross_footprint id_cross /\ cross_keeps_wf id_cross /\
                       mut_footprint id_mut /\ mut_keeps_wf id_mut.
Proof.
  split; [apply replay_mut_footprint; constructor; [apply content_ok_b_sound; reflexivity|constructor]|].
  split; [apply stable1_const|].
  split; [apply id_cross_footprint|]. split; [apply id_cross_keeps_wf|].
  split; [apply id_mut_footprint|apply id_mut_keeps_wf].
Qed.

(* an applied mutation: the first member yields a NEW individual (index 2) with a three-node graph,
   the second member (type `none`) is returned as is *)
Example ex_mutation_run :
  let r := mutation_call ex_conf (fun _ _ => true) desc_geq (replay_mut ex_tbl)
             [mk_mchoice 0 true [[0]]; mk_mchoice 1 true []] ex_store [0; 1] in
  snd r = RList [2; 1] /\
  nth_error (ih (fst r)) 2 = Some (mk_ind 3 3 (Some (mk_po 2 "mutation" ["single_add"%string] [0])) 0) /\
  get_graph (smem (fst r)) 3 = [6; 7; 8].
Proof. vm_compute. repeat split. Qed.

(* an applied crossover of the two relatives: two new individuals sharing one operator *)
Example ex_crossover_run :
  let r := crossover_call ex_conf (fun _ _ => true) id_cross [mk_xchoice 0 true [0]] ex_store [0; 1] in
  snd r = RList [2; 3] /\
  map iparent_op (skipn 2 (ih (fst r))) =
    [Some (mk_po 2 "crossover" ["single_add"%string] [0; 1]); Some (mk_po 2 "crossover" ["single_add"%string] [0; 1])].
Proof. vm_compute. repeat split. Qed.
