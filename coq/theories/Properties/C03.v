(* C03 - The verifier accepts exactly the graphs that satisfy every configured rule.
   Only statements, closed by `exact`, each followed by Print Assumptions.
   Model: Graph/Rules.v; proofs: Graph/RulesProofs.v.  Graph-theoretic vocabulary (`dg`, `wf`,
   `edge`, `sink`, `cyclic`) and the depth-first-search model `has_cycle` are shared with C12
   (Graph/QueriesSpec.v, Graph/Queries.v); `ureach`, `degree`, `cond` are defined in Rules.v. *)
From Coq Require Import List Bool Arith.
From GolemV Require Import Base.Closure Graph.QueriesSpec Graph.Queries Graph.RulesBfs Graph.Rules
  Graph.RulesBfsProofs Graph.RulesProofs.
Import ListNotations.

(* ---------------------------------------------------------------------------------------- *)
(* 1. the rule loop (any domain type D, any restore function, any rules)                     *)
(* ---------------------------------------------------------------------------------------- *)
(* accept <-> no configured rule returns False or raises ValueError *)
Theorem C03_verify_iff : forall (D : Type) (restore : dg -> D) rf (rules : list (rule D)) g,
  (forall r, In r rules -> run_rule restore r g <> ROther) ->
  (verify restore rf rules g = Accept <->
   forall r, In r rules -> run_rule restore r g <> RFalse /\ run_rule restore r g <> RValueError).
Proof. exact verify_iff. Qed.
Print Assumptions C03_verify_iff.

(* without raise_on_failure the result is a boolean *)
Theorem C03_verify_boolean : forall (D : Type) (restore : dg -> D) (rules : list (rule D)) g,
  (forall r, In r rules -> run_rule restore r g <> ROther) ->
  verify restore false rules g = Accept \/ verify restore false rules g = Reject.
Proof. exact verify_boolean. Qed.
Print Assumptions C03_verify_boolean.

(* raise_on_failure only turns "False because of a ValueError" into VerificationError *)
Theorem C03_verify_raise_flag : forall (D : Type) (restore : dg -> D) (rules : list (rule D)) g,
  verify restore false rules g =
  match verify restore true rules g with RaiseVerification => Reject | v => v end.
Proof. exact verify_raise_flag. Qed.
Print Assumptions C03_verify_raise_flag.

Theorem C03_verify_raise_requested : forall (D : Type) (restore : dg -> D) (rules : list (rule D)) g,
  (forall r, In r rules -> run_rule restore r g <> ROther) ->
  verify restore true rules g = Accept \/ verify restore true rules g = Reject \/
  (verify restore true rules g = RaiseVerification /\ exists r, In r rules /\ run_rule restore r g = RValueError).
Proof. exact verify_raise_requested. Qed.
Print Assumptions C03_verify_raise_requested.

(* complete description: all rules pass and the graph is accepted, or the first rule that does
   not pass decides (False -> False; ValueError -> False / VerificationError; other -> escapes) *)
Theorem C03_verify_first : forall (D : Type) (restore : dg -> D) rf (rules : list (rule D)) g,
  (verify restore rf rules g = Accept /\ forall r, In r rules -> passes (run_rule restore r g)) \/
  (exists pre r post, rules = pre ++ r :: post /\ (forall q, In q pre -> passes (run_rule restore q g)) /\
     ((run_rule restore r g = RFalse /\ verify restore rf rules g = Reject) \/
      (run_rule restore r g = RValueError /\
       verify restore rf rules g = (if rf then RaiseVerification else Reject)) \/
      (run_rule restore r g = ROther /\ verify restore rf rules g = RaiseOther))).
Proof. exact verify_first. Qed.
Print Assumptions C03_verify_first.

(* verification is a pure function of the graph: on one verifier INSTANCE used for several
   graphs the verdict of the k-th call equals the verdict of a fresh verifier on that graph
   alone, the instance is unchanged by a call, and the position in the sequence is irrelevant *)
Theorem C03_verify_is_stateless : forall (D : Type) (v : verifier D) gs,
  call_seq v gs = map (verify (v_restore v) (v_raise v) (v_rules v)) gs /\
  (forall k g, nth_error gs k = Some g ->
               nth_error (call_seq v gs) k = Some (verify (v_restore v) (v_raise v) (v_rules v) g)).
Proof. exact (@verify_is_stateless). Qed.
Print Assumptions C03_verify_is_stateless.

Theorem C03_verify_order_irrelevant : forall (D : Type) (v : verifier D) pre pre' g post post',
  nth_error (call_seq v (pre ++ g :: post)) (length pre) =
  nth_error (call_seq v (pre' ++ g :: post')) (length pre').
Proof. exact (@verify_order_irrelevant). Qed.
Print Assumptions C03_verify_order_irrelevant.

(* ---------------------------------------------------------------------------------------- *)
(* 2. each built-in rule holds exactly when the structural condition of its name is true     *)
(* ---------------------------------------------------------------------------------------- *)
Theorem C03_has_root_iff : forall g,
  (r_has_root g = RTrue <-> exists v, sink g v) /\ (r_has_root g = RFalse <-> ~ exists v, sink g v).
Proof. exact has_root_iff. Qed.
Print Assumptions C03_has_root_iff.

Theorem C03_has_one_root_iff : forall g,
  (r_has_one_root g = RTrue <-> exists v, sink g v /\ forall w, sink g w -> w = v) /\
  (r_has_one_root g = RFalse <-> ~ exists v, sink g v /\ forall w, sink g w -> w = v).
Proof. exact has_one_root_iff. Qed.
Print Assumptions C03_has_one_root_iff.

(* rests on the C12 theorem about the literal iterative depth-first search (correct for every
   fuel, terminates within the model's fuel on closed graphs) *)
Theorem C03_has_no_cycle_iff : forall g, wf g ->
  (r_has_no_cycle g = RTrue <-> ~ cyclic g) /\ (r_has_no_cycle g = RValueError <-> cyclic g).
Proof. exact has_no_cycle_iff. Qed.
Print Assumptions C03_has_no_cycle_iff.

Theorem C03_no_self_cycled_iff : forall g,
  (r_no_self_cycled g = RTrue <-> forall v, ~ edge g v v) /\
  (r_no_self_cycled g = RValueError <-> exists v, edge g v v).
Proof. exact no_self_cycled_iff. Qed.
Print Assumptions C03_no_self_cycled_iff.

(* "a single-node graph is fine" *)
Theorem C03_no_isolated_nodes_iff : forall g,
  (r_no_isolated_nodes g = RTrue <-> (forall v, v < length g -> degree g v > 0) \/ length g = 1) /\
  (r_no_isolated_nodes g = RValueError <-> (exists v, v < length g /\ degree g v = 0) /\ length g <> 1).
Proof. exact no_isolated_nodes_iff. Qed.
Print Assumptions C03_no_isolated_nodes_iff.

Theorem C03_degree_pos_iff : forall g v, degree g v > 0 <-> exists w, edge g v w \/ edge g w v.
Proof. exact degree_pos_iff. Qed.
Print Assumptions C03_degree_pos_iff.

(* the literal model of NetworkX's breadth-first search (networkx.is_connected) returns within
   its fuel and answers True exactly when every node is connected to the first node *)
Theorem C03_nx_is_connected_iff : forall g, wf g -> 0 < length g ->
  exists b, nx_is_connected g = Some b /\ (b = true <-> forall v, v < length g -> ureach g 0 v).
Proof. exact nx_is_connected_iff. Qed.
Print Assumptions C03_nx_is_connected_iff.

Theorem C03_no_isolated_components_iff : forall g, wf g ->
  (r_no_isolated_components g = RTrue <->
     length g > 0 /\ forall u v, u < length g -> v < length g -> ureach g u v) /\
  (r_no_isolated_components g = RValueError <->
     ~ (length g > 0 /\ forall u v, u < length g -> v < length g -> ureach g u v)).
Proof. exact no_isolated_components_iff. Qed.
Print Assumptions C03_no_isolated_components_iff.

(* closure completeness for the symmetrised graph (n-fold composition = reachability on n nodes,
   Base/Closure.v tc_iff): what the connectivity clause of the holds_b oracle rests on *)
Theorem C03_closure_complete : forall g, wf g -> forall x y,
  mget (tc (length g) (uadjm g)) x y = true <-> exists z, uedge g x z /\ ureach g z y.
Proof. exact utc_iff. Qed.
Print Assumptions C03_closure_complete.

(* all six: passes <-> condition; never anything but True / False / ValueError *)
Theorem C03_builtin_iff : forall g b, wf g ->
  (rejects (builtin_fn b g) = false <-> cond b g) /\
  (builtin_fn b g = RTrue \/ builtin_fn b g = RFalse \/ builtin_fn b g = RValueError).
Proof. exact builtin_iff. Qed.
Print Assumptions C03_builtin_iff.

(* ---------------------------------------------------------------------------------------- *)
(* 3. the verifier with built-in rules: accepts exactly the graphs satisfying every rule     *)
(* ---------------------------------------------------------------------------------------- *)
Theorem C03_verify_builtins_iff : forall (D : Type) (restore : dg -> D) rf (bs : list builtin) g, wf g ->
  (verify restore rf (map builtin_rule bs) g = Accept <-> forall b, In b bs -> cond b g) /\
  (verify restore false (map builtin_rule bs) g = Accept \/ verify restore false (map builtin_rule bs) g = Reject) /\
  (verify restore rf (map builtin_rule bs) g <> RaiseOther).
Proof. exact verify_builtins_iff. Qed.
Print Assumptions C03_verify_builtins_iff.

Theorem C03_verify_default_dag_rules : forall (D : Type) (restore : dg -> D) rf g, wf g ->
  (verify restore rf (map builtin_rule default_dag_rules) g = Accept <->
     (exists v, sink g v) /\ ~ cyclic g /\
     (length g > 0 /\ forall u v, u < length g -> v < length g -> ureach g u v) /\
     (forall v, ~ edge g v v) /\
     ((forall v, v < length g -> degree g v > 0) \/ length g = 1)).
Proof. exact verify_default_dag_rules. Qed.
Print Assumptions C03_verify_default_dag_rules.

(* built-in and user rules mixed in any order *)
Theorem C03_verify_mixed_iff : forall (D : Type) (restore : dg -> D) rf (rules : list (rule D)) g, wf g ->
  (forall r, In r rules -> (exists b, r = builtin_rule b) \/ run_rule restore r g <> ROther) ->
  (verify restore rf rules g = Accept <->
     forall r, In r rules ->
       (forall b, r = builtin_rule b -> cond b g) /\ rejects (run_rule restore r g) = false).
Proof. exact verify_mixed_iff. Qed.
Print Assumptions C03_verify_mixed_iff.

(* ---------------------------------------------------------------------------------------- *)
(* 4. user rules: failure is signalled by False or ValueError; None and True accept          *)
(* ---------------------------------------------------------------------------------------- *)
Theorem C03_user_rule_protocol : forall (D : Type) (restore : dg -> D) rf (pre : list (rule D)) u post g,
  (forall q, In q pre -> passes (run_rule restore q g)) ->
  verify restore rf (pre ++ u :: post) g =
  match run_rule restore u g with
  | RTrue | RNone => verify restore rf post g
  | RFalse => Reject
  | RValueError => if rf then RaiseVerification else Reject
  | ROther => RaiseOther
  end.
Proof. exact user_rule_protocol. Qed.
Print Assumptions C03_user_rule_protocol.

Theorem C03_single_rule_protocol : forall (D : Type) (restore : dg -> D) (u : rule D) g,
  (verify restore false [u] g = Reject <-> run_rule restore u g = RFalse \/ run_rule restore u g = RValueError) /\
  (verify restore false [u] g = Accept <-> run_rule restore u g = RTrue \/ run_rule restore u g = RNone) /\
  (verify restore true [u] g = RaiseVerification <-> run_rule restore u g = RValueError) /\
  (verify restore true [u] g = Reject <-> run_rule restore u g = RFalse).
Proof. exact single_rule_protocol. Qed.
Print Assumptions C03_single_rule_protocol.

(* a composite user rule that delegates to an inner verifier with raise_on_failure=True: the
   inner VerificationError is a ValueError, so the rule passes exactly when every inner condition
   holds, never raises a foreign exception, and an outer verifier WITHOUT raise_on_failure
   returns a boolean on it *)
Theorem C03_nested_rule_iff : forall s bs g, wf g ->
  (rejects (ubehav_fn (UNested bs) (AOpt s g)) = false <-> forall b, In b bs -> cond b g) /\
  ubehav_fn (UNested bs) (AOpt s g) <> ROther.
Proof. exact nested_rule_iff. Qed.
Print Assumptions C03_nested_rule_iff.

Theorem C03_nested_rule_outer_boolean : forall ad native bs g, wf g ->
  let v := verify (restore_of ad) false [denote (CU native (UNested bs))] g in
  match ad, native with
  | AdNx, false => True
  | _, _ => (v = Accept <-> forall b, In b bs -> cond b g) /\ (v = Accept \/ v = Reject)
  end.
Proof. exact nested_rule_outer_boolean. Qed.
Print Assumptions C03_nested_rule_outer_boolean.

(* ---------------------------------------------------------------------------------------- *)
(* 5. rules written for domain graphs are given the restored domain graph                    *)
(* ---------------------------------------------------------------------------------------- *)
Theorem C03_domain_rule_gets_domain_graph : forall (D : Type) (restore : dg -> D) (f : D -> outcome) g,
  rule_input restore (Domain f) g = GDomain (restore g) /\ run_rule restore (Domain f) g = f (restore g).
Proof. exact domain_rule_gets_domain_graph. Qed.
Print Assumptions C03_domain_rule_gets_domain_graph.

Theorem C03_native_rule_gets_internal_graph : forall (D : Type) (restore : dg -> D) (f : dg -> outcome) g,
  rule_input restore (Native f) g = GInternal g /\ run_rule restore (Native f) g = f g.
Proof. exact native_rule_gets_internal_graph. Qed.
Print Assumptions C03_native_rule_gets_internal_graph.

(* the calls the loop makes: a prefix of the rule list, each rule with its prescribed input;
   the whole list when the graph is accepted *)
Theorem C03_calls_inputs : forall (D : Type) (restore : dg -> D) (rules : list (rule D)) g,
  exists k, calls restore rules g = map (fun r => rule_input restore r g) (firstn k rules).
Proof. exact calls_inputs. Qed.
Print Assumptions C03_calls_inputs.

Theorem C03_calls_accept : forall (D : Type) (restore : dg -> D) rf (rules : list (rule D)) g,
  verify restore rf rules g = Accept -> calls restore rules g = map (fun r => rule_input restore r g) rules.
Proof. exact calls_accept. Qed.
Print Assumptions C03_calls_accept.

(* in the concrete rule language of the correspondence check: whatever a user rule is recorded
   to have received is the internal graph (native) or the adapter's restored graph (domain) *)
Theorem C03_user_calls_inputs : forall ad rules g i a, In (i, a) (user_calls ad 0 rules g) ->
  exists native u, nth_error rules i = Some (CU native u) /\
                   a = if native then AOpt true g else restore_of ad g.
Proof. exact user_calls_inputs. Qed.
Print Assumptions C03_user_calls_inputs.

(* rules with side effects on their argument (they drop / reconnect / rename nodes of the graph
   object they were given): when every such rule is a domain rule under a copying adapter
   (DirectAdapter: deep copy, NetworkX adapter: new DiGraph) the verifier behaves exactly like the
   pure loop on the original graph and leaves the verified graph unchanged, so a second
   verification of the same object gives the same answer.  A rule that is native (or any rule
   under IdentityAdapter) is handed the verified graph itself and can change what later rules
   see: the second theorem exhibits it. *)
Theorem C03_verify_m_frame : forall ad rf rules s, protected ad rules = true ->
  verify_m ad rf rules s = (verify (restore_of ad) rf (map denote rules) (fst s), s) /\
  user_calls_m ad 0 rules s = user_calls ad 0 rules (fst s).
Proof. exact verify_m_frame. Qed.
Print Assumptions C03_verify_m_frame.

Theorem C03_verify_m_repeat : forall ad rf rules s, protected ad rules = true ->
  verify_m ad rf rules (snd (verify_m ad rf rules s)) = verify_m ad rf rules s.
Proof. exact verify_m_repeat. Qed.
Print Assumptions C03_verify_m_repeat.

Theorem C03_aliasing_rule_changes_verdict : exists ad rules g,
  fst (verify_m ad false rules (g, false)) <> verify (restore_of ad) false (map denote rules) g.
Proof. exact aliasing_rule_changes_verdict. Qed.
Print Assumptions C03_aliasing_rule_changes_verdict.

Theorem C03_holds_m_sound : forall ad rf rules g l, protected ad rules = true -> holds_m ad rf rules g l = true ->
  forall m, In m l -> mo_final m = g /\ mo_renamed m = false /\ holds_b ad rf rules g (mo_obs m) = true.
Proof. exact holds_m_sound. Qed.
Print Assumptions C03_holds_m_sound.

(* ---------------------------------------------------------------------------------------- *)
(* 6. the oracle of holds_b decides the stated conditions; check_case = agree/holds_b per run *)
(* ---------------------------------------------------------------------------------------- *)
Theorem C03_oracle_decides : forall g b, wf g -> (o_cond (mk_roracle g) b = true <-> cond b g).
Proof. exact o_cond_iff. Qed.
Print Assumptions C03_oracle_decides.

Theorem C03_model_matches_oracle : forall g b, wf g -> rejects (builtin_fn b g) = negb (o_cond (mk_roracle g) b).
Proof. exact builtin_fn_oracle. Qed.
Print Assumptions C03_model_matches_oracle.

Theorem C03_check_case_spec : forall g runs,
  check_case (g, runs) = [forallb (fun r => fst (check_run g r)) runs; forallb (fun r => snd (check_run g r)) runs].
Proof. exact check_case_spec. Qed.
Print Assumptions C03_check_case_spec.

(* holds_b is sound: an observed verdict that passes clause 1 is Accept exactly when every
   configured rule holds (structural conditions as Props), and is a boolean unless raising was
   requested; recorded rule arguments that pass clause 2 are the internal graph (native rules)
   or a restored domain graph with the structure of the verified graph (domain rules) *)
Theorem C03_holds_verdict_sound : forall ad rf rules g ob, wf g ->
  nth 0 (holds_l ad rf rules g ob) false = true ->
  existsb (c_raises_other (mk_roracle g)) rules = false ->
  (ob_verdict ob = Accept <-> forall c, In c rules -> crule_holds g c) /\
  (ob_verdict ob = Accept \/ ob_verdict ob = Reject \/ (rf = true /\ ob_verdict ob = RaiseVerification)).
Proof. exact holds_verdict_sound. Qed.
Print Assumptions C03_holds_verdict_sound.

Theorem C03_holds_args_sound : forall ad rf rules g ob, wf g ->
  nth 1 (holds_l ad rf rules g ob) false = true ->
  forall i a, In (i, a) (ob_calls ob) ->
  exists native u, nth_error rules i = Some (CU native u) /\
                   if native then arg_is_internal g a else arg_is_restored ad g a.
Proof. exact holds_args_sound. Qed.
Print Assumptions C03_holds_args_sound.

Theorem C03_restore_of_is_restored : forall ad g, wf g -> arg_is_restored ad g (restore_of ad g).
Proof. exact restore_of_is_restored. Qed.
Print Assumptions C03_restore_of_is_restored.

(* ---------------------------------------------------------------------------------------- *)
(* non-vacuity: the hypotheses are satisfiable by non-trivial states, both verdicts occur     *)
(* ---------------------------------------------------------------------------------------- *)
(* 0 <- 1 <- 2 with a second branch 3 -> 0 (node 0 is the root); closed *)
Definition ex_dag : dg := [[1; 3]; [2]; []; []].
Definition ex_cyc : dg := [[1]; [2]; [0]; []].          (* a 3-cycle and an isolated node *)

Example ex_dag_wf : wf_b ex_dag = true /\ wf_b ex_cyc = true.
Proof. split; reflexivity. Qed.

Example ex_default_accepts : verify (restore_of AdNx) false (map builtin_rule default_dag_rules) ex_dag = Accept.
Proof. vm_compute. reflexivity. Qed.

Example ex_default_rejects :
  verify (restore_of AdNx) false (map builtin_rule default_dag_rules) ex_cyc = Reject /\
  verify (restore_of AdNx) true (map builtin_rule [BNoCycle]) ex_cyc = RaiseVerification /\
  map (fun b => builtin_fn b ex_cyc) all_builtins = [RTrue; RTrue; RValueError; RValueError; RTrue; RValueError] /\
  map (fun b => builtin_fn b [[1]; [0]; []; []]) all_builtins = [RTrue; RFalse; RValueError; RValueError; RTrue; RValueError] /\
  map (fun b => builtin_fn b [[1]; [0]]) all_builtins = [RFalse; RFalse; RValueError; RTrue; RTrue; RTrue].
Proof. vm_compute. repeat split. Qed.

(* a mixed rule list without foreign exceptions: hypothesis of verify_iff / verify_mixed_iff *)
Example ex_mixed :
  let rules := map denote [CB BHasRoot; CU false (UEdgesLe 3 RValueError); CU true (UConst RNone)] in
  (forall r, In r rules -> run_rule (restore_of AdNx) r ex_dag <> ROther) /\
  verify (restore_of AdNx) false rules ex_dag = Accept /\
  verify (restore_of AdNx) false (map denote [CB BHasRoot; CU false (UEdgesLe 2 RValueError)]) ex_dag = Reject /\
  user_calls AdNx 0 [CB BHasRoot; CU false (UEdgesLe 3 RValueError); CU true (UConst RNone)] ex_dag =
    [(1, ANx 4 [(1, 0); (2, 1); (3, 0)]); (2, AOpt true ex_dag)].
Proof.
  split; [|vm_compute; repeat split].
  intros r H. simpl in H. destruct H as [<-|[<-|[<-|[]]]]; vm_compute; discriminate.
Qed.

(* a composite rule under the NetworkX adapter (domain level): rejected with a boolean *)
Example ex_nested :
  verify (restore_of AdNx) false (map denote [CU false (UNested [BHasRoot; BNoCycle])]) ex_cyc = Reject /\
  verify (restore_of AdNx) false (map denote [CU false (UNested [BHasRoot; BNoCycle])]) ex_dag = Accept /\
  verify (restore_of AdIdentity) true (map denote [CU true (UNested [BNoCycle])]) ex_cyc = RaiseVerification.
Proof. vm_compute. repeat split. Qed.

(* twins with the same descriptive id (all nodes named alike): two sinks sharing an ancestor
   (accepted) and the same with the ancestor duplicated (two components, rejected) - one
   instance, both orders *)
Example ex_twins :
  let v := {| v_restore := restore_of AdIdentity; v_raise := false; v_rules := map builtin_rule default_dag_rules |} in
  call_seq v [[[]; [0]; [0]]; [[]; []; [0]; [1]]] = [Accept; Reject] /\
  call_seq v [[[]; []; [0]; [1]]; [[]; [0]; [0]]; [[]; []; [0]; [1]]] = [Reject; Accept; Reject].
Proof. vm_compute. split; reflexivity. Qed.

(* a -> b -> c with a domain rule that drops a node of its argument under DirectAdapter: accepted,
   graph unchanged; the same rule registered native: later rules judge the shrunken graph *)
Example ex_mutating :
  let rules n := [CU n (UMutate MDropLast RTrue); CB BHasRoot; CB BNoIsoNodes; CU false (UNodesLe 3 RFalse)] in
  protected AdDirect (rules false) = true /\
  verify_m AdDirect false (rules false) ([[1]; [2]; []], false) = (Accept, ([[1]; [2]; []], false)) /\
  verify_m AdDirect false (rules true) ([[1]; [2]; []], false) = (Accept, ([[1]; []], false)) /\
  verify_m AdIdentity false [CU false (UMutate MRename RTrue)] ([[1]; []], false) = (Accept, ([[1]; []], true)).
Proof. vm_compute. repeat split. Qed.

(* a rule raising a foreign exception is outside verify_iff, and its exception escapes *)
Example ex_other : verify (restore_of AdIdentity) false (map denote [CU false (UConst ROther)]) ex_dag = RaiseOther.
Proof. reflexivity. Qed.
