(* C04 - statements (under construction) *)
From Coq Require Import List Bool.
From GolemV Require Import Graph.Heap Graph.Ops Graph.OpsSpec.
Import ListNotations.

Theorem C04_delegate_forwards : forall s o, gd_run_op s o = run_op s o.
Proof. reflexivity. Qed.
Print Assumptions C04_delegate_forwards.
