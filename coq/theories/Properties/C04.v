(* C04 - Graph editing operations keep graphs well-formed and follow their specification.
   Only statements, closed by `exact` (short glue allowed), each followed by Print Assumptions.
   Model: Graph/Heap.v (node heap, WF), Graph/Ops.v (LinkedGraph methods), Graph/OpsSpec.v
   (set-level specification, domain guards, agree / holds_b).
   Proofs: Graph/OpsBase.v OpsDfs.v OpsProofs.v OpsProofs2.v OpsChar.v OpsAcyclic.v OpsRefine.v OpsOracle.v OpsSink.v OpsRefine2.v (update_node) OpsCleanup.v (clean-up) OpsRefine3.v
   (update_subtree) OpsRefineAll.v. *)
From Coq Require Import List Bool Arith.
From GolemV Require Import Graph.Heap Graph.Ops Graph.OpsSpec Graph.OpsBase Graph.OpsDfs Graph.OpsProofs
  Graph.OpsProofs2 Graph.OpsChar Graph.OpsAcyclic Graph.OpsRefine Graph.OpsOracle Graph.OpsSink Graph.OpsRefine2 Graph.OpsCleanup Graph.OpsRefine3 Graph.OpsRefineAll Graph.OpsFrame Graph.OpsSpecPlain.
Import ListNotations.

(* ---------------------------------------------------------------- the oracle decides the stated notions *)
(* wf_b (used by holds_b on observed graphs) decides well-formedness: no node listed twice, no two
   members with one uid, no parent linked twice, UniqueList containers, parents of members are
   members, no dangling reference *)
Theorem C04_wf_b_reflects : forall h g, wf_b h g = true <-> WF h g.
Proof. exact wf_b_iff. Qed.
Print Assumptions C04_wf_b_reflects.

Theorem C04_acyclic_b_reflects : forall h g, WF h g -> (acyclic_b h g = true <-> acyclic h g).
Proof. exact acyclic_b_iff. Qed.
Print Assumptions C04_acyclic_b_reflects.

Theorem C04_a_eqb_reflects : forall A B, a_eqb A B = true <->
  ((forall x, In x (an A) <-> In x (an B)) /\ (forall e, In e (ae A) <-> In e (ae B)) /\
   (forall l, In l (al A) <-> In l (al B))).
Proof. exact a_eqb_iff. Qed.
Print Assumptions C04_a_eqb_reflects.

(* ordered_subnodes_hierarchy (used by delete_subtree, update_subtree, sort_nodes) raises exactly
   when a cycle is reachable from its argument; otherwise it lists exactly the ancestors-or-self *)
Theorem C04_hierarchy_raises_iff_cycle : forall h n, heap_ok h -> n < length h ->
  (is_ok (hierarchy h n) = true <-> acyclic_from h n).
Proof. exact hierarchy_ok_iff. Qed.
Print Assumptions C04_hierarchy_raises_iff_cycle.

Theorem C04_hierarchy_lists_ancestors : forall h n l, hierarchy h n = Ok l ->
  NoDup l /\ In n l /\ (forall m p, In m l -> In p (pars h m) -> In p l) /\ (forall m, In m l <-> reach h n m).
Proof. exact hierarchy_spec. Qed.
Print Assumptions C04_hierarchy_lists_ancestors.

(* ---------------------------------------------------------------- T1.1 / T1.2  well-formedness, no exception *)
(* every operation (add_node, delete_node x3 modes, delete_subtree, update_node, update_subtree,
   connect_nodes, disconnect_nodes with/without clean-up, and construction of new node objects)
   applied inside its domain returns a value and the new graph is well-formed *)
Theorem C04_op_preserves_WF : forall s o, WF (fst s) (snd s) -> guard_b s o = true ->
  exists s', run_op s o = Ok s' /\ WF (fst s') (snd s').
Proof. exact op_preserves_WF. Qed.
Print Assumptions C04_op_preserves_WF.

(* every sequence of operations, each applied inside its domain: no exception, well-formed result *)
Theorem C04_ops_preserve_WF : forall os s, WF (fst s) (snd s) -> guards_ok s os = true ->
  exists s', run_ops s os = Ok s' /\ WF (fst s') (snd s').
Proof. exact ops_preserve_WF. Qed.
Print Assumptions C04_ops_preserve_WF.

(* ... and so is every intermediate state *)
Theorem C04_reachable_states_WF : forall os1 os2 s, WF (fst s) (snd s) -> guards_ok s (os1 ++ os2) = true ->
  exists s1, run_ops s os1 = Ok s1 /\ WF (fst s1) (snd s1).
Proof. exact ops_reachable_WF. Qed.
Print Assumptions C04_reachable_states_WF.

(* ---------------------------------------------------------------- T1.4  acyclicity *)
(* acyclic graphs stay acyclic unless the operation is a connect whose child is an ancestor of the
   parent, or it inserts material that is cyclic itself / hangs on members (acyc_guard_b) *)
Theorem C04_op_preserves_acyclic : forall s o s', WF (fst s) (snd s) -> guard_b s o = true ->
  acyc_guard_b s o = true -> acyclic (fst s) (snd s) -> run_op s o = Ok s' -> acyclic (fst s') (snd s').
Proof. exact op_preserves_acyclic. Qed.
Print Assumptions C04_op_preserves_acyclic.

Theorem C04_ops_preserve_acyclic : forall os s, WF (fst s) (snd s) -> acyclic (fst s) (snd s) ->
  aguards_ok s os = true ->
  exists s', run_ops s os = Ok s' /\ WF (fst s') (snd s') /\ acyclic (fst s') (snd s').
Proof. exact ops_preserve_acyclic. Qed.
Print Assumptions C04_ops_preserve_acyclic.

(* the connect guard is exactly "the child is not an ancestor-or-self of the parent" *)
Theorem C04_connect_keeps_acyclic : forall h g p c h' g', WF h g -> In p g -> In c g -> ~ reach h p c ->
  connect_nodes h g p c = Ok (h', g') -> acyclic h g -> acyclic h' g'.
Proof. exact connect_acyclic. Qed.
Print Assumptions C04_connect_keeps_acyclic.

(* ---------------------------------------------------------------- T1.3  refinement of the set-level specification *)
(* for add_node, delete_node (none / single / all), delete_subtree, connect_nodes,
   disconnect_nodes without clean-up (and object construction): node set, edge set and labels of
   the result are those the documented meaning yields on the previous graph *)
Theorem C04_op_refines_spec : forall s o s', WF (fst s) (snd s) -> guard_b s o = true -> refined_op o = true ->
  run_op s o = Ok s' ->
  a_eqb (abs (fst s') (snd s')) (spec_op (universe (fst s)) (abs (fst s) (snd s)) o) = true.
Proof. exact op_refines_spec. Qed.
Print Assumptions C04_op_refines_spec.

(* (kept for stability of names; superseded by C04_disconnect_cleanup_refines_spec below)
   Full statement for disconnect_nodes with clean-up:
     forall s p c s', WF (fst s) (snd s) -> guard_b s (ODisconnect p c true) = true ->
       run_op s (ODisconnect p c true) = Ok s' ->
       a_eqb (abs (fst s') (snd s')) (spec_disconnect_cleanup (abs (fst s) (snd s)) p c) = true.
   This first part: edges and labels of the remaining members are those of the specification and
   the member list only shrinks. *)
Theorem C04_disconnect_cleanup_refines_partial : forall h g p c h' g', WF h g -> In p g -> In c g ->
  disconnect_nodes h g p c true = Ok (h', g') ->
  incl g' g /\
  (forall q r, In (q, r) (ae (abs h' g')) <-> In r g' /\ In (q, r) (ae (spec_disconnect (abs h g) p c))) /\
  (forall r l, In (r, l) (al (abs h' g')) <-> In r g' /\ In (r, l) (al (abs h g))).
Proof. exact disconnect_cleanup_refines_partial. Qed.
Print Assumptions C04_disconnect_cleanup_refines_partial.

(* (kept for stability of names; superseded by C04_update_node_refines_spec and
   C04_update_subtree_refines_spec below)  Full statements for update_node / update_subtree:
     ... run_op s (OUpdNode old new) = Ok s' -> spec_guard_b s (OUpdNode old new) = true ->
       a_eqb (abs (fst s') (snd s')) (spec_update_node (universe (fst s)) (abs (fst s) (snd s)) old new) = true
     ... run_op s (OUpdSub old new) = Ok s' ->
       a_eqb (abs (fst s') (snd s')) (spec_update_subtree (universe (fst s)) (abs (fst s) (snd s)) old new) = true
   The pieces: the exact parent sets after update_node, the composition of the result of
   update_subtree, and "sort_nodes keeps the member set of an acyclic graph". *)
Theorem C04_sort_nodes_keeps_members : forall h g g', WF h g -> acyclic h g -> sort_nodes h g = Ok g' ->
  forall x, In x g' <-> In x g.
Proof. exact sort_nodes_keeps. Qed.
Print Assumptions C04_sort_nodes_keeps_members.

Theorem C04_update_node_result_partial : forall h g old new, WF h g -> guard_b (h, g) (OUpdNode old new) = true ->
  exists h2 g3, update_node h g old new = Ok (h2, g3) /\ WF h2 g3 /\
    (length h2 = length h /\
     forall r, uid (get h2 r) = uid (get h r) /\ label (get h2 r) = label (get h r) /\ uniq (get h2 r) = uniq (get h r)) /\
    (forall x, In x g -> forall p, In p (pars h2 x) <->
        (p = new /\ In old (pars h x)) \/ (In p (pars h x) /\ p <> old)) /\
    (forall p, In p (pars h2 new) <->
        In p (pars h new) \/ (p = new /\ In old (pars h old)) \/ (In p (pars h old) /\ p <> old)) /\
    (forall x, ~ In x g -> x <> new -> pars h2 x = pars h x) /\
    (forall x, In x g3 -> (In x g /\ x <> old) \/ reach h2 new x).
Proof. exact update_node_facts. Qed.
Print Assumptions C04_update_node_result_partial.

Theorem C04_update_subtree_result_partial : forall h g old new, WF h g -> guard_b (h, g) (OUpdSub old new) = true ->
  exists h4 g3 (Bs : ref -> Prop), update_subtree h g old new = Ok (h4, g3) /\ WF h4 g3 /\
    (forall x, In x g3 -> In x g \/ Bs x) /\
    (forall x, Bs x -> length h <= x) /\
    (forall x p, Bs x -> In p (pars h4 x) -> Bs p) /\
    (forall x, Bs x -> ~ on_cycle h4 x) /\
    (forall x, In x g -> In x g3 -> forall p, In p (pars h4 x) -> Bs p \/ In p (pars h x)).
Proof. exact update_subtree_facts. Qed.
Print Assumptions C04_update_subtree_result_partial.

(* ---------------------------------------------------------------- T2  refinement of the remaining operations *)
(* update_node: new takes the place of old in every edge, and the graph is completed with new and
   its ancestors (for a new node that does not hang on the node it replaces) *)
Theorem C04_update_node_refines_spec : forall h g old new h2 g3, WF h g ->
  guard_b (h, g) (OUpdNode old new) = true -> spec_guard_b (h, g) (OUpdNode old new) = true ->
  update_node h g old new = Ok (h2, g3) ->
  a_eqb (abs h2 g3) (spec_update_node (universe h) (abs h g) old new) = true.
Proof. intros. apply a_eqb_iff. eapply update_node_refines; eauto. Qed.
Print Assumptions C04_update_node_refines_spec.

(* update_subtree: old and its ancestors go, the children of old hang on the copy of new, the copy
   of new's subtree comes; the copy of the i-th object of new's subtree (in the order the walk meets
   them, new first) is the new object length h + i  (the isomorphism `rename`) *)
Theorem C04_update_subtree_refines_spec : forall h g old new h4 g3, WF h g ->
  guard_b (h, g) (OUpdSub old new) = true -> update_subtree h g old new = Ok (h4, g3) ->
  a_eqb (abs h4 g3) (spec_update_subtree (universe h) (abs h g) old new) = true.
Proof. intros. apply a_eqb_iff. eapply update_subtree_refines; eauto. Qed.
Print Assumptions C04_update_subtree_refines_spec.

(* _clean_up_leftovers started at p leaves exactly the members that are not in the least set
   containing p (if all its children are in the set) and every parent of a node of the set all of
   whose children are in the set ... *)
Theorem C04_cleanup_removes_least_fixpoint : forall h g0 p k g', clean_up k h g0 p = Ok g' -> NoDup g0 ->
  forall x, In x g' <-> In x g0 /\ ~ removed h g0 p x.
Proof. exact clean_up_exact. Qed.
Print Assumptions C04_cleanup_removes_least_fixpoint.

(* ... which is what the round-based cleanup_set of the specification computes *)
Theorem C04_cleanup_set_is_least_fixpoint : forall A p, NoDup (an A) ->
  forall x, In x (cleanup_set A p) <-> aremoved A p x.
Proof. exact cleanup_set_spec. Qed.
Print Assumptions C04_cleanup_set_is_least_fixpoint.

Theorem C04_disconnect_cleanup_refines_spec : forall h g p c h' g', WF h g -> In p g -> In c g ->
  disconnect_nodes h g p c true = Ok (h', g') ->
  a_eqb (abs h' g') (spec_disconnect_cleanup (abs h g) p c) = true.
Proof. intros. apply a_eqb_iff. eapply disconnect_cleanup_refines; eauto. Qed.
Print Assumptions C04_disconnect_cleanup_refines_spec.

(* all operations: inside the domain the result denotes the graph the documented meaning yields *)
Theorem C04_op_refines_spec_all : forall s o s', WF (fst s) (snd s) -> guard_b s o = true ->
  spec_guard_b s o = true -> run_op s o = Ok s' ->
  a_eqb (abs (fst s') (snd s')) (spec_op (universe (fst s)) (abs (fst s) (snd s)) o) = true.
Proof. exact op_refines_spec_all. Qed.
Print Assumptions C04_op_refines_spec_all.

(* and the oracle holds_b is true on the model's own result for every operation *)
Theorem C04_model_satisfies_holds_b_all : forall s o s', run_op s o = Ok s' ->
  holds_b s o (OOk (fst s') (snd s')) = true.
Proof. exact model_holds_all. Qed.
Print Assumptions C04_model_satisfies_holds_b_all.

(* the booleans the driver reads per observed step are agree and holds_b *)
Theorem C04_check_is_agree_and_holds : forall s o ob, exists rest,
  check s o ob = (agree s o ob && negb (declined s o && in_domain s o)) :: holds_b s o ob :: rest.
Proof. exact check_spec. Qed.
Print Assumptions C04_check_is_agree_and_holds.

(* the oracle asks no more than the theorems give: on the model's own result holds_b is true for
   every operation with a proved refinement, its WF / acyclicity clauses for every operation, and
   the model never raises inside the domain *)
Theorem C04_model_satisfies_holds_b : forall s o s', refined_op o = true -> run_op s o = Ok s' ->
  holds_b s o (OOk (fst s') (snd s')) = true.
Proof. exact model_holds. Qed.
Print Assumptions C04_model_satisfies_holds_b.

Theorem C04_model_wf_acyclic_clauses : forall s o s', in_domain s o = true -> run_op s o = Ok s' ->
  holds_wf (fst s') (snd s') = true /\ holds_acyclic s o (fst s') (snd s') = true.
Proof. exact model_wf_acyclic. Qed.
Print Assumptions C04_model_wf_acyclic_clauses.

Theorem C04_model_never_raises_in_domain : forall s o e, in_domain s o = true -> run_op s o <> Raise e.
Proof. exact model_never_raises_in_domain. Qed.
Print Assumptions C04_model_never_raises_in_domain.

(* modelling fact made explicit: every node owns its parent container.  A node built from another
   node's parent list (OptNode(.., nodes_from=a.nodes_from), b.nodes_from = a.nodes_from) holds a copy:
   connecting / disconnecting a afterwards leaves the new node's parents unchanged, and in general
   these operations change no object but the child *)
Theorem C04_containers_not_shared : forall h g a u l p cl h' g',
  a < length h ->
  (connect_nodes (h ++ [mkNode u l (pars h a) true]) g p a = Ok (h', g') \/
   disconnect_nodes (h ++ [mkNode u l (pars h a) true]) g p a cl = Ok (h', g')) ->
  pars h' (length h) = pars h a.
Proof. exact containers_not_shared. Qed.
Print Assumptions C04_containers_not_shared.

Theorem C04_connect_disconnect_touch_only_the_child : forall h g p c cl h' g',
  (connect_nodes h g p c = Ok (h', g') \/ disconnect_nodes h g p c cl = Ok (h', g')) ->
  forall r, r <> c -> get h' r = get h r.
Proof. intros h g p c cl h' g' [E|E]; [eapply connect_frame|eapply disconnect_frame]; eauto. Qed.
Print Assumptions C04_connect_disconnect_touch_only_the_child.

(* user node classes with an ordinary list as parent container (uniq = false): connect_nodes and
   disconnect_nodes never link a parent twice, whatever the container kind (the explicit "already a
   child" test of connect_nodes is what guarantees it for plain lists) *)
Theorem C04_connect_no_duplicate_any_container : forall h g p c h' g', c < length h -> In c g ->
  connect_nodes h g p c = Ok (h', g') -> forall r, NoDup (pars h r) -> NoDup (pars h' r).
Proof. exact connect_keeps_nodup_any_container. Qed.
Print Assumptions C04_connect_no_duplicate_any_container.

Theorem C04_disconnect_no_duplicate_any_container : forall h g p c cl h' g', c < length h ->
  disconnect_nodes h g p c cl = Ok (h', g') -> forall r, NoDup (pars h r) -> NoDup (pars h' r).
Proof. exact disconnect_keeps_nodup_any_container. Qed.
Print Assumptions C04_disconnect_no_duplicate_any_container.

(* ---------------------------------------------------------------- T1.5  GraphDelegate *)
Theorem C04_delegate_forwards : forall s o, gd_run_op s o = run_op s o.
Proof. reflexivity. Qed.
Print Assumptions C04_delegate_forwards.

(* ---------------------------------------------------------------- boundaries of the domain (witnesses) *)
(* "no operation raises when its arguments belong to the graph" needs the acyclic-subtree clause of
   the domain: after a connect that closes a cycle, delete_subtree of a member on it raises
   ValueError (by design of ordered_subnodes_hierarchy) *)
Theorem C04_no_raise_needs_acyclic_subtree_refuted : exists h g n,
  wf_b h g = true /\ memb n g = true /\ delete_subtree h g n = Raise ValueError.
Proof.
  exists [mkNode 1 0 [1] true; mkNode 2 1 [0] true], [0; 1], 0. vm_compute. auto.
Qed.
Print Assumptions C04_no_raise_needs_acyclic_subtree_refuted.

(* the container-kind clause of WF is necessary: with plain-list parent containers (the state
   graphs loaded from JSON had before the fix of D8) delete_node links a parent twice *)
Theorem C04_plain_lists_break_WF_refuted : exists h g n s',
  heap_ok_b h = true /\ nodup_b g = true /\ closed_b h g = true /\ uid_inj_b h g = true /\
  forallb (fun r => nodup_b (pars h r)) g = true /\ memb n g = true /\
  delete_node h g n RSingle = Ok s' /\ forallb (fun r => nodup_b (pars (fst s') r)) (snd s') = false.
Proof.
  exists [mkNode 1 0 [] false; mkNode 2 1 [0] false; mkNode 3 2 [1; 0] false], [0; 1; 2], 1.
  eexists. vm_compute. repeat split.
Qed.
Print Assumptions C04_plain_lists_break_WF_refuted.

(* ---------------------------------------------------------------- non-vacuity *)
(* a diamond 0 <- 1, 0 <- 2, {1,2} <- 3 and two fresh objects (4, and 5 hanging on 4) *)
Definition ex_h : heap :=
  [mkNode 10 0 [] true; mkNode 11 1 [0] true; mkNode 12 2 [0] true; mkNode 13 3 [1; 2] true;
   mkNode 14 4 [] true; mkNode 15 5 [4] true].
Definition ex_g : graph := [3; 1; 0; 2].

Example ex_wf : wf_b ex_h ex_g = true /\ acyclic_b ex_h ex_g = true.
Proof. vm_compute. auto. Qed.

(* every guard is satisfiable on it, and the operations change the graph *)
Example ex_guards :
  forallb (fun o => guard_b (ex_h, ex_g) o && acyc_guard_b (ex_h, ex_g) o)
    [OAlloc [mkNode 20 6 [0; 6] true]; OAdd 5; ODelete 1 RNone; ODelete 1 RSingle; ODelete 0 RAll; ODelSub 1;
     OUpdNode 1 5; OUpdSub 1 5; OUpdSub 1 2; OUpdSub 3 1; OConnect 1 2; ODisconnect 1 3 false;
     ODisconnect 1 3 true] = true.
Proof. vm_compute. reflexivity. Qed.

Example ex_effects :
  match run_op (ex_h, ex_g) (OUpdSub 1 2), run_op (ex_h, ex_g) (ODisconnect 1 3 true),
        run_op (ex_h, ex_g) (ODelete 0 RAll) with
  | Ok (h1, g1), Ok (_, g2), Ok (h3, g3) =>
      (length h1 =? 8) && (length g1 =? 4) && (length g2 =? 3) && (length g3 =? 3)
  | _, _, _ => false
  end = true.
Proof. vm_compute. reflexivity. Qed.

(* a guarded sequence of six operations (with a relatives insertion and a clean-up) *)
Example ex_sequence :
  aguards_ok (ex_h, ex_g)
    [OUpdSub 1 2; OAlloc [mkNode 30 7 [] true]; OUpdNode 2 8; ODisconnect 8 3 true; OConnect 7 3; OAdd 5] = true /\
  guards_ok (ex_h, ex_g) [OConnect 3 0; ODelete 1 RAll; OAdd 5] = true.
Proof. vm_compute. auto. Qed.

(* refined_op covers seven operation forms *)
Example ex_refined :
  forallb refined_op [OAdd 5; ODelete 1 RNone; ODelete 1 RSingle; ODelete 0 RAll; ODelSub 1; OConnect 1 2;
                      ODisconnect 1 3 false] = true.
Proof. reflexivity. Qed.

(* the extra hypothesis of the update_node refinement is satisfiable, and a clean-up that removes
   something: disconnecting 1 from 3 in the diamond removes exactly node 1 *)
Example ex_refine_all :
  spec_guard_b (ex_h, ex_g) (OUpdNode 1 5) = true /\
  cleanup_set (spec_disconnect (abs ex_h ex_g) 1 3) 1 = [1] /\
  match run_op (ex_h, ex_g) (OUpdNode 1 5) with
  | Ok (h', g') => a_eqb (abs h' g') (spec_update_node (universe ex_h) (abs ex_h ex_g) 1 5) && (length g' =? 5)
  | Raise _ => false
  end = true.
Proof. vm_compute. auto. Qed.
