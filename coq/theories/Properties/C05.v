(* C05 - Evaluation gives exactly the evaluable individuals their objective value.
   Only statements, closed by `exact`, each followed by Print Assumptions.
   Model: Evo/Evaluation.v; proofs: Evo/EvaluationProofs.v.

   Reading guide.  pop : list ind  is the population (uid, fitness, graph label);
   to_evaluate / to_skip split it by fitness validity;  objective_value o g  is Objective.__call__
   on graph g;  timer k  is the answer of is_time_limit_reached to the k-th evaluate_single call
   of the fan-out;  d : delegate  is None or Some compute_graphs;  eff_graph d pop i  is the
   graph individual i is evaluated on by the parallel dispatcher (the delegate's graph for it,
   else its own), eff_graph_seq d pop i the same for the sequential dispatcher (which hands the
   population to the delegate in input order, the parallel one in reversed order);  evaluated_ind o g i  is i with fitness objective_value o g and graph g.
   evaluate_with_cache = MultiprocessingDispatcher.dispatch(...)(pop),
   sequential_evaluate = SequentialDispatcher.dispatch(...)(pop); both return (result, event log).
   Assumed everywhere: the not-yet-evaluated individuals have pairwise distinct uids. *)
From Coq Require Import List Bool Arith QArith Permutation.
From GolemV Require Import Evo.Evaluation Evo.EvaluationProofs.
Import ListNotations.
Local Open Scope nat_scope.

(* ---- characterisation: what the two evaluators return and log, for every order of results --- *)
Theorem C05_parallel_characterised : forall o d timer pop,
  NoDup (map uid (to_evaluate pop)) ->
  evaluate_with_cache o d timer pop =
  (Ok (mp_spec o (remote_compute_cache d (rev pop)) timer (rev pop)),
   mp_log_spec o (remote_compute_cache d (rev pop)) timer (rev pop)).
Proof. exact evaluate_with_cache_closed. Qed.
Print Assumptions C05_parallel_characterised.

Theorem C05_sequential_characterised : forall o d timer pop,
  NoDup (map uid (to_evaluate pop)) ->
  sequential_evaluate o d timer pop =
  (Ok (seq_spec o (eff_graph_seq d pop) timer pop),
   main_log_spec o (eff_graph_seq d pop) timer (to_evaluate pop)).
Proof. exact sequential_evaluate_closed. Qed.
Print Assumptions C05_sequential_characterised.

(* ---- (1) eval_sound: no exception; output within input; every returned individual has a valid
   fitness; a pre-evaluated one is returned unchanged, a newly evaluated one carries the objective
   value of the graph it was evaluated on; the metrics only ever see graphs of not-yet-evaluated
   individuals (so a pre-evaluated individual causes no objective call) *)
Theorem C05_eval_sound_parallel : forall o d timer pop,
  NoDup (map uid (to_evaluate pop)) ->
  exists out lg, evaluate_with_cache o d timer pop = (Ok out, lg) /\
    (forall x, In x out ->
       valid (fitness x) = true /\
       (In x pop \/
        (exists i, In i pop /\ valid (fitness i) = false /\ x = evaluated_ind o (eff_graph d pop i) i))) /\
    (forall g, In g (metric_graphs lg) ->
       exists i, In i pop /\ valid (fitness i) = false /\ g = eff_graph d pop i).
Proof. exact eval_sound_par. Qed.
Print Assumptions C05_eval_sound_parallel.

Theorem C05_eval_sound_sequential : forall o d timer pop,
  NoDup (map uid (to_evaluate pop)) ->
  exists out lg, sequential_evaluate o d timer pop = (Ok out, lg) /\
    (forall x, In x out ->
       valid (fitness x) = true /\
       (In x pop \/
        (exists i, In i pop /\ valid (fitness i) = false /\ x = evaluated_ind o (eff_graph_seq d pop i) i))) /\
    (forall g, In g (metric_graphs lg) ->
       exists i, In i pop /\ valid (fitness i) = false /\ g = eff_graph_seq d pop i).
Proof. exact eval_sound_seq. Qed.
Print Assumptions C05_eval_sound_sequential.

(* "the objective applied to its graph" is what the specification says: all metric values when
   every metric returns a number, invalid when a metric raises / returns None / NaN *)
Theorem C05_objective_value_spec : forall o g, metrics o <> [] -> objective_value o g = spec_fit o g.
Proof. exact objective_value_spec. Qed.
Print Assumptions C05_objective_value_spec.

Theorem C05_valid_iff_evaluable : forall o g, valid (spec_fit o g) = evaluable o g.
Proof. exact valid_spec_fit. Qed.
Print Assumptions C05_valid_iff_evaluable.

(* ---- (2) eval_complete: the k-th individual to evaluate is present in the output iff it was
   not cut off by the time limit and its evaluation yields a valid fitness - i.e. it is missing
   iff its evaluation raised / yielded no value / NaN / was cut by the timer *)
Theorem C05_eval_complete_sequential : forall o d timer pop k i,
  NoDup (map uid (to_evaluate pop)) ->
  In (k, i) (index_from 0 (to_evaluate pop)) ->
  ~ In (uid i) (map uid (to_skip pop)) ->
  forall out lg, sequential_evaluate o d timer pop = (Ok out, lg) ->
  ((exists x, In x out /\ uid x = uid i) <->
   timer k = false /\ valid (objective_value o (eff_graph_seq d pop i)) = true).
Proof. exact eval_complete_seq. Qed.
Print Assumptions C05_eval_complete_sequential.

(* parallel: the same whenever the fan-out returned anything or anything was pre-evaluated;
   otherwise the forced evaluation below applies *)
Theorem C05_eval_complete_parallel : forall o d timer pop k i,
  NoDup (map uid (to_evaluate pop)) ->
  In (k, i) (index_from 0 (to_evaluate (rev pop))) ->
  ~ In (uid i) (map uid (to_skip pop)) ->
  ~ main_pass_empty o d timer pop ->
  forall out lg, evaluate_with_cache o d timer pop = (Ok out, lg) ->
  ((exists x, In x out /\ uid x = uid i) <->
   timer k = false /\ valid (objective_value o (eff_graph d pop i)) = true).
Proof. exact eval_complete_par. Qed.
Print Assumptions C05_eval_complete_parallel.

Theorem C05_main_pass_empty_iff : forall o d timer pop,
  main_pass_empty o d timer pop <->
  to_skip pop = [] /\
  forall k i, In (k, i) (index_from 0 (to_evaluate (rev pop))) ->
              timer k = true \/ valid (objective_value o (eff_graph d pop i)) = false.
Proof. exact main_pass_empty_iff. Qed.
Print Assumptions C05_main_pass_empty_iff.

(* ---- (3) order_independent: any permutation of the list of results (= any completion order,
   any number of workers) gives the same returned individuals and the same fitness assignment *)
Theorem C05_order_independent_parallel : forall shuffle o d timer pop,
  (forall l, Permutation (shuffle l) l) ->
  NoDup (map uid (to_evaluate pop)) ->
  evaluate_with_cache_shuffled shuffle o d timer pop = evaluate_with_cache o d timer pop.
Proof. exact order_independent_par. Qed.
Print Assumptions C05_order_independent_parallel.

Theorem C05_order_independent_sequential : forall shuffle o d timer pop,
  (forall l, Permutation (shuffle l) l) ->
  NoDup (map uid (to_evaluate pop)) ->
  sequential_evaluate_shuffled shuffle o d timer pop = sequential_evaluate o d timer pop.
Proof. exact order_independent_seq. Qed.
Print Assumptions C05_order_independent_sequential.

(* apply_evaluation_results itself (public static method), for ARBITRARY result lists - invalid,
   None, missing and foreign results included: it matches results to individuals by uid, and any
   permutation of the results gives the same individuals, fitness and order *)
Theorem C05_apply_results_spec : forall inds rs,
  all_invalid inds -> NoDup (map fst (truthy_pairs rs)) ->
  apply_evaluation_results inds rs = Ok (apply_spec inds rs).
Proof. exact apply_results_spec. Qed.
Print Assumptions C05_apply_results_spec.

Theorem C05_apply_results_order_independent : forall inds rs rs',
  all_invalid inds -> NoDup (map fst (truthy_pairs rs)) -> Permutation rs rs' ->
  apply_evaluation_results inds rs' = apply_evaluation_results inds rs.
Proof. exact apply_results_order_independent. Qed.
Print Assumptions C05_apply_results_order_independent.

Theorem C05_apply_in_scope_reflects : forall inds rs,
  apply_in_scope inds rs = true <->
  NoDup (map uid inds) /\ all_invalid inds /\ NoDup (map fst (truthy_pairs rs)).
Proof. exact apply_in_scope_iff. Qed.
Print Assumptions C05_apply_in_scope_reflects.

(* sequential = parallel: with a limit that is never reached and no delegate both return the same
   individuals with the same fitness (as multisets; the parallel one lists them in reversed order) *)
Theorem C05_sequential_parallel_same : forall o pop,
  NoDup (map uid (to_evaluate pop)) ->
  exists out_p out_s,
    fst (evaluate_with_cache o None (fun _ => false) pop) = Ok out_p /\
    fst (sequential_evaluate o None (fun _ => false) pop) = Ok out_s /\
    Permutation out_p out_s.
Proof. exact seq_par_same. Qed.
Print Assumptions C05_sequential_parallel_same.

Theorem C05_parallel_is_sequential_on_reversed : forall o timer pop,
  NoDup (map uid (to_evaluate pop)) -> ~ main_pass_empty o None timer pop ->
  fst (evaluate_with_cache o None timer pop) = fst (sequential_evaluate o None timer (rev pop)).
Proof. exact par_is_seq_on_reversed. Qed.
Print Assumptions C05_parallel_is_sequential_on_reversed.

(* the distinct-uid hypothesis is necessary: with two not-yet-evaluated individuals sharing a uid
   the order of the results decides, and one receives the fitness of the other's graph *)
Theorem C05_duplicate_uids_order_matters_refuted :
  exists o timer pop,
    fst (sequential_evaluate_shuffled (@rev _) o None timer pop) <> fst (sequential_evaluate o None timer pop).
Proof. exists w_objective, (fun _ => false), w_dup_pop. exact (proj1 duplicate_uids_order_matters). Qed.
Print Assumptions C05_duplicate_uids_order_matters_refuted.

(* ---- (4) expired_timer_fallback *)
Theorem C05_expired_timer_fallback : forall o d timer pop,
  NoDup (map uid (to_evaluate pop)) -> (forall k, timer k = true) ->
  fst (evaluate_with_cache o d timer pop) =
  Ok (match to_skip (rev pop) with
      | [] => fallback_spec o (eff_graph d pop) (rev pop)
      | s => s
      end).
Proof. exact expired_timer_fallback. Qed.
Print Assumptions C05_expired_timer_fallback.

(* limit expired from the start, nothing pre-evaluated: exactly one individual comes back - the
   first evaluable one in reversed input order - if one exists, none otherwise *)
Theorem C05_expired_timer_returns_first_evaluable : forall o d timer pop,
  NoDup (map uid (to_evaluate pop)) -> (forall k, timer k = true) -> to_skip pop = [] ->
  (forall i l1 l2, rev pop = l1 ++ i :: l2 ->
     valid (objective_value o (eff_graph d pop i)) = true ->
     (forall j, In j l1 -> valid (objective_value o (eff_graph d pop j)) = false) ->
     fst (evaluate_with_cache o d timer pop) = Ok [evaluated_ind o (eff_graph d pop i) i]) /\
  ((forall i, In i pop -> valid (objective_value o (eff_graph d pop i)) = false) ->
     fst (evaluate_with_cache o d timer pop) = Ok []).
Proof. exact expired_timer_returns_first_evaluable. Qed.
Print Assumptions C05_expired_timer_returns_first_evaluable.

(* more generally: whenever the fan-out yields nothing and nothing was pre-evaluated *)
Theorem C05_fallback_when_main_pass_empty : forall o d timer pop,
  NoDup (map uid (to_evaluate pop)) -> main_pass_empty o d timer pop ->
  fst (evaluate_with_cache o d timer pop) = Ok (fallback_spec o (eff_graph d pop) (rev pop)).
Proof. exact fallback_when_main_pass_empty. Qed.
Print Assumptions C05_fallback_when_main_pass_empty.

(* ---- (5) callback_once: for every interleaving lg' of the workers' events, the callback log is
   a permutation of the graphs that reached the objective (and of the metric-0 call log) *)
Theorem C05_callback_once_parallel : forall o d timer pop lg',
  NoDup (map uid (to_evaluate pop)) ->
  Permutation lg' (snd (evaluate_with_cache o d timer pop)) ->
  Permutation (callback_graphs lg') (reached_par o d timer pop) /\
  (metrics o <> [] -> Permutation (callback_graphs lg') (metric0_graphs lg')).
Proof. exact callback_once_par. Qed.
Print Assumptions C05_callback_once_parallel.

Theorem C05_callback_once_sequential : forall o d timer pop lg',
  NoDup (map uid (to_evaluate pop)) ->
  Permutation lg' (snd (sequential_evaluate o d timer pop)) ->
  Permutation (callback_graphs lg') (map (eff_graph_seq d pop) (not_cut timer (to_evaluate pop))).
Proof. exact callback_once_seq. Qed.
Print Assumptions C05_callback_once_sequential.

(* when the fan-out returned something, the callback saw exactly the graphs of the individuals
   not cut off, and these individuals are pairwise distinct: each evaluated graph once *)
Theorem C05_callback_each_once : forall o d timer pop,
  NoDup (map uid (to_evaluate pop)) -> ~ main_pass_empty o d timer pop ->
  callback_graphs (snd (evaluate_with_cache o d timer pop)) =
    map (eff_graph d pop) (not_cut timer (to_evaluate (rev pop))) /\
  NoDup (map uid (not_cut timer (to_evaluate (rev pop)))).
Proof.
  intros o d timer pop ND Hne. split.
  - exact (no_fallback_callbacks o d timer pop ND Hne).
  - apply not_cut_distinct. apply NoDup_to_evaluate_rev. exact ND.
Qed.
Print Assumptions C05_callback_each_once.

(* full statement NOT provable: "every graph that reaches the objective is seen exactly once".
   The faithful model refutes it: when nothing is evaluable and time is left, the forced
   evaluation re-runs the graphs that already failed in the fan-out *)
Theorem C05_failing_graph_seen_twice_refuted :
  exists o pop, callback_graphs (snd (evaluate_with_cache o None (fun _ => false) pop)) = [7; 7].
Proof.
  exists w_failing, [ {| uid := 0; fitness := Null; gr := 7 |} ].
  rewrite failing_graph_seen_twice. reflexivity.
Qed.
Print Assumptions C05_failing_graph_seen_twice_refuted.

(* ---- (6) delegate_used, both dispatchers: the k-th individual handed to the delegate (reversed
   population for the parallel dispatcher, input order for the sequential one) is evaluated on
   the k-th graph the delegate returned (eval_sound_*: fitness = objective of that graph) *)
Theorem C05_delegate_used : forall f pop k i g,
  NoDup (map uid pop) ->
  nth_error (rev pop) k = Some i ->
  nth_error (f (map gr (rev pop))) k = Some g ->
  eff_graph (Some f) pop i = g.
Proof. exact delegate_used. Qed.
Print Assumptions C05_delegate_used.

Theorem C05_delegate_used_sequential : forall f pop k i g,
  NoDup (map uid pop) ->
  nth_error pop k = Some i ->
  nth_error (f (map gr pop)) k = Some g ->
  eff_graph_seq (Some f) pop i = g.
Proof. exact delegate_used_seq. Qed.
Print Assumptions C05_delegate_used_sequential.

Theorem C05_delegate_silent : forall f pop i,
  ~ In (uid i) (map fst (combine (map uid (rev pop)) (f (map gr (rev pop))))) ->
  eff_graph (Some f) pop i = gr i.
Proof. exact delegate_silent. Qed.
Print Assumptions C05_delegate_silent.

(* ---- one dispatcher object reused (steps: Dispatch, Evaluate, SetDelegate, Aborted): every
   evaluation is a function of the arguments of the last dispatch and of the delegate in force;
   dispatching without a timer removes an earlier (expired) time limit *)
Theorem C05_session_last_dispatch : forall par d st before o t pops,
  run_session par d st (before ++ Dispatch o t :: map Evaluate pops) =
  run_session par d st before ++ map (evaluate_fresh par o (final_delegate d before) (timer_or_forever t)) pops.
Proof. exact session_last_dispatch. Qed.
Print Assumptions C05_session_last_dispatch.

(* a run with an enabled delegate aborted by an escaping exception (its cache is left behind), the
   delegate switched off, the same population evaluated again: the left-over cache is not used *)
Theorem C05_session_stale_cache_unused : forall par f st pop,
  run_session par (Some f) st [Aborted pop; SetDelegate None; Evaluate pop] =
  [evaluate_fresh par (s_objective st) None (s_timer st) pop].
Proof. exact session_stale_cache_unused. Qed.
Print Assumptions C05_session_stale_cache_unused.

Theorem C05_session_timer_reset : forall par d st o1 o2 pop1 pop2,
  run_session par d st [Dispatch o1 (Some (fun _ => true)); Evaluate pop1; Dispatch o2 None; Evaluate pop2] =
  [evaluate_fresh par o1 d (fun _ => true) pop1; evaluate_fresh par o2 d forever_timer pop2].
Proof. exact session_timer_reset. Qed.
Print Assumptions C05_session_timer_reset.

(* several dispatcher objects used alternately (possibly built over one shared adapter, which keeps
   no state): what dispatcher j answers is what it answers in its own session, whatever the others do *)
Theorem C05_dispatchers_independent : forall par steps cfg j,
  map snd (filter (fun ja => Nat.eqb (fst ja) j) (run_multi par cfg steps)) =
  run_session (par j) (fst (cfg j)) (snd (cfg j)) (map snd (filter (fun js => Nat.eqb (fst js) j) steps)).
Proof. exact multi_independent. Qed.
Print Assumptions C05_dispatchers_independent.

(* ---- the oracle's boolean predicates decide the propositions used above *)
Theorem C05_in_scope_reflects : forall c,
  in_scope c = true <->
  NoDup (map uid (to_evaluate (c_pop c))) /\
  forall i, In i (to_evaluate (c_pop c)) -> ~ In (uid i) (map uid (to_skip (c_pop c))).
Proof. exact in_scope_iff. Qed.
Print Assumptions C05_in_scope_reflects.

Theorem C05_perm_b_reflects : forall l1 l2 : list nat, perm_b Nat.eqb l1 l2 = true <-> Permutation l1 l2.
Proof. exact (perm_b_iff nat Nat.eqb Nat.eqb_eq). Qed.
Print Assumptions C05_perm_b_reflects.

Theorem C05_fit_eqb_reflects : forall f g, fit_eqb f g = true <-> f = g.
Proof. exact fit_eqb_eq. Qed.
Print Assumptions C05_fit_eqb_reflects.

Theorem C05_same_assignment_reflects : forall a b,
  same_assignment_b a b = true <->
  (forall x, In x a -> exists y, In y b /\ uid x = uid y /\ fitness x = fitness y) /\
  (forall y, In y b -> exists x, In x a /\ uid x = uid y /\ fitness x = fitness y).
Proof. exact same_assignment_b_iff. Qed.
Print Assumptions C05_same_assignment_reflects.

(* the clauses of the executable property (holds_b = conjunction of these inside the quantifier)
   decide the propositions they stand for *)
Theorem C05_clause_sound_reflects : forall c ob,
  clause_sound c ob = true <->
  forall x, In x (o_out ob) ->
    valid (fitness x) = true /\
    (In x (preevaluated c) \/
     exists i, In i (unevaluated c) /\ uid i = uid x /\
               fitness x = spec_fit (case_objective c) (geff_of ob i)).
Proof. exact clause_sound_iff. Qed.
Print Assumptions C05_clause_sound_reflects.

Theorem C05_clause_passthrough_reflects : forall c ob,
  clause_passthrough c ob = true <-> forall i, In i (preevaluated c) -> In i (o_out ob).
Proof. exact clause_passthrough_iff. Qed.
Print Assumptions C05_clause_passthrough_reflects.

Theorem C05_clause_no_reevaluation_reflects : forall c ob,
  clause_no_reevaluation c ob = true <->
  forall g, In g (metric_graphs (o_log ob)) -> exists i, In i (unevaluated c) /\ geff_of ob i = g.
Proof. exact clause_no_reevaluation_iff. Qed.
Print Assumptions C05_clause_no_reevaluation_reflects.

Theorem C05_clause_left_out_reflects : forall c ob,
  clause_left_out c ob = true <->
  forall i, In i (unevaluated c) -> valid (spec_fit (case_objective c) (geff_of ob i)) = false ->
            ~ exists x, In x (o_out ob) /\ uid x = uid i.
Proof. exact clause_left_out_iff. Qed.
Print Assumptions C05_clause_left_out_reflects.

Theorem C05_clause_callback_reflects : forall ob,
  clause_callback ob = true <-> Permutation (callback_graphs (o_log ob)) (metric0_graphs (o_log ob)).
Proof. exact clause_callback_iff. Qed.
Print Assumptions C05_clause_callback_reflects.

(* ---- the executable property is a theorem of the model: for every case inside the quantifier
   (distinct uids among the not-yet-evaluated, shared with no pre-evaluated one), with at least one
   metric, the oracle holds_b accepts what the model does - for both dispatchers, every objective
   table, time-limit pattern and delegate.  labels_ok says that looking the delegate's answer up by
   graph label (as the oracle does) finds the graph computed for the individual; it holds without
   delegate and whenever labels and uids are pairwise distinct. *)
Theorem C05_oracle_accepts_model : forall c,
  in_scope c = true -> c_nmetrics c <> 0 -> labels_ok c -> holds_b c (model_observed c) = true.
Proof. exact oracle_accepts_model. Qed.
Print Assumptions C05_oracle_accepts_model.

Theorem C05_labels_ok_sufficient : forall c,
  c_delegate c = None \/ (NoDup (map gr (c_pop c)) /\ NoDup (map uid (c_pop c))) ->
  labels_ok c.
Proof. exact labels_ok_sufficient. Qed.
Print Assumptions C05_labels_ok_sufficient.

(* ---- non-vacuity: the hypotheses are met by a non-trivial state, and the conclusions are
   non-trivial there.  Population (input order): a not-yet-evaluated individual whose graph is
   fine, one whose metric raises, a pre-evaluated individual given twice, one returning NaN, one
   that is fine but cut off by the time limit; a delegate that renames graph g at position p to
   100 + 20*p + g. *)
Definition ex_pre : ind := {| uid := 2; fitness := FSingle [1 # 2]; gr := 2 |}.
Definition ex_pop : list ind :=
  [ {| uid := 0; fitness := Null; gr := 0 |}; {| uid := 1; fitness := Null; gr := 1 |}; ex_pre; ex_pre;
    {| uid := 4; fitness := Null; gr := 4 |}; {| uid := 5; fitness := Null; gr := 5 |} ].
Definition ex_delegate : delegate := Some (delegate_of_spec {| d_add := 100; d_mul := 20; d_drop := 0 |}).
(* reversed population: 5 4 2 2 1 0 -> delegate labels 105 124 142 162 181 200 *)
Definition ex_objective : objective :=
  objective_of_table [ (105, [MVal 3; MVal 1]); (124, [MVal 1; MNaN]); (181, [MRaise; MVal 1]);
                       (200, [MVal (3 # 4); MVal 2]) ] 2 true.
Definition ex_timer : nat -> bool := fun k => Nat.eqb k 0.   (* the first call is cut off *)

Example hypotheses_satisfiable :
  NoDup (map uid (to_evaluate ex_pop)) /\ ~ main_pass_empty ex_objective ex_delegate ex_timer ex_pop /\
  fst (evaluate_with_cache ex_objective ex_delegate ex_timer ex_pop)
  = Ok [ {| uid := 0; fitness := FMulti [3 # 4; 2%Q]; gr := 200 |}; ex_pre; ex_pre ] /\
  callback_graphs (snd (evaluate_with_cache ex_objective ex_delegate ex_timer ex_pop)) = [124; 181; 200].
Proof.
  split; [|split; [|split]].
  - vm_compute. repeat constructor; simpl; intuition discriminate.
  - unfold main_pass_empty. vm_compute. discriminate.
  - vm_compute. reflexivity.
  - vm_compute. reflexivity.
Qed.

(* expired from the start, nothing pre-evaluated: the first evaluable individual in reversed order
   (uid 5) is forced, after the forced evaluation of nobody else *)
Example expired_example :
  let pop := [ {| uid := 0; fitness := Null; gr := 0 |}; {| uid := 1; fitness := Null; gr := 1 |};
               {| uid := 5; fitness := Null; gr := 5 |}; {| uid := 4; fitness := Null; gr := 4 |} ] in
  let o := objective_of_table [ (0, [MVal 1]); (1, [MNone]); (5, [MVal 2]); (4, [MRaise]) ] 1 false in
  main_pass_empty o None (fun _ => true) pop /\
  evaluate_with_cache o None (fun _ => true) pop
  = (Ok [ {| uid := 5; fitness := FSingle [2%Q]; gr := 5 |} ],
     [EvMetric 0 4; EvCallback 4; EvMetric 0 5; EvCallback 5]) /\
  fst (sequential_evaluate o None (fun _ => true) pop) = Ok [].
Proof. unfold main_pass_empty. vm_compute. repeat split. Qed.

(* a case with an enabled delegate that satisfies the hypotheses of C05_oracle_accepts_model *)
Example oracle_hypotheses_satisfiable :
  let c := {| c_par := true; c_ordered := true;
              c_pop := [ {| uid := 0; fitness := Null; gr := 0 |}; {| uid := 1; fitness := Null; gr := 1 |};
                         {| uid := 2; fitness := FSingle [1 # 2]; gr := 2 |};
                         {| uid := 3; fitness := Null; gr := 3 |} ];
              c_tbl := [ (103, [MVal 1]); (122, [MVal 5]); (141, [MNaN]); (160, [MVal (3 # 4)]) ];
              c_nmetrics := 1; c_multi := false; c_timer := [true]; c_timer_rest := false;
              c_delegate := Some {| d_add := 100; d_mul := 20; d_drop := 0 |} |} in
  in_scope c = true /\ c_nmetrics c <> 0 /\
  (NoDup (map gr (c_pop c)) /\ NoDup (map uid (c_pop c))) /\
  o_out (model_observed c) = [ {| uid := 0; fitness := FSingle [3 # 4]; gr := 160 |};
                               {| uid := 2; fitness := FSingle [1 # 2]; gr := 2 |} ] /\
  holds_b c (model_observed c) = true.
Proof.
  cbv zeta. split; [vm_compute; reflexivity|]. split; [simpl; discriminate|]. split; [|split; vm_compute; reflexivity].
  split; vm_compute; repeat constructor; simpl; intuition discriminate.
Qed.

(* the sequential dispatcher with the same enabled delegate: the population is handed over in
   input order (labels 100 121 142 162 184 205), the first call is cut off, the rest evaluated *)
Example sequential_delegate_example :
  let o := objective_of_table [ (121, [MVal 1; MRaise]); (184, [MVal 2; MVal 3]); (205, [MVal 5; MVal 7]) ] 2 true in
  NoDup (map uid (to_evaluate ex_pop)) /\
  eff_graph_seq ex_delegate ex_pop {| uid := 5; fitness := Null; gr := 5 |} = 205 /\
  sequential_evaluate o ex_delegate ex_timer ex_pop
  = (Ok [ {| uid := 4; fitness := FMulti [2%Q; 3%Q]; gr := 184 |};
          {| uid := 5; fitness := FMulti [5%Q; 7%Q]; gr := 205 |}; ex_pre; ex_pre ],
     [EvMetric 0 121; EvMetric 1 121; EvCallback 121; EvMetric 0 184; EvMetric 1 184; EvCallback 184;
      EvMetric 0 205; EvMetric 1 205; EvCallback 205]).
Proof.
  cbv zeta. split; [|split].
  - vm_compute. repeat constructor; simpl; intuition discriminate.
  - vm_compute. reflexivity.
  - vm_compute. reflexivity.
Qed.
