(* C06 - Every optimisation run leaves a well-formed history.
   Statements only.  Model: Evo/History.v; proofs: Evo/HistoryProofs.v.
   The archive-snapshot clause (one snapshot per generation, members seen in that or an
   earlier generation) is a theorem about the optimiser loop and lives in Properties/C01.v
   (C01_snapshots) because it needs the archive model of C08. *)
From Coq Require Import List Bool Arith.
From GolemV Require Import Evo.History Evo.HistoryProofs.
Import ListNotations.

(* generations are numbered consecutively from zero, whatever is recorded *)
Theorem C06_generations_consecutive : forall calls,
  map g_num (gens (run_history calls)) = seq 0 (length calls).
Proof. exact run_history_nums. Qed.
Print Assumptions C06_generations_consecutive.

(* labels and ordered members are recorded as given: the first recorded population keeps the
   label of the first call (initial assumptions) and the last that of the last call (final choices) *)
Theorem C06_labels_members_recorded : forall calls,
  map (fun g => (g_label g, g_members g)) (gens (run_history calls)) = calls.
Proof. exact run_history_calls. Qed.
Print Assumptions C06_labels_members_recorded.

(* the native generation of an individual is the first generation that contains it ... *)
Theorem C06_native_generation_first : forall calls r,
  ng_lookup (ngs (run_history calls)) r = first_occ r 0 (map snd calls).
Proof. exact native_generation_first. Qed.
Print Assumptions C06_native_generation_first.

(* ... hence every member of generation k has a native generation no later than k ... *)
Theorem C06_member_native_le : forall calls k c r,
  nth_error calls k = Some c -> mem r (snd c) = true ->
  exists n, ng_lookup (ngs (run_history calls)) r = Some n /\ n <= k.
Proof. exact member_native_le. Qed.
Print Assumptions C06_member_native_le.

(* ... and an individual carrying native generation n really is a member of generation n *)
Theorem C06_native_is_member : forall calls r n,
  ng_lookup (ngs (run_history calls)) r = Some n ->
  exists c, nth_error calls n = Some c /\ mem r (snd c) = true.
Proof. exact native_is_member. Qed.
Print Assumptions C06_native_is_member.

(* following parent links terminates: on individuals built in creation order the walker
   parents_from_prev_generation never exhausts its iteration guard (r + 1 iterations suffice),
   and it stops on an empty frontier or on individuals that all have a native generation *)
Theorem C06_lineage_walk_terminates : forall h m r fuel,
  wf_heap h -> r < fuel ->
  exists l, parents_from_prev_generation h m fuel r = Some l /\ (l = [] \/ forallb (has_ng m) l = true).
Proof.
  intros h m r fuel W L. destruct (parents_from_prev_generation_total h m r fuel W L) as [l E].
  exists l. split; [exact E|]. exact (walk_result _ _ _ _ _ E).
Qed.
Print Assumptions C06_lineage_walk_terminates.

(* what the walker returns: the first ancestor level (parents, grandparents, ...) that is empty
   or consists only of individuals with a native generation - and conversely that level is what
   it returns, given enough iterations *)
Theorem C06_walker_returns_first_stopping_level : forall h m fuel r l,
  parents_from_prev_generation h m fuel r = Some l ->
  exists k, l = level h k (parents_of h r) /\ stops m l = true /\
            forall j, j < k -> stops m (level h j (parents_of h r)) = false.
Proof. intros h m fuel r l. exact (walk_is_first_stopping_level h m fuel (parents_of h r) l). Qed.
Print Assumptions C06_walker_returns_first_stopping_level.

Theorem C06_first_stopping_level_is_returned : forall h m k r fuel,
  k < fuel -> stops m (level h k (parents_of h r)) = true ->
  (forall j, j < k -> stops m (level h j (parents_of h r)) = false) ->
  parents_from_prev_generation h m fuel r = Some (level h k (parents_of h r)).
Proof. intros h m k r fuel. exact (level_walk h m k (parents_of h r) fuel). Qed.
Print Assumptions C06_first_stopping_level_is_returned.

(* lineage meets only individuals of the same or earlier generations, given how the loop creates
   and records individuals: (a) parents exist when the child is created, (b) an individual is
   recorded no earlier than its creation step, (c) a parent that is ever recorded is recorded by
   the step that creates its child *)
Theorem C06_lineage_same_or_earlier : forall (h : heap) (created : nat -> nat) (recorded : nat -> option nat),
  (forall r p, In p (parents_of h r) -> created p <= created r) ->
  (forall r n, recorded r = Some n -> created r <= n) ->
  (forall r p n, In p (parents_of h r) -> recorded p = Some n -> n <= created r) ->
  forall r a n m, ancestor h r a -> recorded r = Some n -> recorded a = Some m -> m <= n.
Proof. exact lineage_same_or_earlier. Qed.
Print Assumptions C06_lineage_same_or_earlier.

(* the executable ancestor enumeration used by the oracle only returns real ancestors *)
Theorem C06_ancestors_sound : forall h fuel frontier a,
  In a (ancestors h fuel frontier) -> In a frontier \/ exists r, In r frontier /\ ancestor h r a.
Proof. exact ancestors_sound. Qed.
Print Assumptions C06_ancestors_sound.

(* non-vacuity: a three-generation history with a shared individual and an intermediate parent *)
Example history_example :
  let calls := [(LInitial, [0; 1]); (LNone, [1; 3]); (LFinal, [3])] in
  let s := run_history calls in
  map g_num (gens s) = [0; 1; 2] /\ ng_lookup (ngs s) 1 = Some 0 /\ ng_lookup (ngs s) 3 = Some 1 /\
  ng_lookup (ngs s) 2 = None.
Proof. vm_compute. repeat split. Qed.

Example lineage_example :
  let h := [ {| h_valid := true; h_verified := true; h_op := None; h_parents := [] |};
             {| h_valid := true; h_verified := true; h_op := None; h_parents := [] |};
             {| h_valid := false; h_verified := true; h_op := Some OCrossover; h_parents := [0; 1] |};
             {| h_valid := true; h_verified := true; h_op := Some OMutation; h_parents := [2] |} ] in
  wf_heap_b h = true /\
  parents_from_prev_generation h [(0, 0); (1, 0); (3, 1)] 4 3 = Some [0; 1].
Proof. vm_compute. repeat split. Qed.
