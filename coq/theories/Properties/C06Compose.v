(* C06 (composition layer) - the per-individual clauses of "every optimisation run leaves a
   well-formed history", derived for EVERY number of generations from the operators' contracts.
   Statements only.  Model: Evo/Compose.v (the loop body of PopulationalOptimizer / EvoGraphOptimizer
   as it is written, producing the add_to_history calls that Evo/History.run_history consumes);
   proofs: Evo/ComposeProofs.v.

   Two levels.
   (A) generic: the loop over ANY operators that satisfy `loop_contracts` (the contracts in the form
       proved by C16 / C05 / C02 / C08).
   (B) closed for the evolutionary optimiser: inheritance, elitism, the reproduction attempt loop and
       the archives are the model functions of Evo/Inheritance.v, Evo/Elitism.v, Evo/Reproduction.v,
       Archive/Hof.v, Archive/Pareto.v (via Evo/Loop.arch_upd); their contracts are DISCHARGED by
       C16_inheritance_contract, C16_elitism_contract, C16_reproduce_contract and by archive lemmas
       proved in ComposeProofs.v for every comparison.  What remains universally quantified with a
       contract (`oracle_contracts`): the evaluator (C05), one reproduction attempt = selection +
       variation + evaluation (C16 selection / C02 / C05), the initial extension, regularization, the
       structural-diversity de-duplication and refill, the stop condition (no contract). *)
From Coq Require Import List Bool Arith QArith.
From GolemV Require Import Fitness.Fitness Evo.History Evo.Compose Evo.ComposeProofs.
From GolemV Require Evo.SelectionProofs Evo.Selection Evo.Elitism Evo.Inheritance Evo.Reproduction Evo.ReproductionProofs Archive.Hof.
Import ListNotations.
Local Open Scope nat_scope.

(* ---------------------------------------------------------------------------------------------- *)
(* (A) the generic loop                                                                             *)
(* ---------------------------------------------------------------------------------------------- *)
Definition loop_contracts (C A X : Type) (cvalid cverified : C -> bool) (a_items : A -> list nat) (a_empty : A)
    (a_inv : list C -> A -> Prop)
    (evaluate : nat -> nat -> list C -> list nat -> list nat)
    (arch_update : list C -> list (label * list nat) -> A -> list nat -> A)
    (init_cells : list C)
    (extend : list C -> list nat -> nat -> list C * list nat)
    (regularize : nat -> list C -> list nat -> list C * list nat)
    (reproduce : nat -> list C -> X -> list nat -> option (list C * list nat) * X)
    (inherit elitism : nat -> list C -> list nat -> list nat -> list nat)
    (div_unique : nat -> list C -> list nat -> list nat)
    (div_refill : nat -> list C -> list nat -> nat -> list C) : Prop :=
  let good := good C cvalid cverified in
  let ver := ver C cverified in
  (* initial graphs are filtered by the verifier *)
  (forall c, In c init_cells -> cverified c = true) /\
  (* C05: the evaluator returns input individuals, each once, all with a valid fitness *)
  (forall k j h l, incl (evaluate k j h l) l /\ (NoDup l -> NoDup (evaluate k j h l)) /\
                   forall u, In u (evaluate k j h l) -> flag cvalid h u = true) /\
  (* _extend_population: accepted newcomers are new, distinct, verified *)
  (forall h ids n cells acc, extend h ids n = (cells, acc) ->
     incl acc (fresh_ids C h cells) /\ NoDup acc /\ ver (h ++ cells) acc) /\
  (* regularization: members of the population or new verified sub-graphs *)
  (forall k h pop c1 sel, regularize k h pop = (c1, sel) ->
     forall u, In u sel -> In u pop \/ (In u (fresh_ids C h c1) /\ flag cverified (h ++ c1) u = true)) /\
  (* C16 reproduce: distinct evaluated individuals, each a member of its input or new and verified (C02) *)
  (forall k h x sel c2 new x', reproduce k h x sel = (Some (c2, new), x') ->
     NoDup new /\ forall u, In u new -> flag cvalid (h ++ c2) u = true /\
       (In u sel \/ (In u (fresh_ids C h c2) /\ flag cverified (h ++ c2) u = true))) /\
  (* C16 inheritance *)
  (forall k h prev new, incl (inherit k h prev new) (prev ++ new)) /\
  (forall k h prev new, NoDup prev -> NoDup new -> NoDup (inherit k h prev new)) /\
  (* C16 elitism *)
  (forall k h best new, incl (elitism k h best new) (best ++ new)) /\
  (forall k h best new, NoDup best -> NoDup new -> NoDup (elitism k h best new)) /\
  (* structural diversity: one individual per descriptive_id, refill with copies of members' graphs *)
  (forall k h l, incl (div_unique k h l) l /\ NoDup (div_unique k h l)) /\
  (forall k h l n, ver h l -> forall c, In c (div_refill k h l n) -> cverified c = true) /\
  (* C08: archive members were shown to it, no individual twice *)
  (a_items a_empty = [] /\ forall h, a_inv h a_empty) /\
  (forall h c a, a_inv h a -> a_inv (h ++ c) a) /\
  (forall h calls a pop, a_inv h a -> good h pop ->
     incl (a_items (arch_update h calls a pop)) (a_items a ++ pop) /\
     (NoDup (a_items a) -> NoDup (a_items (arch_update h calls a pop))) /\
     a_inv h (arch_update h calls a pop)).

(* every recorded generation is repeat-free and every recorded member has a valid fitness and a
   verified graph - for every fuel (= every number of passes of the loop) and every stop condition *)
Theorem C06c_loop_members :
  forall C A X cvalid cverified a_items a_empty a_inv evaluate arch_update init_cells init_size extend regularize
         reproduce inherit elitism div_freq div_min div_unique div_refill stop,
  loop_contracts C A X cvalid cverified a_items a_empty a_inv evaluate arch_update init_cells extend regularize
                 reproduce inherit elitism div_unique div_refill ->
  forall fuel x0,
  let r := optimise C A X a_items a_empty evaluate arch_update init_cells init_size extend regularize reproduce
                    inherit elitism div_freq div_min div_unique div_refill stop fuel x0 in
  forall c, In c (cs_calls r) ->
    NoDup (snd c) /\ forall u, In u (snd c) -> flag cvalid (cs_heap r) u = true /\ flag cverified (cs_heap r) u = true.
Proof.
  intros until stop. intros (H1 & H2 & H3 & H4 & H5 & H6 & H7 & H8 & H9 & H10 & H11 & H12 & H13 & H14) fuel x0.
  exact (optimise_members C A X cvalid cverified a_items a_empty a_inv evaluate arch_update init_cells init_size
           extend regularize reproduce inherit elitism div_freq div_min div_unique div_refill stop
           H1 H2 H3 H4 H5 H6 H7 H8 H9 H10 H11 H12 H13 H14 fuel x0).
Qed.
Print Assumptions C06c_loop_members.

(* one archive snapshot per recorded generation; snapshot i is repeat-free and only holds members
   of generations 0..i *)
Theorem C06c_loop_snapshots :
  forall C A X cvalid cverified a_items a_empty a_inv evaluate arch_update init_cells init_size extend regularize
         reproduce inherit elitism div_freq div_min div_unique div_refill stop,
  loop_contracts C A X cvalid cverified a_items a_empty a_inv evaluate arch_update init_cells extend regularize
                 reproduce inherit elitism div_unique div_refill ->
  forall fuel x0,
  let r := optimise C A X a_items a_empty evaluate arch_update init_cells init_size extend regularize reproduce
                    inherit elitism div_freq div_min div_unique div_refill stop fuel x0 in
  length (cs_snaps r) = length (cs_calls r) /\
  forall i sn, nth_error (cs_snaps r) i = Some sn ->
    NoDup sn /\ incl sn (concat (map snd (firstn (S i) (cs_calls r)))).
Proof.
  intros until stop. intros (H1 & H2 & H3 & H4 & H5 & H6 & H7 & H8 & H9 & H10 & H11 & H12 & H13 & H14) fuel x0.
  exact (optimise_snapshots C A X cvalid cverified a_items a_empty a_inv evaluate arch_update init_cells init_size
           extend regularize reproduce inherit elitism div_freq div_min div_unique div_refill stop
           H1 H2 H3 H4 H5 H6 H7 H8 H9 H10 H11 H12 H13 H14 fuel x0).
Qed.
Print Assumptions C06c_loop_snapshots.

(* the labels handed to add_to_history: initial assumptions, the extended ones exactly when the
   initial population is smaller than pop_size, n <= fuel unlabelled generations, final choices *)
Theorem C06c_loop_labels :
  forall C A X cvalid cverified a_items a_empty a_inv evaluate arch_update init_cells init_size extend regularize
         reproduce inherit elitism div_freq div_min div_unique div_refill stop,
  loop_contracts C A X cvalid cverified a_items a_empty a_inv evaluate arch_update init_cells extend regularize
                 reproduce inherit elitism div_unique div_refill ->
  forall fuel x0,
  exists n, n <= fuel /\
    map fst (cs_calls (optimise C A X a_items a_empty evaluate arch_update init_cells init_size extend regularize
                                reproduce inherit elitism div_freq div_min div_unique div_refill stop fuel x0)) =
    LInitial :: (if length init_cells <? init_size then [LExtended] else []) ++ repeat LNone n ++ [LFinal].
Proof.
  intros until stop. intros (H1 & H2 & H3 & H4 & H5 & H6 & H7 & H8 & H9 & H10 & H11 & H12 & H13 & H14) fuel x0.
  exact (optimise_labels C A X cvalid cverified a_items a_empty a_inv evaluate arch_update init_cells init_size
           extend regularize reproduce inherit elitism div_freq div_min div_unique div_refill stop
           H1 H2 H3 H4 H5 H6 H7 H8 H9 H10 H11 H12 H13 H14 fuel x0).
Qed.
Print Assumptions C06c_loop_labels.

(* ---------------------------------------------------------------------------------------------- *)
(* (B) closed for the evolutionary optimiser                                                        *)
(* ---------------------------------------------------------------------------------------------- *)
(* the operator contracts discharged by the operator models, for every configuration, heap, step *)
Theorem C06c_inheritance_discharged : forall steps k h prev new,
  incl (c_inherit steps k h prev new) (prev ++ new) /\
  (NoDup prev -> NoDup new -> NoDup (c_inherit steps k h prev new)).
Proof. intros. split; [apply c_inherit_incl|apply c_inherit_nodup]. Qed.
Print Assumptions C06c_inheritance_discharged.

Theorem C06c_elitism_discharged : forall steps k h best new,
  incl (c_elitism steps k h best new) (best ++ new) /\
  (NoDup best -> NoDup new -> NoDup (c_elitism steps k h best new)).
Proof. intros. split; [apply c_elitism_incl|apply c_elitism_nodup]. Qed.
Print Assumptions C06c_elitism_discharged.

(* hall of fame and Pareto front, with NO hypothesis on the fitness values beyond "members of the
   population shown have a valid fitness" (which the loop guarantees) *)
Theorem C06c_archive_discharged : forall multi keep h calls a pop,
  c_ainv h a -> good ccell cc_valid cc_verified h pop ->
  incl (c_a_items (c_arch_update multi keep h calls a pop)) (c_a_items a ++ pop) /\
  (NoDup (c_a_items a) -> NoDup (c_a_items (c_arch_update multi keep h calls a pop))) /\
  c_ainv h (c_arch_update multi keep h calls a pop).
Proof. exact c_arch_contract. Qed.
Print Assumptions C06c_archive_discharged.

(* the reproduction attempt loop (Evo/Reproduction.v), given the contract of ONE attempt *)
Theorem C06c_reproduction_discharged : forall steps rep_cells rep_partial,
  (forall k, ReproductionProofs.ratio_ok (es_rparams (steps k))) ->
  (forall k h sel i s u, In u (rep_partial k h sel i s) ->
     flag cc_valid (h ++ rep_cells k h sel) u = true /\
     (In u sel \/ (In u (fresh_ids ccell h (rep_cells k h sel)) /\ flag cc_verified (h ++ rep_cells k h sel) u = true))) ->
  forall k h x sel c2 new x',
  c_reproduce steps rep_cells rep_partial k h x sel = (Some (c2, new), x') ->
  NoDup new /\
  forall u, In u new -> flag cc_valid (h ++ c2) u = true /\
                        (In u sel \/ (In u (fresh_ids ccell h c2) /\ flag cc_verified (h ++ c2) u = true)).
Proof. exact c_reproduce_contract. Qed.
Print Assumptions C06c_reproduction_discharged.

(* what stays an oracle with a contract in the closed theorems *)
Definition oracle_contracts (steps : nat -> evo_step)
    (rep_cells : nat -> list ccell -> list nat -> list ccell)
    (rep_partial : nat -> list ccell -> list nat -> nat -> nat -> list nat)
    (evaluate : nat -> nat -> list ccell -> list nat -> list nat)
    (init_cells : list ccell)
    (extend : list ccell -> list nat -> nat -> list ccell * list nat)
    (regularize : nat -> list ccell -> list nat -> list ccell * list nat)
    (div_unique : nat -> list ccell -> list nat -> list nat)
    (div_refill : nat -> list ccell -> list nat -> nat -> list ccell) : Prop :=
  let ver := ver ccell cc_verified in
  (* 0 <= required_valid_ratio <= 1 *)
  (forall k, ReproductionProofs.ratio_ok (es_rparams (steps k))) /\
  (* one reproduction attempt (selection -> crossover -> mutation -> evaluator): only individuals
     with a valid fitness, each a member of the population given or a new verified one *)
  (forall k h sel i s u, In u (rep_partial k h sel i s) ->
     flag cc_valid (h ++ rep_cells k h sel) u = true /\
     (In u sel \/ (In u (fresh_ids ccell h (rep_cells k h sel)) /\ flag cc_verified (h ++ rep_cells k h sel) u = true))) /\
  (forall c, In c init_cells -> cc_verified c = true) /\
  (forall k j h l, incl (evaluate k j h l) l /\ (NoDup l -> NoDup (evaluate k j h l)) /\
                   forall u, In u (evaluate k j h l) -> flag cc_valid h u = true) /\
  (forall h ids n cells acc, extend h ids n = (cells, acc) ->
     incl acc (fresh_ids ccell h cells) /\ NoDup acc /\ ver (h ++ cells) acc) /\
  (forall k h pop c1 sel, regularize k h pop = (c1, sel) ->
     forall u, In u sel -> In u pop \/ (In u (fresh_ids ccell h c1) /\ flag cc_verified (h ++ c1) u = true)) /\
  (forall k h l, incl (div_unique k h l) l /\ NoDup (div_unique k h l)) /\
  (forall k h l n, ver h l -> forall c, In c (div_refill k h l n) -> cc_verified c = true).

(* THE closed statement: whatever the configuration (objective kind, keep_n_best, per-step scheme /
   selection / sizes / elitism parameters / random choices), whatever the oracles within their
   contracts, whatever the stop condition and however many passes of the loop: the history model
   of C06 run on the add_to_history calls of the composed loop has generations numbered from zero,
   the first labelled initial assumptions and the last final choices, one archive snapshot per
   generation, and every member of every generation occurs once, has a valid fitness, a verified
   graph and a native generation no later than the generation *)
Theorem C06c_evo_history :
  forall multi keep steps rep_cells rep_partial evaluate init_cells init_size extend regularize
         div_freq div_min div_unique div_refill stop,
  oracle_contracts steps rep_cells rep_partial evaluate init_cells extend regularize div_unique div_refill ->
  forall fuel w0,
  let r := evo_optimise multi keep steps rep_cells rep_partial evaluate init_cells init_size extend regularize
                        div_freq div_min div_unique div_refill stop fuel w0 in
  let hs := run_history (cs_calls r) in
  map g_num (gens hs) = seq 0 (length (cs_calls r)) /\
  (exists g0 rest, gens hs = g0 :: rest /\ g_label g0 = LInitial) /\
  (exists front gl, gens hs = front ++ [gl] /\ g_label gl = LFinal) /\
  length (cs_snaps r) = length (gens hs) /\
  forall g, In g (gens hs) ->
    NoDup (g_members g) /\
    forall u, In u (g_members g) ->
      flag cc_valid (cs_heap r) u = true /\ flag cc_verified (cs_heap r) u = true /\
      exists n, ng_lookup (ngs hs) u = Some n /\ n <= g_num g.
Proof.
  intros until stop. intros (R & P & H1 & H2 & H3 & H4 & H5 & H6) fuel w0.
  exact (evo_history multi keep steps rep_cells rep_partial R P evaluate init_cells init_size extend regularize
           div_freq div_min div_unique div_refill stop H1 H2 H3 H4 H5 H6 fuel w0).
Qed.
Print Assumptions C06c_evo_history.

(* each archive snapshot is repeat-free and its members occur in that or an earlier generation *)
Theorem C06c_evo_snapshots :
  forall multi keep steps rep_cells rep_partial evaluate init_cells init_size extend regularize
         div_freq div_min div_unique div_refill stop,
  oracle_contracts steps rep_cells rep_partial evaluate init_cells extend regularize div_unique div_refill ->
  forall fuel w0,
  let r := evo_optimise multi keep steps rep_cells rep_partial evaluate init_cells init_size extend regularize
                        div_freq div_min div_unique div_refill stop fuel w0 in
  length (cs_snaps r) = length (cs_calls r) /\
  forall i sn, nth_error (cs_snaps r) i = Some sn ->
    NoDup sn /\ incl sn (concat (map snd (firstn (S i) (cs_calls r)))).
Proof.
  intros until stop. intros (R & P & H1 & H2 & H3 & H4 & H5 & H6) fuel w0.
  exact (evo_snapshots multi keep steps rep_cells rep_partial R P evaluate init_cells init_size extend regularize
           div_freq div_min div_unique div_refill stop H1 H2 H3 H4 H5 H6 fuel w0).
Qed.
Print Assumptions C06c_evo_snapshots.

Theorem C06c_evo_labels :
  forall multi keep steps rep_cells rep_partial evaluate init_cells init_size extend regularize
         div_freq div_min div_unique div_refill stop,
  oracle_contracts steps rep_cells rep_partial evaluate init_cells extend regularize div_unique div_refill ->
  forall fuel w0,
  exists n, n <= fuel /\
    map fst (cs_calls (evo_optimise multi keep steps rep_cells rep_partial evaluate init_cells init_size extend
                                    regularize div_freq div_min div_unique div_refill stop fuel w0)) =
    LInitial :: (if length init_cells <? init_size then [LExtended] else []) ++ repeat LNone n ++ [LFinal].
Proof.
  intros until stop. intros (R & P & H1 & H2 & H3 & H4 & H5 & H6) fuel w0.
  exact (evo_labels multi keep steps rep_cells rep_partial R P evaluate init_cells init_size extend regularize
           div_freq div_min div_unique div_refill stop H1 H2 H3 H4 H5 H6 fuel w0).
Qed.
Print Assumptions C06c_evo_labels.

(* lineage: every object-creating oracle names existing objects as parents (ParentOperator is built
   from existing Individuals; initial individuals have no parents) *)
Definition lineage_contracts (rep_cells : nat -> list ccell -> list nat -> list ccell)
    (init_cells : list ccell)
    (extend : list ccell -> list nat -> nat -> list ccell * list nat)
    (regularize : nat -> list ccell -> list nat -> list ccell * list nat)
    (div_refill : nat -> list ccell -> list nat -> nat -> list ccell) : Prop :=
  (forall c, In c init_cells -> cc_parents c = []) /\
  (forall h ids n cells acc, extend h ids n = (cells, acc) -> cells_wf ccell cc_parents h cells) /\
  (forall k h pop c1 sel, regularize k h pop = (c1, sel) -> cells_wf ccell cc_parents h c1) /\
  (forall k h sel, cells_wf ccell cc_parents h (rep_cells k h sel)) /\
  (forall k h l n, cells_wf ccell cc_parents h (div_refill k h l n)).

(* following parent links from any individual of the composed run terminates: the heap is
   well-founded, so the lineage walker never exhausts its guard (C06_lineage_walk_terminates) *)
Theorem C06c_evo_lineage_terminates :
  forall multi keep steps rep_cells rep_partial evaluate init_cells init_size extend regularize
         div_freq div_min div_unique div_refill stop,
  lineage_contracts rep_cells init_cells extend regularize div_refill ->
  forall fuel w0,
  let h := map to_hind (cs_heap (evo_optimise multi keep steps rep_cells rep_partial evaluate init_cells init_size
                                              extend regularize div_freq div_min div_unique div_refill stop fuel w0)) in
  HistoryProofs.wf_heap h /\
  forall m u guard, u < guard ->
    exists l, parents_from_prev_generation h m guard u = Some l /\ (l = [] \/ forallb (has_ng m) l = true).
Proof.
  intros until stop. intros (W1 & W2 & W3 & W4 & W5) fuel w0 h.
  assert (W : HistoryProofs.wf_heap h).
  { exact (evo_lineage_wf multi keep steps rep_cells rep_partial evaluate init_cells init_size extend regularize
             div_freq div_min div_unique div_refill stop W1 W2 W3 W4 W5 fuel w0). }
  split; [exact W|]. intros m u guard L.
  destruct (HistoryProofs.parents_from_prev_generation_total h m u guard W L) as [l E].
  exists l. split; [exact E|]. exact (HistoryProofs.walk_result _ _ _ _ _ E).
Qed.
Print Assumptions C06c_evo_lineage_terminates.

(* PopulationalRandomMutationOptimizer is the same loop with inheritance and elitism replaced by
   "take the offspring as they are": the identity meets both contracts, so (A) covers it *)
Theorem C06c_identity_meets_contracts : forall (prev new : list nat),
  incl new (prev ++ new) /\ (NoDup prev -> NoDup new -> NoDup new).
Proof. intros. split; [apply incl_appr, incl_refl|auto]. Qed.
Print Assumptions C06c_identity_meets_contracts.

(* ---------------------------------------------------------------------------------------------- *)
(* (C) the relation evaluated on every transition of every real run                                 *)
(* ---------------------------------------------------------------------------------------------- *)
(* what `step_admits` asks of the seen members of a generation is what the model does: the
   population a pass of the loop body hands to _update_population consists of members of the
   previous population, archive members and objects created during this pass *)
Theorem C06c_loop_step_drawn :
  forall C A X cvalid cverified a_items a_empty a_inv evaluate arch_update init_cells extend regularize
         reproduce inherit elitism div_freq div_min div_unique div_refill,
  loop_contracts C A X cvalid cverified a_items a_empty a_inv evaluate arch_update init_cells extend regularize
                 reproduce inherit elitism div_unique div_refill ->
  forall k s s' newpop,
  evolve C A X a_items evaluate regularize reproduce inherit elitism div_freq div_min div_unique div_refill k s
    = Some (s', newpop) ->
  forall u, In u newpop -> In u (cs_pop s) \/ In u (a_items (cs_arch s)) \/ length (cs_heap s) <= u.
Proof.
  intros until div_refill. intros (H1 & H2 & H3 & H4 & H5 & H6 & H7 & H8 & H9 & H10 & H11 & H12 & H13 & H14).
  exact (evolve_drawn C A X cvalid cverified a_items evaluate regularize reproduce inherit elitism div_freq div_min
           div_unique div_refill H2 H4 H5 H6 H8 H10).
Qed.
Print Assumptions C06c_loop_step_drawn.

(* ... and the archive head is in it when keep_n_best elitism applies and something was inherited *)
Theorem C06c_evo_elite_kept : forall steps k h b best new,
  Elitism.applies (es_eparams (steps k)) = true -> Elitism.e_type (es_eparams (steps k)) = Elitism.KeepNBest ->
  1 <= length new -> In b (c_elitism steps k h (b :: best) new).
Proof. exact c_elitism_head. Qed.
Print Assumptions C06c_evo_elite_kept.

(* an admitted transition satisfies the per-individual clauses of C06 for the generation it records
   and the archive clause for the snapshot recorded with it *)
Theorem C06c_step_admits_sound : forall o, step_admits o = true ->
  NoDup (os_next o) /\
  (forall u, In u (os_next o) -> hflag h_valid (os_heap o) u = true /\ hflag h_verified (os_heap o) u = true) /\
  NoDup (os_arch_next o) /\ incl (os_arch_next o) (os_arch_prev o ++ os_next o).
Proof. exact step_admits_sound. Qed.
Print Assumptions C06c_step_admits_sound.

(* ---------------------------------------------------------------------------------------------- *)
(* non-vacuity: concrete oracles that satisfy the contracts, and a concrete run                     *)
(* ---------------------------------------------------------------------------------------------- *)
Definition mkc (v : Q) (op : option opkind) (ps : list nat) : ccell :=
  {| cc_fit := Single (Some v) []; cc_gclass := 0; cc_verified := true; cc_op := op; cc_parents := ps |}.
Definition failed (op : option opkind) (ps : list nat) : ccell :=        (* evaluation fails: invalid fitness *)
  {| cc_fit := Single None []; cc_gclass := 0; cc_verified := true; cc_op := op; cc_parents := ps |}.

Definition ex_step : evo_step :=
  {| es_scheme := Inheritance.SteadyState; es_sel := Selection.Tournament;
     es_sel_oracle := Selection.Build_sel_oracle [[1; 0]; [0; 1]; [2; 0]] (fun i => i) [0];
     es_pop_size := 3;
     es_eparams := Elitism.Build_eparams Elitism.KeepNBest false 5 5;
     es_shuffle := [1; 0];
     es_rparams := Reproduction.Build_rparams 3 (3 # 4)%Q 5 5;
     es_under := fun _ _ => false |}.
Definition ex_steps (k : nat) : evo_step := ex_step.
Definition ex_eval (k j : nat) (h : list ccell) (l : list nat) : list nat := filter (flag cc_valid h) l.
Definition ex_init : list ccell := [mkc 3 None []; mkc 2 None []].
(* two mutants of the initial individuals are accepted; the evaluation of the second one fails *)
Definition ex_extend (h : list ccell) (ids : list nat) (n : nat) : list ccell * list nat :=
  let cells := [mkc 5 (Some OMutation) [hd 0 ids]; failed (Some OMutation) [hd 0 (tl ids)]] in
  (cells, fresh_ids ccell h cells).
Definition ex_regularize (k : nat) (h : list ccell) (pop : list nat) : list ccell * list nat := ([], pop).
(* per reproduce call: a crossover child (never evaluated), its mutant, a mutant whose evaluation fails *)
Definition ex_rep_cells (k : nat) (h : list ccell) (sel : list nat) : list ccell :=
  [failed (Some OCrossover) (firstn 2 sel); mkc (1 # Pos.of_nat (S k)) (Some OMutation) [length h];
   failed (Some OMutation) [hd 0 sel]].
Definition ex_rep_partial (k : nat) (h : list ccell) (sel : list nat) (i s : nat) : list nat :=
  let h' := h ++ ex_rep_cells k h sel in
  filter (flag cc_valid h') (firstn 2 sel ++ fresh_ids ccell h (ex_rep_cells k h sel)).
Definition ex_uniq (k : nat) (h : list ccell) (l : list nat) : list nat := nodup Nat.eq_dec l.
Definition ex_refill (k : nat) (h : list ccell) (l : list nat) (n : nat) : list ccell := repeat (mkc 9 None []) n.

Example ex_contracts_satisfiable :
  oracle_contracts ex_steps ex_rep_cells ex_rep_partial ex_eval ex_init ex_extend ex_regularize ex_uniq ex_refill.
Proof.
  unfold oracle_contracts. split; [|split; [|split; [|split; [|split; [|split; [|split]]]]]].
  - intros k. split; vm_compute; discriminate.
  - intros k h sel i s u H. unfold ex_rep_partial in H. apply filter_In in H as [H V]. split; [exact V|].
    apply in_app_or in H as [H|H].
    + left. eapply SelectionProofs.firstn_incl. exact H.
    + right. split; [exact H|]. apply (flag_fresh ccell cc_verified); [|exact H].
      intros x [<-|[<-|[<-|[]]]]; reflexivity.
  - intros c [<-|[<-|[]]]; reflexivity.
  - intros k j h l. unfold ex_eval. split; [|split].
    + intros u Hu. apply filter_In in Hu. apply Hu.
    + apply NoDup_filter.
    + intros u Hu. apply filter_In in Hu. apply Hu.
  - intros h ids n cells acc H. unfold ex_extend in H. injection H as <- <-.
    split; [apply incl_refl|split; [apply seq_NoDup|]]. intros u Hu.
    apply (flag_fresh ccell cc_verified); [|exact Hu]. intros x [<-|[<-|[]]]; reflexivity.
  - intros k h pop c1 sel H u Hu. unfold ex_regularize in H. injection H as <- <-. left. exact Hu.
  - intros k h l. unfold ex_uniq. split; [intros u Hu; apply nodup_In in Hu; exact Hu|apply NoDup_nodup].
  - intros k h l n _ c Hc. unfold ex_refill in Hc. apply repeat_spec in Hc. subst c. reflexivity.
Qed.

(* a run: initial assumptions (2), extended (a mutant accepted, one failed), three evolved
   generations (pass-through parents, fresh offspring with an unrecorded crossover intermediate,
   failed offspring dropped, elitism bringing the archive head back), final choices *)
Definition ex_run :=
  evo_optimise false 1 ex_steps ex_rep_cells ex_rep_partial ex_eval ex_init 3 ex_extend ex_regularize
               0 5 ex_uniq ex_refill (fun k _ => 3 <=? k) 10 [1%Q; 1%Q; 1%Q].

Example ex_run_history :
  cs_calls ex_run = [(LInitial, [0; 1]); (LExtended, [0; 1; 2]); (LNone, [1; 5; 0]); (LNone, [5; 8; 1]);
                     (LNone, [8; 11; 5]); (LFinal, [11])] /\
  cs_snaps ex_run = [[1]; [1]; [5]; [8]; [11]; [11]] /\
  length (cs_heap ex_run) = 13 /\
  map g_num (gens (run_history (cs_calls ex_run))) = [0; 1; 2; 3; 4; 5] /\
  ng_lookup (ngs (run_history (cs_calls ex_run))) 8 = Some 3 /\
  (* the crossover intermediate 7 was never recorded; 8 descends from the previous generation through it *)
  ng_lookup (ngs (run_history (cs_calls ex_run))) 7 = None /\
  parents_from_prev_generation (map to_hind (cs_heap ex_run)) (ngs (run_history (cs_calls ex_run))) 20 8 = Some [1; 5].
Proof. vm_compute. repeat split. Qed.

(* the relation evaluated on real runs accepts the steps of this run and rejects broken ones *)
Definition ex_ostep (kind : step_kind) (seen prev aprev next anext : list nat) (mx : nat) : ostep :=
  {| os_kind := kind; os_heap := map to_hind (cs_heap ex_run); os_seen := seen; os_prev := prev;
     os_arch_prev := aprev; os_next := next; os_arch_next := anext; os_max := mx;
     os_must := match kind with KEvolve => firstn 1 aprev | _ => [] end |}.

Example ex_step_admits :
  step_admits (ex_ostep KInitial [] [] [] [0; 1] [1] 3) = true /\
  step_admits (ex_ostep KExtended [0; 1] [0; 1] [1] [0; 1; 2] [1] 3) = true /\
  step_admits (ex_ostep KEvolve [0; 1; 2] [0; 1; 2] [1] [1; 5; 0] [5] 3) = true /\
  step_admits (ex_ostep KEvolve [0; 1; 2; 5] [1; 5; 0] [5] [5; 8; 1] [8] 3) = true /\
  step_admits (ex_ostep KEvolve [0; 1; 2; 5; 8] [5; 8; 1] [8] [8; 11; 5] [11] 3) = true /\
  step_admits (ex_ostep KFinal [0; 1; 2; 5; 8; 11] [8; 11; 5] [11] [11] [11] 3) = true /\
  (* a member twice *)
  step_admits (ex_ostep KEvolve [0; 1; 2] [0; 1; 2] [1] [1; 1; 5] [5] 3) = false /\
  (* a member whose evaluation failed (3) *)
  step_admits (ex_ostep KEvolve [0; 1; 2] [0; 1; 2] [1] [1; 3; 5] [5] 3) = false /\
  (* a member recorded earlier that is neither in the previous population nor archived (2) *)
  step_admits (ex_ostep KEvolve [0; 1; 2; 5; 8] [5; 8; 1] [8] [8; 11; 2] [11] 3) = false /\
  (* offspring of an individual that is not in the previous population (8 descends from 1 and 5) *)
  step_admits (ex_ostep KEvolve [0; 1; 2; 5] [0; 5] [5] [5; 8] [8] 3) = false /\
  (* archive snapshot not updated with the recorded population *)
  step_admits (ex_ostep KInitial [] [] [] [0; 1] [] 3) = false /\
  (* more members than the step allows *)
  step_admits (ex_ostep KEvolve [0; 1; 2] [0; 1; 2] [1] [1; 5; 0] [5] 2) = false /\
  (* keep_n_best elitism applies but the archive head (5) is not in the next generation *)
  step_admits (ex_ostep KEvolve [0; 1; 2; 5] [1; 5; 0] [5] [8; 1; 0] [8] 3) = false.
Proof. vm_compute. repeat split. Qed.

(* the heap of the example run is well-founded (parents created before children), and the whole run
   is admitted transition by transition *)
Example ex_run_wf_and_admitted :
  wf_heap_b (map to_hind (cs_heap ex_run)) = true /\
  run_admits (map to_hind (cs_heap ex_run))
    [ {| ot_kind := KInitial; ot_seen := []; ot_prev := []; ot_arch_prev := []; ot_next := [0; 1]; ot_arch_next := [1]; ot_max := 3; ot_must := [] |};
      {| ot_kind := KExtended; ot_seen := [0; 1]; ot_prev := [0; 1]; ot_arch_prev := [1]; ot_next := [0; 1; 2]; ot_arch_next := [1]; ot_max := 3; ot_must := [] |};
      {| ot_kind := KEvolve; ot_seen := [0; 1; 2]; ot_prev := [0; 1; 2]; ot_arch_prev := [1]; ot_next := [1; 5; 0]; ot_arch_next := [5]; ot_max := 3; ot_must := [] |};
      {| ot_kind := KEvolve; ot_seen := [0; 1; 2; 5]; ot_prev := [1; 5; 0]; ot_arch_prev := [5]; ot_next := [5; 8; 1]; ot_arch_next := [8]; ot_max := 3; ot_must := [] |};
      {| ot_kind := KEvolve; ot_seen := [0; 1; 2; 5; 8]; ot_prev := [5; 8; 1]; ot_arch_prev := [8]; ot_next := [8; 11; 5]; ot_arch_next := [11]; ot_max := 3; ot_must := [] |};
      {| ot_kind := KFinal; ot_seen := [0; 1; 2; 5; 8; 11]; ot_prev := [8; 11; 5]; ot_arch_prev := [11]; ot_next := [11]; ot_arch_next := [11]; ot_max := 3; ot_must := [] |} ] = true.
Proof. vm_compute. split; reflexivity. Qed.
