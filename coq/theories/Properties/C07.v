(* C07 - Evaluation and persistence faults do not derail or silently cut short a run.
   Statements only.  Model: Evo/Faults.v; proofs: Evo/FaultsProofs.v.  (The attempt loop of
   ReproductionController.reproduce is modelled here on uids with an exact-rational success-rate
   window; property C16 carries the float-exact model of the requested sizes.) *)
From Coq Require Import List Bool Arith QArith.
From GolemV Require Import Evo.Faults Evo.FaultsProofs.
Import ListNotations.
Local Open Scope nat_scope.

(* ---- 1. metric faults ------------------------------------------------------------------- *)

(* In EVERY run - any objective oracle (exception / None / NaN / even an escaping BaseException,
   per evaluation index and individual), any behaviour of the other oracles, any context managers,
   however the run ends - each individual in the population, the archive, a generation, an
   archive snapshot or the result has Value as the outcome of its last evaluation. *)
Theorem C07_no_failed_individual_recorded : forall obj cms s x,
  let r := optimise cms obj s in
  (In x (recorded (snd r)) \/ exists l, fst r = Ok l /\ In x l) ->
  last_outcome (evlog (ev (snd r))) x = Some Value.
Proof. exact recorded_evaluated. Qed.
Print Assumptions C07_no_failed_individual_recorded.

(* For every pattern of metric failures (exception, None, NaN) with one evaluable initial graph,
   when the remaining oracles behave (operators hand each fresh individual to the evaluator once,
   nothing else raises, the archive keeps something of what it is shown - `keeper_ok`, the C08
   guarantee, monitored by the model): optimise returns normally, the result is not empty and
   nothing whose evaluation failed is recorded.  File-system answers are unconstrained. *)
Theorem C07_faults_tolerated : forall obj cms s,
  metric_faults_only obj -> calm s = true -> initial_evaluable obj s ->
  keeper_ok (snd (optimise cms obj s)) = true ->
  exists l, fst (optimise cms obj s) = Ok l /\ l <> [] /\
            forall x, In x (recorded (snd (optimise cms obj s))) \/ In x l ->
                      last_outcome (evlog (ev (snd (optimise cms obj s)))) x = Some Value.
Proof. intros obj cms s H. exact (faults_tolerated obj H cms s). Qed.
Print Assumptions C07_faults_tolerated.

(* ---- 2. persistence faults -------------------------------------------------------------- *)

(* save_current_results as it is now never raises, whatever makedirs / the dump answer ... *)
Theorem C07_save_never_raises : forall io, fst (save_current_results true io) = Ok tt.
Proof. exact save_in_try_never_raises. Qed.
Print Assumptions C07_save_never_raises.

(* ... and the whole run is independent of the file system: replacing every file-system answer
   (directory creation and dump, generation by generation) changes neither the outcome nor the
   result, populations, generations, snapshots or evaluations - only what reached the disk. *)
Theorem C07_io_faults_ignored : forall obj io cms s,
  fst (optimise cms obj s) = fst (optimise cms obj (set_dumps io s)) /\
  forget_dumped (snd (optimise cms obj s)) = forget_dumped (snd (optimise cms obj (set_dumps io s))).
Proof. exact io_faults_ignored. Qed.
Print Assumptions C07_io_faults_ignored.

(* sensitivity: with os.makedirs before the try (the code before 556274f) a directory that
   cannot be created makes the call raise *)
Theorem C07_makedirs_outside_try_refuted : exists io, fst (save_current_results false io) = Raise EOs.
Proof. exists (MkFail, false). reflexivity. Qed.
Print Assumptions C07_makedirs_outside_try_refuted.

(* ---- 3. too few offspring --------------------------------------------------------------- *)

Theorem C07_too_few_offspring_stops : forall obj st pre a rest st1 off es,
  run_loop obj st pre = (Ok StopHeld, st1) ->
  e_res a = EAttemptsErr ->
  run_batches obj (ev st1) (e_batches a) [] = (Ok off, es) ->
  run_loop obj st (pre ++ a :: rest) = (Ok TooFew, with_ev st1 es).
Proof. exact too_few_offspring_stops. Qed.
Print Assumptions C07_too_few_offspring_stops.

(* however the with-block ended by itself (stop criterion / too few offspring), optimise does not
   raise: it records the archive as final choices and returns (part of) the best found so far *)
Theorem C07_ended_returns_archive : forall obj cms s reason,
  fst (body obj s) = Ok reason -> upd_calm (s_final_upd s) = true ->
  exists l, fst (optimise cms obj s) = Ok l /\ incl l (arch (snd (body obj s))) /\
            gens (snd (optimise cms obj s)) = gens (snd (body obj s)) ++ [(LFinal, arch (snd (body obj s)))] /\
            ev (snd (optimise cms obj s)) = ev (snd (body obj s)).
Proof. exact ended_returns_archive. Qed.
Print Assumptions C07_ended_returns_archive.

(* ---- 4. errors raised inside the loop --------------------------------------------------- *)

(* both progress-bar settings: every __exit__ of `with self.timer, self._progressbar` is falsy *)
Theorem C07_errors_not_discarded : forall obj show s e,
  fst (body obj s) = Raise e ->
  optimise (cms_of show) obj s = (Raise e, snd (body obj s)).
Proof. intros obj show s e. apply errors_not_discarded, cms_of_falsy. Qed.
Print Assumptions C07_errors_not_discarded.

Theorem C07_returns_only_if_ended : forall obj show s l,
  fst (optimise (cms_of show) obj s) = Ok l ->
  exists reason, fst (body obj s) = Ok reason.
Proof. intros obj show s l. apply returns_only_if_ended, cms_of_falsy. Qed.
Print Assumptions C07_returns_only_if_ended.

(* an error of the evolve step is what the with-block raises *)
Theorem C07_evolve_error_raised : forall obj st pre a rest st1 off es e,
  run_loop obj st pre = (Ok StopHeld, st1) ->
  e_res a = ERaise e ->
  run_batches obj (ev st1) (e_batches a) [] = (Ok off, es) ->
  run_loop obj st (pre ++ a :: rest) = (Raise e, with_ev st1 es).
Proof. exact evolve_error_raised. Qed.
Print Assumptions C07_evolve_error_raised.

(* sensitivity: ONE truthy __exit__ anywhere in the statement discards the error ... *)
Theorem C07_truthy_exit_discards : forall obj cms s e c,
  In c cms -> exit_truthy c = true -> fst (body obj s) = Raise e -> upd_calm (s_final_upd s) = true ->
  exists l, fst (optimise cms obj s) = Ok l.
Proof. exact truthy_exit_discards. Qed.
Print Assumptions C07_truthy_exit_discards.

Definition ex_upd (ix : list nat) : upd := {| u_arch := ix; u_io := None; u_cb := None |}.
Definition ex_raising : script :=
  {| s_initial := {| b_inds := [0; 1]; b_surrogate := false |};
     s_init_upd := {| u_arch := [0]; u_io := None; u_cb := Some (EInj 1) |};
     s_extend := None; s_steps := []; s_final_upd := ex_upd [0] |}.

(* ... e.g. EmptyProgressBar.__exit__ returning True (before e3422a5): the callback's error is
   lost and the run "finishes" with the initial archive *)
Theorem C07_swallow_refuted :
  fst (body (fun _ _ => Value) ex_raising) = Raise (EInj 1) /\
  fst (optimise [OptTimer; SwallowBar] (fun _ _ => Value) ex_raising) = Ok [0] /\
  fst (optimise (cms_of false) (fun _ _ => Value) ex_raising) = Raise (EInj 1).
Proof. vm_compute. repeat split. Qed.
Print Assumptions C07_swallow_refuted.

(* the base class Timer: __exit__ returns process_terminated.  It guards only the tuners'
   `with self.timer:` with Timer() (no timeout), where it is always falsy; a Timer whose time
   limit was reached would suppress the error *)
Theorem C07_base_timer : forall reached,
  exit_truthy (BaseTimer (base_timer_terminated false reached)) = false /\
  with_ctx [BaseTimer (base_timer_terminated true true)] (@Raise unit (EInj 0)) = WSwallowed.
Proof. intros reached. split; reflexivity. Qed.
Print Assumptions C07_base_timer.

(* __exit__ methods run innermost first *)
Theorem C07_exit_innermost_first : forall (c : cm) cms e,
  exists rest, exit_calls (cms ++ [c]) (@Raise unit e) = (c, Some e) :: rest.
Proof. intros c cms e. apply exit_calls_innermost_first. Qed.
Print Assumptions C07_exit_innermost_first.

(* ---- 5. the attempt loop of reproduce ---------------------------------------------------- *)

(* for every behaviour of selection / crossover / mutation / evaluator (the `part` oracle), every
   population length and success-rate window: reproduce either signals the dedicated error or
   returns at most pop_size distinct individuals, at least half the required fraction of pop_size,
   all of them let through by the evaluator *)
Theorem C07_reproduce_bounds : forall p pop_len part w,
  ratio_ok p ->
  match fst (reproduce p pop_len part w) with
  | RetOk l => NoDup l /\ length l <= r_target p /\ enough_min p (length l) = true /\
               forall x, In x l -> exists i s, In x (part i s)
  | RaiseAttempts => True
  end.
Proof. intros p pop_len part w R. exact (reproduce_bounds p pop_len part R w). Qed.
Print Assumptions C07_reproduce_bounds.

Theorem C07_attempts_error_only_when_too_few : forall p pop_len part w ss,
  reproduce p pop_len part w = (RaiseAttempts, ss) ->
  length ss = r_attempts p /\ enough_min p (length (collect_all part 0 ss [])) = false.
Proof. intros p pop_len part. exact (attempts_error_only_when_too_few p pop_len part). Qed.
Print Assumptions C07_attempts_error_only_when_too_few.

(* the loop sees the dedicated error as EAttemptsErr and nothing else of reproduce can raise *)
Theorem C07_reproduce_error_is_the_dedicated_one : forall r assemble,
  (forall e, evolve_of_reproduce r assemble <> ERaise e) /\
  (evolve_of_reproduce r assemble = EAttemptsErr <-> r = RaiseAttempts).
Proof.
  intros r assemble. destruct r; simpl; split; try (intros e; discriminate); split; intros H; try discriminate; reflexivity.
Qed.
Print Assumptions C07_reproduce_error_is_the_dedicated_one.

(* ---- the executable oracle decides the clauses it is named after ------------------------- *)

Theorem C07_oracle_recorded : forall c x,
  holds_b c = true -> In x (observed_recorded c) -> In x (c_succeeded c).
Proof. exact holds_b_recorded. Qed.
Print Assumptions C07_oracle_recorded.

Theorem C07_oracle_error_propagated : forall c e,
  holds_b c = true -> c_fired c = Some e -> c_out c = ORaise e.
Proof. exact holds_b_error_propagated. Qed.
Print Assumptions C07_oracle_error_propagated.

Theorem C07_oracle_returns_nonempty : forall c,
  holds_b c = true -> c_fired c = None -> c_initial_ok c = true -> c_out c = OOk /\ c_result c <> [].
Proof. exact holds_b_returns_nonempty. Qed.
Print Assumptions C07_oracle_returns_nonempty.

(* ---- non-vacuity ------------------------------------------------------------------------ *)

(* three initial graphs, the second raises; the offspring 3 yields NaN, 4 evaluates; the next
   iteration meets the dedicated error; directory creation fails at the first dump and the dump
   of the second generation fails *)
Definition ex_obj : objective := fun i _ => match i with 1 => RaiseExc | 3 => NaNValue | _ => Value end.
Definition ex_script : script :=
  {| s_initial := {| b_inds := [0; 1; 2]; b_surrogate := false |};
     s_init_upd := {| u_arch := [0]; u_io := Some (MkFail, false); u_cb := None |};
     s_extend := None;
     s_steps := [ {| e_batches := [{| b_inds := [3; 4; 0]; b_surrogate := false |}]; e_res := EPop [0; 3];
                     e_label := LNone; e_skip_if_empty := false;
                     e_upd := {| u_arch := [0; 1]; u_io := Some (MkOk, false); u_cb := None |} |};
                  {| e_batches := [{| b_inds := [5]; b_surrogate := false |}]; e_res := EAttemptsErr;
                     e_label := LNone; e_skip_if_empty := false; e_upd := ex_upd [] |} ];
     s_final_upd := {| u_arch := [0; 1]; u_io := Some (MkNotNeeded, true); u_cb := None |} |}.

Example ex_hypotheses :
  calm ex_script = true /\ keeper_ok (snd (optimise (cms_of false) ex_obj ex_script)) = true /\
  nth_error (b_inds (s_initial ex_script)) 0 = Some 0 /\ ex_obj 0 0 = Value.
Proof. vm_compute. repeat split. Qed.

Example ex_run :
  let r := optimise (cms_of true) ex_obj ex_script in
  fst r = Ok [0; 4] /\
  gens (snd r) = [(LInitial, [0; 2]); (LNone, [4; 2]); (LFinal, [0; 4])] /\
  snaps (snd r) = [[0]; [0; 4]; [0; 4]] /\
  evlog (ev (snd r)) = [(0, Value); (1, RaiseExc); (2, Value); (3, NaNValue); (4, Value); (5, Value)] /\
  dumped (snd r) = [2] /\
  fst (body ex_obj ex_script) = Ok TooFew.
Proof. vm_compute. repeat split. Qed.

Example ex_exit_order :
  exit_calls [OptTimer; SwallowBar] (@Raise unit (EInj 7)) = [(SwallowBar, Some (EInj 7)); (OptTimer, None)] /\
  exit_calls (cms_of true) (@Raise unit (EInj 7)) = [(Tqdm, Some (EInj 7)); (OptTimer, Some (EInj 7))].
Proof. vm_compute. split; reflexivity. Qed.

(* required_valid_ratio 0.9, MIN_POP_SIZE 5, 5 attempts: the evaluator lets two individuals
   through once and nothing afterwards -> dedicated error; three per attempt -> a population *)
Definition ex_p : rparams := {| r_target := 6; r_num := 9; r_den := 10; r_min_pop := 5; r_attempts := 5 |}.
Example ex_reproduce :
  fst (reproduce ex_p 6 (fun i _ => if Nat.eqb i 0 then [1; 2] else []) [1%Q; 1%Q]) = RaiseAttempts /\
  fst (reproduce ex_p 6 (fun i _ => [3 * i; 3 * i + 1; 3 * i + 2]) [1%Q; 1%Q]) = RetOk [0; 1; 2; 3; 4; 5] /\
  snd (reproduce ex_p 6 (fun i _ => [3 * i; 3 * i + 1; 3 * i + 2]) [1%Q; 1%Q]) = [6; 5] /\
  ratio_ok ex_p.
Proof. vm_compute. repeat split; auto with arith. Qed.
