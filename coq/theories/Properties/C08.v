(* C08 - Best-so-far archives hold exactly the best of everything they were shown.
   Only statements, closed by `exact` (short glue), each followed by Print Assumptions.
   Models: Archive/Hof.v, Archive/Pareto.v, Archive/Keeper.v (literal: two parallel lists, bisect,
   index arithmetic); proofs: Archive/FitOrder.v, HofProofs.v, ParetoProofs.v, KeeperProofs.v.

   Hypotheses on what is shown to an archive (the property's): `shown_ok seen` = the fitness values
   are valid, of one class, pairwise identical or clearly separated (C09's separation), one fitness
   per uid; `shown_multi seen` = the same for multi-objective fitness values.  All theorems are for
   every sequence `pops` of populations (any length, any population sizes, repeats, empty
   populations), every k >= 1 / every capacity. *)
From Coq Require Import List Bool Arith QArith Sorted.
From GolemV Require Import Fitness.Fitness Fitness.FitnessProofs
  Archive.Hof Archive.Pareto Archive.Keeper
  Archive.FitOrder Archive.HofProofs Archive.ParetoProofs Archive.KeeperProofs.
Import ListNotations.
Local Open Scope nat_scope.

(* ------------------------------------------------------------------------------------ *)
(* single-objective archive (HallOfFame)                                                *)
(* ------------------------------------------------------------------------------------ *)

(* (1) representation invariant after any sequence of updates: keys and items have the same
   length, keys are the reversed fitness values of items, keys ascend (worst first), never more
   than k members, no uid twice *)
Theorem C08_hof_inv : forall k pops,
  1 <= k -> shown_ok (concat pops) ->
  let a := hof_runs k empty_arch pops in
  length (keys a) = length (items a) /\
  keys a = rev (map fitness (items a)) /\
  StronglySorted (fun x y => f_better x y = false) (keys a) /\
  length (items a) <= k /\
  NoDup (map uid (items a)).
Proof. exact hof_inv. Qed.
Print Assumptions C08_hof_inv.

(* (2) the archive holds exactly the k best distinct individuals seen, best first: members were
   shown; there are min(k, number of distinct uids shown) of them; no later member is better
   than an earlier one; nobody shown and not archived is strictly better than a member *)
Theorem C08_hof_k_best : forall k pops,
  1 <= k -> shown_ok (concat pops) ->
  let seen := concat pops in
  let a := hof_runs k empty_arch pops in
  incl (items a) seen /\
  length (items a) = Nat.min k (length (nodup Nat.eq_dec (map uid seen))) /\
  StronglySorted (fun x y => f_better (fitness y) (fitness x) = false) (items a) /\
  (forall s, In s seen -> (forall m, In m (items a) -> uid m <> uid s) ->
             forall m, In m (items a) -> f_better (fitness s) (fitness m) = false).
Proof. exact hof_k_best. Qed.
Print Assumptions C08_hof_k_best.

(* (3) the best archived fitness never gets worse from one update to the next *)
Theorem C08_hof_best_never_worse : forall k pops pop h rest,
  1 <= k -> shown_ok (concat (pops ++ [pop])) ->
  items (hof_runs k empty_arch pops) = h :: rest ->
  exists h' rest', items (hof_runs k empty_arch (pops ++ [pop])) = h' :: rest' /\
                   f_better (fitness h) (fitness h') = false.
Proof. exact hof_best_never_worse. Qed.
Print Assumptions C08_hof_best_never_worse.

(* (1)-(3) at full strength also when individuals whose evaluation FAILED (invalid fitness, C09:
   never better than anything, every valid fitness is better than it) are shown, at any position
   of a population: `shown_okv` = one class, the VALID values pairwise identical or separated, one
   fitness per uid.  Invalid individuals rank last (C08_better_with_invalid), so "the k best" keeps
   a valid individual in preference to any invalid one. *)
Theorem C08_hof_inv_with_invalid : forall k pops,
  1 <= k -> shown_okv (concat pops) ->
  let a := hof_runs k empty_arch pops in
  length (keys a) = length (items a) /\
  keys a = rev (map fitness (items a)) /\
  StronglySorted (fun x y => f_better x y = false) (keys a) /\
  length (items a) <= k /\
  NoDup (map uid (items a)).
Proof. exact hof_inv_v. Qed.
Print Assumptions C08_hof_inv_with_invalid.

Theorem C08_hof_k_best_with_invalid : forall k pops,
  1 <= k -> shown_okv (concat pops) ->
  let seen := concat pops in
  let a := hof_runs k empty_arch pops in
  incl (items a) seen /\
  length (items a) = Nat.min k (length (nodup Nat.eq_dec (map uid seen))) /\
  StronglySorted (fun x y => f_better (fitness y) (fitness x) = false) (items a) /\
  (forall s, In s seen -> (forall m, In m (items a) -> uid m <> uid s) ->
             forall m, In m (items a) -> f_better (fitness s) (fitness m) = false).
Proof. exact hof_k_best_v. Qed.
Print Assumptions C08_hof_k_best_with_invalid.

Theorem C08_hof_best_never_worse_with_invalid : forall k pops pop h rest,
  1 <= k -> shown_okv (concat (pops ++ [pop])) ->
  items (hof_runs k empty_arch pops) = h :: rest ->
  exists h' rest', items (hof_runs k empty_arch (pops ++ [pop])) = h' :: rest' /\
                   f_better (fitness h) (fitness h') = false.
Proof. exact hof_best_never_worse_v. Qed.
Print Assumptions C08_hof_best_never_worse_with_invalid.

Theorem C08_better_with_invalid : forall seen s t,
  shown_okv seen -> In s seen -> In t seen ->
  (valid (fitness s) = false -> f_better (fitness s) (fitness t) = false) /\
  (valid (fitness s) = true -> valid (fitness t) = false -> f_better (fitness s) (fitness t) = true) /\
  (valid (fitness s) = true -> valid (fitness t) = true ->
   f_better (fitness s) (fitness t) = lex_lt_b (vals (fitness s)) (vals (fitness t))).
Proof. exact better_with_invalid. Qed.
Print Assumptions C08_better_with_invalid.

(* what `f_better` (the code's `>` on fitness objects) is on the individuals shown:
   lexicographic minimisation of the value vectors *)
Theorem C08_better_is_lexicographic : forall seen s t,
  shown_ok seen -> In s seen -> In t seen ->
  (f_better (fitness s) (fitness t) = true <-> lex_lt (vals (fitness s)) (vals (fitness t))).
Proof.
  intros seen s t H Hs Ht. rewrite (better_is_lex seen s t H Hs Ht). apply lex_lt_b_iff.
Qed.
Print Assumptions C08_better_is_lexicographic.

(* ------------------------------------------------------------------------------------ *)
(* Pareto archive (ParetoFront), any `similar`, any capacity (0 = unbounded)            *)
(* ------------------------------------------------------------------------------------ *)

(* (4) always: keys mirror items, no member dominates another, members were shown, the capacity
   is respected, keys ascend *)
Theorem C08_pareto_inv : forall sk cap pops,
  shown_multi (concat pops) ->
  let a := pf_runs sk cap empty_arch pops in
  keys a = rev (map fitness (items a)) /\
  (forall x y, In x (items a) -> In y (items a) -> f_dom (fitness x) (fitness y) = false) /\
  incl (items a) (concat pops) /\
  (0 < cap -> length (items a) <= cap) /\
  StronglySorted (fun x y => f_better x y = false) (keys a).
Proof. exact pareto_inv. Qed.
Print Assumptions C08_pareto_inv.

(* (5) while the capacity eviction has never fired, the archived fitness vectors are exactly the
   non-dominated vectors among everything shown: every member was shown and nothing shown
   dominates it; every shown individual that nothing shown dominates has its vector archived *)
Theorem C08_pareto_exact : forall sk cap pops,
  shown_multi (concat pops) ->
  pf_no_evict fitness f_worse f_dom f_eq (sim_of sk) cap empty_arch (concat pops) = true ->
  let seen := concat pops in
  let a := pf_runs sk cap empty_arch pops in
  (forall m, In m (items a) -> In m seen /\ forall s, In s seen -> f_dom (fitness s) (fitness m) = false) /\
  (forall s, In s seen -> (forall s', In s' seen -> f_dom (fitness s') (fitness s) = false) ->
             exists m, In m (items a) /\ f_eq (fitness m) (fitness s) = true).
Proof. exact pareto_exact. Qed.
Print Assumptions C08_pareto_exact.

(* ... in particular for an unbounded front *)
Theorem C08_pareto_exact_unbounded : forall sk pops,
  shown_multi (concat pops) ->
  let seen := concat pops in
  let a := pf_runs sk 0 empty_arch pops in
  (forall m, In m (items a) -> In m seen /\ forall s, In s seen -> f_dom (fitness s) (fitness m) = false) /\
  (forall s, In s seen -> (forall s', In s' seen -> f_dom (fitness s') (fitness s) = false) ->
             exists m, In m (items a) /\ f_eq (fitness m) (fitness s) = true).
Proof. exact pareto_exact_unbounded. Qed.
Print Assumptions C08_pareto_exact_unbounded.

(* ... and for a bounded front as long as no more distinct individuals were shown than it can
   hold (the observable "below capacity" condition the oracle uses) *)
Theorem C08_pareto_exact_below_capacity : forall sk cap pops,
  sim_reflexive sk = true ->
  shown_multi (concat pops) -> uid_injective (concat pops) ->
  length (nodup Nat.eq_dec (map uid (concat pops))) <= cap ->
  let seen := concat pops in
  let a := pf_runs sk cap empty_arch pops in
  (forall m, In m (items a) -> In m seen /\ forall s, In s seen -> f_dom (fitness s) (fitness m) = false) /\
  (forall s, In s seen -> (forall s', In s' seen -> f_dom (fitness s') (fitness s) = false) ->
             exists m, In m (items a) /\ f_eq (fitness m) (fitness s) = true).
Proof. exact pareto_exact_few. Qed.
Print Assumptions C08_pareto_exact_below_capacity.

(* ------------------------------------------------------------------------------------ *)
(* ... for ANY user-supplied similarity function `sim` (ParetoFront(similar = sim),        *)
(* GenerationKeeper(similarity_criteria = sim)): the twin test of the code is              *)
(* `ind.fitness == member.fitness and sim(ind, member)`, so a similarity function can only  *)
(* merge individuals with the SAME fitness vector, and nothing is required of `sim`.       *)
(* The theorems above are the instances sim = sim_of sk.                                   *)
(* ------------------------------------------------------------------------------------ *)
Theorem C08_pareto_inv_any_similarity : forall (sim : indiv -> indiv -> bool) cap pops,
  shown_multi (concat pops) ->
  let a := pf_run fitness f_worse f_dom f_eq sim cap empty_arch pops in
  keys a = rev (map fitness (items a)) /\
  (forall x y, In x (items a) -> In y (items a) -> f_dom (fitness x) (fitness y) = false) /\
  incl (items a) (concat pops) /\
  (0 < cap -> length (items a) <= cap) /\
  StronglySorted (fun x y => f_better x y = false) (keys a).
Proof. exact pareto_inv_sim. Qed.
Print Assumptions C08_pareto_inv_any_similarity.

Theorem C08_pareto_exact_any_similarity : forall (sim : indiv -> indiv -> bool) cap pops,
  shown_multi (concat pops) ->
  (pf_no_evict fitness f_worse f_dom f_eq sim cap empty_arch (concat pops) = true \/
   cap = 0 \/ length (concat pops) <= cap) ->
  let seen := concat pops in
  let a := pf_run fitness f_worse f_dom f_eq sim cap empty_arch pops in
  (forall m, In m (items a) -> In m seen /\ forall s, In s seen -> f_dom (fitness s) (fitness m) = false) /\
  (forall s, In s seen -> (forall s', In s' seen -> f_dom (fitness s') (fitness s) = false) ->
             exists m, In m (items a) /\ f_eq (fitness m) (fitness s) = true).
Proof.
  intros sim cap pops H [Ne|[->|Few]].
  - apply pareto_exact_sim; assumption.
  - apply pareto_exact_unbounded_sim, H.
  - apply pareto_exact_count_sim; assumption.
Qed.
Print Assumptions C08_pareto_exact_any_similarity.

Theorem C08_pareto_best_never_worse_any_similarity : forall (sim : indiv -> indiv -> bool) cap pops pop h rest,
  shown_multi (concat (pops ++ [pop])) ->
  items (pf_run fitness f_worse f_dom f_eq sim cap empty_arch pops) = h :: rest ->
  exists h' rest', items (pf_run fitness f_worse f_dom f_eq sim cap empty_arch (pops ++ [pop])) = h' :: rest' /\
                   f_better (fitness h) (fitness h') = false.
Proof. exact pareto_best_never_worse_sim. Qed.
Print Assumptions C08_pareto_best_never_worse_any_similarity.

(* the (lexicographically) best member of the front never gets worse, whatever the capacity *)
Theorem C08_pareto_best_never_worse : forall sk cap pops pop h rest,
  shown_multi (concat (pops ++ [pop])) ->
  items (pf_runs sk cap empty_arch pops) = h :: rest ->
  exists h' rest', items (pf_runs sk cap empty_arch (pops ++ [pop])) = h' :: rest' /\
                   f_better (fitness h) (fitness h') = false.
Proof. exact pareto_best_never_worse. Qed.
Print Assumptions C08_pareto_best_never_worse.

(* what `f_dom` / `f_eq` (the code's dominates / ==) are on the individuals shown *)
Theorem C08_dominance_is_pareto : forall seen s t,
  shown_multi seen -> In s seen -> In t seen ->
  (f_dom (fitness s) (fitness t) = true <-> pareto (vals (fitness s)) (vals (fitness t))) /\
  f_eq (fitness s) (fitness t) = identical (vals (fitness s)) (vals (fitness t)).
Proof. exact dom_is_pareto. Qed.
Print Assumptions C08_dominance_is_pareto.

(* no comparison performed by the archives raises on separated fitness values *)
Theorem C08_comparisons_do_not_raise : forall u f g,
  SepU u -> In f u -> In g u ->
  gt f g = Ok (f_better f g) /\ eq f g = Ok (f_eq f g) /\
  ((exists vs ws, f = Multi vs ws) -> (exists vs ws, g = Multi vs ws) -> dominates f g = Ok (f_dom f g)).
Proof. exact sep_no_raise. Qed.
Print Assumptions C08_comparisons_do_not_raise.

(* ------------------------------------------------------------------------------------ *)
(* GenerationKeeper                                                                     *)
(* ------------------------------------------------------------------------------------ *)

(* the keeper's archive is the hall of fame / the front (capacity 5 * keep_n_best, similarity
   _individuals_same) run on the same populations, so (1)-(5) speak about best_individuals *)
Theorem C08_keeper_archive : forall k n pops,
  k_arch (keeper_run (keeper_kind false k) n (keeper_init n) pops) = hof_runs k empty_arch pops /\
  k_arch (keeper_run (keeper_kind true k) n (keeper_init n) pops) = pf_runs SimSame (k * 5) empty_arch pops.
Proof. intros k n pops. split; [apply keeper_archive_hof|apply keeper_archive_front]. Qed.
Print Assumptions C08_keeper_archive.

(* (6a) generation counter = number of updates *)
Theorem C08_generation_counts_updates : forall kd n pops,
  k_gen (keeper_run kd n (keeper_init n) pops) = length pops.
Proof. exact generation_counts_updates. Qed.
Print Assumptions C08_generation_counts_updates.

(* (6b) stagnation counter = number of consecutive most recent updates whose is_any_improved
   was false ... *)
Theorem C08_stagnation_counts_trailing : forall kd n pops,
  k_stag (keeper_run kd n (keeper_init n) pops) =
  trailing_false (map any_improved (keeper_trace kd n (keeper_init n) pops)).
Proof. exact stagnation_counts_trailing. Qed.
Print Assumptions C08_stagnation_counts_trailing.

(* ... where trailing_false is the length of the longest suffix of `false` *)
Theorem C08_trailing_false_meaning :
  (forall n, trailing_false (repeat false n) = n) /\
  (forall l n, trailing_false (l ++ true :: repeat false n) = n).
Proof. exact (conj trailing_false_all trailing_false_after_true). Qed.
Print Assumptions C08_trailing_false_meaning.

(* (6c) is_any_improved after an update: for some metric of the objective the worst (maximal)
   archived value strictly decreased, or the archive became non-empty *)
Theorem C08_any_improved_iff : forall kd n st pop,
  any_improved (keeper_append kd n st pop) = true <->
  exists j, j < n /\
    improved (worst_metric j (rows_of (k_arch st)))
             (worst_metric j (rows_of (arch_update kd (k_arch st) pop))) = true.
Proof. exact any_improved_iff. Qed.
Print Assumptions C08_any_improved_iff.

Theorem C08_improved_meaning : forall p c : option Q,
  improved p c = true <->
  (p = None /\ exists v, c = Some v) \/ (exists pv cv, p = Some pv /\ c = Some cv /\ (cv < pv)%Q).
Proof. exact improved_iff. Qed.
Print Assumptions C08_improved_meaning.

Theorem C08_worst_metric_meaning : forall j rows,
  (forall v, worst_metric j rows = Some v ->
     rows <> [] /\ exists col, Forall2 (fun r x => nth_error r j = Some x) rows col /\
                             In v col /\ forall x, In x col -> (x <= v)%Q) /\
  (worst_metric j rows = None <-> rows = [] \/ exists r, In r rows /\ nth_error r j = None).
Proof. intros j rows. split; [intros v; apply worst_metric_is_max|apply worst_metric_none]. Qed.
Print Assumptions C08_worst_metric_meaning.

(* keep_n_best = 1 (the default): the improvement flag is raised exactly when the best individual
   changed (the archive became non-empty, or its only member was replaced by a different vector) *)
Theorem C08_hof_improved_iff_changed : forall n pops pop,
  1 <= n -> shown_ok (concat (pops ++ [pop])) ->
  (forall s, In s (concat (pops ++ [pop])) -> length (vals (fitness s)) = n) ->
  let st := keeper_run (AHof 1) n (keeper_init n) pops in
  let st' := keeper_append (AHof 1) n st pop in
  any_improved st' = true <->
  match items (k_arch st), items (k_arch st') with
  | [], _ :: _ => True
  | h :: _, h' :: _ => identical (vals (fitness h)) (vals (fitness h')) = false
  | _, [] => False
  end.
Proof. exact hof_improved_iff_changed. Qed.
Print Assumptions C08_hof_improved_iff_changed.

(* ------------------------------------------------------------------------------------ *)
(* the oracle evaluated on observed behaviour (Keeper.holds_b) decides what it says      *)
(* ------------------------------------------------------------------------------------ *)
Theorem C08_oracle_sort : forall l,
  Permutation.Permutation (lex_sort l) l /\ best_first (lex_sort l) /\
  (forall v w x, row_better v w = true -> row_better w x = true -> row_better v x = true) /\
  (forall v w, row_better v w = true -> row_better w v = false) /\
  (forall v, row_better [] v = false /\ (v <> [] -> row_better v [] = true)).
Proof.
  intros l. repeat split; try apply lex_sort_perm; try apply lex_sort_sorted.
  - exact row_better_trans.
  - exact row_better_asym.
  - apply row_better_invalid_last.
Qed.
Print Assumptions C08_oracle_sort.

Theorem C08_oracle_nondominated : forall vs v,
  In v (nondominated vs) <-> In v vs /\ forall w, In w vs -> ~ pareto w v.
Proof. exact nondominated_iff. Qed.
Print Assumptions C08_oracle_nondominated.

Theorem C08_oracle_improvement : forall j prev cur,
  Forall (fun r => j < length r) prev -> Forall (fun r => j < length r) cur ->
  metric_improved_b j prev cur = improved (worst_metric j prev) (worst_metric j cur).
Proof. exact metric_improved_b_correct. Qed.
Print Assumptions C08_oracle_improvement.

Theorem C08_oracle_nodup : forall l, nodup_nat l = true <-> NoDup l.
Proof. exact nodup_nat_iff. Qed.
Print Assumptions C08_oracle_nodup.

(* ------------------------------------------------------------------------------------ *)
(* non-vacuity: the hypotheses are met by non-trivial histories                          *)
(* ------------------------------------------------------------------------------------ *)
Definition ex_a := {| uid := 1; fitness := Single (Some 2%Q) []; gclass := 0; ngen := Some 0 |}.
Definition ex_b := {| uid := 2; fitness := Single (Some 1%Q) []; gclass := 0; ngen := Some 0 |}.
Definition ex_c := {| uid := 3; fitness := Single (Some 1%Q) []; gclass := 0; ngen := Some 1 |}.
Definition ex_d := {| uid := 4; fitness := Single (Some 0%Q) []; gclass := 1; ngen := Some 1 |}.
Definition ex_pops := [[ex_a; ex_b]; []; [ex_c; ex_a]; [ex_d]].

Example shown_ok_satisfiable : shown_ok (concat ex_pops).
Proof.
  split.
  - apply sepu_b_correct. vm_compute. reflexivity.
  - intros s t Hs Ht E. simpl in Hs, Ht.
    repeat (destruct Hs as [<-|Hs]; [repeat (destruct Ht as [<-|Ht]; [try reflexivity; discriminate E|]); destruct Ht|]).
    destruct Hs.
Qed.

(* ties (ex_b, ex_c), a repeat (ex_a), an empty population, an eviction: k = 2 keeps d then c *)
Example hof_history_nontrivial :
  map uid (items (hof_runs 2 empty_arch ex_pops)) = [4; 3] /\
  map uid (items (hof_runs 2 empty_arch (firstn 3 ex_pops))) = [3; 2] /\
  map uid (items (hof_runs 1 empty_arch ex_pops)) = [4].
Proof. vm_compute. repeat split. Qed.

Definition mk2 (u : nat) (a b : Q) (g : nat) :=
  {| uid := u; fitness := Multi [a; b] [1%Q; 1%Q]; gclass := g; ngen := Some 0 |}.
Definition ex_front := [[mk2 1 0 2 0; mk2 2 1 1 0]; [mk2 3 2 2 0; mk2 4 2 0 0]; [mk2 5 1 1 1; mk2 6 1 0 0]].

Example shown_multi_satisfiable : shown_multi (concat ex_front).
Proof.
  split.
  - apply sepu_b_correct. vm_compute. reflexivity.
  - intros f Hf. simpl in Hf. repeat (destruct Hf as [<-|Hf]; [eexists; eexists; reflexivity|]). destruct Hf.
Qed.

(* dominated newcomer (3), incomparable newcomer (4), twin vector with another graph (5), a
   newcomer dominating two members (6); unbounded: no eviction; capacity 2: an eviction *)
Example front_history_nontrivial :
  map uid (items (pf_runs SimSame 0 empty_arch ex_front)) = [1; 6] /\
  map uid (items (pf_runs SimSame 0 empty_arch (firstn 2 ex_front))) = [1; 2; 4] /\
  pf_no_evict fitness f_worse f_dom f_eq (sim_of SimSame) 0 empty_arch (concat ex_front) = true /\
  pf_no_evict fitness f_worse f_dom f_eq (sim_of SimSame) 2 empty_arch (concat ex_front) = false /\
  map uid (items (pf_runs SimSame 2 empty_arch (firstn 2 ex_front))) = [1; 2].
Proof. vm_compute. repeat split. Qed.

(* the keeper: improvement on the first update, stagnation afterwards, improvement again *)
Example keeper_history_nontrivial :
  let tr := keeper_trace (keeper_kind false 1) 1 (keeper_init 1) ex_pops in
  map any_improved tr = [true; false; false; true] /\ map k_stag tr = [0; 1; 2; 0] /\ map k_gen tr = [1; 2; 3; 4].
Proof. vm_compute. repeat split. Qed.

Example below_capacity_satisfiable :
  uid_injective (concat ex_front) /\ length (nodup Nat.eq_dec (map uid (concat ex_front))) <= 6.
Proof.
  split; [|vm_compute; repeat constructor].
  intros s t Hs Ht E. simpl in Hs, Ht.
  repeat (destruct Hs as [<-|Hs]; [repeat (destruct Ht as [<-|Ht]; [try reflexivity; discriminate E|]); destruct Ht|]).
  destruct Hs.
Qed.

(* a failed evaluation first in the population shown to an empty hall of fame (the shape of seeded
   change C08-G), a second failed one later: the valid individuals are kept, invalid ones last *)
Definition ex_bad := {| uid := 7; fitness := Single None []; gclass := 0; ngen := Some 0 |}.
Definition ex_bad2 := {| uid := 8; fitness := Single None []; gclass := 0; ngen := Some 1 |}.
Definition ex_pops_invalid := [[ex_bad; ex_b; ex_a]; [ex_bad2; ex_bad]; [ex_d]].

Example shown_okv_satisfiable : shown_okv (concat ex_pops_invalid).
Proof.
  split.
  - intros f g Hf Hg. simpl in Hf, Hg.
    repeat (destruct Hf as [<-|Hf]; [repeat (destruct Hg as [<-|Hg]; [split; [reflexivity|intros; try discriminate; reflexivity]|]); destruct Hg|]).
    destruct Hf.
  - intros s t Hs Ht E. simpl in Hs, Ht.
    repeat (destruct Hs as [<-|Hs]; [repeat (destruct Ht as [<-|Ht]; [try reflexivity; discriminate E|]); destruct Ht|]).
    destruct Hs.
Qed.

Example hof_history_with_invalid :
  map uid (items (hof_runs 1 empty_arch (firstn 1 ex_pops_invalid))) = [2] /\
  map uid (items (hof_runs 3 empty_arch (firstn 2 ex_pops_invalid))) = [2; 1; 7] /\
  map uid (items (hof_runs 4 empty_arch (firstn 2 ex_pops_invalid))) = [2; 1; 7; 8] /\
  map uid (items (hof_runs 3 empty_arch ex_pops_invalid)) = [4; 2; 1].
Proof. vm_compute. repeat split. Qed.

(* the same structure (graph class 0) seen under different, mutually non-dominated vectors and a
   genotype-only similarity function (the shape of seeded change C08-J): all vectors are kept *)
Definition ex_noisy := [[mk2 1 2 9 1; mk2 2 3 4 0]; [mk2 3 3 4 0]; [mk2 4 2 5 0]; [mk2 5 1 7 0; mk2 6 4 1 1]].

Example front_with_genotype_similarity :
  shown_multi (concat ex_noisy) /\
  map uid (items (pf_runs SimGraph 0 empty_arch (firstn 2 ex_noisy))) = [1; 2] /\
  map uid (items (pf_runs SimGraph 0 empty_arch (firstn 3 ex_noisy))) = [4; 2] /\
  map uid (items (pf_runs SimGraph 0 empty_arch ex_noisy)) = [5; 4; 2; 6] /\
  map uid (items (pf_runs SimNever 0 empty_arch (firstn 2 ex_noisy))) = [1; 3; 2].
Proof.
  split.
  - split.
    + apply sepu_b_correct. vm_compute. reflexivity.
    + intros f Hf. simpl in Hf. repeat (destruct Hf as [<-|Hf]; [eexists; eexists; reflexivity|]). destruct Hf.
  - vm_compute. repeat split.
Qed.
