(* C09 - Fitness comparison is a sound better-than ordering.
   Only statements, closed by `exact`, each followed by Print Assumptions.
   Model: Fitness/Fitness.v; proofs: Fitness/FitnessProofs.v. *)
From Coq Require Import List Bool QArith.
From GolemV Require Import Fitness.Fitness Fitness.FitnessProofs.
From GolemV Require Import Fitness.FitnessTol.
Import ListNotations.

(* an invalid fitness is never better than any fitness *)
Theorem C09_invalid_never_better : forall f g, valid f = false -> gt f g = Ok false.
Proof. exact invalid_never_better. Qed.
Print Assumptions C09_invalid_never_better.

(* every valid fitness is better than every invalid one *)
Theorem C09_valid_beats_invalid : forall f g, valid f = true -> valid g = false -> gt f g = Ok true.
Proof. exact valid_beats_invalid. Qed.
Print Assumptions C09_valid_beats_invalid.

(* on valid vectors of equal length (sep_b implies it) whose components are identical or
   clearly separated: == is identity of values and better-than is lexicographic minimisation *)
Theorem C09_sep_eq_identical : forall f g,
  same_class f g = true -> valid f = true -> valid g = true -> sep_b (vals f) (vals g) = true ->
  eq f g = Ok (identical (vals f) (vals g)).
Proof. exact sep_eq. Qed.
Print Assumptions C09_sep_eq_identical.

Theorem C09_sep_gt_lexicographic : forall f g,
  same_class f g = true -> valid f = true -> valid g = true -> sep_b (vals f) (vals g) = true ->
  (gt f g = Ok true <-> lex_lt (vals f) (vals g)).
Proof.
  intros f g Hc Hf Hg Hs. rewrite (sep_gt f g Hc Hf Hg Hs), <- lex_lt_b_iff.
  split; [intros E; injection E; auto|intros ->; reflexivity].
Qed.
Print Assumptions C09_sep_gt_lexicographic.

Theorem C09_gt_irreflexive : forall f, gt f f = Ok false.
Proof. exact gt_irrefl. Qed.
Print Assumptions C09_gt_irreflexive.

Theorem C09_gt_asymmetric : forall f g,
  same_class f g = true -> valid f = true -> valid g = true -> sep_b (vals f) (vals g) = true ->
  gt f g = Ok true -> gt g f = Ok false.
Proof. exact gt_asym. Qed.
Print Assumptions C09_gt_asymmetric.

Theorem C09_gt_transitive : forall f g h,
  same_class f g = true -> same_class g h = true ->
  valid f = true -> valid g = true -> valid h = true ->
  sep_b (vals f) (vals g) = true -> sep_b (vals g) (vals h) = true -> sep_b (vals f) (vals h) = true ->
  gt f g = Ok true -> gt g h = Ok true -> gt f h = Ok true.
Proof. exact gt_trans. Qed.
Print Assumptions C09_gt_transitive.

Theorem C09_gt_total : forall f g,
  same_class f g = true -> valid f = true -> valid g = true -> sep_b (vals f) (vals g) = true ->
  identical (vals f) (vals g) = false -> gt f g = Ok true \/ gt g f = Ok true.
Proof. exact gt_total. Qed.
Print Assumptions C09_gt_total.

(* vectors equal within the tolerance (in both directions) are equal and neither is better *)
Theorem C09_within_tolerance : forall f g,
  same_class f g = true -> valid f = true -> valid g = true ->
  forallb2 close (vals f) (vals g) = true -> forallb2 close (vals g) (vals f) = true ->
  (eq f g = Ok true /\ gt f g = Ok false) /\ (eq g f = Ok true /\ gt g f = Ok false).
Proof.
  intros f g Hc Hf Hg H1 H2. split.
  - exact (within_tolerance f g Hc Hf Hg H1).
  - apply within_tolerance; try assumption. rewrite same_class_sym. exact Hc.
Qed.
Print Assumptions C09_within_tolerance.

(* <=, >, >=, != are consistent with < and == *)
Theorem C09_derived_consistent : forall f g e,
  eq f g = Ok e ->
  le f g = Ok (lt f g || e) /\ gt f g = Ok (negb (lt f g || e)) /\
  ge f g = Ok (negb (lt f g)) /\ ne f g = Ok (negb e).
Proof. exact derived_consistent. Qed.
Print Assumptions C09_derived_consistent.

(* fitness objects holding identical values hash equally *)
Theorem C09_hash_respects_values : forall f g, same_values f g -> hash_key_eqb f g = true.
Proof. exact hash_respects_values. Qed.
Print Assumptions C09_hash_respects_values.

(* Pareto dominance: no worse in every objective and strictly better in at least one *)
Theorem C09_dominates_iff : forall vs ws vs' ws',
  length (wvalues vs ws) = length (wvalues vs' ws') ->
  (dominates (Multi vs ws) (Multi vs' ws') = Ok true <-> pareto (wvalues vs ws) (wvalues vs' ws')).
Proof. exact dominates_iff. Qed.
Print Assumptions C09_dominates_iff.

(* ... which makes it a strict partial order *)
Theorem C09_pareto_strict_partial_order :
  (forall l, ~ pareto l l) /\ (forall l m r, pareto l m -> pareto m r -> pareto l r) /\
  (forall l r, pareto l r -> ~ pareto r l).
Proof. exact (conj pareto_irrefl (conj pareto_trans pareto_asym)). Qed.
Print Assumptions C09_pareto_strict_partial_order.

(* the executable oracle used on observed behaviour decides the same dominance relation *)
Theorem C09_pareto_b_reflects : forall l r, pareto_b l r = true <-> pareto l r.
Proof. exact pareto_b_iff. Qed.
Print Assumptions C09_pareto_b_reflects.

(* the separation hypothesis is necessary: a > b, b > c, yet a == c and not a > c *)
Theorem C09_gt_trans_needs_sep_refuted :
  exists a b c, gt a b = Ok true /\ gt b c = Ok true /\ gt a c = Ok false /\ eq a c = Ok true.
Proof. exists wa, wb, wc. exact gt_trans_needs_sep. Qed.
Print Assumptions C09_gt_trans_needs_sep_refuted.

(* non-vacuity: the hypotheses of the separated-vector theorems are met by concrete fitness
   objects of both classes, and the conclusions are non-trivial there *)
Example sep_hypotheses_satisfiable :
  let f := Single (Some 1) [2] in let g := Single (Some 1) [3] in
  same_class f g = true /\ valid f = true /\ valid g = true /\ sep_b (vals f) (vals g) = true /\
  identical (vals f) (vals g) = false /\ gt f g = Ok true.
Proof. vm_compute. repeat split. Qed.

Example sep_hypotheses_satisfiable_multi :
  let f := Multi [1; 2] [1; -1 # 1] in let g := Multi [1; 1] [1; -1 # 1] in
  same_class f g = true /\ valid f = true /\ valid g = true /\ sep_b (vals f) (vals g) = true /\
  gt f g = Ok true /\ dominates f g = Ok true.
Proof. vm_compute. repeat split. Qed.

Example tolerance_hypotheses_satisfiable :
  let f := Single (Some 1) [] in let g := Single (Some (1 + (1 # 1099511627776))) [] in
  forallb2 close (vals f) (vals g) = true /\ forallb2 close (vals g) (vals f) = true /\
  identical (vals f) (vals g) = false.
Proof. vm_compute. repeat split. Qed.

(* a user subclass may override the tolerance hook: the driver judges such objects with the model and the clauses
   instantiated with the overridden closeness test (Fitness/FitnessTol.v); for the stock test that instance is
   literally the model and the oracle the theorems above are about *)
Theorem C09_stock_tolerance_is_the_instance : forall f g o,
  agree_c close f g o = agree f g o /\ holds_c close f g o = holds_b f g o.
Proof. intros f g o. split; [apply agree_c_stock | apply holds_c_stock]. Qed.
Print Assumptions C09_stock_tolerance_is_the_instance.
