(* C10 - Optimisation histories survive JSON round-trips.
   Only statements, closed by `exact`, each followed by Print Assumptions.
   Model: Serial/HistoryCodec.v; proofs: Serial/HistoryCodecProofs.v. *)
From Coq Require Import String List Bool.
From GolemV Require Import Serial.HistoryCodec Serial.HistoryCodecProofs.
Import ListNotations.

Theorem C10_legacy_paths : forall k v, In (k, v) LEGACY_CLASS_PATHS -> resolves_to_current k = true.
Proof. exact legacy_paths. Qed.
Print Assumptions C10_legacy_paths.
