(* C10 - Optimisation histories survive JSON round-trips.
   Only statements, closed by `exact` (short glue), each followed by Print Assumptions.
   Model: Serial/HistoryCodec.v; proofs: Serial/HistoryCodecProofs.v.

   The recursion of the Python coders is modelled with an explicit depth budget: [None] = the
   call raises (RecursionError; AttributeError when the encoder meets a uid string where it needs
   an object).  The round-trip theorems hold for EVERY budget for which the calls return;
   [C10_decode_total] / [C10_encode_total] say when they do. *)
From Coq Require Import String List Bool Arith.
From GolemV Require Import Serial.HistoryCodec Serial.HistoryCodecProofs.
Import ListNotations.

(* The guard: one object per uid among everything reachable from the generations and the archive
   ([uid_faithful]) and no uid string in a parent slot ([no_str]).  No condition on where the
   parents or archive members are recorded: the pool holds everything reachable.

   1. loading what was saved gives an isomorphic history: same objective, tuning result and
   directory, generation numbers / labels / metadata / ordered members, archive snapshots, and
   for every individual of the whole lineage (intermediate ancestors included) uid, fitness,
   graph, metadata, native generation, parent operator (type, operators, uid, ordered parents),
   with the same sharing of objects; and the loaded history has one object per uid *)
Theorem C10_decode_encode_iso : forall H d d' E H',
  uid_faithful H -> no_str H ->
  encode_history d H = Some E -> decode_history d' E = Some H' ->
  iso H H' /\ uid_faithful H'.
Proof. exact decode_encode_iso. Qed.
Print Assumptions C10_decode_encode_iso.

(* 2. saving the loaded history reproduces the same JSON tree *)
Theorem C10_encode_idempotent : forall H d d' E H',
  uid_faithful H -> no_str H ->
  encode_history d H = Some E -> decode_history d' E = Some H' ->
  encode_history d H' = Some E.
Proof. exact encode_idempotent. Qed.
Print Assumptions C10_encode_idempotent.

(* the encoder cannot tell isomorphic histories apart (any histories, no guard) *)
Theorem C10_encode_respects_iso : forall H H' d, iso H H' -> encode_history d H = encode_history d H'.
Proof. exact encode_respects_iso. Qed.
Print Assumptions C10_encode_respects_iso.

(* continuation: a loaded history that is continued through add_to_history / add_to_archive_history
   (new cells appended to the heap; new generations / snapshots; references to loaded objects, i.e. to
   objects reachable in H, or to the new cells) is isomorphic to, and is saved exactly like, the
   original history continued in the same way - the encoder reads nothing but the generations, the
   archive and the objects reachable from them, there is no stored pool it could reuse *)
Theorem C10_continuation : forall H d d' E H' G,
  uid_faithful H -> no_str H ->
  encode_history d H = Some E -> decode_history d' E = Some H' ->
  (forall r, reach H r -> r < length (h_heap H)) ->
  (forall r, In r (ext_refs G) -> (r < length (h_heap H) /\ reach H r) \/
                                  (length (h_heap H) <= r < length (h_heap H) + length (x_cells G))) ->
  exists f, (forall i, i < length (x_cells G) -> f (length (h_heap H) + i) = length (h_heap H') + i) /\
            iso (extend H G) (extend H' (ren_ext f G)) /\
            forall d2, encode_history d2 (extend H G) = encode_history d2 (extend H' (ren_ext f G)).
Proof. exact continuation_encode. Qed.
Print Assumptions C10_continuation.

(* the JSON of such a history mentions only uids of its pool, each once, so loading creates no
   MISSING_INDIVIDUAL placeholder ([e_closed_b] decides closedness of a JSON tree) *)
Theorem C10_encode_closed : forall H d E,
  uid_faithful H -> no_str H -> encode_history d H = Some E -> e_closed_b E = true.
Proof. intros H d E UF PCL Henc. apply e_closed_b_iff. exact (encode_closed H d E UF PCL Henc). Qed.
Print Assumptions C10_encode_closed.

(* loading needs a recursion depth of at most (pool size + 1), for any JSON whatsoever *)
Theorem C10_decode_total : forall E d, length (e_pool E) < d -> decode_history d E <> None.
Proof. exact decode_total. Qed.
Print Assumptions C10_decode_total.

(* saving a history built by the constructors (parents are objects created before the child)
   needs a depth of at most (largest generation / archive member reference + 1) *)
Theorem C10_encode_total : forall H d, heap_ordered (h_heap H) ->
  (forall r, In r (pool_roots H) -> r < d) -> encode_history d H <> None.
Proof. exact encode_total. Qed.
Print Assumptions C10_encode_total.

(* 3. every key of LEGACY_CLASS_PATHS resolves (class table, then module-prefix table) to a
   class of the current tree; the driver compares both tables with serializer.py on every run
   and imports every target *)
Theorem C10_legacy_paths : forall k v, In (k, v) LEGACY_CLASS_PATHS -> resolves_to_current k = true.
Proof. exact legacy_paths. Qed.
Print Assumptions C10_legacy_paths.

(* every prefix of LEGACY_MODULE_PATHS maps to its target, and the target is a module of the
   current tree *)
Theorem C10_legacy_module_paths : forall k v, In (k, v) LEGACY_MODULE_PATHS ->
  legacy_module_map k = v /\ In v CURRENT_MODULES.
Proof. exact legacy_module_paths. Qed.
Print Assumptions C10_legacy_module_paths.

(* 4. boundaries of 1 and 2.
   Two objects with one uid (not uid-faithful): the pool keeps the last one and both generations
   get that object back, the payload of the first is lost. *)
Theorem C10_duplicate_uid_refuted :
  ~ uid_faithful D /\
  exists E, encode_history 5 D = Some E /\ decode_history 5 E = Some D_loaded /\ ~ iso D D_loaded.
Proof. exact duplicate_uid_refuted. Qed.
Print Assumptions C10_duplicate_uid_refuted.

(* A history holding an individual that was loaded on its own (parents are uid strings) cannot
   be saved: the encoder raises, whatever the budget. *)
Theorem C10_string_parent_refuted : forall d, encode_history d S_hist = None.
Proof. exact string_parent_refuted. Qed.
Print Assumptions C10_string_parent_refuted.

(* 5. per-individual dumps: the individual loaded from its dump equals the in-memory one in every
   field (parents by uid), and saving it again gives the dump *)
Theorem C10_dump_roundtrip : forall h r,
  dump_holds_b h r (dec_ind (enc_ind h r)) = true /\ enc_indv [] (dec_ind (enc_ind h r)) = enc_ind h r.
Proof. intros h r. split; [apply dump_roundtrip|apply dump_reencode]. Qed.
Print Assumptions C10_dump_roundtrip.

(* the executable isomorphism check evaluated by the driver's [holds_b] on the exported in-memory
   and loaded histories implies the isomorphism of theorem 1 *)
Theorem C10_iso_b_sound : forall H H', iso_b H H' = true -> iso H H'.
Proof. exact iso_b_sound. Qed.
Print Assumptions C10_iso_b_sound.

(* non-vacuity: a history with a shared parent and an intermediate ancestor satisfies the
   hypotheses of 1 and 2, is saved and loaded within a budget of 4, and the guard is true *)
Example C10_guard_satisfiable :
  uid_faithful X /\ no_str X /\ heap_ordered (h_heap X) /\
  (exists E H', encode_history 4 X = Some E /\ decode_history 4 E = Some H' /\ length (e_pool E) = 3 /\
                iso_b X H' = true /\ e_closed_b E = true).
Proof.
  split; [exact X_faithful|]. split; [exact X_no_str|]. split; [exact X_ordered|].
  eexists. eexists. split; [vm_compute; reflexivity|]. split; [vm_compute; reflexivity|].
  split; [reflexivity|]. split; vm_compute; reflexivity.
Qed.

Example C10_legacy_tables_nonempty : length LEGACY_CLASS_PATHS = 8 /\ length LEGACY_MODULE_PATHS = 10.
Proof. split; reflexivity. Qed.
