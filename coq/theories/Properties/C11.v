(* C11 - Graphs and individuals survive JSON round-trips in content and behaviour.
   Only statements, closed by `exact` (short glue allowed), each followed by Print Assumptions.
   Model: Serial/Json.v, Serial/GraphCodec.v; proofs: Serial/GraphCodecProofs.v, Serial/GraphCodecSim.v.

   Reading guide.  A graph is a list of references (`nodes`) into a heap of node objects; WF h g
   says: no node listed twice, members are node objects, one node per uid, no parent linked
   twice, parents of members are members, names are str / int / bool / None.  Cyclic graphs
   are well-formed.  `save_graph h g` returns the JSON tree AND the heap afterwards;
   `load_graph h0 j` appends the decoded objects to a heap h0 (they are new objects). *)
From Coq Require Import List String ZArith QArith Bool Arith.
From GolemV Require Import Serial.Json Serial.GraphCodec Serial.GraphCodecProofs Serial.GraphCodecSim.
Import ListNotations.
Local Close Scope Q_scope.
Local Open Scope nat_scope.
Local Open Scope string_scope.
Local Open Scope list_scope.

(* ---------------------------------------------------------------- saving is pure (clause 2) *)
(* for EVERY heap and graph, well-formed or not, raising or not *)
Theorem C11_save_pure : forall h g, snd (save_graph h g) = h.
Proof. exact save_graph_pure. Qed.
Print Assumptions C11_save_pure.

Theorem C11_save_individual_pure : forall h ind, snd (save_individual h ind) = h.
Proof. exact save_individual_pure. Qed.
Print Assumptions C11_save_individual_pure.

(* saving a well-formed graph does not raise, and says exactly what is written *)
Theorem C11_save_total : forall h g, WF h g ->
  fst (save_graph h g) = Ok (graph_json (kind g) (map (fun r => enc_node h (getn h r)) (nodes g))).
Proof. exact save_graph_ok. Qed.
Print Assumptions C11_save_total.

(* ---------------------------------------------------------------- load (save g) ~ g (clause 1) *)
(* explicit form: the loaded heap fragment and node list *)
Theorem C11_load_save_graph : forall h g h0 j, WF h g -> fst (save_graph h g) = Ok j ->
  load_graph h0 j = Ok (h0 ++ loaded_cells (List.length h0) h (nodes g),
                        mkGraph (kind g) (seq (List.length h0) (List.length (nodes g)))).
Proof. exact load_save_graph. Qed.
Print Assumptions C11_load_save_graph.

(* as an isomorphism f : member r |-> new object |h0| + position of r.  Same graph class, same
   listing order, injective, new objects only; per node: same uid, content with the name
   replaced by str(name) - hence the same LinkedGraphNode.name and the same parameters -, the
   same parents in the same order, held in a UniqueList *)
Theorem C11_load_save_iso : forall h g h0 j h' g', WF h g -> fst (save_graph h g) = Ok j ->
  load_graph h0 j = Ok (h', g') ->
  let f := fun r => List.length h0 + pos r (nodes g) in
  kind g' = kind g /\ nodes g' = map f (nodes g) /\
  (forall r, In r (nodes g) -> List.length h0 <= f r) /\
  (forall a b, In a (nodes g) -> In b (nodes g) -> f a = f b -> a = b) /\
  forall r, In r (nodes g) ->
    exists nd', get h' (f r) = Some nd' /\
      uid nd' = uid (getn h r) /\
      content nd' = str_content (content (getn h r)) /\
      node_name nd' = node_name (getn h r) /\
      node_params nd' = node_params (getn h r) /\
      parents nd' = map f (parents (getn h r)) /\
      uniq nd' = true.
Proof. exact load_save_iso. Qed.
Print Assumptions C11_load_save_iso.

(* what exactly round-trips of a name: a str name is kept, an int / bool name comes back as its
   string, None and a missing name are kept; str(name) is a fixed point of the encoder *)
Theorem C11_name_roundtrip : forall c, is_ok (stringify_name c) = true ->
  stringify_name (str_content c) = Ok (str_content c) /\
  (forall s, lookup "name" c = Some (JStr s) -> lookup "name" (str_content c) = Some (JStr s)) /\
  (forall z, lookup "name" c = Some (JNum (Qmake z 1)) -> lookup "name" (str_content c) = Some (JStr (zstr z))) /\
  (lookup "name" c = Some JNull -> str_content c = c) /\
  (lookup "name" c = None -> str_content c = c).
Proof. exact name_roundtrip. Qed.
Print Assumptions C11_name_roundtrip.

(* the loaded graph is well-formed again *)
Theorem C11_loaded_well_formed : forall h g h0 j h' g', WF h g -> fst (save_graph h g) = Ok j ->
  load_graph h0 j = Ok (h', g') -> WF h' g'.
Proof. exact loaded_WF. Qed.
Print Assumptions C11_loaded_well_formed.

(* ---------------------------------------------------------------- second save = first (clause 3) *)
Theorem C11_save_load_save : forall h g h0 j h' g', WF h g -> fst (save_graph h g) = Ok j ->
  load_graph h0 j = Ok (h', g') -> fst (save_graph h' g') = Ok j.
Proof. exact save_load_save. Qed.
Print Assumptions C11_save_load_save.

(* ---------------------------------------------------------------- individuals *)
Theorem C11_load_save_individual : forall h ind h0 j, WF h (i_graph ind) -> fst (save_individual h ind) = Ok j ->
  load_individual h0 j = Ok (h0 ++ loaded_cells (List.length h0) h (nodes (i_graph ind)),
                             loaded_ind (List.length h0) ind).
Proof. exact load_save_individual. Qed.
Print Assumptions C11_load_save_individual.

(* read field by field: uid, fitness numbers and validity, metadata, native generation, and the
   parent-operator description (type, operators, uid, uids of the parents in order) *)
Theorem C11_loaded_individual_fields : forall base ind,
  let l := loaded_ind base ind in
  i_uid l = i_uid ind /\ fit_same (i_fitness ind) (i_fitness l) = true /\
  fit_valid (i_fitness l) = fit_valid (i_fitness ind) /\
  i_metadata l = i_metadata ind /\ i_native l = i_native ind /\
  same_parent_op (i_pop ind) (i_pop l) = true.
Proof. exact loaded_individual_fields. Qed.
Print Assumptions C11_loaded_individual_fields.

Theorem C11_save_load_save_individual : forall h ind h0 j h' l, WF h (i_graph ind) ->
  fst (save_individual h ind) = Ok j -> load_individual h0 j = Ok (h', l) ->
  fst (save_individual h' l) = Ok j.
Proof. exact save_load_save_individual. Qed.
Print Assumptions C11_save_load_save_individual.

(* the loaded fitness can be compared with (and hashed like) freshly computed fitness *)
Theorem C11_loaded_fitness_behaves : forall f,
  fit_same f (tuple_fit f) = true /\ fit_valid (tuple_fit f) = fit_valid f /\
  hash_raises (tuple_fit f) = false /\
  forall f', fit_values_kind f' = Tuple -> cmp_raises (tuple_fit f) f' = false /\ cmp_raises f' (tuple_fit f) = false.
Proof. exact loaded_fitness_behaves. Qed.
Print Assumptions C11_loaded_fitness_behaves.

(* ---------------------------------------------------------------- behaviour after loading (clause 4) *)
(* container kind: whatever sequence of connect_nodes / disconnect_nodes / delete_node (any
   reconnect mode) is applied to a loaded graph, no parent is ever linked twice *)
Theorem C11_loaded_no_duplicate_links : forall h g h0 j h' g' os s', WF h g -> all_uniq h0 ->
  fst (save_graph h g) = Ok j -> load_graph h0 j = Ok (h', g') ->
  run_ops (h', nodes g') os = Ok s' -> forall r, NoDup (pars (fst s') r).
Proof. exact loaded_no_duplicate_links. Qed.
Print Assumptions C11_loaded_no_duplicate_links.

(* ... which is a property of the UniqueList the decoder builds: with plain lists the same
   delete_node links a parent twice *)
Theorem C11_plain_list_duplicates : exists h g n s',
  delete_node (h, g) n RAll = Ok s' /\ (forall r, NoDup (pars h r)) /\ ~ NoDup (pars (fst s') 2).
Proof. exact plain_list_duplicates. Qed.
Print Assumptions C11_plain_list_duplicates.

(* lock-step: the modelled operations commute with the isomorphism.  `sim f s1 s2`: f maps the
   node list of s1 onto that of s2 injectively; corresponding nodes have the same uid, name,
   parameters and f-corresponding parents in the same order; containers are UniqueLists.
   One operation on member nodes: same exception on both sides, or isomorphic results. *)
Theorem C11_op_respects_iso : forall f s s' o, sim f s s' -> op_in (snd s) o = true ->
  match run_op s o with
  | Ok t => exists t', run_op s' (rename_op f o) = Ok t' /\ sim f t t'
  | Raise e => run_op s' (rename_op f o) = Raise e
  end.
Proof. exact run_op_sim. Qed.
Print Assumptions C11_op_respects_iso.

(* the round trip yields such an isomorphism (the original's containers being UniqueLists,
   as they are for every node built through the constructor or the nodes_from setter) *)
Theorem C11_loaded_sim : forall h g h0 j h' g', WF h g -> members_uniq h g ->
  fst (save_graph h g) = Ok j -> load_graph h0 j = Ok (h', g') ->
  sim (fun r => List.length h0 + pos r (nodes g)) (h, nodes g) (h', nodes g').
Proof. exact loaded_sim. Qed.
Print Assumptions C11_loaded_sim.

(* hence, for every sequence of the modelled operations whose arguments are member nodes at
   the time of the call: running it on the original and (renamed) on the loaded copy raises
   the same exception or yields isomorphic graphs *)
Theorem C11_loaded_behaves_alike : forall h g h0 j h' g' os, WF h g -> members_uniq h g ->
  fst (save_graph h g) = Ok j -> load_graph h0 j = Ok (h', g') ->
  ops_ok (h, nodes g) os = true ->
  let f := fun r => List.length h0 + pos r (nodes g) in
  match run_ops (h, nodes g) os with
  | Ok s1 => exists s2, run_ops (h', nodes g') (map (rename_op f) os) = Ok s2 /\ sim f s1 s2
  | Raise e => run_ops (h', nodes g') (map (rename_op f) os) = Raise e
  end.
Proof. exact loaded_behaves_alike. Qed.
Print Assumptions C11_loaded_behaves_alike.

(* Not modelled here (full statement kept visible): the same commuting property for add_node,
   delete_subtree, update_node, update_subtree and disconnect_nodes with clean-up -
     forall op of LinkedGraph, sim f s1 s2 -> sim f' (op s1) (op (rename f) s2)
   - they are modelled in Graph/Ops.v (property C04); for them C11 relies on the lock-step
   correspondence of the harness (original vs loaded copy after every step). *)

(* ---------------------------------------------------------------- the oracle decides the stated property *)
Theorem C11_heap_eqb_reflects : forall a b, heap_eqb a b = true <-> a = b.
Proof. exact heap_eqb_eq. Qed.
Print Assumptions C11_heap_eqb_reflects.

Theorem C11_json_eqb_reflects : forall a b, json_eqb a b = true <-> a = b.
Proof. exact json_eqb_eq. Qed.
Print Assumptions C11_json_eqb_reflects.

(* an observation that coincides with the model's behaviour on a well-formed graph (python-level
   flags true) passes every clause of the executable oracle holds_graph that the harness
   evaluates on the implementation: the oracle demands nothing beyond the theorems above *)
Theorem C11_oracle_accepts_model : forall h g j h' g' o, WF h g ->
  fst (save_graph h g) = Ok j -> load_graph h j = Ok (h', g') ->
  o_json o = Some j -> o_after o = snd (save_graph h g) ->
  o_loaded o = Some (skipn (List.length h) h', g') ->
  o_resave o = (match fst (save_graph h' g') with Ok j2 => Some j2 | Raise _ => None end) ->
  o_text_same o = true -> o_descid_same o = true -> o_eq o = true ->
  holds_graph h g o = [true; true; true; true].
Proof. exact oracle_accepts_model. Qed.
Print Assumptions C11_oracle_accepts_model.

(* ---------------------------------------------------------------- non-vacuity *)
(* ex_heap / ex_graph (Serial/GraphCodecProofs.v): a cyclic graph 0 <- {1, 2}, 1 <- 2, 2 <- 0 with an
   int-named node, listed as [0; 2; 1]; it is well-formed and its round trip is computed *)
Example C11_ex_wf : WF ex_heap ex_graph.
Proof. exact ex_wf. Qed.

Example C11_ex_roundtrip :
  exists j h' g', fst (save_graph ex_heap ex_graph) = Ok j /\ load_graph ex_heap j = Ok (h', g') /\
                  fst (save_graph h' g') = Ok j /\ nodes g' = [3; 4; 5] /\
                  pars h' 3 = [5; 4] /\ node_name (getn h' 3) = Some "3".
Proof. exact ex_roundtrip. Qed.

(* a multi-objective individual with a crossover parent operator over that graph *)
Example C11_ex_individual :
  exists j h' l, fst (save_individual ex_heap ex_ind) = Ok j /\ load_individual ex_heap j = Ok (h', l) /\
                 fst (save_individual h' l) = Ok j /\
                 cmp_raises (i_fitness l) (i_fitness ex_ind) = false /\ hash_raises (i_fitness l) = false /\
                 option_map po_parents (i_pop l) = Some [PUid "p1"; PUid "p2"].
Proof. exact ex_individual_roundtrip. Qed.

Example C11_ex_ops :
  ops_ok (ex_heap, nodes ex_graph) [OConnect 1 0; ODelete 2 RAll; ODisconnect 1 0] = true /\
  members_uniq ex_heap ex_graph /\
  is_ok (run_ops (ex_heap, nodes ex_graph) [OConnect 1 0; ODelete 2 RAll; ODisconnect 1 0]) = true.
Proof.
  split; [reflexivity|]. split; [|reflexivity].
  intros r [<-|[<-|[<-|[]]]]; reflexivity.
Qed.
