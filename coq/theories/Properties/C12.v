(* C12 - Structural queries agree with graph-theoretic ground truth.
   Only statements, closed by `exact` (short glue allowed), each followed by Print Assumptions.
   Model: Graph/Queries.v; specification and independent oracle: Graph/QueriesSpec.v;
   proofs: Graph/Queries{Basics,Cycle,Local,Hier,Depth,Oracle,Proofs}.v, Base/Closure.v.

   Notation of the specification: `edge g c p` = p is a parent (nodes_from) of c; `reach`/`plus`
   = reflexive / non-reflexive transitive closure; `cyclic g`; `cycle_from g v` = a cycle is
   reachable from v through parents; `ancestor g v a`; `sink` = nobody's parent (GOLEM: "root");
   `height g v k` = k nodes lie on a longest path ending in v; `gheight`, `lheight` likewise for
   the whole graph / a list of nodes; `wf g` = every parent index is a node (closed graph). *)
From Coq Require Import List Arith Bool ZArith.
From GolemV Require Import Graph.QueriesProofs.
Import ListNotations.

(* ---- graph_has_cycle -------------------------------------------------------------------- *)
(* the literal iterative DFS, for EVERY graph (no well-formedness needed) and every fuel on
   which the run returns: the answer is true exactly when a directed cycle exists *)
Theorem C12_has_cycle_correct : forall g fuel b,
  has_cycle_fuel fuel g = Some b -> (b = true <-> cyclic g).
Proof. exact has_cycle_correct. Qed.
Print Assumptions C12_has_cycle_correct.

(* never a hang: n + |E| + 2 iterations per run of the while loop always suffice *)
Theorem C12_has_cycle_fuel_suffices : forall g fuel,
  wf g -> length g + n_edges g + 2 <= fuel -> exists b, has_cycle_fuel fuel g = Some b.
Proof. exact has_cycle_fuel_suffices. Qed.
Print Assumptions C12_has_cycle_fuel_suffices.

Theorem C12_has_cycle_terminates : forall g, wf g -> exists b, has_cycle g = Some b.
Proof. exact has_cycle_terminates. Qed.
Print Assumptions C12_has_cycle_terminates.

Theorem C12_has_cycle_iff : forall g, wf g ->
  (has_cycle g = Some true <-> cyclic g) /\ (has_cycle g = Some false <-> ~ cyclic g).
Proof. exact has_cycle_iff. Qed.
Print Assumptions C12_has_cycle_iff.

(* ---- root_nodes / node_children / get_edges ----------------------------------------------- *)
Theorem C12_root_nodes_exact : forall g,
  NoDup (root_nodes g) /\ forall v, In v (root_nodes g) <-> sink g v.
Proof. intros g. split; [apply root_nodes_NoDup|apply root_nodes_spec]. Qed.
Print Assumptions C12_root_nodes_exact.

Theorem C12_node_children_exact : forall g v,
  NoDup (node_children g v) /\ forall c, In c (node_children g v) <-> c < length g /\ edge g c v.
Proof. intros g v. split; [apply node_children_NoDup|apply node_children_spec]. Qed.
Print Assumptions C12_node_children_exact.

Theorem C12_get_edges_exact : forall g,
  (forall p c, In (p, c) (get_edges g) <-> edge g c p) /\
  ((forall v, NoDup (parents g v)) -> NoDup (get_edges g)).
Proof. intros g. split; [apply get_edges_spec|apply get_edges_NoDup]. Qed.
Print Assumptions C12_get_edges_exact.

(* ---- ordered_subnodes_hierarchy ------------------------------------------------------------ *)
(* for every fuel: an error means a reachable cycle; a list means no reachable cycle, the node
   first, no repetition, and exactly the ancestors behind it *)
Theorem C12_hierarchy_sound : forall g fuel v,
  (hierarchy_fuel fuel g v = Raise -> cycle_from g v) /\
  (forall l, hierarchy_fuel fuel g v = Ok l ->
     ~ cycle_from g v /\ NoDup l /\ exists l', l = v :: l' /\ forall x, In x l' <-> ancestor g v x).
Proof. intros g fuel v. split; [apply hierarchy_raise|intros l; apply hierarchy_ok]. Qed.
Print Assumptions C12_hierarchy_sound.

Theorem C12_hierarchy_correct : forall g v, wf g -> v < length g ->
  (hierarchy g v = Raise <-> cycle_from g v) /\
  (forall l, hierarchy g v = Ok l ->
     NoDup l /\ exists l', l = v :: l' /\ forall x, In x l' <-> ancestor g v x) /\
  (~ cycle_from g v -> exists l, hierarchy g v = Ok l).
Proof. exact hierarchy_correct. Qed.
Print Assumptions C12_hierarchy_correct.

(* never a hang: recursion depth n + 1 suffices *)
Theorem C12_hierarchy_terminates : forall g v, wf g -> v < length g -> hierarchy g v <> OutOfFuel.
Proof. exact hierarchy_terminates. Qed.
Print Assumptions C12_hierarchy_terminates.

(* ---- node_depth ------------------------------------------------------------------------------ *)
Theorem C12_node_depth_correct : forall g v, wf g -> v < length g ->
  (node_depth g v = Ok (-1)%Z <-> cycle_from g v) /\
  (forall k, node_depth g v = Ok (Z.of_nat k) <-> height g v k) /\
  (~ cycle_from g v -> exists k, node_depth g v = Ok (Z.of_nat k)).
Proof. exact node_depth_correct. Qed.
Print Assumptions C12_node_depth_correct.

(* a list of nodes: -1 iff one of them reaches a cycle, otherwise the maximum (the `final_depth`
   memo and the `subnodes` short-cut of the code are part of the model) *)
Theorem C12_node_depth_list_correct : forall g vs,
  wf g -> (forall v, In v vs -> v < length g) -> vs <> [] ->
  (node_depth_list g vs = Ok (-1)%Z <-> exists v, In v vs /\ cycle_from g v) /\
  (forall k, node_depth_list g vs = Ok (Z.of_nat k) <-> lheight g vs k) /\
  ((forall v, In v vs -> ~ cycle_from g v) -> exists k, node_depth_list g vs = Ok (Z.of_nat k)).
Proof. exact node_depth_list_correct. Qed.
Print Assumptions C12_node_depth_list_correct.

(* for every fuel on which the run returns a number *)
Theorem C12_node_depth_sound : forall g fuel vs z, node_depth_fuel fuel g vs = Ok z ->
  (z = (-1)%Z /\ exists v, In v vs /\ cycle_from g v) \/ (exists k, z = Z.of_nat k /\ lheight g vs k).
Proof. exact node_depth_fuel_sound. Qed.
Print Assumptions C12_node_depth_sound.

(* distance_to_primary_level = node_depth - 1 (or -1) *)
Theorem C12_distance_to_primary_level_correct : forall g v, wf g -> v < length g ->
  (distance_to_primary_level g v = Ok (-1)%Z <-> cycle_from g v) /\
  (forall k, height g v (S k) -> distance_to_primary_level g v = Ok (Z.of_nat k)).
Proof. exact distance_to_primary_level_correct. Qed.
Print Assumptions C12_distance_to_primary_level_correct.

(* ---- LinkedGraph.depth ------------------------------------------------------------------------ *)
Theorem C12_depth_correct : forall g, wf g ->
  (g = [] -> depth g = Ok 0%Z) /\
  (g <> [] -> (depth g = Ok (-1)%Z <-> cyclic g) /\
              (forall k, depth g = Ok (Z.of_nat k) <-> gheight g k) /\
              (~ cyclic g -> exists k, depth g = Ok (Z.of_nat k))).
Proof. exact depth_correct. Qed.
Print Assumptions C12_depth_correct.

(* a non-empty graph without sinks is cyclic: the `not self.root_nodes()` short-cut is right *)
Theorem C12_no_sink_cyclic : forall g, wf g -> g <> [] -> root_nodes g = [] -> cyclic g.
Proof. exact no_sink_cyclic. Qed.
Print Assumptions C12_no_sink_cyclic.

(* ---- the independent oracle of holds_b decides the specification ----------------------------- *)
(* closure completeness: n-fold relational composition computes reachability on n nodes *)
Theorem C12_closure_complete : forall n a x y,
  mget (tc n a) x y = true <-> x < n /\ exists l, l <> [] /\ walk (mrel n a) x l y.
Proof. exact tc_iff. Qed.
Print Assumptions C12_closure_complete.

Theorem C12_oracle_reflects : forall g, wf g ->
  (forall x y, plus_b (mk_oracle g) x y = true <-> plus g x y) /\
  (cyclic_b (mk_oracle g) = true <-> cyclic g) /\
  (forall v, cycfrom_b (mk_oracle g) v = true <-> cycle_from g v) /\
  (forall v a, In a (anc_b (mk_oracle g) v) <-> ancestor g v a) /\
  (forall v, v < length g -> (sink_b (mk_oracle g) v = true <-> sink g v)) /\
  (forall v, v < length g -> ~ cycle_from g v -> height g v (height_b (mk_oracle g) v)) /\
  (0 < length g -> ~ cyclic g -> gheight g (gheight_b (mk_oracle g))).
Proof.
  intros g H. split; [apply plus_b_iff; exact H|]. split; [apply cyclic_b_iff; exact H|].
  split; [apply cycfrom_b_iff; exact H|]. split; [apply anc_b_iff; exact H|].
  split; [apply sink_b_iff; exact H|]. split; [apply height_b_correct; exact H|apply gheight_b_correct; exact H].
Qed.
Print Assumptions C12_oracle_reflects.

(* what `holds_b g ob = true` (the executable check applied to the implementation's observed
   answers `ob` on every run) means: the observed answers satisfy every clause of the property *)
Theorem C12_holds_b_sound : forall g ob, wf g -> holds_b g ob = true -> obs_spec g ob.
Proof. exact holds_b_sound. Qed.
Print Assumptions C12_holds_b_sound.

(* model and oracle coincide on closed graphs (two independent algorithms, one answer) *)
Theorem C12_model_meets_oracle : forall g, wf g ->
  has_cycle g = Some (cyclic_b (mk_oracle g)) /\
  (forall v, v < length g -> node_depth g v = Ok (node_depth_truth (mk_oracle g) v)) /\
  (forall v, v < length g ->
     match hierarchy g v with
     | Raise => cycfrom_b (mk_oracle g) v = true
     | Ok l => cycfrom_b (mk_oracle g) v = false /\ NoDup l /\
               exists l', l = v :: l' /\ forall x, In x l' <-> In x (anc_b (mk_oracle g) v)
     | OutOfFuel => False
     end).
Proof.
  intros g H. split; [apply has_cycle_oracle; exact H|].
  split; intros v Hv; [apply node_depth_oracle|apply hierarchy_oracle]; assumption.
Qed.
Print Assumptions C12_model_meets_oracle.

(* ---- large graphs: the frontier formulation evaluated instead of the exponential path walk --- *)
(* (level-by-level walk of the nodes reached by walks with exactly k edges, QueriesBig.v) is EQUAL
   to the model's node_depth / node_depth_list / depth on closed graphs *)
Theorem C12_frontier_equals_model : forall g, wf g ->
  depth g = Ok (depth_fast g) /\
  (forall v, v < length g -> node_depth g v = Ok (node_depth_fast g v)) /\
  (forall vs, (forall v, In v vs -> v < length g) -> vs <> [] -> node_depth_list g vs = Ok (ndl_fast g vs)).
Proof.
  intros g H. split; [apply depth_fast_eq; exact H|].
  split; [intros v Hv; apply node_depth_fast_eq; assumption|intros vs Hr Hne; apply ndl_fast_eq; assumption].
Qed.
Print Assumptions C12_frontier_equals_model.

(* and decides the specification by itself *)
Theorem C12_frontier_decides : forall g, wf g ->
  (cyclic_fast g = true <-> cyclic g) /\
  (forall v, v < length g -> (cycfrom_fast g v = true <-> cycle_from g v)) /\
  (forall v, v < length g -> ~ cycle_from g v -> height g v (lfast g [v])) /\
  (forall vs, (forall v, In v vs -> v < length g) -> vs <> [] ->
     (lfast g vs = hlimit g <-> exists v, In v vs /\ cycle_from g v) /\
     (lfast g vs <> hlimit g -> lheight g vs (lfast g vs))) /\
  (forall v, In v (sinks_fast g) <-> sink g v).
Proof.
  intros g H. split; [apply cyclic_fast_iff; exact H|].
  split; [intros v Hv; apply cycfrom_fast_iff; assumption|].
  split; [intros v Hv; apply height_fast_correct; assumption|].
  split; [intros vs Hr Hne; apply lfast_spec; assumption|apply sinks_fast_iff].
Qed.
Print Assumptions C12_frontier_decides.

(* the executable check applied to the observed answers on large graphs *)
Theorem C12_holds_big_sound : forall g ob, wf g ->
  forallb (fun b => b) (holds_big_l g ob) = true -> bobs_spec g ob.
Proof. exact holds_big_sound. Qed.
Print Assumptions C12_holds_big_sound.

(* ---- non-vacuity: the hypotheses are satisfiable by non-trivial graphs ------------------------ *)
Definition ex_dag : dg := [[1; 2]; [2; 3]; [3]; []; [3]].        (* 0 <- 1,2 ; 1 <- 2,3 ; 2 <- 3 ; 4 <- 3 *)
Definition ex_cyc : dg := [[1]; [2]; [0; 3]; []; [4]].           (* 0 -> 1 -> 2 -> 0, self-loop at 4 *)

Example ex_dag_wf : wf ex_dag.
Proof. apply wf_b_iff. reflexivity. Qed.
Example ex_cyc_wf : wf ex_cyc.
Proof. apply wf_b_iff. reflexivity. Qed.
Example ex_dag_answers :
  has_cycle ex_dag = Some false /\ depth ex_dag = Ok 4%Z /\ root_nodes ex_dag = [0; 4] /\
  hierarchy ex_dag 0 = Ok [0; 1; 2; 3] /\ node_depth ex_dag 1 = Ok 3%Z /\
  node_depth_list ex_dag [4; 1; 3] = Ok 3%Z /\ holds_b ex_dag
    {| ob_cycle := false; ob_depth := 4; ob_roots := [0; 4]; ob_children := [[]; [0]; [0; 1]; [1; 2; 4]; []];
       ob_edges := [(1, 0); (2, 0); (2, 1); (3, 1); (3, 2); (3, 4)];
       ob_hier := [Some [0; 1; 2; 3]; Some [1; 2; 3]; Some [2; 3]; Some [3]; Some [4; 3]];
       ob_ndepth := [4; 3; 2; 1; 2]%Z; ob_ndlist := [([4; 1; 3], Some 3%Z)];
       ob_dprim := []; ob_droot := [] |} = true.
Proof. vm_compute. repeat split. Qed.
Example ex_cyc_answers :
  has_cycle ex_cyc = Some true /\ depth ex_cyc = Ok (-1)%Z /\
  hierarchy ex_cyc 0 = Raise /\ hierarchy ex_cyc 3 = Ok [3] /\
  node_depth ex_cyc 1 = Ok (-1)%Z /\ node_depth ex_cyc 3 = Ok 1%Z /\ node_depth ex_cyc 4 = Ok (-1)%Z.
Proof. vm_compute. repeat split. Qed.
Example ex_frontier : depth_fast ex_dag = 4%Z /\ node_depth_fast ex_dag 1 = 3%Z /\ ndl_fast ex_dag [4; 1; 3] = 3%Z /\
  cyclic_fast ex_cyc = true /\ cycfrom_fast ex_cyc 3 = false /\ node_depth_fast ex_cyc 1 = (-1)%Z /\ sinks_fast ex_dag = [0; 4].
Proof. vm_compute. repeat split. Qed.
Example ex_cyc_cyclic : cyclic ex_cyc /\ cycle_from ex_cyc 1 /\ ~ cycle_from ex_cyc 3.
Proof.
  pose proof (C12_has_cycle_correct ex_cyc (cycle_fuel ex_cyc) true eq_refl) as C.
  pose proof (C12_hierarchy_correct ex_cyc 1 ex_cyc_wf ltac:(simpl; auto with arith)) as H1.
  pose proof (C12_hierarchy_sound ex_cyc 6 3) as H3.
  split; [apply C; reflexivity|]. split; [apply H1; reflexivity|apply (proj2 H3 [3]); reflexivity].
Qed.
Example ex_dag_height : height ex_dag 0 4 /\ gheight ex_dag 4 /\ ~ cyclic ex_dag.
Proof.
  pose proof (C12_node_depth_correct ex_dag 0 ex_dag_wf ltac:(simpl; auto with arith)) as H.
  pose proof (C12_depth_correct ex_dag ex_dag_wf) as D.
  split; [apply (proj1 (proj2 H) 4); reflexivity|].
  split; [apply (proj1 (proj2 (proj2 D ltac:(discriminate))) 4); reflexivity|].
  intros C. apply (C12_has_cycle_correct ex_dag (cycle_fuel ex_dag) false eq_refl) in C. discriminate.
Qed.
