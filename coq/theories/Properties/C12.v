From Coq Require Import List.
From GolemV Require Import Graph.QueriesSpec Graph.Queries Graph.QueriesProofs.
Theorem C12_stub : forall g, length (nodes g) = length g.
Proof. exact stub_nodes_length. Qed.
Print Assumptions C12_stub.
