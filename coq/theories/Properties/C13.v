(* C13 - Graph equality and structural identifier are isomorphism invariants.
   Only statements, closed by `exact` (short glue), each followed by Print Assumptions.
   Model: Graph/DescId.v; proofs: Graph/DescIdProofs.v.

   Reading guide.  A graph `g : dg` is the list of its nodes in listing order; a node
   identity is its position; `label` is description(); `descr g v` is node.descriptive_id
   (None = out of fuel, excluded by C13_descr_total); `graph_eq` is ==; `graph_id` is
   graph.descriptive_id.  `iso g g' f`: f is a bijection between the node identities of g
   and g' that preserves labels and maps every parent list to a rearrangement of the image
   list - i.e. g' differs from g only in node identities, listing order and parent order. *)
From Coq Require Import List String Bool Arith Permutation.
From GolemV Require Import Graph.DescId Graph.DescIdProofs Graph.DescIdTree.
Import ListNotations.
Local Open Scope string_scope.

(* the recursion of descriptive_id terminates on every closed graph, cyclic ones included *)
Theorem C13_descr_total : forall g v, wf g -> v < List.length g -> exists s, descr g v = Some s.
Proof. exact descr_total. Qed.
Print Assumptions C13_descr_total.

(* ... and more fuel never changes an answer *)
Theorem C13_descr_fuel_independent : forall g k k' vis v s,
  k <= k' -> descr_fuel g k vis v = Some s -> descr_fuel g k' vis v = Some s.
Proof. exact descr_fuel_mono. Qed.
Print Assumptions C13_descr_fuel_independent.

(* sorting makes the identifier independent of the order of the parent links *)
Theorem C13_sort_order_independent : forall l l', Permutation l l' -> sort l = sort l'.
Proof. exact sort_perm. Qed.
Print Assumptions C13_sort_order_independent.

Theorem C13_sort_sorts : forall l, sorted (sort l) /\ Permutation (sort l) l.
Proof. intros l. split; [apply sort_sorted|apply sort_permutation]. Qed.
Print Assumptions C13_sort_sorts.

(* T1.1: corresponding nodes of isomorphic graphs have the same identifier
   (no acyclicity needed: ID_CYCLED is produced at corresponding places) *)
Theorem C13_descr_id_iso : forall g g' f,
  iso g g' f -> wf g -> forall v, v < List.length g -> descr g v = descr g' (f v).
Proof. exact descr_iso. Qed.
Print Assumptions C13_descr_id_iso.

(* T1.2: graphs that differ only in node identities / listing order / parent order are == *)
Theorem C13_graph_eq_iso : forall g g' f, iso g g' f -> wf g -> graph_eq g g' = Some true.
Proof. exact graph_eq_iso. Qed.
Print Assumptions C13_graph_eq_iso.

(* ... and have the same structural identifier, provided a root node exists (or the graph
   is empty) ... *)
Theorem C13_graph_id_iso : forall g g' f,
  iso g g' f -> wf g -> (sinks g <> [] \/ g = []) -> graph_id g = graph_id g'.
Proof. exact graph_id_iso. Qed.
Print Assumptions C13_graph_id_iso.

(* ... in particular for every acyclic graph *)
Theorem C13_graph_id_iso_dag : forall g g' f,
  iso g g' f -> wf g -> dag g -> graph_id g = graph_id g'.
Proof. exact graph_id_iso_dag. Qed.
Print Assumptions C13_graph_id_iso_dag.

(* fresh identities made explicit: uids arbitrary, names (non-empty) and params preserved *)
Theorem C13_fresh_identities : forall g g' f,
  iso_np g g' f -> wf g ->
  graph_eq g g' = Some true /\ (forall v, v < List.length g -> descr g v = descr g' (f v)) /\
  (dag g -> graph_id g = graph_id g').
Proof.
  intros g g' f I W. apply iso_np_iso in I. repeat split.
  - eapply graph_eq_iso; eauto.
  - intros v Hv. eapply descr_iso; eauto.
  - intros D. eapply graph_id_iso_dag; eauto.
Qed.
Print Assumptions C13_fresh_identities.

(* outside the property's scope (graphs whose every node has a child, hence cyclic): the
   graph identifier is that of the node with the least uid, which fresh identities change *)
Theorem C13_graph_id_sinkless_depends_on_uid_refuted :
  exists g g' f, iso_np g g' f /\ graph_eq g g' = Some true /\ graph_id g <> graph_id g'.
Proof. exists cyc1, cyc2, (fun v => v). exact graph_id_sinkless_depends_on_uid. Qed.
Print Assumptions C13_graph_id_sinkless_depends_on_uid_refuted.

(* T1.3: equality is an equivalence; a deep copy equals its original *)
Theorem C13_graph_eq_equivalence :
  (forall g, wf g -> graph_eq g g = Some true) /\
  (forall g1 g2, graph_eq g1 g2 = graph_eq g2 g1) /\
  (forall g1 g2 g3, graph_eq g1 g2 = Some true -> graph_eq g2 g3 = Some true ->
                    graph_eq g1 g3 = Some true).
Proof. exact (conj graph_eq_refl (conj graph_eq_sym graph_eq_trans)). Qed.
Print Assumptions C13_graph_eq_equivalence.

Theorem C13_graph_eq_spec : forall g1 g2,
  graph_eq g1 g2 = Some true <->
  exists a b, sink_ids g1 = Some a /\ sink_ids g2 = Some b /\ (forall s, In s a <-> In s b).
Proof. exact graph_eq_spec. Qed.
Print Assumptions C13_graph_eq_spec.

Theorem C13_deepcopy_eq : forall g g', wf g -> deep_copy g g' ->
  graph_eq g g' = Some true /\ graph_eq g' g = Some true /\ graph_id g' = graph_id g /\
  forall v, descr g' v = descr g v.
Proof. exact deepcopy_eq. Qed.
Print Assumptions C13_deepcopy_eq.

(* ---------------------------------------------------------------------------------- *)
(* T2: the converse for rooted trees (labels without ( ) / ;)                          *)
(* ---------------------------------------------------------------------------------- *)

(* the bracket encoding is uniquely readable: on trees whose labels avoid the delimiters
   it determines the tree up to label-preserving isomorphism of rooted unordered trees
   (tiso: same label, children lists in bijection with pairwise isomorphic subtrees) *)
Theorem C13_tree_enc_iff_tiso : forall t1 t2,
  clean_tree_b t1 = true -> clean_tree_b t2 = true -> (enc t1 = enc t2 <-> tiso t1 t2).
Proof. exact tree_enc_iff_tiso. Qed.
Print Assumptions C13_tree_enc_iff_tiso.

(* on an acyclic graph the identifier of a node IS the encoding of the tree obtained by
   unfolding the graph from that node (no ID_CYCLED, no fuel exhaustion) *)
Theorem C13_descr_is_enc_of_unfolding : forall g, dag g -> wf g -> forall v, v < List.length g ->
  exists t k, unfold g k v = Some t /\ descr g v = Some (enc t).
Proof. exact descr_dag. Qed.
Print Assumptions C13_descr_is_enc_of_unfolding.

(* single-rooted acyclic graphs (trees included) with delimiter-free labels are == exactly
   when the unfoldings of their roots are isomorphic trees *)
Theorem C13_dag_eq_iff_unfold_iso : forall g1 g2 r1 r2,
  wf g1 -> wf g2 -> dag g1 -> dag g2 -> clean_labels g1 -> clean_labels g2 ->
  sinks g1 = [r1] -> sinks g2 = [r2] ->
  (graph_eq g1 g2 = Some true <->
   exists t1 t2 k1 k2, unfold g1 k1 r1 = Some t1 /\ unfold g2 k2 r2 = Some t2 /\ tiso t1 t2).
Proof. exact dag_eq_iff_unfold_iso. Qed.
Print Assumptions C13_dag_eq_iff_unfold_iso.

(* The converse clause at full strength, on the index representation with ARBITRARY node
   numbering.  tree_shaped g: closed, acyclic, exactly one root, and no node occurs twice
   among all parent links (so every non-root node has exactly one child).  For two such
   graphs with delimiter-free labels:  ==  holds exactly when some bijection between their
   node identities preserves labels and maps parent lists to rearrangements (iso).
   (<-) is C13_graph_eq_iso; (->): the unfoldings of the roots are isomorphic trees
   (C13_dag_eq_iff_unfold_iso); on a tree-shaped graph the unfolding, taken as a tree of node
   indices, lists every node exactly once (C13_tree_shaped_unfolds_once); the tiso derivation
   rearranges the children of the second index tree until both label trees are equal, and
   matching the two index trees position by position gives the bijection. *)
Theorem C13_tree_eq_iff_iso : forall g1 g2,
  tree_shaped g1 -> tree_shaped g2 -> clean_labels g1 -> clean_labels g2 ->
  (graph_eq g1 g2 = Some true <-> exists f, iso g1 g2 f).
Proof. exact tree_eq_iff_iso. Qed.
Print Assumptions C13_tree_eq_iff_iso.

(* the local description of a tree implies the global one: unfolding from the root visits
   every node exactly once *)
Theorem C13_tree_shaped_unfolds_once : forall g r,
  wf g -> dag g -> sinks g = [r] -> NoDup (parents_all g) ->
  exists k i, iunfold g k r = Some i /\ Permutation (inodes i) (seq 0 (List.length g)).
Proof. intros g r W D S N. destruct (tree_shaped_at g r W D S N) as [_ [_ [_ H]]]. exact H. Qed.
Print Assumptions C13_tree_shaped_unfolds_once.

(* the same statement for the graphs the correspondence check builds from rooted trees
   (kept under its original name) *)
Theorem C13_tree_eq_iff_iso_partial : forall t1 t2,
  names_ok_b t1 = true -> names_ok_b t2 = true ->
  (graph_eq (dg_of_tree t1) (dg_of_tree t2) = Some true <-> tiso t1 t2).
Proof. exact tree_eq_iff_iso_names. Qed.
Print Assumptions C13_tree_eq_iff_iso_partial.

(* the graph of a rooted tree is closed, acyclic, has the single root 0, and the identifier
   of the root is the encoding of the tree with labels rendered by description() *)
Theorem C13_dg_of_tree_shape : forall t,
  wf (dg_of_tree t) /\ dag (dg_of_tree t) /\ sinks (dg_of_tree t) = [0] /\
  descr (dg_of_tree t) 0 = Some (enc (relabel t)).
Proof.
  intros t. repeat split.
  - apply dg_of_tree_wf.
  - apply dg_of_tree_dag.
  - apply dg_of_tree_sinks.
  - apply descr_dg_of_tree.
Qed.
Print Assumptions C13_dg_of_tree_shape.

(* the independent canonical form (children canonicalised recursively and sorted by a
   structural total order on trees; no strings) that the check compares the implementation
   with decides tree isomorphism; so holds_tree demands exactly: == <-> isomorphic *)
Theorem C13_canon_eqb_iff : forall t1 t2,
  clean_tree_b t1 = true -> clean_tree_b t2 = true ->
  (canon_eqb (canon t1) (canon t2) = true <-> tiso t1 t2).
Proof. exact canon_eqb_iff. Qed.
Print Assumptions C13_canon_eqb_iff.

(* the executable isomorphism test used on the observed graphs decides (soundly) the
   hypothesis of the theorems above *)
Theorem C13_iso_b_sound : forall g g' fl,
  iso_b g g' fl = true -> iso g g' (ap fl) /\ wf g /\ wf g'.
Proof. exact iso_b_sound. Qed.
Print Assumptions C13_iso_b_sound.

(* non-vacuity: a two-root DAG with a shared ancestor, relisted, with parent links reordered *)
Definition ex_g : dg :=
  [mk_node "u0" "r" "" [2; 3]; mk_node "u1" "s" "{'k': 1}" [3]; mk_node "u2" "a" "" [3];
   mk_node "u3" "b" "" []].
Definition ex_g' : dg :=
  [mk_node "w0" "b" "" []; mk_node "w1" "s" "{'k': 1}" [0]; mk_node "w2" "r" "" [0; 3];
   mk_node "w3" "a" "" [0]].

Example iso_hypotheses_satisfiable :
  iso_b ex_g ex_g' [2; 1; 3; 0] = true /\ sinks ex_g = [0; 1] /\ sinks ex_g' = [1; 2] /\
  graph_eq ex_g ex_g' = Some true /\
  graph_id ex_g = Some "((/n_b;)/n_a;;/n_b;)/n_r(/n_b;)/n_s_{'k': 1}" /\
  graph_id ex_g' = graph_id ex_g.
Proof. vm_compute. repeat split. Qed.

Example dag_hypothesis_satisfiable : dag ex_g.
Proof.
  exists (fun v => 3 - v). intros v nd p Hv Hp.
  destruct v as [|[|[|[|v]]]]; simpl in Hv; inversion Hv; subst; simpl in Hp;
    repeat (destruct Hp as [Hp|Hp]; [subst; simpl; auto with arith|]); try destruct Hp.
  destruct v; discriminate.
Qed.

(* non-vacuity of the tree theorems: two different presentations of one tree, and a
   non-isomorphic one *)
Definition ex_t1 := T "a" [T "b" [T "a" []; T "c" []]; T "a" []].
Definition ex_t2 := T "a" [T "a" []; T "b" [T "c" []; T "a" []]].
Definition ex_t3 := T "a" [T "b" [T "a" []]; T "a" [T "c" []]].

Example tree_hypotheses_satisfiable :
  names_ok_b ex_t1 = true /\ names_ok_b ex_t2 = true /\ names_ok_b ex_t3 = true /\
  graph_eq (dg_of_tree ex_t1) (dg_of_tree ex_t2) = Some true /\
  graph_eq (dg_of_tree ex_t1) (dg_of_tree ex_t3) = Some false /\
  canon_eqb (canon ex_t1) (canon ex_t2) = true /\ canon_eqb (canon ex_t1) (canon ex_t3) = false /\
  descr (dg_of_tree ex_t1) 0 = Some "((/n_a;;/n_c;)/n_b;;/n_a;)/n_a".
Proof. vm_compute. repeat split. Qed.

Example tree_iso_example : tiso ex_t1 ex_t2 /\ ~ tiso ex_t1 ex_t3.
Proof.
  split.
  - apply (C13_tree_eq_iff_iso_partial ex_t1 ex_t2); reflexivity.
  - intros H. apply (C13_tree_eq_iff_iso_partial ex_t1 ex_t3) in H; try reflexivity. discriminate H.
Qed.

(* a single-rooted DAG that is not a tree (node 3 is shared) meets the hypotheses of
   C13_dag_eq_iff_unfold_iso *)
Definition ex_d : dg :=
  [mk_node "u0" "r" "" [1; 2]; mk_node "u1" "a" "" [3]; mk_node "u2" "b" "" [3]; mk_node "u3" "c" "" []].

Example dag_unfold_hypotheses_satisfiable :
  wf ex_d /\ dag ex_d /\ clean_labels ex_d /\ sinks ex_d = [0] /\
  unfold ex_d 4 0 = Some (T "n_r" [T "n_a" [T "n_c" []]; T "n_b" [T "n_c" []]]).
Proof.
  split; [apply wf_b_spec; reflexivity|]. split; [|split; [|split; reflexivity]].
  - exists (fun v => 3 - v). intros v nd p Hv Hp.
    destruct v as [|[|[|[|v]]]]; simpl in Hv; inversion Hv; subst; simpl in Hp;
      repeat (destruct Hp as [Hp|Hp]; [subst; simpl; auto with arith|]); try destruct Hp.
    destruct v; discriminate.
  - intros nd Hin. simpl in Hin.
    repeat (destruct Hin as [Hin|Hin]; [subst; reflexivity|]). destruct Hin.
Qed.

(* non-vacuity of C13_tree_eq_iff_iso: one tree under two unrelated numberings (root at
   index 2 resp. 0, parent links in different order), and the isomorphism it yields *)
Definition ex_ta : dg :=
  [mk_node "u0" "b" "" [3; 4]; mk_node "u1" "a" "" []; mk_node "u2" "a" "" [0; 1];
   mk_node "u3" "a" "" []; mk_node "u4" "c" "" []].
Definition ex_tb : dg :=
  [mk_node "w0" "a" "" [4; 2]; mk_node "w1" "c" "" []; mk_node "w2" "b" "" [1; 3];
   mk_node "w3" "a" "" []; mk_node "w4" "a" "" []].

Lemma ex_shape (g : dg) (rank : nat -> nat) :
  wf_b g = true ->
  forallb (fun v => forallb (fun p => Nat.ltb (rank p) (rank v)) (par g v)) (seq 0 (List.length g)) = true ->
  (exists r, sinks g = [r]) -> NoDup (parents_all g) -> tree_shaped g.
Proof.
  intros W R S N. split; [apply wf_b_spec; auto|]. split; [|split; auto].
  exists rank. intros v nd p Hv Hp. rewrite forallb_forall in R.
  assert (Hin : In v (seq 0 (List.length g))) by (apply in_seq; split; [auto with arith|]; apply nth_error_Some; congruence).
  apply R in Hin. unfold par in Hin. rewrite Hv in Hin. rewrite forallb_forall in Hin.
  apply Nat.ltb_lt. apply Hin. exact Hp.
Qed.

Example tree_shaped_hypotheses_satisfiable :
  tree_shaped ex_ta /\ tree_shaped ex_tb /\ clean_labels ex_ta /\ clean_labels ex_tb /\
  graph_eq ex_ta ex_tb = Some true /\ (exists f, iso ex_ta ex_tb f) /\
  iso_b ex_ta ex_tb [2; 4; 0; 3; 1] = true.
Proof.
  assert (Ta : tree_shaped ex_ta).
  { apply (ex_shape ex_ta (fun v => match v with 2 => 2 | 0 => 1 | _ => 0 end)); try reflexivity.
    - exists 2. reflexivity.
    - vm_compute. repeat constructor; simpl; intuition discriminate. }
  assert (Tb : tree_shaped ex_tb).
  { apply (ex_shape ex_tb (fun v => match v with 0 => 2 | 2 => 1 | _ => 0 end)); try reflexivity.
    - exists 0. reflexivity.
    - vm_compute. repeat constructor; simpl; intuition discriminate. }
  assert (Ca : clean_labels ex_ta).
  { intros nd Hin. simpl in Hin. repeat (destruct Hin as [Hin|Hin]; [subst; reflexivity|]). destruct Hin. }
  assert (Cb : clean_labels ex_tb).
  { intros nd Hin. simpl in Hin. repeat (destruct Hin as [Hin|Hin]; [subst; reflexivity|]). destruct Hin. }
  split; [exact Ta|]. split; [exact Tb|]. split; [exact Ca|]. split; [exact Cb|].
  split; [reflexivity|]. split; [|reflexivity].
  apply (C13_tree_eq_iff_iso ex_ta ex_tb Ta Tb Ca Cb). reflexivity.
Qed.
