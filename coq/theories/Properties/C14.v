(* C14 - Seeded runs are reproducible and independent of presentation and worker count.
   Only statements, closed by `exact`, each followed by Print Assumptions.
   Model: Evo/Independence.v; proofs: Evo/IndependenceProofs.v.

   Reading guide.  optimise code pl cfg salt r o fuel : outcome * present  is one run:
     code  the three places of /repo the theorems depend on (current_code = the tree as it is);
     pl    how an identifier is made of bytes (CPython: 16 bytes);
     cfg   configuration with the fields show_progress, logging_level, n_jobs, parallel, ...;
     salt  the interpreter's hash seed (visible to the operator oracles only);
     r     the generators: the ONE choice stream and the source os.urandom reads
           (Mocked = the repository's urandom_mock: the choice stream itself);
     o     oracles: objective, variation operators, survival, archive, iteration callback, clocks,
           completion order of the workers - all universally quantified, raising ones included;
     fuel  recursion budget of the loops (every theorem holds for every fuel).
   fst (optimise ...) is everything a caller can observe except the presentation: returned graphs
   or raised exception, history calls, archive history, lineage, identifiers, generator state.

   Level: the theorems are about the model.  That two REAL runs with one seed coincide is not a
   theorem (determinism of a function is definitional, see C14_same_inputs_same_history); it is
   sampled by the differential runs of harness/c14.py. *)
From Coq Require Import List Bool Arith Permutation.
From GolemV Require Evo.Evaluation Evo.History.
From GolemV Require Import Evo.Independence Evo.IndependenceProofs.
Import ListNotations.
Local Open Scope nat_scope.

(* ---- (1) presentation_neutral: the progress-bar switch does not change the outcome, for all
   oracles including those that raise inside the loop ---- *)
Theorem C14_presentation_neutral : forall pl cfg a b salt r o fuel,
  fst (optimise current_code pl (set_show_progress a cfg) salt r o fuel) =
  fst (optimise current_code pl (set_show_progress b cfg) salt r o fuel).
Proof. exact presentation_neutral. Qed.
Print Assumptions C14_presentation_neutral.

Theorem C14_logging_neutral : forall pl cfg l l' salt r o fuel,
  fst (optimise current_code pl (set_logging_level l cfg) salt r o fuel) =
  fst (optimise current_code pl (set_logging_level l' cfg) salt r o fuel).
Proof. exact logging_neutral. Qed.
Print Assumptions C14_logging_neutral.

(* for every code variant: it is enough that the two bar objects answer __exit__ alike *)
Theorem C14_presentation_neutral_both : forall code pl cfg a l b l' salt r o fuel,
  empty_bar_exit code = tqdm_exit code ->
  fst (optimise code pl (set_show_progress a (set_logging_level l cfg)) salt r o fuel) =
  fst (optimise code pl (set_show_progress b (set_logging_level l' cfg)) salt r o fuel).
Proof. exact presentation_neutral_both. Qed.
Print Assumptions C14_presentation_neutral_both.

(* the theorem depends on EmptyProgressBar.__exit__: with the stub that returned True (the tree
   before the fix) a callback failure at the second population is raised with the bar shown, and
   swallowed with the bar hidden (the run goes on to record final_choices and returns) *)
Theorem C14_presentation_sensitive :
  out_result (fst (optimise pinned_code w_platform (set_show_progress true w_config) 0 w_rng (w_oracles (Some 1)) 9))
    = Exc (UserErr 7)
  /\ (exists gs, out_result (fst (optimise pinned_code w_platform (set_show_progress false w_config) 0 w_rng
                                            (w_oracles (Some 1)) 9)) = Val gs)
  /\ length (c_calls (out_core (fst (optimise pinned_code w_platform (set_show_progress true w_config) 0 w_rng
                                              (w_oracles (Some 1)) 9)))) = 2
  /\ length (c_calls (out_core (fst (optimise pinned_code w_platform (set_show_progress false w_config) 0 w_rng
                                              (w_oracles (Some 1)) 9)))) = 3.
Proof. exact presentation_sensitive. Qed.
Print Assumptions C14_presentation_sensitive.

(* ---- (2) workers_neutral: within the parallel mode neither the number of workers (from 2 up) nor
   the completion order of the evaluations changes the outcome, for runs in which no population
   handed to a dispatcher holds two not yet evaluated individuals with one uid (c_clean, a
   ghost flag of the run itself).
   FULL STATEMENT (all n, n' >= 1) is refuted by the faithful model: see
   C14_workers_one_vs_two_refuted; it holds for a dispatcher that keeps joblib's identifiers off
   the stream: C14_workers_neutral_isolated. ---- *)
Theorem C14_workers_neutral_partial : forall pl cfg n n' sch sch' salt r o fuel,
  2 <= n -> 2 <= n' ->
  (forall a b l, Permutation (sch a b l) l) -> (forall a b l, Permutation (sch' a b l) l) ->
  c_clean (out_core (fst (optimise current_code pl (set_n_jobs n cfg) salt r (set_sched sch o) fuel))) = true ->
  fst (optimise current_code pl (set_n_jobs n' cfg) salt r (set_sched sch' o) fuel) =
  fst (optimise current_code pl (set_n_jobs n cfg) salt r (set_sched sch o) fuel).
Proof. exact workers_neutral. Qed.
Print Assumptions C14_workers_neutral_partial.

Theorem C14_completion_order_neutral : forall code pl cfg n sch sch' salt r o fuel,
  (forall a b l, Permutation (sch a b l) l) -> (forall a b l, Permutation (sch' a b l) l) ->
  c_clean (out_core (fst (optimise code pl (set_n_jobs n cfg) salt r (set_sched sch o) fuel))) = true ->
  fst (optimise code pl (set_n_jobs n cfg) salt r (set_sched sch' o) fuel) =
  fst (optimise code pl (set_n_jobs n cfg) salt r (set_sched sch o) fuel).
Proof. exact completion_order_neutral. Qed.
Print Assumptions C14_completion_order_neutral.

Theorem C14_workers_neutral_isolated : forall pl cfg n n' sch sch' salt r o fuel,
  (forall a b l, Permutation (sch a b l) l) -> (forall a b l, Permutation (sch' a b l) l) ->
  c_clean (out_core (fst (optimise isolated_code pl (set_n_jobs n cfg) salt r (set_sched sch o) fuel))) = true ->
  fst (optimise isolated_code pl (set_n_jobs n' cfg) salt r (set_sched sch' o) fuel) =
  fst (optimise isolated_code pl (set_n_jobs n cfg) salt r (set_sched sch o) fuel).
Proof. exact workers_neutral_isolated. Qed.
Print Assumptions C14_workers_neutral_isolated.

(* n_jobs = 1 against n_jobs = 2, tree as it is, identifier source = urandom_mock: joblib draws
   1 resp. 4 identifiers per fan-out from the choice stream; both runs are clean, yet identifiers
   and graph structures of the recorded generations differ *)
Theorem C14_workers_one_vs_two_refuted :
  c_clean (out_core (fst (optimise current_code w_platform (set_n_jobs 1 w_par_config) 0 w_rng (w_oracles None) 9))) = true
  /\ c_clean (out_core (fst (optimise current_code w_platform (set_n_jobs 2 w_par_config) 0 w_rng (w_oracles None) 9))) = true
  /\ c_created (out_core (fst (optimise current_code w_platform (set_n_jobs 1 w_par_config) 0 w_rng (w_oracles None) 9)))
     <> c_created (out_core (fst (optimise current_code w_platform (set_n_jobs 2 w_par_config) 0 w_rng (w_oracles None) 9)))
  /\ map (fun cl => map E.gr (snd cl))
         (c_calls (out_core (fst (optimise current_code w_platform (set_n_jobs 1 w_par_config) 0 w_rng (w_oracles None) 9))))
     <> map (fun cl => map E.gr (snd cl))
         (c_calls (out_core (fst (optimise current_code w_platform (set_n_jobs 2 w_par_config) 0 w_rng (w_oracles None) 9)))).
Proof. exact workers_one_vs_two_refuted. Qed.
Print Assumptions C14_workers_one_vs_two_refuted.

(* the distinct-uid hypothesis cannot be dropped *)
Theorem C14_workers_duplicate_uids_sensitive :
  c_clean (out_core (fst (optimise current_code w_platform (set_n_jobs 2 w_par_config) 0 w_const_rng
                                   (set_sched (fun _ _ l => l) (w_oracles None)) 9))) = false
  /\ c_calls (out_core (fst (optimise current_code w_platform (set_n_jobs 2 w_par_config) 0 w_const_rng
                                      (set_sched (fun _ _ l => l) (w_oracles None)) 9)))
     <> c_calls (out_core (fst (optimise current_code w_platform (set_n_jobs 2 w_par_config) 0 w_const_rng
                                         (set_sched (fun _ _ l => rev l) (w_oracles None)) 9))).
Proof. exact workers_duplicate_uids_sensitive. Qed.
Print Assumptions C14_workers_duplicate_uids_sensitive.

(* ---- (3) uid_source_single_stream: with os.urandom replaced by urandom_mock every identifier the
   run creates is the encoding of uid_len consecutive outputs of the one choice stream (offset j),
   so seeding the stream fixes the identifiers; the lineage is keyed by exactly these ---- *)
Theorem C14_uid_source_single_stream : forall code pl cfg salt s o fuel,
  Forall (fun u => exists j, u = encode pl (to_bytes (window (uid_len pl) j s)))
         (c_created (out_core (fst (optimise code pl cfg salt {| r_stream := s; r_ids := Mocked |} o fuel)))).
Proof. exact uid_source_single_stream. Qed.
Print Assumptions C14_uid_source_single_stream.

Theorem C14_lineage_keys_are_created : forall code pl cfg salt r o fuel,
  let c := out_core (fst (optimise code pl cfg salt r o fuel)) in
  Forall (is_window pl (src r)) (c_created c) /\ map fst (c_lineage c) = c_created c.
Proof. exact uid_source_gen. Qed.
Print Assumptions C14_lineage_keys_are_created.

(* seeding `random` alone (set_random_seed, GOLEM(seed=...)) does not fix the identifiers *)
Theorem C14_uid_source_unmocked : forall code pl cfg salt s e o fuel,
  Forall (fun u => exists j, u = encode pl (to_bytes (window (uid_len pl) j e)))
         (c_created (out_core (fst (optimise code pl cfg salt {| r_stream := s; r_ids := OsEntropy e |} o fuel)))).
Proof. exact uid_source_unmocked. Qed.
Print Assumptions C14_uid_source_unmocked.

Theorem C14_uid_source_unmocked_sensitive :
  c_created (out_core (fst (optimise current_code w_platform w_config 0
                                     {| r_stream := r_stream w_rng; r_ids := OsEntropy [1; 1; 1; 1] |} (w_oracles None) 9)))
  <> c_created (out_core (fst (optimise current_code w_platform w_config 0
                                        {| r_stream := r_stream w_rng; r_ids := OsEntropy [2; 2; 2; 2] |} (w_oracles None) 9))).
Proof. exact uid_source_unmocked_sensitive. Qed.
Print Assumptions C14_uid_source_unmocked_sensitive.

(* ---- (4) same_inputs_same_history: DEFINITIONAL (congruence of a function); listed to make the
   inputs explicit - the hash salt is one of them ---- *)
Theorem C14_same_inputs_same_history : forall code pl cfg cfg' salt salt' r r' o o' fuel,
  cfg = cfg' -> salt = salt' -> r = r' -> o = o' ->
  optimise code pl cfg salt r o fuel = optimise code pl cfg' salt' r' o' fuel.
Proof. exact same_inputs_same_history. Qed.
Print Assumptions C14_same_inputs_same_history.

Theorem C14_salt_sensitive :
  c_lineage (out_core (fst (optimise current_code w_platform w_config 0 w_rng w_salty_oracles 9)))
  <> c_lineage (out_core (fst (optimise current_code w_platform w_config 1 w_rng w_salty_oracles 9))).
Proof. exact salt_sensitive. Qed.
Print Assumptions C14_salt_sensitive.

(* ---- non-vacuity: the hypotheses are satisfiable by runs that do something ---- *)
(* a clean parallel run with 2 workers that records 4 generations, creates 4 identifiers and
   returns; reversed completion order gives the same outcome (instance of the theorem) *)
Example C14_ex_clean_parallel_run :
  let out := fst (optimise current_code w_platform (set_n_jobs 2 w_par_config) 0 w_rng
                           (set_sched (fun _ _ l => l) (w_oracles None)) 9) in
  c_clean (out_core out) = true /\ length (c_calls (out_core out)) = 4
  /\ length (c_created (out_core out)) = 4 /\ (exists gs, out_result out = Val gs)
  /\ fst (optimise current_code w_platform (set_n_jobs 4 w_par_config) 0 w_rng
                   (set_sched (fun _ _ l => rev l) (w_oracles None)) 9) = out.
Proof.
  split; [vm_compute; reflexivity | ]. split; [vm_compute; reflexivity | ].
  split; [vm_compute; reflexivity | ]. split; [vm_compute; eexists; reflexivity | ].
  apply C14_workers_neutral_partial; auto; try (vm_compute; reflexivity).
  intros; apply Permutation_sym, Permutation_rev.
Qed.

(* a run whose iteration callback raises inside the loop: same outcome with and without bar *)
Example C14_ex_raising_run :
  out_result (fst (optimise current_code w_platform (set_show_progress false w_config) 0 w_rng (w_oracles (Some 1)) 9))
    = Exc (UserErr 7)
  /\ out_result (fst (optimise current_code w_platform (set_show_progress true w_config) 0 w_rng (w_oracles (Some 1)) 9))
    = Exc (UserErr 7)
  /\ snd (optimise current_code w_platform (set_show_progress false w_config) 0 w_rng (w_oracles (Some 1)) 9)
     <> snd (optimise current_code w_platform (set_show_progress true w_config) 0 w_rng (w_oracles (Some 1)) 9).
Proof. vm_compute. repeat split; discriminate. Qed.

(* the logging level changes the presentation (the log sink), not the outcome *)
Example C14_ex_logging_changes_presentation :
  p_log (snd (optimise current_code w_platform (set_logging_level 10 w_config) 0 w_rng (w_oracles None) 9))
  <> p_log (snd (optimise current_code w_platform (set_logging_level 50 w_config) 0 w_rng (w_oracles None) 9)).
Proof. vm_compute. discriminate. Qed.

(* ---- the oracle of the differential runs decides what it is meant to decide: `holds_clause cl`
   is true of a case iff every other run filed under clause cl has exactly the base run's
   export (uids, fitness values, descriptive ids, node uids, parents, operator kinds and names,
   native generations, generations in order, archive history, returned graphs, outcome) ---- *)
Theorem C14_export_eqb_decides_equality : forall a b, export_eqb a b = true <-> a = b.
Proof. exact export_eqb_eq. Qed.
Print Assumptions C14_export_eqb_decides_equality.

Theorem C14_holds_clause_spec : forall cl cs,
  holds_clause cl cs = true <->
  forall n x, In (cl, (n, x)) (k_others cs) -> x = k_base cs.
Proof. exact holds_clause_spec. Qed.
Print Assumptions C14_holds_clause_spec.
