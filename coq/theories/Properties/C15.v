(* C15 - Run limits are honoured.
   Statements only.  Model: Evo/Limits.v; proofs: Evo/LimitsProofs.v.
   The clock (nat -> Q, minutes since the timer was started), the evolve step (improved?,
   duration, or EvaluationAttemptsError) and the random-search iteration durations are oracles:
   every theorem about the loops holds for all of them.
   "Terminates promptly" is wall time: measured by harness/c15.py, not proved. *)
From Coq Require Import List Bool Arith ZArith QArith String.
From GolemV Require Import Evo.Limits Evo.LimitsProofs.
Import ListNotations.
Local Open Scope nat_scope.

(* ---------------------------------------------------------------------------------------
   (1) never more evolution steps than num_of_generations; one fewer when the initial
       population had to be extended (the extension counts as a generation)
   --------------------------------------------------------------------------------------- *)
Theorem C15_generations_bounded :
  forall (clock : nat -> Q) (init : Q) (evolve : nat -> kstate -> option (bool * nat))
         fuel l extended imp0 imp1 d0 d1 s' n,
  nog l = Some n -> run clock init evolve fuel l extended imp0 imp1 d0 d1 = Some s' ->
  steps s' <= n /\ (extended = true -> steps s' <= n - 1).
Proof. exact run_generations_bounded. Qed.
Print Assumptions C15_generations_bounded.

(* the loop alone, entered in any keeper state: steps made <= (n + 1) - generation_num *)
Theorem C15_generations_bounded_loop :
  forall (clock : nat -> Q) (init : Q) (evolve : nat -> kstate -> option (bool * nat)) fuel l s s' n,
  nog l = Some n -> loop clock init evolve fuel l s = Some s' ->
  steps s' + gen_num (ks s) <= steps s + Nat.max (gen_num (ks s)) (n + 1).
Proof. exact loop_steps_bound. Qed.
Print Assumptions C15_generations_bounded_loop.

Theorem C15_random_search_bounded :
  forall (clock : nat -> Q) (init : Q) (dur : nat -> nat) fuel l t iter' t' n,
  nog l = Some n -> rs_loop clock init dur fuel l 0 t = Some (iter', t') -> iter' <= n.
Proof. exact rs_generations_bounded. Qed.
Print Assumptions C15_random_search_bounded.

(* without a time limit random search performs exactly num_of_generations iterations *)
Theorem C15_random_search_exact :
  forall (clock : nat -> Q) (init : Q) (dur : nat -> nat) fuel l t iter' t' n,
  nog l = Some n -> tmo l = None -> rs_loop clock init dur fuel l 0 t = Some (iter', t') -> iter' = n.
Proof. exact rs_exact. Qed.
Print Assumptions C15_random_search_exact.

(* with a generation limit the loop ends for every oracle (fuel n + 2 suffices), so the
   hypothesis "run ... = Some s'" above is not vacuous *)
Theorem C15_run_terminates :
  forall (clock : nat -> Q) (init : Q) (evolve : nat -> kstate -> option (bool * nat)) l n extended imp0 imp1 d0 d1,
  nog l = Some n -> exists s', run clock init evolve (n + 2) l extended imp0 imp1 d0 d1 = Some s'.
Proof. exact run_terminates. Qed.
Print Assumptions C15_run_terminates.

(* ---------------------------------------------------------------------------------------
   (2) a step starts only if, at the check just before it, the timer test was False, the
       generation bound was not reached, the stagnation count was below its limit and the
       stagnation time below its limit; every started step is in the trace
   --------------------------------------------------------------------------------------- *)
Theorem C15_no_step_after_limit :
  forall (clock : nat -> Q) (init : Q) (evolve : nat -> kstate -> option (bool * nat))
         fuel l extended imp0 imp1 d0 d1 s',
  run clock init evolve fuel l extended imp0 imp1 d0 d1 = Some s' ->
  List.length (trace s') = steps s' /\
  forall k i, In (k, i) (trace s') ->
    opt_timer_reached (tmo l) init (clock i) (Some (Z.of_nat (gen_num k) - 1)%Z) = false /\
    (forall n, nog l = Some n -> gen_num k <= n) /\
    (forall m, max_stag_len l = Some m -> stag k < m) /\
    (forall e, est l = Some e -> (stag_duration (clock i) (stag_start k) < e)%Q).
Proof. exact run_no_step_after_limit. Qed.
Print Assumptions C15_no_step_after_limit.

(* the limit used by the stagnation test is the configured early_stopping_iterations (>= 1) *)
Theorem C15_stagnation_limit_is_configured : forall l m, esi l = Some (S m) -> max_stag_len l = Some (S m).
Proof. exact max_stag_len_esi. Qed.
Print Assumptions C15_stagnation_limit_is_configured.

(* a False timer test means: positive budget and elapsed time still below it *)
Theorem C15_step_within_time_budget : forall t init minutes i,
  opt_timer_reached (Some t) init minutes (Some i) = false ->
  (init <= minutes)%Q -> (0 <= i)%Z -> (0 < t)%Q /\ (minutes < t)%Q.
Proof. exact timer_false_within_budget. Qed.
Print Assumptions C15_step_within_time_budget.

(* conversely each reached limit makes the stop test answer True *)
Theorem C15_reached_limit_stops : forall l init t1 t2 k,
  (forall n, nog l = Some n -> n < gen_num k -> stop_test l init t1 t2 k = true) /\
  (forall m, esi l = Some (S m) -> S m <= stag k -> stop_test l init t1 t2 k = true) /\
  (forall e, est l = Some e -> (e <= stag_duration t2 (stag_start k))%Q -> stop_test l init t1 t2 k = true) /\
  (forall t, tmo l = Some t -> ((t <= 0)%Q \/ ((t <= t1)%Q /\ (init <= t1)%Q /\ 1 <= gen_num k)) ->
             stop_test l init t1 t2 k = true).
Proof.
  intros. repeat split; intros.
  - eapply stop_test_gen; eauto.
  - eapply stop_test_stag; eauto.
  - eapply stop_test_stagtime; eauto.
  - eapply stop_test_time; eauto.
Qed.
Print Assumptions C15_reached_limit_stops.

(* ---------------------------------------------------------------------------------------
   (3) a time budget that is zero (or negative) or already used up when the loop is reached:
       no evolution step at all
   --------------------------------------------------------------------------------------- *)
Theorem C15_zero_budget_no_step :
  forall (clock : nat -> Q) (init : Q) (evolve : nat -> kstate -> option (bool * nat))
         fuel l extended imp0 imp1 d0 d1 t,
  tmo l = Some t ->
  let s0 := initial_state clock extended imp0 imp1 d0 d1 in
  ((t <= 0)%Q \/ ((t <= clock (now s0))%Q /\ (init <= clock (now s0))%Q)) ->
  run clock init evolve (S fuel) l extended imp0 imp1 d0 d1 = Some s0 /\ steps s0 = 0 /\ trace s0 = [].
Proof. exact run_zero_budget. Qed.
Print Assumptions C15_zero_budget_no_step.

Theorem C15_zero_budget_random_search :
  forall (clock : nat -> Q) (init : Q) (dur : nat -> nat) fuel l t0 t,
  tmo l = Some t -> ((t <= 0)%Q \/ ((t <= clock t0)%Q /\ (init <= clock t0)%Q)) ->
  rs_loop clock init dur (S fuel) l 0 t0 = Some (0, t0).
Proof. exact rs_zero_budget. Qed.
Print Assumptions C15_zero_budget_random_search.

(* ---------------------------------------------------------------------------------------
   (4) every combination of None / value of the four stop options is accepted: evaluated over
       untyped python values (where >= between unlike kinds is a TypeError) the stop test of
       the code as it is now returns the boolean of the typed model
   --------------------------------------------------------------------------------------- *)
Theorem C15_stop_options_total : forall l init t1 t2 s,
  d_stop_test (dyn_of l) init t1 t2 s = Ok (stop_test l init t1 t2 s).
Proof. exact stop_options_total. Qed.
Print Assumptions C15_stop_options_total.

(* the condition before the repair (early_stopping_timeout or timer.timeout) raised *)
Theorem C15_stop_pinned_refuted :
  exists l init t1 t2 s, d_stop_test_pinned (dyn_of l) init t1 t2 s = Raise TypeError.
Proof. exact stop_pinned_refuted. Qed.
Print Assumptions C15_stop_pinned_refuted.

(* GroupedCondition: conditions after the first True are not called *)
Theorem C15_grouped_short_circuit : forall pre post,
  forallb negb pre = true ->
  grouped_any (map (@Ok bool) pre ++ Ok true :: post) = (Ok true, S (List.length pre)).
Proof. exact grouped_any_short_circuit. Qed.
Print Assumptions C15_grouped_short_circuit.

(* ---------------------------------------------------------------------------------------
   (5) population size schedules, depth schedule, diversity refill
   --------------------------------------------------------------------------------------- *)
Local Open Scope Z_scope.

Theorem C15_const_rate_bounds : forall initial rate maxp len,
  (forall m, truthy_max maxp = Some m -> const_rate_next initial rate maxp len <= m) /\
  (0 <= len -> (0 <= rate)%Q ->
   match truthy_max maxp with
   | Some m => Z.min (Z.max len initial) m <= const_rate_next initial rate maxp len
   | None => Z.max len initial <= const_rate_next initial rate maxp len
   end).
Proof.
  intros. split.
  - intros m E. exact (const_rate_le_max initial rate maxp len m E).
  - exact (const_rate_ge_prev initial rate maxp len).
Qed.
Print Assumptions C15_const_rate_bounds.

Theorem C15_adaptive_bounds : forall it maxp len a q c it' v,
  adaptive_next it maxp len a q c = (it', Ok v) ->
  match truthy_max maxp with
  | Some m => v <= m /\ (MIN_POP_SIZE <= m -> MIN_POP_SIZE <= v)
  | None => MIN_POP_SIZE <= v
  end.
Proof. exact adaptive_next_bounds. Qed.
Print Assumptions C15_adaptive_bounds.

Theorem C15_adaptive_initial_le_max : forall pop_size m it v,
  adaptive_make pop_size (Some m) = (it, Ok v) -> 1 <= m -> pop_size <= m -> v <= m.
Proof. exact adaptive_initial_le_max. Qed.
Print Assumptions C15_adaptive_initial_le_max.

Theorem C15_depth_bounded : forall adaptive max_depth max_stag stags start d,
  In d (depth_run adaptive max_depth max_stag start stags) -> d <= Z.max start max_depth.
Proof. exact depth_run_bounded. Qed.
Print Assumptions C15_depth_bounded.

Theorem C15_diversity_refill_le_max : forall maxp m unique,
  truthy_max maxp = Some m -> unique <= m -> diversity_refill maxp unique <= m.
Proof. exact diversity_refill_le_max. Qed.
Print Assumptions C15_diversity_refill_le_max.

(* the refill before the repair lifted a population of 2 to 5 under max_pop_size = 3 *)
Theorem C15_diversity_refill_pinned_refuted : exists m unique, unique <= m /\ m < diversity_refill_pinned unique.
Proof. exact diversity_refill_pinned_refuted. Qed.
Print Assumptions C15_diversity_refill_pinned_refuted.

(* ---------------------------------------------------------------------------------------
   (6) the facade: each limit arrives unchanged in exactly one parameter object
   --------------------------------------------------------------------------------------- *)
Theorem C15_api_params_faithful : forall cpu timeout n_jobs kwargs out k d v,
  facade cpu timeout n_jobs kwargs = Ok out ->
  In (k, d) limit_keys -> lookup k kwargs = Some v ->
  only_in d out k v = true.
Proof. exact api_params_faithful. Qed.
Print Assumptions C15_api_params_faithful.

Theorem C15_api_timeout_faithful : forall cpu timeout n_jobs kwargs out,
  facade cpu timeout n_jobs kwargs = Ok out ->
  match timeout with
  | ANum q => only_in DReq out "timeout" (ADelta q) = true
  | ADelta q => only_in DReq out "timeout" (ADelta q) = true
  | ANone => only_in DReq out "timeout" ANone = true
  | AOpaque _ => False
  end.
Proof. exact api_timeout_faithful. Qed.
Print Assumptions C15_api_timeout_faithful.

(* the worker count arrives in the requirements as determine_n_jobs(n_jobs): k unchanged for
   1 <= k <= cpu count, -1 = all cpus *)
Theorem C15_api_n_jobs_faithful : forall cpu timeout n_jobs kwargs out,
  facade cpu timeout n_jobs kwargs = Ok out ->
  exists nj, determine_n_jobs cpu n_jobs = Ok nj /\ only_in DReq out "n_jobs" (ANum (inject_Z nj)) = true.
Proof. exact api_n_jobs_faithful. Qed.
Print Assumptions C15_api_n_jobs_faithful.

(* a limit the facade was not given reaches none of the parameter objects (the field keeps the default of its
   class): the facade is a function of its own arguments only *)
Theorem C15_api_unset_stays_unset : forall cpu timeout n_jobs kwargs out d k,
  facade cpu timeout n_jobs kwargs = Ok out -> lookup k kwargs = None ->
  String.eqb k "timeout" = false -> String.eqb k "n_jobs" = false ->
  lookup_in d out k = None.
Proof. exact api_unset_stays_unset. Qed.
Print Assumptions C15_api_unset_stays_unset.

Theorem C15_determine_n_jobs_spec : forall cpu n, 1 <= cpu ->
  (1 <= n <= cpu -> determine_n_jobs cpu n = Ok n) /\
  (- cpu <= n <= -1 -> determine_n_jobs cpu n = Ok (cpu + 1 + n)) /\
  (cpu < n -> determine_n_jobs cpu n = Ok cpu) /\
  (n = 0 \/ n < - cpu -> determine_n_jobs cpu n = Raise ValueError).
Proof. exact determine_n_jobs_spec. Qed.
Print Assumptions C15_determine_n_jobs_spec.

Theorem C15_facade_accepts : forall cpu timeout n_jobs kwargs, 1 <= cpu ->
  (1 <= n_jobs <= cpu \/ - cpu <= n_jobs <= -1 \/ cpu < n_jobs) ->
  (forall x, timeout <> AOpaque x) ->
  exists out, facade cpu timeout n_jobs kwargs = Ok out.
Proof. exact facade_accepts. Qed.
Print Assumptions C15_facade_accepts.

(* the facade before the repair: timeout = None raised, the worker count never arrived *)
Theorem C15_facade_pinned_refuted :
  facade_pinned ANone [] = Raise TypeError /\
  exists out, facade_pinned (ANum 1) [] = Ok out /\ lookup_in DReq out "n_jobs" = None.
Proof. exact facade_pinned_refuted. Qed.
Print Assumptions C15_facade_pinned_refuted.

(* ---------------------------------------------------------------------------------------
   the unit-level clauses evaluated on the implementation (uholds) are satisfied by the model
   --------------------------------------------------------------------------------------- *)
Theorem C15_model_satisfies_unit_clauses :
  (forall l s t, uholds (UStop l s t (Some (stop_test l 0 t t s))) = true) /\
  (forall initial rate maxp len, 0 <= len ->
     uholds (UConst initial rate maxp len (const_rate_next initial rate maxp len)) = true) /\
  (forall maxp unique, uholds (UDiversity maxp unique (diversity_refill maxp unique)) = true).
Proof.
  split; [exact model_stop_test_holds|]. split; [exact model_const_rate_holds|exact model_diversity_holds].
Qed.
Print Assumptions C15_model_satisfies_unit_clauses.

(* the keeper's stagnation clock restarts exactly on the first recorded population and on improving ones, and
   within a day the reported stagnation time is the elapsed time since then cut to whole seconds: the clause
   checked on the real GenerationKeeper under a controlled clock holds of the model for every append sequence *)
Theorem C15_keeper_stagnation_clock : forall t_create apps,
  uholds (UKeeper t_create apps (keeper_run (keeper_init t_create) apps)) = true.
Proof. exact model_keeper_clock_holds. Qed.
Print Assumptions C15_keeper_stagnation_clock.

Theorem C15_stagnation_time_whole_seconds : forall now start,
  (0 <= now - start)%Q -> (now - start < 1440)%Q ->
  (stag_duration now start <= now - start)%Q /\ (now - start - (1 # 60) < stag_duration now start)%Q.
Proof. exact stag_duration_bounds. Qed.
Print Assumptions C15_stagnation_time_whole_seconds.

(* the boolean clauses evaluated on observed runs (rcheck) decide the stated properties *)
Theorem C15_run_oracle_decides : forall r,
  (h_generations r = true <->
     forall n, nog (r_lim r) = Some n ->
       (List.length (r_evolved_sizes r) <= n /\ r_started r <= n /\ r_iters r <= n)%nat) /\
  (h_stagnation r = true <->
     forall a b, In (a, b) (step_pairs (r_pops r)) ->
       (forall m, esi (r_lim r) = Some (S m) -> (p_stag a < S m)%nat) /\
       (forall e, est (r_lim r) = Some e -> (p_stagdur a < e)%Q)) /\
  (h_zero_budget r = true <->
     forall t, tmo (r_lim r) = Some t -> (t <= 0)%Q ->
       r_evolved_sizes r = [] /\ r_started r = 0%nat /\ r_iters r = 0%nat /\ r_wall_ms r <= PROMPT_MS) /\
  (h_max_pop r = true <->
     forall m, truthy_max (r_maxpop r) = Some m -> forall n, In n (r_evolved_sizes r) -> Z.of_nat n <= m).
Proof.
  intro r. split; [exact (h_generations_spec r)|]. split; [exact (h_stagnation_spec r)|].
  split; [exact (h_zero_budget_spec r)|exact (h_max_pop_spec r)].
Qed.
Print Assumptions C15_run_oracle_decides.

(* ---------------------------------------------------------------------------------------
   non-vacuity
   --------------------------------------------------------------------------------------- *)
Local Open Scope nat_scope.

Definition ex_clock (i : nat) : Q := inject_Z (Z.of_nat i) / 4.          (* a quarter minute per instant *)
Definition ex_evolve (step : nat) (k : kstate) : option (bool * nat) := Some (Nat.even step, 1).

(* num_of_generations = 3, extended initial population: exactly 2 steps, both in the trace *)
Example run_extended_example :
  let l := {| nog := Some 3; esi := None; est := None; tmo := Some 10%Q |} in
  match run ex_clock 0 ex_evolve 5 l true true false 1 1 with
  | Some s' => steps s' = 2 /\ gen_num (ks s') = 4 /\ List.length (trace s') = 2
  | None => False
  end.
Proof. vm_compute. repeat split. Qed.

(* early stopping after 2 stagnating generations stops a run that could do 9 steps *)
Example run_stagnation_example :
  let l := {| nog := Some 9; esi := Some 2; est := None; tmo := None |} in
  match run ex_clock 0 (fun _ _ => Some (false, 1)) 12 l false true false 1 1 with
  | Some s' => steps s' = 2 /\ stag (ks s') = 2
  | None => False
  end.
Proof. vm_compute. repeat split. Qed.

(* the time limit with the per-iteration extrapolation stops a run without generation limit *)
Example run_timeout_example :
  let l := {| nog := None; esi := None; est := None; tmo := Some 2%Q |} in
  match run ex_clock 0 ex_evolve 30 l false true false 1 1 with
  | Some s' => steps s' = 6 /\ (ex_clock (now s') < 2)%Q
  | None => False
  end.
Proof. vm_compute. repeat split. Qed.

(* zero budget: hypotheses of C15_zero_budget_no_step hold, no step *)
Example zero_budget_example :
  let l := {| nog := Some 5; esi := None; est := None; tmo := Some 0%Q |} in
  match run ex_clock 0 ex_evolve 3 l true true false 1 1 with
  | Some s' => steps s' = 0 /\ gen_num (ks s') = 2
  | None => False
  end.
Proof. vm_compute. repeat split. Qed.

(* python `or`: early_stopping_iterations = 0 falls back to num_of_generations *)
Example or_on_zero_example :
  max_stag_len {| nog := Some 4; esi := Some 0; est := None; tmo := None |} = Some 4.
Proof. reflexivity. Qed.

Example adaptive_example :
  let '(it, i) := adaptive_make 6%Z (Some 6%Z) in
  i = Ok 3%Z /\ snd (adaptive_next it (Some 6%Z) 3%Z false false false) = Ok 5%Z.
Proof. vm_compute. split; reflexivity. Qed.

Example facade_example :
  match facade 16 (ANum 2) (-1)
          [("pop_size", ANum 6); ("num_of_generations", ANum 7); ("objective", AOpaque 1)]%string with
  | Ok o => only_in DGp o "pop_size" (ANum 6) = true /\ only_in DReq o "num_of_generations" (ANum 7) = true
            /\ lookup "timeout" (to_req o) = Some (ADelta 2) /\ lookup "n_jobs" (to_req o) = Some (ANum 16)
            /\ dynamic_req o = true
  | Raise _ => False
  end.
Proof. vm_compute. repeat split. Qed.
