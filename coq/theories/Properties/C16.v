(* C16 - Selection, inheritance and elitism only reshuffle individuals within size limits.
   Only statements, closed by `exact` (short glue allowed), each followed by Print Assumptions.
   Models: Evo/Selection.v, Elitism.v, Inheritance.v, Reproduction.v; proofs: Evo/*Proofs.v.
   Every theorem quantifies over ALL oracles (sampled groups, shuffle choices, SPEA-2 density
   ranks / truncated positions, what the evaluator returns, float rounding of the size estimate). *)
From Coq Require Import List Bool Arith QArith Permutation.
From GolemV Require Import Fitness.Fitness Evo.Selection Evo.SelectionProofs Evo.Elitism Evo.ElitismProofs
     Evo.Inheritance Evo.InheritanceProofs Evo.Reproduction Evo.ReproductionProofs.
Import ListNotations.
Local Open Scope nat_scope.

(* (1) selection never raises, returns only individuals of its input; with >= 2 distinct
   individuals: no repeats and exactly min(requested, distinct); with exactly one: that
   individual replicated to the requested size *)
Theorem C16_selection_contract : forall t o population pop_size,
  exists out, select t o population pop_size = Some out /\
    incl out population /\
    (2 <= n_distinct population ->
       NoDup (map uid out) /\ length out = Nat.min pop_size (n_distinct population)) /\
    (n_distinct population = 1 -> exists x, In x population /\ out = repeat x pop_size).
Proof. exact (selection_contract_g better dom). Qed.
Print Assumptions C16_selection_contract.

(* the same through Selection.__call__ (pop_size None / 0 = the configured size) *)
Theorem C16_selection_call_contract : forall t o default_size population pop_size,
  let n := if Nat.eqb pop_size 0 then default_size else pop_size in
  exists out, selection_call t o default_size population pop_size = Some out /\
    incl out population /\
    (2 <= n_distinct population -> NoDup (map uid out) /\ length out = Nat.min n (n_distinct population)) /\
    (n_distinct population = 1 -> exists x, In x population /\ out = repeat x n).
Proof. intros t o d population ps. exact (selection_contract_g better dom t o population _). Qed.
Print Assumptions C16_selection_call_contract.

(* the number of distinct individuals is the length of the uid-keyed dictionary *)
Theorem C16_distinct_is_dedup : forall l, length (dedup l) = n_distinct l /\ NoDup (map uid (dedup l)) /\
  (forall u, In u (map uid (dedup l)) <-> In u (map uid l)) /\ incl (dedup l) l.
Proof.
  intros l. split; [apply dedup_length|]. split; [apply dedup_NoDup|]. split; [apply dedup_uids|].
  intros x. apply dedup_In.
Qed.
Print Assumptions C16_distinct_is_dedup.

(* (2) tournament: exactly pop_size rounds; every group is a sample of the required size of
   the individuals not chosen so far; every winner is a best element of its group (nothing in
   the group is better) whenever > is a strict weak order on the population *)
Theorem C16_tournament_exact : forall rounds inds pop_size,
  NoDup (map uid inds) -> pop_size <= length inds -> 1 <= length inds -> swo_on better inds ->
  exists tr, tournament_trace better rounds inds pop_size = Some tr /\
             tournament better rounds inds pop_size = Some (map snd tr) /\
             length tr = pop_size /\
             tour_rounds better (group_size (length inds)) inds tr /\
             forall g b, In (g, b) tr -> In b g /\ incl g inds /\ forall x, In x g -> better x b = false.
Proof.
  intros rounds inds pop_size ND H1 H2 S.
  destruct (tournament_total better rounds inds pop_size ND H1 H2) as (tr & E1 & E2 & L & Rd & _).
  exists tr. repeat split; auto; eapply (tour_rounds_best better _ inds tr S Rd); eauto.
Qed.
Print Assumptions C16_tournament_exact.

(* > of the fitness model IS a strict weak order on populations of valid fitness values of one
   class whose components are identical or clearly separated (C09) *)
Theorem C16_better_strict_weak_order : forall l, sep_pop l -> swo_on better l.
Proof. exact better_swo_on_separated. Qed.
Print Assumptions C16_better_strict_weak_order.

(* (3) SPEA-2: raw fitness 0 <-> non-dominated; every non-dominated individual is selected
   whenever the non-dominated ones all fit *)
Theorem C16_nondominated_iff_raw_zero : forall inds kp,
  In kp (keyed dom inds) -> (fst kp = 0 <-> nondominated dom inds (snd (snd kp)) = true).
Proof.
  intros inds kp H. rewrite <- (front_iff_nondominated dom inds kp dom_asym H).
  unfold is_front. symmetry. apply Nat.eqb_eq.
Qed.
Print Assumptions C16_nondominated_iff_raw_zero.

Theorem C16_spea2_keeps_front : forall o population pop_size out x,
  select Spea2 o population pop_size = Some out ->
  length (filter (nondominated dom (dedup population)) (dedup population)) <= pop_size ->
  In x (dedup population) -> nondominated dom (dedup population) x = true -> In x out.
Proof. intros o population pop_size out x. exact (spea2_keeps_front_g better dom o population pop_size out x dom_asym). Qed.
Print Assumptions C16_spea2_keeps_front.

(* (4) inheritance never raises, draws from prev + new, returns at most pop_size individuals
   (sizes >= 1); steady-state / parameter-free: no individual twice whenever prev and new are
   individually repeat-free (a single survivor is returned ONCE - the replication exception of the
   property text is for Selection only) or at least two distinct individuals exist (selection
   merges repeated uids), and then exactly min(pop_size, distinct) individuals; generational:
   the first pop_size of new, repeat-free whenever new is *)
Theorem C16_inheritance_contract : forall sc t o pop_size prev new,
  exists out, inherit sc t o pop_size prev new = Some out /\
    incl out (prev ++ new) /\ (1 <= pop_size -> length out <= pop_size) /\
    match sc with
    | Generational => out = firstn pop_size new /\ (NoDup (map uid new) -> NoDup (map uid out))
    | _ => (2 <= n_distinct (prev ++ new) ->
              NoDup (map uid out) /\ length out = Nat.min pop_size (n_distinct (prev ++ new))) /\
           (NoDup (map uid prev) -> NoDup (map uid new) ->
              NoDup (map uid out) /\
              (1 <= pop_size -> length out = Nat.min pop_size (n_distinct (prev ++ new))))
    end.
Proof. exact (inheritance_contract_g better dom). Qed.
Print Assumptions C16_inheritance_contract.

(* (5) elitism draws from best + new; on repeat-free inputs it returns |new| individuals
   without repeats; keep_n_best always keeps the archive head when elitism applies and
   |new| >= 1; replace_worst keeps it under the exact guard "fewer than |new| members of
   best ++ new' are strictly better than the head" *)
Theorem C16_elitism_contract : forall p cs best new,
  let out := elitism p cs best new in
  incl out (best ++ new) /\
  (NoDup (map uid new) -> length out = length new) /\
  (NoDup (map uid best) -> NoDup (map uid new) -> NoDup (map uid out)) /\
  (forall h, applies p = true -> 1 <= length new -> hd_error best = Some h ->
             e_type p = KeepNBest \/ ahead_of_head worse best new < length new -> In h out).
Proof. exact (elitism_contract_g worse). Qed.
Print Assumptions C16_elitism_contract.

(* the unguarded clause "the best archived individual is always part of the next population"
   is false for replace_worst (known finding C16.replace_worst.head_dropped_when_all_new_better) *)
Theorem C16_elitism_head_refuted :
  exists p cs best new h,
    applies p = true /\ 1 <= length new /\ NoDup (map uid best) /\ NoDup (map uid new) /\
    hd_error best = Some h /\ ~ In h (elitism p cs best new).
Proof. exact elitism_head_refuted. Qed.
Print Assumptions C16_elitism_head_refuted.

(* what replace_worst does guarantee: kept ++ left-out is best ++ new' rearranged, and nothing
   that is kept is worse than anything left out (so a best individual of archive + new stays) *)
Theorem C16_replace_worst_keeps_top : forall best new,
  swo_on worse (rw_pop best new) ->
  let kept := replace_worst best new in
  let left_out := skipn (length new) (sort_desc worse (rw_pop best new)) in
  Permutation (kept ++ left_out) (rw_pop best new) /\
  forall x y, In x kept -> In y left_out -> worse x y = false.
Proof.
  intros best new S. split; [apply replace_worst_partition|apply replace_worst_keeps_top, S].
Qed.
Print Assumptions C16_replace_worst_keeps_top.

Theorem C16_worse_strict_weak_order : forall l, valid_pop l -> swo_on worse l.
Proof. exact worse_swo_on_valid. Qed.
Print Assumptions C16_worse_strict_weak_order.

(* (6) reproduction, for every evaluator / operator behaviour (`partial`) and every rounding of
   the size estimate (`under`), with 0 <= required_valid_ratio <= 1: a returned population has
   distinct uids, only individuals the evaluator returned, at most the target size and at
   least required_valid_ratio / 2 of it; otherwise EvaluationAttemptsError *)
Theorem C16_reproduce_contract : forall p pop_len partial under w,
  ratio_ok p ->
  match fst (fst (reproduce p pop_len partial under w)) with
  | RetOk l => NoDup (map uid l) /\ length l <= r_target p /\ enough_min p (length l) = true /\
               forall x, In x l -> exists i s, In x (partial i s)
  | RaiseAttempts => True
  end.
Proof. intros p pop_len partial under w R. exact (reproduce_contract_g p pop_len partial under R w). Qed.
Print Assumptions C16_reproduce_contract.

(* "evaluated": everything returned went through the evaluator, so an evaluator that returns
   only evaluated individuals (C05) yields an evaluated population *)
Theorem C16_reproduce_evaluated : forall p pop_len partial under w l,
  ratio_ok p -> (forall i s x, In x (partial i s) -> evaluated x = true) ->
  fst (fst (reproduce p pop_len partial under w)) = RetOk l -> forallb evaluated l = true.
Proof.
  intros p pop_len partial under w l R Hev E.
  pose proof (reproduce_contract_g p pop_len partial under R w) as H. rewrite E in H.
  destruct H as (_ & _ & _ & F). apply forallb_forall. intros x Hx. destruct (F x Hx) as (i & s & Hi).
  eapply Hev, Hi.
Qed.
Print Assumptions C16_reproduce_evaluated.

(* the dedicated error is raised only after every attempt was used and the distinct
   individuals delivered by the evaluator stay below the documented minimum *)
Theorem C16_reproduce_error_only_when_too_few : forall p pop_len partial under w w' ss,
  reproduce p pop_len partial under w = (RaiseAttempts, w', ss) ->
  length ss = r_attempts p /\ enough_min p (length (collect_all partial 0 ss [])) = false.
Proof. intros p pop_len partial under. exact (reproduce_raise_g p pop_len partial under). Qed.
Print Assumptions C16_reproduce_error_only_when_too_few.

(* ---------- the correspondence relation and the executable clauses vs the theorems ---------- *)
(* `tour_admits` (the rank condition the driver evaluates on observed tournament outputs) is
   exactly "produced by some run of the tournament loop": sound for every comparison, complete
   on strict weak orders *)
Theorem C16_tour_admits_sound : forall gsize, 1 <= gsize -> forall out inds,
  NoDup (map uid inds) -> tour_admits better gsize inds out = true ->
  exists tr, tour_rounds better gsize inds tr /\ inds_eqb out (map snd tr) = true.
Proof. exact (tour_admits_sound better). Qed.
Print Assumptions C16_tour_admits_sound.

Theorem C16_tour_admits_complete : forall gsize inds tr,
  NoDup (map uid inds) -> swo_on better inds -> tour_rounds better gsize inds tr ->
  tour_admits better gsize inds (map snd tr) = true.
Proof. exact (tour_admits_complete better). Qed.
Print Assumptions C16_tour_admits_complete.

(* outputs accepted by the SPEA-2 relation are drawn from the individuals, repeat-free, of the
   requested size, and contain every non-dominated individual whenever those all fit *)
Theorem C16_spea2_admits_contract : forall inds pop_size out,
  NoDup (map uid inds) -> spea2_admits dom inds pop_size out = true ->
  (subset_b out inds = true /\ NoDup (map uid out) /\ length out = pop_size) /\
  (length (filter (nondominated dom inds) inds) <= pop_size ->
   forall x, In x inds -> nondominated dom inds x = true -> mem_uid x out = true).
Proof.
  intros inds pop_size out ND H. split; [apply (spea2_admits_contract dom); assumption|].
  intros Hn x Hx Hnd. apply (spea2_admits_keeps_front dom inds pop_size out x dom_asym); assumption.
Qed.
Print Assumptions C16_spea2_admits_contract.

(* whatever the decidable relation `sel_admits` accepts satisfies the executable clauses of the
   property (on populations in which equal uids mean equal individuals): a model / implementation
   agreement implies the property's selection clauses for that output *)
Theorem C16_sel_admits_holds : forall t population pop_size out,
  consistent population -> sel_admits t population pop_size out = true ->
  sel_holds_b t population pop_size out = true.
Proof. exact sel_admits_holds. Qed.
Print Assumptions C16_sel_admits_holds.

(* the executable clauses (`*_holds_b`, evaluated by the driver on the implementation's observed
   outputs) hold of the model's outputs for every oracle, i.e. they ask for nothing beyond
   the theorems above *)
Theorem C16_oracle_holds_of_model : forall o cs population pop_size p best new sc t prev,
  sel_holds_b Tournament population pop_size (select Tournament o population pop_size) = true /\
  eli_holds_b p best new (elitism p cs best new) = true /\
  (e_type p = KeepNBest \/ ahead_of_head worse best new < length new ->
   eli_head_b p best new (elitism p cs best new) = true) /\
  (1 <= pop_size -> inh_holds_b sc pop_size prev new (inherit sc t o pop_size prev new) = true).
Proof.
  intros. split; [apply model_sel_holds_b_tournament|]. split; [apply model_eli_holds_b|].
  split; [apply model_eli_head_b|apply model_inh_holds_b].
Qed.
Print Assumptions C16_oracle_holds_of_model.

Theorem C16_oracle_holds_of_model_reproduction : forall p pop_len parts under w sizes,
  ratio_ok p -> (forall x, In x (concat parts) -> evaluated x = true) ->
  let r := fst (fst (reproduce p pop_len (fun i _ => nth i parts []) under w)) in
  rep_holds_call (Build_rcall p pop_len parts sizes
                    (match r with RetOk l => ORet l | RaiseAttempts => OAttemptsError end)) = true.
Proof. exact model_rep_holds_call. Qed.
Print Assumptions C16_oracle_holds_of_model_reproduction.

(* reflection of the boolean sub-predicates *)
Theorem C16_reflection : forall l out inp x,
  (nodup_uid l = true <-> NoDup (map uid l)) /\
  (mem_uid x l = true <-> In (uid x) (map uid l)) /\
  (subset_b out inp = true <-> forall y, In y out -> exists z, In z inp /\ ind_eqb y z = true).
Proof. intros. split; [apply nodup_uid_iff|]. split; [apply mem_uid_iff|apply subset_b_iff]. Qed.
Print Assumptions C16_reflection.

(* custom selection callables in selection_types are called without the de-duplicating wrapper:
   for EVERY well-behaved user function (distinct members of its input, at most as many as
   requested) inheritance draws from prev + new, returns at most pop_size individuals and, on
   individually repeat-free prev and new, no individual twice - because the steady-state merge
   itself filters prev against new *)
Theorem C16_inheritance_custom_contract : forall f sc pop_size prev new,
  well_behaved f -> 1 <= pop_size ->
  let out := inherit_custom f sc pop_size prev new in
  incl out (prev ++ new) /\ length out <= pop_size /\
  (NoDup (map uid prev) -> NoDup (map uid new) -> NoDup (map uid out)) /\
  inh_custom_holds_b sc pop_size prev new out = true.
Proof.
  intros f sc ps prev new W P. destruct (inheritance_custom_contract f sc ps prev new W) as (A & B & C).
  repeat split; auto. apply model_inh_custom_holds_b; assumption.
Qed.
Print Assumptions C16_inheritance_custom_contract.

Theorem C16_custom_fn_well_behaved : forall c, well_behaved (custom_fn c).
Proof. exact custom_fn_well_behaved. Qed.
Print Assumptions C16_custom_fn_well_behaved.

(* sessions: one operator instance whose shared parameters object is changed in place between
   calls.  The operators are functions of the parameters in force at the call (the model carries
   no state from call to call), so every call of every session satisfies its contract for the
   CURRENT parameters - e.g. elitism that was not applicable at an earlier call keeps the archive
   head as soon as it applies *)
Theorem C16_session_contract : forall calls, Forall2 call_ok calls (run_session calls).
Proof. exact session_contract. Qed.
Print Assumptions C16_session_contract.

(* ---------- non-vacuity: the hypotheses are satisfiable by non-trivial states ---------- *)
Definition e_a := Build_ind 0 (Single (Some (1 # 1)%Q) []).
Definition e_b := Build_ind 1 (Single (Some (1 # 2)%Q) []).
Definition e_c := Build_ind 2 (Single (Some (2 # 1)%Q) []).
Definition e_o := Build_sel_oracle [[1; 0]; [0; 0]] (fun i => i) [0].

Example ex_selection_repeats : n_distinct [e_a; e_b; e_a; e_c; e_b] = 3 /\
  select Tournament e_o [e_a; e_b; e_a; e_c; e_b] 2 = Some [e_b; e_a].
Proof. vm_compute. auto. Qed.
Example ex_selection_single : n_distinct [e_a; e_a] = 1 /\ select Spea2 e_o [e_a; e_a] 3 = Some [e_a; e_a; e_a].
Proof. vm_compute. auto. Qed.
Example ex_sep_pop : sep_pop [e_a; e_b; e_c].
Proof.
  intros a b Ha Hb. simpl in Ha, Hb.
  destruct Ha as [<-|[<-|[<-|[]]]], Hb as [<-|[<-|[<-|[]]]]; vm_compute; auto.
Qed.
Example ex_front_fits : length (filter (nondominated dom [e_a; e_b; e_c]) [e_a; e_b; e_c]) = 1 /\
  select Spea2 e_o [e_a; e_b; e_c] 2 = Some [e_b; e_a].
Proof. vm_compute. auto. Qed.
Example ex_elitism_guard : applies (Build_eparams ReplaceWorst false 5 5) = true /\
  ahead_of_head worse [e_a] [e_b; e_c] = 1 /\ elitism (Build_eparams ReplaceWorst false 5 5) [] [e_a] [e_b; e_c] = [e_b; e_a].
Proof. vm_compute. auto. Qed.
Example ex_valid_pop : valid_pop [e_a; e_b; e_c].
Proof.
  intros a b Ha Hb. simpl in Ha, Hb.
  destruct Ha as [<-|[<-|[<-|[]]]], Hb as [<-|[<-|[<-|[]]]]; vm_compute; auto.
Qed.
Example ex_ratio_ok : ratio_ok (Build_rparams 4 (3 # 4)%Q 5 5).
Proof. split; vm_compute; discriminate. Qed.
(* an evaluator that drops everything after the first attempt: too few -> the error;
   one that delivers: a population *)
Example ex_reproduce_error :
  fst (fst (reproduce (Build_rparams 4 (3 # 4)%Q 5 5) 6 (fun i _ => if Nat.eqb i 0 then [e_a] else []) (fun _ _ => false) [1%Q])) = RaiseAttempts.
Proof. vm_compute. reflexivity. Qed.
Example ex_reproduce_ok :
  fst (fst (reproduce (Build_rparams 4 (3 # 4)%Q 5 5) 6 (fun i _ => if Nat.eqb i 0 then [e_a; e_b] else [e_b; e_c]) (fun _ _ => false) [1%Q])) = RetOk [e_a; e_b; e_c].
Proof. vm_compute. reflexivity. Qed.
(* the relation accepts a real run with repeats and ties, on a consistent population *)
Example ex_admits : sel_admits Tournament [e_a; e_b; e_a; e_c; e_b] 2 (Some [e_b; e_a]) = true /\
  sel_admits Spea2 [e_a; e_b; e_a; e_c; e_b] 2 (Some [e_b; e_a]) = true /\
  sel_admits Tournament [e_a; e_b; e_a; e_c; e_b] 2 (Some [e_c; e_a]) = false.
Proof. vm_compute. auto. Qed.
Example ex_consistent : consistent [e_a; e_b; e_a; e_c; e_b].
Proof.
  intros a b Ha Hb. simpl in Ha, Hb.
  destruct Ha as [<-|[<-|[<-|[<-|[<-|[]]]]]], Hb as [<-|[<-|[<-|[<-|[<-|[]]]]]]; simpl; intros E; try reflexivity; discriminate.
Qed.
(* a session in which elitism does not apply at the first call (pop_size 3 < 5) and applies at
   the second one (pop_size 8): the head e_b is kept then *)
Example ex_session :
  run_session [CallElitism (Build_eparams KeepNBest false 3 5) [] [e_b] [e_a; e_c];
               CallElitism (Build_eparams KeepNBest false 8 5) [] [e_b] [e_a; e_c]]
  = [Some [e_a; e_c]; Some [e_b; e_a]].
Proof. vm_compute. reflexivity. Qed.
(* a survivor (e_b is in prev and in new) with a truncation selection: taken once *)
Example ex_custom_survivor :
  inherit_custom (custom_fn TruncBest) SteadyState 3 [e_b; e_c] [e_b; e_a] = [e_b; e_a; e_c].
Proof. vm_compute. reflexivity. Qed.
(* a single survivor (the only individual of prev is also the only one of new, or new is empty)
   is inherited once, for every requested size *)
Example ex_single_survivor : forall ps,
  inherit SteadyState Tournament e_o ps [e_a] [e_a] = Some [e_a] /\
  inherit ParameterFree Spea2 e_o ps [e_a] [] = Some [e_a].
Proof. intros ps. split; reflexivity. Qed.
