(* C17 - Built-in variation functions are total and structure-preserving on valid DAGs.
   Only statements, closed by `exact`, each followed by Print Assumptions.
   Models: Evo/Mutations.v, Evo/Crossovers.v; proofs: Evo/MutationsProofs.v, Evo/CrossoversProofs.v
   (on top of the LinkedGraph theorems of property C04, Graph/Ops*.v). *)
From Coq Require Import List Bool Arith.
From GolemV Require Import Graph.Heap Graph.Ops Graph.OpsChar Evo.Mutations Evo.MutationsProofs
  Evo.MutationsCounts Evo.Crossovers Evo.CrossoversProofs Evo.SubgraphProofs.
Import ListNotations.

(* ---------------------------------------------------------------- the oracle decides the stated property *)
Theorem C17_domain_reflects : forall h g,
  in_domain (h, g) = true <-> WF h g /\ acyclic h g /\ g <> [].
Proof. exact in_domain_iff. Qed.
Print Assumptions C17_domain_reflects.

Theorem C17_acyclic_reflects : forall h g, WF h g -> (acyc_b h g = true <-> acyclic h g).
Proof. exact acyc_b_iff. Qed.
Print Assumptions C17_acyclic_reflects.

Theorem C17_oracle_sound : forall k h g h' g',
  mut_holds_b k (h, g) (OOk h' g') = true -> WF h g -> acyclic h g -> g <> [] ->
  WF h' g' /\ acyclic h' g' /\ clause_b k h g h' g' = true.
Proof. exact mut_holds_b_sound. Qed.
Print Assumptions C17_oracle_sound.

Theorem C17_oracle_complete : forall k h g h' g',
  WF h' g' -> acyclic h' g' -> clause_b k h g h' g' = true -> mut_holds_b k (h, g) (OOk h' g') = true.
Proof. exact mut_holds_b_complete. Qed.
Print Assumptions C17_oracle_complete.

Theorem C17_oracle_raise : forall k s, in_domain s = true -> mut_holds_b k s ORaise = false.
Proof. exact mut_holds_b_raise. Qed.
Print Assumptions C17_oracle_raise.

Theorem C17_untouched_reflects : forall h g h' g',
  untouched h g h' g' = true <-> g' = g /\ forall r, In r g -> get h' r = get h r.
Proof. exact untouched_iff. Qed.
Print Assumptions C17_untouched_reflects.

(* ---------------------------------------------------------------- no_mutation *)
Theorem C17_none_identity : forall s, run_mut MNone s = Ok s.
Proof. exact none_identity. Qed.
Print Assumptions C17_none_identity.

(* ---------------------------------------------------------------- single_edge_mutation *)
(* the literal ancestor walk: it always answers on an acyclic graph, and `True` means the
   target is not an ancestor of the source *)
Theorem C17_ancestor_walk_total : forall h g src tgt, WF h g -> acyclic h g -> In src g ->
  exists b, nodes_not_cycling h src tgt = Ok b.
Proof. exact not_cycling_total. Qed.
Print Assumptions C17_ancestor_walk_total.

Theorem C17_ancestor_walk_sound : forall h src tgt,
  nodes_not_cycling h src tgt = Ok true -> src <> tgt -> ~ reach h src tgt.
Proof. exact not_cycling_sound. Qed.
Print Assumptions C17_ancestor_walk_sound.

(* for all attempt lists: returns, same member list, WF, acyclic, fields kept, at most one new
   parent link, which was absent and does not close a cycle *)
Theorem C17_single_edge : forall atts h g, WF h g -> acyclic h g -> Forall (att_ok g) atts ->
  exists h', run_mut (MEdge atts) (h, g) = Ok (h', g) /\ WF h' g /\ acyclic h' g /\ same_fields h h' /\
    (h' = h \/ exists src tgt, In src g /\ In tgt g /\ src <> tgt /\ ~ In src (pars h tgt) /\
                               ~ reach h src tgt /\ edge_added h h' src tgt).
Proof. exact single_edge_ok. Qed.
Print Assumptions C17_single_edge.

(* ---------------------------------------------------------------- single_drop_mutation *)
(* every advice, every chosen member: returns a NON-EMPTY well-formed acyclic graph *)
Theorem C17_single_drop : forall v adv extra h g, WF h g -> acyclic h g -> g <> [] -> In v g ->
  NoDup extra -> (forall c, In c extra -> In c g /\ c <> v) ->
  exists h' g', run_mut (MDrop v adv extra) (h, g) = Ok (h', g') /\ WF h' g' /\ acyclic h' g' /\ g' <> [].
Proof. exact single_drop_ok. Qed.
Print Assumptions C17_single_drop.

Theorem C17_single_drop_default_advisor : forall v extra h g, WF h g -> acyclic h g -> In v g -> 2 <= length g ->
  exists h' g', run_mut (MDrop v ARewire extra) (h, g) = Ok (h', g') /\
    (forall r, In r g' <-> In r g /\ r <> v) /\ g' <> [].
Proof. exact single_drop_default. Qed.
Print Assumptions C17_single_drop_default_advisor.

(* ---------------------------------------------------------------- single_change_mutation, simple_mutation *)
Theorem C17_single_change : forall tries h g, WF h g -> acyclic h g ->
  (forall v nn, In (v, Some nn) tries -> In v g /\ fresh_for (h, g) nn) ->
  exists h' g', run_mut (MChange tries) (h, g) = Ok (h', g') /\ WF h' g' /\ acyclic h' g'.
Proof. exact single_change_ok. Qed.
Print Assumptions C17_single_change.

Theorem C17_simple_mutation : forall changes h g, WF h g -> acyclic h g -> changes_ok changes (h, g) ->
  exists h' g', run_mut (MSimple changes) (h, g) = Ok (h', g') /\ WF h' g' /\ acyclic h' g'.
Proof. exact simple_mutation_ok. Qed.
Print Assumptions C17_simple_mutation.

(* ---------------------------------------------------------------- tree_growth, reduce_mutation *)
Theorem C17_tree_growth : forall c h g, WF h g -> acyclic h g ->
  (forall v t, c = Some (v, t) -> In v g /\ tree_ok h t = true) ->
  exists h' g', run_mut (MTree c) (h, g) = Ok (h', g') /\ WF h' g' /\ acyclic h' g'.
Proof. exact tree_growth_ok. Qed.
Print Assumptions C17_tree_growth.

Theorem C17_reduce : forall min_arity tries h g, WF h g -> acyclic h g ->
  (forall v onn, In (v, onn) tries -> In v g) ->
  exists h' g', run_mut (MReduce min_arity tries) (h, g) = Ok (h', g') /\ WF h' g' /\ acyclic h' g'.
Proof. exact reduce_ok. Qed.
Print Assumptions C17_reduce.

(* node replacement keeps the number of nodes and of parent links (the final sort_nodes loses
   no member: a single sink of a parent-closed acyclic graph reaches every member) *)
Theorem C17_single_change_counts : forall tries h g h' g', WF h g -> acyclic h g ->
  (forall v nn, In (v, Some nn) tries -> In v g /\ fresh_for (h, g) nn) ->
  run_mut (MChange tries) (h, g) = Ok (h', g') ->
  length g' = length g /\ length (edges h' g') = length (edges h g).
Proof. exact single_change_fn_counts. Qed.
Print Assumptions C17_single_change_counts.

Theorem C17_same_counts_reflects : forall h g h' g',
  same_counts h g h' g' = true <-> length g' = length g /\ length (edges h' g') = length (edges h g).
Proof. exact same_counts_iff. Qed.
Print Assumptions C17_same_counts_reflects.

(* which members and links the replacement produces *)
Theorem C17_single_change_shape : forall h g v nn h' g', WF h g -> acyclic h g -> In v g ->
  fresh_for (h, g) nn -> replace_node (h, g) v nn = Ok (h', g') ->
  let n := length h in
  (forall x, In x g' -> x = n \/ (In x g /\ x <> v)) /\
  length g' <= length g /\
  (forall x, In x g' -> x <> n -> length (pars h' x) = length (pars h x)) /\
  (In n g' -> length (pars h' n) = length (pars h v)).
Proof. exact single_change_counts_partial. Qed.
Print Assumptions C17_single_change_shape.

(* ---------------------------------------------------------------- single_add_mutation (3 strategies), growth *)
Theorem C17_single_add : forall steps h g, WF h g -> acyclic h g -> steps_ok steps (h, g) ->
  exists h' g', run_mut (MAdd steps) (h, g) = Ok (h', g') /\ WF h' g' /\ acyclic h' g'.
Proof. exact single_add_ok. Qed.
Print Assumptions C17_single_add.

Theorem C17_growth : forall c h g, WF h g -> acyclic h g ->
  match c with
  | GAdd steps => steps_ok steps (h, g)
  | GTree t => forall v tr, t = Some (v, tr) -> In v g /\ tree_ok h tr = true
  end ->
  exists h' g', run_mut (MGrowth c) (h, g) = Ok (h', g') /\ WF h' g' /\ acyclic h' g'.
Proof. exact growth_ok. Qed.
Print Assumptions C17_growth.

(* ---------------------------------------------------------------- crossovers *)
(* Inv2 h g1 g2: both graphs well-formed over one heap, no common node OBJECT.  Nothing is assumed
   about uids across the two graphs: relatives (copies of one ancestor, same uids) are included. *)
Theorem C17_cx_domain_reflects : forall h g1 g2,
  cx_in_domain (h, (g1, g2)) = true <->
  Inv2 h g1 g2 /\ acyclic h g1 /\ acyclic h g2 /\ g1 <> [] /\ g2 <> [].
Proof. exact cx_in_domain_iff. Qed.
Print Assumptions C17_cx_domain_reflects.

Theorem C17_cx_oracle_sound : forall h g1 g2 h' g1' g2',
  cx_holds_b (h, (g1, g2)) (COk h' g1' g2') = true -> cx_in_domain (h, (g1, g2)) = true ->
  WF h' g1' /\ WF h' g2'.
Proof. exact cx_holds_b_sound. Qed.
Print Assumptions C17_cx_oracle_sound.

Theorem C17_cx_oracle_raise : forall s, cx_in_domain s = true -> cx_holds_b s CRaise = false.
Proof. exact cx_holds_b_raise. Qed.
Print Assumptions C17_cx_oracle_raise.

(* subtree_crossover and one_point_crossover: any pair (member of graph 1, member of graph 2),
   both outcomes of both depth tests (or no pair at all) *)
Theorem C17_subtree_crossover_wf : forall c h g1 g2, Inv2 h g1 g2 -> acyclic h g1 -> acyclic h g2 ->
  (forall n1 n2 d, c = Some (n1, n2, d) -> In n1 g1 /\ In n2 g2) ->
  exists h' g1' g2', run_cx (XSubtree c) (h, (g1, g2)) = Ok (h', (g1', g2')) /\ Inv2 h' g1' g2'.
Proof. exact subtree_crossover_ok. Qed.
Print Assumptions C17_subtree_crossover_wf.

Theorem C17_exchange_edges_wf : forall e1 e2 h g1 g2, Inv2 h g1 g2 -> edges_ok h g1 e1 -> edges_ok h g2 e2 ->
  exists h' g1' g2', run_cx (XEdges e1 e2) (h, (g1, g2)) = Ok (h', (g1', g2')) /\ Inv2 h' g1' g2'.
Proof. exact exchange_edges_ok. Qed.
Print Assumptions C17_exchange_edges_wf.

Theorem C17_exchange_parents_one_wf : forall sel h g1 g2, Inv2 h g1 g2 ->
  (forall v, sel = Some v -> In v g2) ->
  exists h' g1', run_cx (XParentsOne sel) (h, (g1, g2)) = Ok (h', (g1', g2)) /\ Inv2 h' g1' g2.
Proof. exact exchange_parents_one_ok. Qed.
Print Assumptions C17_exchange_parents_one_wf.

Theorem C17_exchange_parents_both_wf : forall sel h g1 g2, Inv2 h g1 g2 ->
  (forall v, sel = Some v -> In v g2) ->
  exists h' g1' g2', run_cx (XParentsBoth sel) (h, (g1, g2)) = Ok (h', (g1', g2')) /\ Inv2 h' g1' g2'.
Proof. exact exchange_parents_both_ok. Qed.
Print Assumptions C17_exchange_parents_both_wf.

(* subgraph_crossover, for ALL choices: the first link (any pair of members), the pairs cut by the
   while loop (any pairs; a pair that is no link cuts nothing), the connection indices and coins.
   The model is either not a run of the function (Unmodelled: no first link although the graph has
   links, a cut list after which source and target are still connected - the real loop goes on until
   they are not -, a connection index out of range) or returns two well-formed children; no other
   exception exists.  Nothing is assumed about uids: relatives are included (the renewal of
   427b46f is what makes this true). *)
Theorem C17_subgraph_crossover_wf : forall c h g1 g2, Inv2 h g1 g2 ->
  (forall ts, sc_first1 c = Some ts -> In (fst ts) g1 /\ In (snd ts) g1) ->
  (forall ts, sc_first2 c = Some ts -> In (fst ts) g2 /\ In (snd ts) g2) ->
  match run_cx (XSubgraph c) (h, (g1, g2)) with
  | Ok s' => WF (fst s') (fst (snd s')) /\ WF (fst s') (snd (snd s'))
  | Raise e => e = Unmodelled
  end.
Proof. exact subgraph_crossover_wf. Qed.
Print Assumptions C17_subgraph_crossover_wf.

(* its two halves *)
Theorem C17_get_subgraphs : forall h g first cuts, WF h g ->
  (forall ts, first = Some ts -> In (fst ts) g /\ In (snd ts) g) ->
  match get_subgraphs h g first cuts with
  | Ok (h', (P0, P1), d) =>
      heap_ok h' /\ length h <= length h' /\ WF h' P0 /\ WF h' P1 /\
      (forall r, r < length h -> ~ In r g -> get h' r = get h r) /\
      (forall x, In x P0 \/ In x P1 -> In x g \/ length h <= x) /\
      ((P0 = P1 /\ d = []) \/ (forall x, In x P0 -> In x P1 -> False))
  | Raise e => e = Unmodelled
  end.
Proof. exact get_subgraphs_good. Qed.
Print Assumptions C17_get_subgraphs.

Theorem C17_connect_subgraphs : forall h A B dA dB conns, WF h A -> WF h B ->
  (forall x, In x A -> In x B -> False) ->
  match connect_subgraphs h A B dA dB conns with
  | Ok s' => WF (fst s') (snd s') /\ (forall x, In x (snd s') <-> In x A \/ In x B) /\
             length (fst s') = length h /\
             (forall r, ~ In r A -> ~ In r B -> get (fst s') r = get h r) /\
             (filter (fun r => memb r dA) A = [] \/ filter (fun r => memb r dB) B = [] ->
                forall T, WF h T -> WF (fst s') T)
  | Raise e => e = Unmodelled
  end.
Proof. exact connect_subgraphs_good. Qed.
Print Assumptions C17_connect_subgraphs.

(* reduce_mutation removes a subtree: like single_drop it never returns an empty graph (a sink other
   than the removed node survives delete_subtree; update_subtree inserts a node) *)
Theorem C17_reduce_nonempty : forall min_arity tries h g h' g', WF h g -> acyclic h g -> g <> [] ->
  (forall v onn, In (v, onn) tries -> In v g) ->
  run_mut (MReduce min_arity tries) (h, g) = Ok (h', g') -> g' <> [].
Proof. exact reduce_nonempty. Qed.
Print Assumptions C17_reduce_nonempty.

(* ---------------------------------------------------------------- the hypotheses are satisfiable *)
(* a diamond with a tail: 0 <- {1, 2} <- 3 (3 is a parent of 1 and 2), 4 isolated *)
Definition ex_h : heap :=
  [mkNode 10 0 [1; 2] true; mkNode 11 1 [3] true; mkNode 12 1 [3] true; mkNode 13 2 [] true; mkNode 14 0 [] true].
Definition ex_g : graph := [0; 1; 2; 3; 4].

Example ex_domain : in_domain (ex_h, ex_g) = true.
Proof. vm_compute. reflexivity. Qed.

Example ex_edge_added :   (* an edge that closes no cycle is added, one that would is refused *)
  run_mut (MEdge [Try 0 3; Try 4 0]) (ex_h, ex_g) =
  Ok ([mkNode 10 0 [1; 2; 4] true; mkNode 11 1 [3] true; mkNode 12 1 [3] true; mkNode 13 2 [] true; mkNode 14 0 [] true], ex_g).
Proof. vm_compute. reflexivity. Qed.

Example ex_drop : exists s, run_mut (MDrop 0 AWithParents []) (ex_h, ex_g) = Ok s /\ snd s = [4].
Proof. eexists. split; [vm_compute; reflexivity|reflexivity]. Qed.

Example ex_change : exists s, run_mut (MChange [(1, None); (3, Some (20, 5))]) (ex_h, ex_g) = Ok s /\ length (snd s) = 5.
Proof. eexists. split; [vm_compute; reflexivity|reflexivity]. Qed.

Example ex_tree_ok : tree_ok ex_h ([mkNode 30 1 [1; 2] true; mkNode 31 2 [2] true; mkNode 32 2 [] true], 0) = true.
Proof. vm_compute. reflexivity. Qed.

Example ex_tree_growth : exists s,
  run_mut (MTree (Some (1, ([mkNode 30 1 [1; 2] true; mkNode 31 2 [2] true; mkNode 32 2 [] true], 0)))) (ex_h, ex_g) = Ok s /\
  in_domain s = true /\ length (snd s) = 6.
Proof. eexists. split; [vm_compute; reflexivity|split; vm_compute; reflexivity]. Qed.

Example ex_add : exists s,
  run_mut (MAdd [AsChild 3 (Some 1) (40, 1); SepParent 4 (41, 2); Intermediate 0 (42, 0)]) (ex_h, ex_g) = Ok s /\
  in_domain s = true /\ length (snd s) = 8.
Proof. eexists. split; [vm_compute; reflexivity|split; vm_compute; reflexivity]. Qed.

(* relatives: graph 2 is a copy of graph 1 (same uids and labels, other objects: references 5..9) *)
Definition rel_h : heap := ex_h ++
  [mkNode 10 0 [6; 7] true; mkNode 11 1 [8] true; mkNode 12 1 [8] true; mkNode 13 2 [] true; mkNode 14 0 [] true].
Definition rel_g2 : graph := [5; 6; 7; 8; 9].

Example ex_cx_domain : cx_in_domain (rel_h, (ex_g, rel_g2)) = true.
Proof. vm_compute. reflexivity. Qed.

Definition both_wf (r : res cstate) : bool :=
  match r with Ok s => wf_b (fst s) (fst (snd s)) && wf_b (fst s) (snd (snd s)) | Raise _ => false end.

Example ex_cx_subtree_relatives :   (* the transplanted copies get renewed uids *)
  both_wf (run_cx (XSubtree (Some (1, 5, (true, true)))) (rel_h, (ex_g, rel_g2))) = true.
Proof. vm_compute. reflexivity. Qed.

Example ex_cx_edges : both_wf (run_cx (XEdges [(1, 0)] [(8, 6)]) (rel_h, (ex_g, rel_g2))) = true.
Proof. vm_compute. reflexivity. Qed.

Example ex_cx_parents : both_wf (run_cx (XParentsBoth (Some 5)) (rel_h, (ex_g, rel_g2))) = true /\
                        both_wf (run_cx (XParentsOne (Some 6)) (rel_h, (ex_g, rel_g2))) = true.
Proof. split; vm_compute; reflexivity. Qed.

(* subgraph_crossover on the relatives: cut 0 -> 1 (and 0 -> 2, the other path to 3) in the first
   graph, 6 -> 8 in the copy (then 5 -> 7 on the remaining path); one connection per child *)
Example ex_cx_subgraph_relatives :
  both_wf (run_cx (XSubgraph (mkSub (Some (1, 0)) [(2, 0)] (Some (8, 6)) [(7, 5)] [(0, 0, true)] [(0, 0, false)]))
                  (rel_h, (ex_g, rel_g2))) = true.
Proof. vm_compute. reflexivity. Qed.

(* a cut list that leaves source and target connected is not a run *)
Example ex_cx_subgraph_not_a_run :
  run_cx (XSubgraph (mkSub (Some (1, 0)) [] (Some (8, 6)) [(7, 5)] [(0, 0, true)] [(0, 0, false)]))
         (rel_h, (ex_g, rel_g2)) = Raise Unmodelled.
Proof. vm_compute. reflexivity. Qed.

(* a graph without links: one batch of copies serves both children *)
Example ex_cx_subgraph_edgeless :
  both_wf (run_cx (XSubgraph (mkSub None [] None [] [] []))
                  ([mkNode 1 0 [] true; mkNode 2 1 [] true; mkNode 1 0 [] true], ([0; 1], [2]))) = true.
Proof. vm_compute. reflexivity. Qed.

(* the single sink listed LAST is still excluded from the candidates of reduce_mutation *)
Example ex_reduce_root_last :
  run_mut (MReduce 1 [(3, None); (0, None)]) ([mkNode 1 0 [] true; mkNode 2 0 [0] true; mkNode 3 0 [0] true; mkNode 4 1 [1; 2] true], [0; 1; 2; 3])
  = Ok ([mkNode 1 0 [] true; mkNode 2 0 [0] true; mkNode 3 0 [0] true; mkNode 4 1 [1; 2] true], [0; 1; 2; 3]).
Proof. vm_compute. reflexivity. Qed.
