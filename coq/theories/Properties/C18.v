(* C18 - Adapters translate graphs and functions faithfully.
   Only statements, closed by `exact` (short glue allowed), each followed by Print Assumptions.
   Model: Adapter/Adapter.v; proofs: Adapter/AdapterProofs.v. *)
From Coq Require Import List String ZArith Bool Arith Permutation.
From GolemV Require Import Adapter.Adapter Adapter.AdapterProofs.
Import ListNotations.

(* ---------------------------------------------------------------------------------------
   1. NetworkX digraph -> internal graph -> NetworkX digraph (BaseNetworkxAdapter)
   --------------------------------------------------------------------------------------- *)
(* For every well-formed digraph (distinct keys, distinct edges between nodes; self loops and
   cycles allowed) whose 'name' attributes, where present, are non-empty strings, for every
   state of the allocator (n0, n1) and of uuid4 (u0): restore (adapt G) is isomorphic to G,
   the isomorphism is key |-> uid of the node created for it, attribute dicts are equal. *)
Theorem C18_nx_roundtrip : forall n0 u0 n1 (G : nxg nxattrs),
  nx_wf G -> nx_name_guard G ->
  nx_iso nx_attrs_equal (key_to_uid n0 u0 G) G (nx_restore n1 (nx_adapt n0 u0 G)).
Proof. exact nx_roundtrip. Qed.
Print Assumptions C18_nx_roundtrip.

(* the isomorphism sends the i-th key to the i-th uid drawn from uuid4 *)
Theorem C18_key_to_uid_is_position : forall n0 u0 (G : nxg nxattrs) i k d,
  NoDup (keys G) -> nth_error (nodes G) i = Some (k, d) -> key_to_uid n0 u0 G k = KUid (u0 + i).
Proof. exact key_to_uid_spec. Qed.
Print Assumptions C18_key_to_uid_is_position.

(* the guard is exact on both sides: an empty-string name is lost, a non-string name comes back
   as its str(); no bijection relates equal attributes then *)
Theorem C18_nx_roundtrip_empty_name_refuted :
  nx_wf G_empty_name /\
  forall n0 u0 n1 f, ~ nx_iso nx_attrs_equal f G_empty_name (nx_restore n1 (nx_adapt n0 u0 G_empty_name)).
Proof. exact nx_roundtrip_empty_name_refuted. Qed.
Print Assumptions C18_nx_roundtrip_empty_name_refuted.

Theorem C18_nx_roundtrip_int_name_refuted :
  forall n0 u0 n1 f, ~ nx_iso nx_attrs_equal f G_int_name (nx_restore n1 (nx_adapt n0 u0 G_int_name)).
Proof. exact nx_roundtrip_int_name_refuted. Qed.
Print Assumptions C18_nx_roundtrip_int_name_refuted.

(* ---------------------------------------------------------------------------------------
   2. internal graph -> NetworkX digraph -> internal graph
   --------------------------------------------------------------------------------------- *)
(* For every graph satisfying the LinkedGraph invariant (distinct uids, duplicate-free parent
   lists, closed under parents; cycles allowed) whose parameters do not use the key 'name':
   adapt (restore g) has, under a renaming of the uids, the same nodes with the same name,
   equal parameters and the same parent lists in the same order. *)
Theorem C18_opt_roundtrip : forall n0 u0 n1 g,
  opt_wf g -> opt_params_guard g ->
  opt_iso same_name_params (uid_renaming n0 u0 n1 g) g (nx_adapt n0 u0 (nx_restore n1 g)).
Proof. exact opt_roundtrip. Qed.
Print Assumptions C18_opt_roundtrip.

Theorem C18_opt_roundtrip_param_name_refuted :
  opt_wf g_param_named_name /\
  forall n0 u0 n1 f, ~ opt_iso same_name_params f g_param_named_name
                        (nx_adapt n0 u0 (nx_restore n1 g_param_named_name)).
Proof. exact opt_roundtrip_param_name_refuted. Qed.
Print Assumptions C18_opt_roundtrip_param_name_refuted.

(* the graph built by adapt always satisfies the LinkedGraph invariant, and its node list is a
   permutation of the converted nodes (the order is that of LinkedGraph.add_node) *)
Theorem C18_adapt_builds_wellformed_graph : forall n0 u0 (G : nxg nxattrs),
  NoDup (keys G) -> opt_wf (nx_adapt n0 u0 G).
Proof.
  intros n0 u0 G Hk. unfold nx_adapt, adapt_gen. apply g_wf.
  unfold mapped. rewrite base_mapped_uids. apply seq_NoDup.
Qed.
Print Assumptions C18_adapt_builds_wellformed_graph.

(* the node order of the built graph is the one LinkedGraph.add_node produces: the fuel-bounded
   recursion of the model follows the (fuel-free) big-step recursion of the code, whenever the
   accumulated node list is duplicate-free and made of graph nodes - which graph_order maintains *)
Theorem C18_add_node_fuel_sufficient : forall ns u acc,
  order_inv ns acc -> AddNode ns u acc (add_node (S (List.length ns)) ns u acc).
Proof. exact graph_order_fuel. Qed.
Print Assumptions C18_add_node_fuel_sufficient.

(* DumbNetworkxAdapter: the same two round trips, with the very same node objects *)
Theorem C18_dumb_nx_roundtrip : forall n0 (G : nxg onode),
  nx_wf G -> NoDup (map (fun ka => ouid (snd ka)) (nodes G)) ->
  nx_iso same_node_object (phi_of (mapped (fun _ nd => nd) G)) G (dumb_restore (dumb_adapt n0 G)).
Proof. exact dumb_nx_roundtrip. Qed.
Print Assumptions C18_dumb_nx_roundtrip.

Theorem C18_dumb_opt_roundtrip : forall n0 g,
  opt_wf g ->
  opt_iso same_node_object (psi_of (fun _ nd => nd) (fun nd => nd) g) g (dumb_adapt n0 (dumb_restore g)) /\
  forall u, In u (uids g) -> psi_of (fun _ nd => nd) (fun nd => nd) g u = u.
Proof. intros n0 g H. split; [apply dumb_opt_roundtrip; exact H|intros u; apply dumb_psi_id; exact H]. Qed.
Print Assumptions C18_dumb_opt_roundtrip.

(* DirectAdapter: one conversion keeps uids, parents, names, parameters and writes the
   requested classes; out and back gives the original classes again *)
Theorem C18_direct_convert_content : forall n0 gc nc g,
  gcls (direct_convert n0 gc nc g) = gc /\
  Forall2 (copy_of nc) (gnodes g) (gnodes (direct_convert n0 gc nc g)).
Proof. exact direct_convert_content. Qed.
Print Assumptions C18_direct_convert_content.

(* the postprocess_nodes callback of the copy: a bound method is re-bound to the copy of its self (for
   a method of the graph itself: to the OUTPUT graph), a stateful callable is copied, so a structural
   edit of the output writes to objects allocated by the conversion only *)
Theorem C18_direct_callback_rebound : forall n0 gc nc g,
  gpost (direct_convert n0 gc nc g) = copy_post n0 (gpost g) /\
  (gpost g = PostBound (gid g) ->
     gpost (direct_convert n0 gc nc g) = PostBound (gid (direct_convert n0 gc nc g))) /\
  Forall (fun i => n0 <= i) (post_ids (gpost (direct_convert n0 gc nc g))).
Proof.
  intros n0 gc nc g. split; [reflexivity|]. split.
  - intros H. unfold direct_convert. cbn [gpost gid]. rewrite H. reflexivity.
  - unfold direct_convert. cbn [gpost]. destruct (gpost g); cbn; repeat constructor; apply Nat.le_add_r.
Qed.
Print Assumptions C18_direct_callback_rebound.

Theorem C18_identity_adapter : forall g, identity_adapt g = g /\ identity_restore g = g.
Proof. intros g. split; reflexivity. Qed.
Print Assumptions C18_identity_adapter.

(* ---------------------------------------------------------------------------------------
   3. copying adapters share nothing
   --------------------------------------------------------------------------------------- *)
(* n0 bounds the identities of everything alive before the call.  Every mutable object
   reachable from the output (node objects and their content dicts, parameter dicts, nested
   lists / dicts, parent lists, attribute dicts, the graph object) was allocated by the call,
   so none of them is an object of the input. *)
Theorem C18_copying_adapters_share_nothing :
  (forall n0 u0 G i, Forall (fun j => j < n0) (nx_ids G) ->
     In i (nx_ids G) -> ~ In i (opt_ids (nx_adapt n0 u0 G))) /\
  (forall n1 g i, Forall (fun j => j < n1) (opt_ids g) ->
     In i (opt_ids g) -> ~ In i (nx_ids (nx_restore n1 g))) /\
  (forall n0 gc nc g i, Forall (fun j => j < n0) (cgraph_ids g) ->
     In i (cgraph_ids g) -> ~ In i (cgraph_ids (direct_convert n0 gc nc g))).
Proof.
  split; [|split].
  - intros n0 u0 G i Hold H1 H2. exact (fresh_disjoint n0 _ _ Hold (nx_adapt_fresh n0 u0 G) i H1 H2).
  - intros n1 g i Hold H1 H2. exact (fresh_disjoint n1 _ _ Hold (nx_restore_fresh n1 g) i H1 H2).
  - intros n0 gc nc g i Hold H1 H2. exact (fresh_disjoint n0 _ _ Hold (direct_convert_fresh n0 gc nc g) i H1 H2).
Qed.
Print Assumptions C18_copying_adapters_share_nothing.

(* ---------------------------------------------------------------------------------------
   4. wrapped functions
   --------------------------------------------------------------------------------------- *)
(* the type dispatch of restore / adapt (exact type, Individual, head of a sequence) coincides
   with the element-wise conversion on the documented argument shapes *)
Theorem C18_restore_dispatch : forall (G M : Type) (cvR : G -> option M -> G) (g_empty : G -> bool) k (v : @val G M),
  restorable g_empty k v = true -> restore cvR g_empty k v = Ok (restore_total cvR k v).
Proof. intros G M cvR g_empty. exact (restore_total_ok cvR g_empty). Qed.
Print Assumptions C18_restore_dispatch.

Theorem C18_adapt_dispatch : forall (G M : Type) (cvA : G -> G) k (v : @val G M),
  adaptable k v = true -> adapt cvA k v = Ok (adapt_total cvA k v).
Proof. intros G M cvA. exact (adapt_total_ok cvA). Qed.
Print Assumptions C18_adapt_dispatch.

(* what the conversions do, shape by shape (k is a converting adapter) *)
Theorem C18_conversion_shapes : forall (G M : Type) (cvA : G -> G) (cvR : G -> option M -> G) k g g2 c m s,
  k <> AIdentity ->
  (* an internal graph becomes a domain graph, also inside a list / tuple / Individual *)
  restore_total cvR k (VGraph KOpt g) = VGraph (dom_tag k) (cvR g None) /\
  restore_total cvR k (VSeq [VGraph KOpt g; VGraph KOpt g2]) =
    VSeq [VGraph (dom_tag k) (cvR g None); VGraph (dom_tag k) (cvR g2 None)] /\
  restore_total cvR k (VInd c g m) = VGraph (dom_tag k) (cvR g (Some m)) /\
  (* everything else is untouched *)
  restore_total cvR k VNone = VNone /\ restore_total cvR k (VScalar s) = VScalar s /\
  restore_total cvR k (VSeq []) = VSeq [] /\ restore_total cvR k (VTuple []) = VTuple [] /\
  restore_total cvR k (VSeq [VScalar s; VNone]) = VSeq [VScalar s; VNone] /\
  adapt_total cvA k (VNone : @val G M) = VNone /\ adapt_total cvA k (VScalar s : @val G M) = VScalar s /\
  adapt_total cvA k (VSeq [] : @val G M) = VSeq [] /\
  (* a domain graph becomes an internal graph *)
  (is_dom_exact k (VGraph c g : @val G M) = true ->
     adapt_total cvA k (VGraph c g : @val G M) = VGraph KOpt (cvA g) /\
     adapt_total cvA k (VSeq [VGraph c g] : @val G M) = VSeq [VGraph KOpt (cvA g)]) /\
  (* results: None stays None, tuples are converted item by item *)
  (forall f, result_total f (VNone : @val G M) = VNone) /\
  (forall f l, result_total f (VTuple l : @val G M) = VTuple (map f l)).
Proof.
  intros G M cvA cvR k g g2 c m s Hk.
  destruct k; try contradiction; cbn; repeat split; try reflexivity;
    destruct c; cbn in *; try discriminate; reflexivity.
Qed.
Print Assumptions C18_conversion_shapes.

(* the sequence branch applies to EVERY Sequence that is not a str - UserList, GOLEM's Generation,
   deque, user-defined Sequence classes (VUserSeq kind) - exactly as to lists and tuples: the result
   is a list of converted graphs; empty ones and those not led by a graph are untouched *)
Theorem C18_other_sequences : forall (G M : Type) (cvA : G -> G) (cvR : G -> option M -> G) g_empty k kd g g2 c m s,
  k <> AIdentity ->
  restore_total cvR k (VUserSeq kd [VGraph KOpt g; VGraph KOpt g2]) =
    VSeq [VGraph (dom_tag k) (cvR g None); VGraph (dom_tag k) (cvR g2 None)] /\
  restore_total cvR k (VUserSeq kd [VInd KOpt g m]) = VSeq [VGraph (dom_tag k) (cvR g (Some m))] /\
  restore_total cvR k (VUserSeq kd []) = VUserSeq kd [] /\
  restore_total cvR k (VUserSeq kd [VScalar s; VNone]) = VUserSeq kd [VScalar s; VNone] /\
  adapt_total cvA k (VUserSeq kd [] : @val G M) = VUserSeq kd [] /\
  (is_dom_exact k (VGraph c g : @val G M) = true ->
     adapt_total cvA k (VUserSeq kd [VGraph c g] : @val G M) = VSeq [VGraph KOpt (cvA g)]) /\
  (forall v : @val G M, restorable g_empty k v = true -> restore cvR g_empty k v = Ok (restore_total cvR k v)).
Proof.
  intros G M cvA cvR g_empty k kd g g2 c m s Hk.
  repeat split; try (intros v; apply restore_total_ok);
    destruct k; try contradiction; cbn; try reflexivity;
    intros H; destruct c; cbn in *; try discriminate; reflexivity.
Qed.
Print Assumptions C18_other_sequences.

(* adapt_func of a function that is not native: it is called with restore of every positional
   and keyword argument, its result goes through adapt (None -> None, tuple -> item-wise) *)
Theorem C18_adapt_func_spec : forall (G M : Type) (cvA : G -> G) (cvR : G -> option M -> G) (g_empty : G -> bool)
    k (fn : @pyfun G M) args kw r,
  forallb (restorable g_empty k) args = true ->
  forallb (fun kv => restorable g_empty k (snd kv)) kw = true ->
  fn (map (restore_total cvR k) args) (map (fun kv => (fst kv, restore_total cvR k (snd kv))) kw) = Ok r ->
  result_ok (adaptable k) r = true ->
  adapt_wrap cvA cvR g_empty k fn args kw = Ok (result_total (adapt_total cvA k) r).
Proof. intros G M cvA cvR g_empty. exact (adapt_wrap_spec cvA cvR g_empty). Qed.
Print Assumptions C18_adapt_func_spec.

Theorem C18_restore_func_spec : forall (G M : Type) (cvA : G -> G) (cvR : G -> option M -> G) (g_empty : G -> bool)
    k (fn : @pyfun G M) args kw r,
  forallb (adaptable k) args = true ->
  forallb (fun kv => adaptable k (snd kv)) kw = true ->
  fn (map (adapt_total cvA k) args) (map (fun kv => (fst kv, adapt_total cvA k (snd kv))) kw) = Ok r ->
  result_ok (restorable g_empty k) r = true ->
  restore_func cvA cvR g_empty k fn args kw = Ok (result_total (restore_total cvR k) r).
Proof. intros G M cvA cvR g_empty. exact (restore_func_spec cvA cvR g_empty). Qed.
Print Assumptions C18_restore_func_spec.

(* ---------------------------------------------------------------------------------------
   5. native functions
   --------------------------------------------------------------------------------------- *)
Theorem C18_native_as_is : forall fl c, is_native fl c = true -> adapt_func fl c = Same c.
Proof. exact native_as_is. Qed.
Print Assumptions C18_native_as_is.

(* registering any wrapping of f makes every wrapping of f native: the flag is found through
   any nesting of partials and bound methods; and every callable is such a wrapping *)
Theorem C18_registered_found_through_wrappers : forall fl ws ws' b,
  is_native (register_native fl (wrap ws b)) (wrap ws' b) = true /\
  adapt_func (register_native fl (wrap ws b)) (wrap ws' b) = Same (wrap ws' b).
Proof.
  intros fl ws ws' b. split; [apply registered_found_through_wrappers|].
  apply native_as_is, registered_found_through_wrappers.
Qed.
Print Assumptions C18_registered_found_through_wrappers.

Theorem C18_every_callable_is_a_wrapping : forall c, exists ws b, c = wrap ws b /\ function_object b.
Proof. exact callable_is_wrap. Qed.
Print Assumptions C18_every_callable_is_a_wrapping.

(* the closure that adapt_func / restore_func hands out for c is a function object of its own: it
   does not inherit the native mark of c (restore_func of a native function is a DOMAIN function) *)
Theorem C18_closure_not_native_by_inheritance : forall fl ws ws' id ad c,
  fl id = false -> is_native (register_native fl (wrap ws c)) (wrap ws' (CWrap id ad c)) = Nat.eqb id (underlying c).
Proof. exact closure_not_native_by_inheritance. Qed.
Print Assumptions C18_closure_not_native_by_inheritance.

(* callable CLASSES: register_native on a class marks the class; instances of it, instances of its
   subclasses and the subclasses themselves are native (getattr finds the class attribute), also
   through partials / bound methods; registering one instance marks nothing else *)
Theorem C18_class_registration_inherited : forall fl ws ws' cls own bases,
  In (underlying cls) bases ->
  is_native (register_native fl (wrap ws cls)) (wrap ws' (CInst own bases)) = true /\
  adapt_func (register_native fl (wrap ws cls)) (wrap ws' (CInst own bases)) = Same (wrap ws' (CInst own bases)).
Proof.
  intros fl ws ws' cls own bases H. split; [apply class_registration_inherited; exact H|].
  apply native_as_is, class_registration_inherited. exact H.
Qed.
Print Assumptions C18_class_registration_inherited.

Theorem C18_instance_registration_local : forall fl own bases own' bases',
  own' <> own -> ~ In own bases' ->
  is_native (register_native fl (CInst own bases)) (CInst own' bases') = is_native fl (CInst own' bases').
Proof. exact instance_registration_local. Qed.
Print Assumptions C18_instance_registration_local.

(* calling the outcome of adapt_func: the native function itself / the converting wrapper *)
Theorem C18_native_called_directly : forall (G M : Type) (cvA : G -> G) (cvR : G -> option M -> G) g_empty k den fl c,
  (is_native fl c = true -> call_adapted cvA cvR g_empty k den (adapt_func fl c) = den c) /\
  (is_native fl c = false -> call_adapted cvA cvR g_empty k den (adapt_func fl c) = adapt_wrap cvA cvR g_empty k (den c)).
Proof.
  intros. split; [apply native_called_directly|apply domain_called_through_wrapper].
Qed.
Print Assumptions C18_native_called_directly.

(* after any history of register / unregister calls a callable is native iff the last call that
   concerned its underlying function - or a class that this callable object is an instance / subclass
   of - was a registration *)
Theorem C18_registry_history : forall ops c, is_native (run_ops ops) c = registered ops c.
Proof. exact registry_history. Qed.
Print Assumptions C18_registry_history.

(* sessions on one adapter instance: after ANY history the outcome of adapt_func depends on the
   history only (nothing is remembered between calls); a native function sees the internal graph
   itself, any other one the restored domain graph *)
Theorem C18_session_call_model : forall (G M : Type) (cvA : G -> G) (cvR : G -> option M -> G) g_empty den fl q g,
  (is_native fl q = true ->
     call_adapted cvA cvR g_empty ANx den (adapt_func fl q) [VGraph KOpt g] [] = den q [VGraph KOpt g] []) /\
  (is_native fl q = false ->
     call_adapted cvA cvR g_empty ANx den (adapt_func fl q) [VGraph KOpt g] [] =
     bind (den q [VGraph KDom (cvR g None)] []) (transform_result (adapt cvA ANx))).
Proof. intros G M cvA cvR g_empty. exact (session_call_model cvA cvR g_empty). Qed.
Print Assumptions C18_session_call_model.

Theorem C18_model_holds_session : forall ops adapting q,
  holds_session ops adapting q (is_native (run_ops ops) q)
                (if adapting then adapted_is_same (adapt_func (run_ops ops) q) else false)
                (expect_recv_dom (run_ops ops) adapting q) = true.
Proof. exact model_holds_session. Qed.
Print Assumptions C18_model_holds_session.

(* the model satisfies the oracle that the harness evaluates on observed behaviour *)
Theorem C18_model_holds_registry : forall ops c,
  holds_registry ops c (is_native (run_ops ops) c) (adapted_is_same (adapt_func (run_ops ops) c)) = true.
Proof. exact model_holds_registry. Qed.
Print Assumptions C18_model_holds_registry.

(* ---------------------------------------------------------------------------------------
   6. the oracles evaluated on observed behaviour decide the stated properties
   --------------------------------------------------------------------------------------- *)
(* when the harness' check of an observed restore(adapt(G)) with witness phi succeeds, the
   observed digraph stands in the relation that C18_nx_roundtrip proves of the model *)
Theorem C18_oracle_nx_sound : forall G Go phi,
  nx_wf_b G = true -> nx_guard G = true -> holds_nx_rt G Go phi = true ->
  nx_wf G /\ nx_name_guard G /\ nx_iso nx_attrs_equal (apply_phi phi) G Go.
Proof.
  intros G Go phi Hw Hg H. split; [apply nx_wf_b_sound; exact Hw|].
  split; [apply nx_guard_sound; exact Hg|]. apply holds_nx_rt_sound; assumption.
Qed.
Print Assumptions C18_oracle_nx_sound.

(* same for adapt(restore(g)); the oracle asks for the parents as a set (what the property text
   says), the theorem C18_opt_roundtrip gives them in order, which is stronger *)
Theorem C18_oracle_opt_sound : forall g go psi,
  opt_guard g = true -> holds_opt_rt g go psi = true ->
  opt_wf g /\ opt_params_guard g /\ opt_iso_weak (fun u => assoc_nat u psi) g go.
Proof.
  intros g go psi Hg H. destruct (opt_guard_sound g Hg) as [H1 H2].
  split; [exact H1|]. split; [exact H2|]. apply holds_opt_rt_sound; assumption.
Qed.
Print Assumptions C18_oracle_opt_sound.

Theorem C18_opt_iso_weaken : forall f g g', opt_iso same_name_params f g g' -> opt_iso_weak f g g'.
Proof. exact opt_iso_weaken. Qed.
Print Assumptions C18_opt_iso_weaken.

Theorem C18_oracle_fresh_sound : forall n ids, all_fresh n ids = true <-> Forall (fun i => n <= i) ids.
Proof. exact all_fresh_sound. Qed.
Print Assumptions C18_oracle_fresh_sound.

(* whatever the wrapped function returns, the literal model of the wrapper passes the call
   oracle: the oracle asks nothing the modelled code does not do *)
Theorem C18_model_holds_call : forall k (ad : bool) args kw raw,
  let fa := if ad then @restore nat nat tidR tempty k else @adapt nat nat tid k in
  let fr := if ad then @adapt nat nat tid k else @restore nat nat tidR tempty k in
  holds_call (mkCall k ad args kw
                (bind (map_kw fa kw) (fun kw' => bind (map_res fa args) (fun a' => Ok (a', kw'))))
                raw (transform fa fr (fun _ _ => Ok raw) args kw) true) = true.
Proof. exact model_holds_call. Qed.
Print Assumptions C18_model_holds_call.

(* ---------------------------------------------------------------------------------------
   non-vacuity: the hypotheses are met by non-trivial graphs and the conclusions say something
   --------------------------------------------------------------------------------------- *)
Definition G_ex : nxg nxattrs :=
  mkG [(KStr "b", (0, [("name"%string, PStr "lr"); ("k"%string, PList 1 [PInt 1; PDict 2 [("q"%string, PNone)]])]));
       (KStr "a", (3, [("alpha"%string, PInt 7)]));
       (KStr "c", (4, [("name"%string, PStr "pca")]))]
      [(KStr "c", KStr "a"); (KStr "b", KStr "a"); (KStr "a", KStr "a"); (KStr "a", KStr "c")].

Example nx_roundtrip_example :
  nx_wf_b G_ex = true /\ nx_guard G_ex = true /\
  map ouid (nx_adapt 10 100 G_ex) = [100; 101; 102] /\
  map (fun nd => opar nd) (nx_adapt 10 100 G_ex) = [[]; [102; 100; 101]; [101]] /\
  nx_iso_b nx_attr_eqb [(KStr "b", KUid 100); (KStr "a", KUid 101); (KStr "c", KUid 102)]
           G_ex (nx_restore 10 (nx_adapt 10 100 G_ex)) = true.
Proof. vm_compute. repeat split. Qed.

Definition g_ex : optg :=
  [mkN 0 0 0 (PStr "a") (Some (1, [("k"%string, PInt 1)])) 2 [1; 2];
   mkN 3 1 0 PNone None 4 [2];
   mkN 5 2 0 (PInt 5) (Some (6, [])) 7 [0]].

Example opt_roundtrip_example :
  opt_guard g_ex = true /\
  opt_iso_b [(0, 50); (1, 51); (2, 52)] g_ex (nx_adapt 10 50 (nx_restore 10 g_ex)) = true /\
  fresh_opt 10 (nx_adapt 10 50 (nx_restore 10 g_ex)) = true.
Proof. vm_compute. repeat split. Qed.

Example call_example :
  let fn : @pyfun nat nat := fun args kw => match args with [VGraph KDom g; VScalar s] => Ok (VTuple [VGraph KDom (g + 1); VNone]) | _ => Raise end in
  adapt_wrap tid tidR tempty ANx fn [VGraph KOpt 3; VScalar "x"] [] = Ok (VTuple [VGraph KOpt 4; VNone]).
Proof. vm_compute. reflexivity. Qed.

Example registry_example :
  let fl := register_native (fun _ => false) (CPartial (CMethod (CFun 3))) in
  is_native fl (CMethod (CPartial (CPartial (CFun 3)))) = true /\ is_native fl (CFun 4) = false /\
  adapt_func fl (CMethod (CFun 3)) = Same (CMethod (CFun 3)) /\ adapt_func fl (CFun 4) = Wrapped (CFun 4).
Proof. vm_compute. repeat split. Qed.

(* register_native(f); g = restore_func(f); h = adapt_func(g): g is a new function object without
   the mark, so h is a wrapper around g and f still receives an internal graph *)
Example restored_native_function_is_a_domain_function :
  let fl := register_native (fun _ => false) (CFun 3) in
  let g := CWrap 10 false (CFun 3) in
  is_native fl (CFun 3) = true /\ is_native fl g = false /\ is_native fl (CPartial g) = false /\
  adapt_func fl g = Wrapped g /\
  sees (session_result (is_native fl g) true 11 g) KOpt = KOpt /\ sees g KDom = KOpt /\
  holds_session [RegOp (CFun 3)] true g false false false = true /\
  holds_session [RegOp (CFun 3)] true g true true true = false.
Proof. vm_compute. repeat split. Qed.

(* a class (object 20) registered with the decorator; 21 = a subclass, 30 / 31 = instances, 40 = the
   function Cls.__call__ : instances are native, their bound __call__ is not (the mark is on the class,
   not on the function); an instance registered on its own does not mark its class *)
Example registered_class_and_instances :
  let fl := register_native (fun _ => false) (CInst 20 []) in
  is_native fl (CInst 30 [20]) = true /\ is_native fl (CInst 31 [21; 20]) = true /\
  is_native fl (CInst 21 [20]) = true /\ is_native fl (CPartial (CInst 30 [20])) = true /\
  is_native fl (CMethod (CFun 40)) = false /\
  let fl2 := register_native (fun _ => false) (CInst 30 [20]) in
  is_native fl2 (CInst 30 [20]) = true /\ is_native fl2 (CInst 32 [20]) = false /\ is_native fl2 (CInst 20 []) = false.
Proof. vm_compute. repeat split. Qed.

(* a list led by an internal graph: the NetworkX adapters' _restore is applied to EVERY item; on a
   foreign digraph it raises as soon as that digraph has a node, and returns an empty digraph for an
   empty one (token 99) *)
Example restore_of_mixed_sequence :
  @restore nat nat tidR tempty ANx (VSeq [VGraph KOpt 0; VGraph KDom 99]) = Ok (VSeq [VGraph KDom 0; VGraph KDom 99]) /\
  @restore nat nat tidR tempty ANx (VSeq [VGraph KOpt 0; VGraph KDom 5]) = Raise /\
  @restore nat nat tidR tempty ADirectDefault (VSeq [VGraph KOpt 0; VGraph KDom 99]) = Raise.
Proof. vm_compute. repeat split. Qed.
