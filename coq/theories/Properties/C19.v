(* C19 - Tuning changes only parameters, stays in range and never returns a worse graph.
   Only statements, closed by `exact` (short glue allowed), each followed by Print Assumptions.
   Model: Tuning/Tuner.v (BaseTuner.tune over an ARBITRARY proposer = what hyperopt / optuna / iOpt
   are to the model); proofs: Tuning/TunerProofs.v.
   Quantification: every deterministic objective `obj : graph -> fitness`, search space, configuration
   (tuner kind, deviation, time flag), proposer and input graph. *)
From Coq Require Import List Bool String ZArith QArith.
From GolemV Require Fitness.Fitness Fitness.FitnessProofs.
From GolemV Require Import Tuning.Tuner Tuning.TunerProofs.
Import ListNotations.
Local Open Scope string_scope.

(* 1. structure_preserved: every returned graph has the nodes (uids, in graph.nodes order), names and
      edges (parent lists) of the input - for every proposer whatsoever *)
Theorem C19_structure_preserved : forall obj sp cfg p g o,
  tune obj sp cfg p g = Ok o -> Forall (fun fg => map skel fg = map skel g) (out_graphs o).
Proof. exact structure_preserved. Qed.
Print Assumptions C19_structure_preserved.

(* 2. outside_space_untouched: if the proposer only uses labels that decode to search-space parameters of
      the node they address (executable hypothesis, evaluated on every run of the correspondence), then a
      parameter that is not in the search space of its node's operation has its input value *)
Theorem C19_outside_space_untouched : forall obj sp cfg p g o,
  labels_in_space_b sp (c_kind cfg) g p = true -> tune obj sp cfg p g = Ok o ->
  forall fg, In fg (out_graphs o) ->
  forall i n n', nth_error g i = Some n -> nth_error fg i = Some n' ->
  forall k, in_space sp (name n) k = false -> dget (params n') k = dget (params n) k.
Proof.
  intros obj sp cfg p g o H. apply outside_space_untouched. now apply labels_in_space_sound.
Qed.
Print Assumptions C19_outside_space_untouched.

(* 3a. never_worse, single objective: for deviation >= 0 the objective value of the returned graph is
       <= that of the input graph (an invalid fitness counts as +infinity) *)
Theorem C19_never_worse : forall obj sp cfg p g o,
  0 <= c_dev cfg -> tune obj sp cfg p g = Ok o -> out_multi o = false ->
  exists fg, out_graphs o = [fg] /\ metric_le (gmv obj fg) (gmv obj g) = true.
Proof. exact never_worse_single. Qed.
Print Assumptions C19_never_worse.

(* the deviation threshold lets a worse graph through exactly when the deviation is negative:
   the hypothesis 0 <= deviation is necessary (remark, not a finding: deviation is documented as the
   REQUIRED improvement) *)
Definition w_space : space := [("a", [("x", Discrete 1 3); ("y", Continuous (1 # 2) 1)])].
Definition w_graph : graph := [mkNode 0 "a" [("zz", VInt 5)] [1%nat]; mkNode 1 "c" [("q", VInt 1)] []].
Definition w_assign : dict := [("0 || a | x", VInt 1); ("0 || a | y", VNum (1 # 2))].
Definition w_tuned : list dict := [[("zz", VInt 5); ("x", VInt 1); ("y", VNum (1 # 2))]; [("q", VInt 1)]].
Definition w_prop : proposer := mkProposer [w_assign] (Some w_assign) [] [].

Theorem C19_never_worse_refuted_negative_deviation :
  exists obj sp cfg p g o fg,
    tune obj sp cfg p g = Ok o /\ out_graphs o = [fg] /\ c_dev cfg < 0 /\
    metric_le (gmv obj fg) (gmv obj g) = false.
Proof.
  exists (table_obj [(map params w_graph, FSingle 2); (w_tuned, FSingle (5 # 2))]), w_space,
         (mkConfig Optuna (-(50)) true), w_prop, w_graph.
  eexists. eexists. split; [vm_compute; reflexivity|]. split; [reflexivity|]. split; reflexivity.
Qed.
Print Assumptions C19_never_worse_refuted_negative_deviation.

(* 3b. multi-objective: every returned graph has a vector metric that the input's metric does not
       dominate (dominates_loop is the C09 model of MultiObjFitness.dominates) *)
Theorem C19_never_dominated : forall obj sp cfg p g o,
  tune obj sp cfg p g = Ok o -> out_multi o = true ->
  exists iv, gmv obj g = MVec iv /\ out_graphs o <> [] /\
  Forall (fun fg => exists ov, gmv obj fg = MVec ov /\ Fitness.dominates_loop false iv ov = false) (out_graphs o).
Proof. exact never_dominated_multi. Qed.
Print Assumptions C19_never_dominated.

(* ... which, for vectors of equal length, is Pareto non-domination *)
Theorem C19_never_dominated_pareto : forall obj sp cfg p g o,
  tune obj sp cfg p g = Ok o -> out_multi o = true ->
  exists iv, gmv obj g = MVec iv /\
  Forall (fun fg => exists ov, gmv obj fg = MVec ov /\
                    (List.length iv = List.length ov -> ~ FitnessProofs.pareto iv ov)) (out_graphs o).
Proof.
  intros obj sp cfg p g o H Hm. destruct (never_dominated_multi obj sp cfg p g o H Hm) as [iv [A [_ F]]].
  exists iv. split; [exact A|]. eapply Forall_impl; [|exact F]. intros fg [ov [B C]]. exists ov. split; [exact B|].
  intros L Hp. apply (FitnessProofs.dominates_loop_false iv ov L) in Hp. congruence.
Qed.
Print Assumptions C19_never_dominated_pareto.

(* 4. reported_metric_consistent: init_metric is the objective of the input; obtained_metric is the
      objective of the returned graph (single objective) / the list of the objectives of the returned
      graphs (multi-objective) *)
Theorem C19_reported_metric_consistent : forall obj sp cfg p g o,
  tune obj sp cfg p g = Ok o ->
  out_init_metric o = gmv obj g /\
  out_reported o = (if out_multi o then RList (map (gmv obj) (out_graphs o))
                    else match out_graphs o with [fg] => RMetric (gmv obj fg) | _ => RNone end).
Proof. exact reported_metric_consistent. Qed.
Print Assumptions C19_reported_metric_consistent.

(* 5. nothing_to_tune: no node's operation has search-space parameters => every returned graph IS the
      input graph (parameters included) ... *)
Theorem C19_nothing_to_tune : forall obj sp cfg p g o,
  has_params sp g = false -> tune obj sp cfg p g = Ok o -> Forall (fun fg => fg = g) (out_graphs o).
Proof. exact nothing_to_tune_unchanged. Qed.
Print Assumptions C19_nothing_to_tune.

(* ... and for a scalar objective value of the input no tuner raises: the input graph is returned and
   its metric reported *)
Theorem C19_nothing_to_tune_returns : forall obj sp cfg p g,
  has_params sp g = false -> (match gmv obj g with MVec _ => False | _ => True end) ->
  exists o, tune obj sp cfg p g = Ok o /\ out_multi o = false /\ out_graphs o = [g] /\
            out_reported o = RMetric (gmv obj g).
Proof. exact nothing_to_tune_returns. Qed.
Print Assumptions C19_nothing_to_tune_returns.

(* 6. in_range_if_proposer_in_range (the clause that is conditional on the libraries): if every proposed
      value lies in the declared range / choice set of the search-space parameter its label decodes to,
      then every parameter of every returned graph either keeps its input value or lies in its range *)
Theorem C19_in_range_if_proposer_in_range : forall obj sp cfg p g o,
  proposals_in_range_b sp (c_kind cfg) g p = true -> tune obj sp cfg p g = Ok o ->
  forall fg, In fg (out_graphs o) ->
  forall i n n', nth_error g i = Some n -> nth_error fg i = Some n' ->
  forall k, dget (params n') k = dget (params n) k \/
            exists v ty, dget (params n') k = Some v /\ space_type sp (name n) k = Some ty /\ in_range ty v = true.
Proof.
  intros obj sp cfg p g o H. apply in_range_if_proposer_in_range. now apply proposals_in_range_sound.
Qed.
Print Assumptions C19_in_range_if_proposer_in_range.

(* ---- the second public entry point: SequentialTuner.tune_node(graph, node_index) ---- *)
(* one returned graph with the input's structure; the reported metric is its objective; for deviation >= 0 it
   is the input graph itself or not worse than it *)
Theorem C19_tune_node_never_worse_reported : forall obj sp cfg p i g o,
  tune_node obj sp cfg p i g = Ok o ->
  exists fg, out_multi o = false /\ out_graphs o = [fg] /\ out_init_metric o = gmv obj g /\
             out_reported o = RMetric (gmv obj fg) /\ map skel fg = map skel g /\
             (0 <= c_dev cfg -> fg = g \/ metric_le (gmv obj fg) (gmv obj g) = true).
Proof.
  intros obj sp cfg p i g o H.
  assert (Hok : node_step_ok PTrue g i p).
  { unfold node_step_ok. destruct (p_steps p); [trivial|]. split.
    - apply Forall_forall. intros d _ n _ lab v _ _. exact I.
    - intros n _ lab v _ _. exact I. }
  destruct (tune_node_spec obj sp cfg PTrue p i g o Hok H) as [fg [A [B [C [D [E F]]]]]].
  exists fg. repeat split; auto. apply (evolves_skel PTrue). exact E.
Qed.
Print Assumptions C19_tune_node_never_worse_reported.

(* labels of the node's step decode into the node's search space => every other parameter of every node
   (in particular every parameter of every OTHER node) keeps its input value *)
Theorem C19_tune_node_outside_untouched : forall obj sp cfg p i g o,
  node_step_ok_b (pb_space sp) g i p = true -> tune_node obj sp cfg p i g = Ok o ->
  forall fg, In fg (out_graphs o) ->
  forall j n n', nth_error g j = Some n -> nth_error fg j = Some n' ->
  forall k, in_space sp (name n) k = false -> dget (params n') k = dget (params n) k.
Proof.
  intros obj sp cfg p i g o Hb H fg Hin j n n' H1 H2 k Hk.
  destruct (tune_node_spec obj sp cfg _ p i g o (node_step_ok_refl _ g i p Hb) H) as [fg' [_ [B [_ [_ [[_ E] _]]]]]].
  rewrite B in Hin. destruct Hin as [<-|[]].
  destruct (E j n n' H1 H2) as [_ Hd]. destruct (Hd k) as [Q|[v [_ Q]]]; [exact Q|].
  unfold pb_space in Q. congruence.
Qed.
Print Assumptions C19_tune_node_outside_untouched.

(* ---- totality fails on these input classes (known findings of the pinned tree) ---- *)
(* SimultaneousTuner / SequentialTuner + multi-objective objective: always an exception
   (finding C19.multiobj-unsupported-raises) *)
Theorem C19_multiobj_unsupported_raises : forall obj sp cfg p g,
  (c_kind cfg = Simultaneous \/ exists inv, c_kind cfg = Sequential inv) ->
  is_multi (gmv obj g) = true -> exists e, tune obj sp cfg p g = Raise e.
Proof. exact multiobj_unsupported_raises. Qed.
Print Assumptions C19_multiobj_unsupported_raises.

(* IOptTuner, something to tune, no continuous parameter: always an exception
   (finding C19.iopt-no-float-raises) *)
Theorem C19_iopt_no_float_raises : forall obj sp cfg p g,
  c_kind cfg = IOpt -> has_params sp g = true -> has_float sp g = false ->
  exists e, tune obj sp cfg p g = Raise e.
Proof. exact iopt_no_float_raises. Qed.
Print Assumptions C19_iopt_no_float_raises.

(* multi-objective objective that is invalid on the input graph (finding C19.multiobj-invalid-init-raises) *)
Theorem C19_multiobj_invalid_init_refuted :
  exists obj sp cfg p g e, gmv obj g = MInf /\ tune obj sp cfg p g = Raise e.
Proof.
  exists (table_obj [(map params w_graph, FInvalid); (w_tuned, FMulti [1; 2])]), w_space,
         (mkConfig Optuna (1 # 20) true), w_prop, w_graph, IndexError.
  split; vm_compute; reflexivity.
Qed.
Print Assumptions C19_multiobj_invalid_init_refuted.

(* a graph of the library's front on which the objective is invalid is skipped by the multi-objective final
   check (fixed in /repo: it used to raise TypeError); here nothing else remains, so the input is returned *)
Theorem C19_multiobj_invalid_tuned_skipped :
  exists obj sp cfg p g, gmv obj g = MVec [1; 2] /\
    tune obj sp cfg p g = Ok (mkOutcome true [g] (MVec [1; 2]) (RList [MVec [1; 2]])).
Proof.
  exists (table_obj [(map params w_graph, FMulti [1; 2]); (w_tuned, FInvalid)]), w_space,
         (mkConfig IOpt (1 # 20) true), (mkProposer [w_assign] None [w_assign] []), w_graph.
  split; vm_compute; reflexivity.
Qed.
Print Assumptions C19_multiobj_invalid_tuned_skipped.

(* ---- reflection: the run-time oracle decides the structure clause ---- *)
Theorem C19_oracle_structure : forall g g', same_structure_b g g' = true <-> map skel g = map skel g'.
Proof. exact same_structure_b_iff. Qed.
Print Assumptions C19_oracle_structure.

Theorem C19_oracle_outside_space : forall sp nm a b,
  outside_untouched_node sp nm a b = true ->
  forall k, in_space sp nm k = false -> opt_value_eqb (dget a k) (dget b k) = true.
Proof. exact outside_untouched_node_sound. Qed.
Print Assumptions C19_oracle_outside_space.

(* ---- non-vacuity: the hypotheses are satisfiable by non-trivial runs ---- *)
Definition ex_obj : graph -> fitness :=
  table_obj [(map params w_graph, FSingle 8); (w_tuned, FSingle (5 # 2))].

(* a real improvement: tuned graph returned, x and y set inside their ranges, zz and q untouched,
   obtained_metric = 5/2 <= 8 *)
Example ex_tuned_returned :
  labels_in_space_b w_space Optuna w_graph w_prop = true /\
  proposals_in_range_b w_space Optuna w_graph w_prop = true /\
  has_params w_space w_graph = true /\
  tune ex_obj w_space (mkConfig Optuna (1 # 20) true) w_prop w_graph =
  Ok (mkOutcome false
        [[mkNode 0 "a" [("zz", VInt 5); ("x", VInt 1); ("y", VNum (1 # 2))] [1%nat]; mkNode 1 "c" [("q", VInt 1)] []]]
        (MFin 8) (RMetric (MFin (5 # 2)))).
Proof. repeat split; vm_compute; reflexivity. Qed.

(* the same through the sequential tuner (node-level assignments, `<= best` rule) *)
Example ex_sequential :
  let p := mkProposer [] None [] [mkStep [w_assign] w_assign (MFin (5 # 2))] in
  labels_in_space_b w_space (Sequential false) w_graph p = true /\
  exists o, tune ex_obj w_space (mkConfig (Sequential false) (1 # 20) true) p w_graph = Ok o /\
            out_reported o = RMetric (MFin (5 # 2)).
Proof. split; [vm_compute; reflexivity|]. eexists. split; vm_compute; reflexivity. Qed.

(* not better than the threshold 8 - 8*0.05/100: the initial graph is returned with its metric *)
Example ex_init_returned :
  tune (table_obj [(map params w_graph, FSingle 8); (w_tuned, FSingle 8)]) w_space
       (mkConfig Simultaneous (1 # 20) true) w_prop w_graph =
  Ok (mkOutcome false [w_graph] (MFin 8) (RMetric (MFin 8))).
Proof. vm_compute. reflexivity. Qed.

(* a label outside the space is caught by the executable hypothesis, and such a proposer does modify a
   parameter outside the search space (so the hypothesis of C19_outside_space_untouched is necessary) *)
Example ex_hypothesis_necessary :
  let bad := [("0 || a | zz", VInt 7)] in
  let p := mkProposer [bad] (Some bad) [] [] in
  labels_in_space_b w_space Optuna w_graph p = false /\
  exists o, tune (table_obj [(map params w_graph, FSingle 8);
                             ([[("zz", VInt 7)]; [("q", VInt 1)]], FSingle 1)]) w_space
                 (mkConfig Optuna (1 # 20) true) p w_graph = Ok o /\
            out_graphs o = [[mkNode 0 "a" [("zz", VInt 7)] [1%nat]; mkNode 1 "c" [("q", VInt 1)] []]].
Proof. split; [vm_compute; reflexivity|]. eexists. split; vm_compute; reflexivity. Qed.

(* multi-objective: the library's front [tuned]; tuned (1, 9) is not dominated by the input (2, 3) *)
Example ex_multi :
  tune (table_obj [(map params w_graph, FMulti [2; 3]); (w_tuned, FMulti [1; 9])]) w_space
       (mkConfig Optuna (1 # 20) true) (mkProposer [w_assign] None [w_assign] []) w_graph =
  Ok (mkOutcome true
        [[mkNode 0 "a" [("zz", VInt 5); ("x", VInt 1); ("y", VNum (1 # 2))] [1%nat]; mkNode 1 "c" [("q", VInt 1)] []]]
        (MVec [2; 3]) (RList [MVec [1; 9]])).
Proof. vm_compute. reflexivity. Qed.

(* nothing to tune (empty search space): unchanged for every tuner *)
Example ex_nothing_to_tune :
  has_params [] w_graph = false /\
  forall k, In k [Simultaneous; Sequential false; Sequential true; Optuna; IOpt] ->
  tune ex_obj [] (mkConfig k (1 # 20) true) w_prop w_graph =
  Ok (mkOutcome false [w_graph] (MFin 8) (RMetric (MFin 8))).
Proof.
  split; [reflexivity|]. intros k [<-|[<-|[<-|[<-|[<-|[]]]]]]; vm_compute; reflexivity.
Qed.

(* tune_node needs two search-space parameters on the node; x is initialised, y is not, the objective gets
   worse: the (unchanged) input is returned with its own metric *)
Example ex_tune_node_fallback :
  let s := mkStep [w_assign] w_assign (MFin 9) in
  tune_node (table_obj [(map params w_graph, FSingle 8); (w_tuned, FSingle 9)]) w_space
            (mkConfig (Sequential false) (1 # 20) true) (mkProposer [] None [] [s]) 0 w_graph =
  Ok (mkOutcome false [w_graph] (MFin 8) (RMetric (MFin 8))).
Proof. vm_compute. reflexivity. Qed.

(* operation names may contain the label separators: the parameter name is what follows the LAST ' | ' *)
Example ex_separator_in_names :
  split_last (make_label 0 "scale | shift" "p") = "p" /\
  split_last (make_label 3 "x || y" "max depth") = "max depth" /\
  prefix (node_prefix 0 "scale | shift") (make_label 0 "scale | shift" "p") = true.
Proof. repeat split; vm_compute; reflexivity. Qed.

(* label decoding is python's split(' | ')[-1] *)
Example ex_split_last :
  split_last "0 || a | x" = "x" /\ split_last "12 || knn | n | k" = "k" /\ split_last "a | " = "" /\
  split_last " | | b" = "| b" /\ split_last "plain" = "plain" /\
  make_label 12 "knn" "k" = "12 || knn | k" /\ prefix (node_prefix 1 "a") "10 || a | x" = false.
Proof. repeat split; vm_compute; reflexivity. Qed.
