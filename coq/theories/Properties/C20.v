(* C20 - Generators and builders produce only valid graphs within bounds.
   Only statements, closed by `exact` (short glue allowed), each followed by Print Assumptions.
   Models: Gen/Builder.v, Gen/Factory.v; proofs: Gen/Builder*.v, Gen/FactoryProofs.v. *)
From Coq Require Import String List Arith Bool ZArith Lia.
From GolemV Require Import Gen.Builder Gen.BuilderLemmas Gen.BuilderDfs Gen.BuilderCopy Gen.BuilderOps
  Gen.BuilderMerge Gen.BuilderProofs Gen.BuilderUids Gen.BuilderOracle.
From GolemV Require Gen.Factory Gen.FactoryProofs.
Import ListNotations.

(* ================================================================== the builder *)

(* (1) whatever sequence of calls k builders receive - any operations incl. None / '' /
   (None, params), any integer branch / node indices, merges, builds - no call raises *)
Theorem C20_builder_total : forall k cs, exists st' rs, run (init k) cs = Ok (st', rs).
Proof. exact builder_total. Qed.
Print Assumptions C20_builder_total.

(* ... and this holds from every state that satisfies the invariant, one call at a time *)
Theorem C20_builder_step_total : forall st c, inv st ->
  exists st' r, step st c = Ok (st', r) /\ inv st'.
Proof. intros st c H. destruct (step_ok st c H) as (st' & r & E & Hi & _). eauto. Qed.
Print Assumptions C20_builder_step_total.

(* (2) after any call sequence everything a builder reaches is well-formed (valid references,
   parents reachable too, no parent twice) and acyclic *)
Theorem C20_builder_wf_acyclic : forall k cs st' rs, run (init k) cs = Ok (st', rs) ->
  forall b x, reachable st' b x ->
    x < length (s_heap st') /\
    NoDup (parents (s_heap st') x) /\
    (forall p, edge (s_heap st') x p -> reachable st' b p /\ p < length (s_heap st')) /\
    ~ reachp (s_heap st') x x.
Proof. exact builder_wf_acyclic. Qed.
Print Assumptions C20_builder_wf_acyclic.

(* the reason the skip connection cannot close a cycle: one more edge c -> n in an acyclic
   graph keeps it acyclic when n does not reach c, and ordered_subnodes_hierarchy(n) lists
   every node n reaches (so the guard `c not in ordered_subnodes_hierarchy(n)` is enough) *)
Theorem C20_skip_guard_sound : forall h h' c n fuel l,
  acyclic h -> edges_plus h h' c n -> osh fuel h n = Ok l -> mem c l = false -> acyclic h'.
Proof.
  intros h h' c n fuel l Ha He Ho Hm. apply (acyclic_plus h h' c n); auto.
  intros Hr. apply (osh_complete _ _ _ _ Ho) in Hr. apply mem_false in Hm. auto.
Qed.
Print Assumptions C20_skip_guard_sound.

(* (3) two builds in a row: the builders and all cells that existed are untouched; each graph
   consists of cells allocated by its own build (so the graphs share nothing with each other nor
   with any builder); the second graph is the first one shifted by a constant, cell by cell
   (same names, params, uids, parents in the same order) *)
Theorem C20_build_fresh_equal_independent : forall st b st1 g1 st2 g2, inv st ->
  step st (Build b) = Ok (st1, RGraph g1) -> step st1 (Build b) = Ok (st2, RGraph g2) ->
  s_bs st2 = s_bs st /\ (forall x, x < length (s_heap st) -> get (s_heap st2) x = get (s_heap st) x) /\
  (forall x, In x g1 -> length (s_heap st) <= x < length (s_heap st1)) /\
  (forall x, In x g2 -> length (s_heap st1) <= x < length (s_heap st2)) /\
  (forall x, x < length (s_heap st1) -> get (s_heap st2) x = get (s_heap st1) x) /\
  exists d, 0 < d /\ g2 = map (fun a => a + d) g1 /\
    forall a, In a g1 -> get (s_heap st2) (a + d) = shift_node (fun p => p + d) (get (s_heap st2) a).
Proof. exact build_twice. Qed.
Print Assumptions C20_build_fresh_equal_independent.

(* to_nodes, build and merge change nothing that existed: old cells keep their content, old
   builders keep their heads; in particular merging leaves both inputs unchanged *)
Theorem C20_pure_calls_touch_nothing : forall st c st' r, inv st -> pure_call c = true ->
  step st c = Ok (st', r) ->
  (forall x, x < length (s_heap st) -> get (s_heap st') x = get (s_heap st) x) /\
  (exists extra, s_bs st' = s_bs st ++ extra).
Proof. exact step_pure_untouched. Qed.
Print Assumptions C20_pure_calls_touch_nothing.

Theorem C20_merge_inputs_unchanged : forall st b1 b2 st' r x,
  inv st -> b1 < length (s_bs st) -> b2 < length (s_bs st) ->
  step st (Merge b1 b2) = Ok (st', r) ->
  (heads_of st' b1 = heads_of st b1 /\ heads_of st' b2 = heads_of st b2) /\
  (reachable st b1 x \/ reachable st b2 x ->
   get (s_heap st') x = get (s_heap st) x /\ (reachable st b1 x -> reachable st' b1 x) /\
   (reachable st b2 x -> reachable st' b2 x)).
Proof. exact merge_inputs_unchanged. Qed.
Print Assumptions C20_merge_inputs_unchanged.

(* node uids are pairwise distinct inside everything one builder reaches, also after merges
   (incl. merging a builder with itself), hence inside every built graph *)
Theorem C20_builder_uids_distinct : forall k cs st' rs, run (init k) cs = Ok (st', rs) ->
  forall b x y, reachable st' b x -> reachable st' b y ->
    n_uid (get (s_heap st') x) = n_uid (get (s_heap st') y) -> x = y.
Proof. exact builder_uids_distinct. Qed.
Print Assumptions C20_builder_uids_distinct.

(* distinct builder objects never share a node *)
Theorem C20_builders_disjoint : forall k cs st' rs, run (init k) cs = Ok (st', rs) ->
  forall b b' x, b <> b' -> reachable st' b x -> reachable st' b' x -> False.
Proof. exact builders_disjoint. Qed.
Print Assumptions C20_builders_disjoint.

(* the executable oracle used on the observed graphs never misses a defect: when it answers
   true the canonical graph is closed, has duplicate-free parent lists and no cycle *)
Theorem C20_oracle_sound : forall g, graph_ok g = true ->
  (forall i p, In p (cparents (nth i g cdummy)) -> p < length g) /\
  (forall i, NoDup (cparents (nth i g cdummy))) /\
  (forall i, ~ cpath g i i).
Proof. exact graph_ok_sound. Qed.
Print Assumptions C20_oracle_sound.

(* ---- non-vacuity of the builder theorems *)
(* a call sequence with branches, a refused and an accepted skip connection, a self-merge and a
   build: runs to Ok, the last call returns a graph of 6 fresh cells *)
Example builder_run_nontrivial :
  exists st g, run (init 2) [AddSequence 0 [Some (OStr "a"); Some (OStr "b"); Some (OStr "c")] 0%Z;
                             AddSkip 0 0%Z 0%Z 0%Z 2%Z; AddSkip 0 0%Z 0%Z 2%Z 0%Z;
                             Merge 0 0; Build 2] = Ok (st, [RSelf; RSelf; RSelf; RBuilder 2; RGraph g])
            /\ length g = 6 /\ length (s_bs st) = 3.
Proof. eexists. eexists. vm_compute. repeat split. Qed.

(* the hypotheses of the two-builds theorem are met by a non-empty builder *)
Example build_twice_hypotheses_satisfiable :
  exists st st1 g1 st2 g2, inv st /\ step st (Build 0) = Ok (st1, RGraph g1) /\
    step st1 (Build 0) = Ok (st2, RGraph g2) /\ length g1 = 3.
Proof.
  destruct (run_ok [GrowBranches 0 [Some (OStr "a"); Some (OStr "b")]; JoinBranches 0 (Some "j"%string) 1] (init 1) (inv_init 1))
    as (st & rs & E & Hinv).
  vm_compute in E. inversion E; subst st. clear E.
  eexists. eexists. eexists. eexists. eexists. split; [exact Hinv|]. vm_compute. repeat split.
Qed.

(* ================================================================== the generators *)
Import Gen.Factory Gen.FactoryProofs.

(* (4) random_graph, for every verifier, requirements, override, node factory, choice stream: a
   returned graph is accepted by the verifier, not deeper than the bound, no node has more than
   max_arity parents, and - for a TOTAL node factory (partial = false: get_node() never answers
   None) - every non-leaf node has at least min_arity parents; otherwise ValueError - because the
   arity range is empty or exactly after max_attempts + 1 attempts.  The loop never needs more
   fuel than the model gives it (there is no third outcome). *)
Theorem C20_random_graph_contract : forall V rq arg partial ntypes max_attempts attempts,
  match random_graph V rq arg partial ntypes max_attempts attempts with
  | (Ok t, n) => V t = true /\ tdepth t <= depth_bound rq arg /\ arity_upper_ok rq t = true /\
                 (partial = false -> arity_ok rq t = true) /\ 1 <= n <= max_attempts
  | (Raise e, n) => e = ValueError /\ (max_arity rq < min_arity rq \/ n = S max_attempts)
  end.
Proof. exact random_graph_contract. Qed.
Print Assumptions C20_random_graph_contract.

(* with a partial node factory the lower arity bound can fail: min = max = 2, the second
   get_node() of the root's growth answers None *)
Theorem C20_partial_factory_min_arity_refuted :
  exists t n, random_graph (fun _ => true) (mkReq 2 2 2) None true 1 1000 [[1; 0; 1; 0]] = (Ok t, n) /\
              arity_ok (mkReq 2 2 2) t = false.
Proof. eexists. eexists. vm_compute. split; reflexivity. Qed.
Print Assumptions C20_partial_factory_min_arity_refuted.

(* the bound is the effective max_depth: requirements.max_depth when there is no override (or the
   falsy override 0), the override argument m for every m >= 1 - also an override of 1 below
   requirements.max_depth gives a single node *)
Theorem C20_depth_bound_is_max_depth : forall rq,
  (1 <= max_depth rq -> depth_bound rq None = max_depth rq) /\
  (forall m, 1 <= m -> depth_bound rq (Some m) = m) /\
  depth_bound rq (Some 0) = depth_bound rq None.
Proof. intros rq. split; [apply depth_bound_plain|split; [apply depth_bound_override|reflexivity]]. Qed.
Print Assumptions C20_depth_bound_is_max_depth.

(* (5) InitialPopulationGenerator, for every generator, verifier, equality: at most pop_size
   graphs; when generated: all verified, pairwise not equal, at most max_attempts generator
   calls; given graphs are only truncated; an exception is the generator's *)
Theorem C20_initial_population_contract : forall G eqg V gen pop_size max_attempts given,
  match initial_population G eqg V gen pop_size max_attempts given with
  | (Ok pop, n) =>
      length pop <= pop_size /\
      match given with
      | [] => Forall (fun g => V g = true) pop /\ n <= max_attempts /\
              forall i j d, i < j < length pop -> eqg (nth i pop d) (nth j pop d) = false
      | _ => pop = firstn pop_size given
      end
  | (Raise e, n) => given = [] /\ exists j, gen j = Raise e /\ j < max_attempts
  end.
Proof.
  intros. pose proof (initial_population_contract G eqg V gen pop_size max_attempts given) as H.
  destruct (initial_population G eqg V gen pop_size max_attempts given) as ([pop|e], n); auto.
  destruct H as (H1 & H2). split; auto. destruct given; auto.
  destruct H2 as (H2 & H3 & H4). repeat split; auto. intros. apply (distinct_nth G eqg); auto.
Qed.
Print Assumptions C20_initial_population_contract.

(* ================================================================== non-vacuity *)
(* random_graph: a choice stream for which the second attempt is accepted *)
Example random_graph_nontrivial :
  exists t, random_graph (veval (VMinDepth 3)) (mkReq 3 1 2) None false 2 1000 [[0; 0; 1; 0]; [1; 1; 0; 1; 0; 0; 1; 0]]
            = (Ok t, 2) /\ tdepth t = 3.
Proof. eexists. vm_compute. split; reflexivity. Qed.

(* an override of 1 below requirements.max_depth = 3: a single node, whatever the choices *)
Example override_one_single_node :
  random_graph (fun _ => true) (mkReq 3 1 3) (Some 1) false 2 1000 [[1; 5; 5; 1; 1]] = (Ok (T 1 []), 1).
Proof. reflexivity. Qed.

Example random_graph_gives_up :
  random_graph (veval VNever) (mkReq 2 1 1) None false 1 3 [] = (Raise ValueError, 4).
Proof. reflexivity. Qed.

(* the population loop drops a duplicate and a rejected graph *)
Example population_nontrivial :
  initial_population tree tree_eqb (veval (VRootNot 1))
    (gen_of [T 0 []; T 0 []; T 1 []; T 2 [T 0 []]]) 2 1000 [] = (Ok [T 0 []; T 2 [T 0 []]], 4).
Proof. reflexivity. Qed.
