(* Executable model of the JSON codec of graphs and individuals (property C11):
     golem/serializers/serializer.py          Serializer.default / object_hook, class-path tags
     golem/serializers/any_serialization.py   any_to_json (sorted vars) / any_from_json (no __init__)
     golem/serializers/coders/graph_node_serialization.py    graph_node_to_json
     golem/serializers/coders/graph_serialization.py         graph_from_json, _reassign_edges_by_node_ids
     golem/serializers/coders/parent_operator_serialization.py
     golem/core/dag/linked_graph_node.py      name / parameters / nodes_from setter
   and of the three LinkedGraph editing methods whose result depends on the kind of the parent
   container (connect_nodes, disconnect_nodes, delete_node).  Definitions only.

   Modelling rules (DESIGN 2.1): a python object is a reference into a heap; `uid` is a field.
   Saving returns the heap as well, so "saving does not change the saved object" is a theorem.
   A parent container is a list of references plus its kind (`uniq = true`: UniqueList).
   Exceptions are values.  The model works on JSON trees (Serial/Json.v); text is trusted. *)
From Coq Require Import List String ZArith QArith Bool Arith.
From GolemV Require Import Serial.Json.
Import ListNotations.
Local Close Scope Q_scope.
Local Open Scope nat_scope.
Local Open Scope string_scope.
Local Open Scope list_scope.

(* ================================================================= objects *)
Definition ref := nat.

(* a LinkedGraphNode: `content` is the python dict (insertion ordered; JSON-like values; the
   value under "name" may be a str, an int, None or a bool), `parents` is `_nodes_from` *)
Record node := mkNode {
  uid : string;
  content : list (string * json);
  parents : list ref;
  uniq : bool
}.

(* the heap also holds the python None object when somebody refers to it (a decoded node whose
   parent uid is unknown gets None as a parent) *)
Inductive cell := Obj (nd : node) | NoneObj.
Definition heap := list cell.

Definition get (h : heap) (r : ref) : option node :=
  match nth_error h r with Some (Obj nd) => Some nd | _ => None end.

Fixpoint upd (h : heap) (r : ref) (c : cell) : heap :=
  match h, r with
  | [], _ => []
  | _ :: t, O => c :: t
  | x :: t, S r' => x :: upd t r' c
  end.

Inductive gkind := GLinked | GDelegate.            (* LinkedGraph | GraphDelegate (= OptGraph) *)
Record graph := mkGraph { kind : gkind; nodes : list ref }.   (* `_nodes` of the (inner) LinkedGraph *)

(* LinkedGraphNode.name: str(name) if name is not None else '' *)
Definition node_name (nd : node) : option string :=
  match lookup "name" (content nd) with
  | None => Some ""
  | Some JNull => Some ""
  | Some v => py_str v
  end.

(* LinkedGraphNode.parameters: content.get('params', {}) *)
Definition node_params (nd : node) : json :=
  match lookup "params" (content nd) with Some p => p | None => JObj [] end.

(* ================================================================= exceptions as values *)
Inductive exn := AttributeError | KeyError | TypeError | ValueError | Unmodelled.
Inductive res (A : Type) := Ok (a : A) | Raise (e : exn).
Arguments Ok {A} a.
Arguments Raise {A} e.

Definition bind {A B} (x : res A) (f : A -> res B) : res B :=
  match x with Ok a => f a | Raise e => Raise e end.

Definition is_ok {A} (x : res A) : bool := match x with Ok _ => true | Raise _ => false end.

(* ================================================================= class-path tags *)
Definition CP := "_class_path".
Definition node_path := "golem.core.dag.linked_graph_node/LinkedGraphNode".
Definition linked_path := "golem.core.dag.linked_graph/LinkedGraph".
Definition delegate_path := "golem.core.dag.graph_delegate/GraphDelegate".
Definition postproc_path := "golem.core.dag.linked_graph/LinkedGraph._empty_postprocess".
Definition individual_path := "golem.core.optimisers.opt_history_objects.individual/Individual".
Definition parent_op_path := "golem.core.optimisers.opt_history_objects.parent_operator/ParentOperator".
Definition single_fit_path := "golem.core.optimisers.fitness.fitness/SingleObjFitness".
Definition multi_fit_path := "golem.core.optimisers.fitness.multi_objective_fitness/MultiObjFitness".

Inductive cls := CNode | CLinked | CDelegate | CIndividual | CParentOp | CSingleFit | CMultiFit | CPostproc.

(* Serializer._get_class restricted to the classes of this property, with the entries of
   LEGACY_CLASS_PATHS that lead to them *)
Definition resolve (p : string) : option cls :=
  if p =? node_path then Some CNode
  else if p =? "fedot.core.dag.graph_node/GraphNode" then Some CNode
  else if p =? linked_path then Some CLinked
  else if p =? "fedot.core.dag.graph_operator/GraphOperator" then Some CLinked
  else if p =? delegate_path then Some CDelegate
  else if p =? postproc_path then Some CPostproc
  else if p =? "fedot.core.dag.graph_operator/GraphOperator._empty_postprocess" then Some CPostproc
  else if p =? individual_path then Some CIndividual
  else if p =? "fedot.core.optimisers.gp_comp.individual/Individual" then Some CIndividual
  else if p =? parent_op_path then Some CParentOp
  else if p =? "fedot.core.optimisers.gp_comp.individual/ParentOperator" then Some CParentOp
  else if p =? single_fit_path then Some CSingleFit
  else if p =? multi_fit_path then Some CMultiFit
  else None.

Definition class_of (kv : list (string * json)) : option cls :=
  match lookup CP kv with Some (JStr p) => resolve p | _ => None end.

(* ================================================================= saving a graph *)
(* graph_node_to_json:
   `if content.get('name') is not None: content = {**content, 'name': str(content['name'])}` *)
Definition stringify_name (c : list (string * json)) : res (list (string * json)) :=
  match lookup "name" c with
  | None => Ok c
  | Some JNull => Ok c
  | Some v => match py_str v with
              | Some s => Ok (assoc_set "name" (JStr s) c)
              | None => Raise Unmodelled
              end
  end.

(* [node.uid for node in nodes_from]; a parent that is None has no uid *)
Fixpoint uids_of (h : heap) (ps : list ref) : res (list json) :=
  match ps with
  | [] => Ok []
  | p :: t => match get h p with
              | None => Raise AttributeError
              | Some nd => bind (uids_of h t) (fun l => Ok (JStr (uid nd) :: l))
              end
  end.

(* Serializer.default on a node: the encoded dict (keys of vars() sorted, class path last) and
   the live node as the encoder leaves it.  The encoder builds a new dict for `content` and a
   new list for `_nodes_from`, so every field of the live node is what it was. *)
Definition encode_node (h : heap) (nd : node) : res json * node :=
  let live := mkNode (uid nd) (content nd) (parents nd) (uniq nd) in
  (bind (stringify_name (content nd)) (fun c =>
   bind (uids_of h (parents nd)) (fun us =>
   Ok (JObj [("_nodes_from", JArr us); ("content", JObj c); ("uid", JStr (uid nd));
             (CP, JStr node_path)]))),
   live).

(* the encoder walks `_nodes` in order; what it did to earlier nodes stays done when a later
   node raises.  A None in the list is encoded as null. *)
Fixpoint save_nodes (h : heap) (rs : list ref) : res (list json) * heap :=
  match rs with
  | [] => (Ok [], h)
  | r :: t =>
      match get h r with
      | None => let '(rest, h') := save_nodes h t in (bind rest (fun l => Ok (JNull :: l)), h')
      | Some nd =>
          let '(j, live) := encode_node h nd in
          let h1 := upd h r (Obj live) in
          match j with
          | Raise e => (Raise e, h1)
          | Ok jn => let '(rest, h') := save_nodes h1 t in (bind rest (fun l => Ok (jn :: l)), h')
          end
      end
  end.

Definition linked_json (ns : list json) : json :=
  JObj [("_nodes", JArr ns);
        ("_postprocess_nodes", JObj [(CP, JStr postproc_path)]);
        (CP, JStr linked_path)].

Definition graph_json (k : gkind) (ns : list json) : json :=
  match k with
  | GLinked => linked_json ns
  | GDelegate => JObj [("operator", linked_json ns); (CP, JStr delegate_path)]
  end.

(* json.dumps(graph, cls=Serializer) as a tree, and the heap afterwards *)
Definition save_graph (h : heap) (g : graph) : res json * heap :=
  let '(ns, h') := save_nodes h (nodes g) in
  (bind ns (fun l => Ok (graph_json (kind g) l)), h').

(* ================================================================= loading a graph *)
(* what any_from_json builds from a node dict: `_nodes_from` is a plain list of uid strings *)
Record pnode := mkP { p_uid : string; p_content : list (string * json); p_from : list string }.

Fixpoint strs (l : list json) : res (list string) :=
  match l with
  | [] => Ok []
  | JStr s :: t => bind (strs t) (fun r => Ok (s :: r))
  | _ :: _ => Raise Unmodelled
  end.

Definition decode_node (j : json) : res pnode :=
  match j with
  | JObj kv =>
      match class_of kv with
      | Some CNode =>
          match lookup "uid" kv, lookup "content" kv, lookup "_nodes_from" kv with
          | Some (JStr u), Some (JObj c), Some (JArr l) => bind (strs l) (fun us => Ok (mkP u c us))
          | _, _, _ => Raise Unmodelled
          end
      | _ => Raise Unmodelled
      end
  | _ => Raise Unmodelled
  end.

Fixpoint decode_nodes (l : list json) : res (list pnode) :=
  match l with
  | [] => Ok []
  | j :: t => bind (decode_node j) (fun p => bind (decode_nodes t) (fun r => Ok (p :: r)))
  end.

(* `_postprocess_nodes` is absent (cls() has set the default) or the tag of the default function *)
Definition postproc_ok (o : option json) : bool :=
  match o with
  | None => true
  | Some (JObj [(k, JStr p)]) =>
      (k =? CP) && match resolve p with Some CPostproc => true | _ => false end
  | Some _ => false
  end.

(* graph_from_json for LinkedGraph: nodes_key = 'nodes' if 'nodes' in json_obj else '_nodes';
   json_obj[nodes_key] raises KeyError when absent.  `_postprocess_nodes` must be the default. *)
Definition decode_linked (j : json) : res (list pnode) :=
  match j with
  | JObj kv =>
      match class_of kv with
      | Some CLinked =>
          if postproc_ok (lookup "_postprocess_nodes" kv) then
            match lookup (if has_key "nodes" kv then "nodes" else "_nodes") kv with
            | None => Raise KeyError
            | Some (JArr l) => decode_nodes l
            | Some _ => Raise Unmodelled
            end
          else Raise Unmodelled
      | _ => Raise Unmodelled
      end
  | _ => Raise Unmodelled
  end.

(* lookup_dict[uid] = node for node in nodes: a later node with the same uid wins *)
Fixpoint find_last (u : string) (ps : list pnode) : option nat :=
  match ps with
  | [] => None
  | p :: t => match find_last u t with
              | Some i => Some (S i)
              | None => if p_uid p =? u then Some 0 else None
              end
  end.

Definition memb (x : nat) (l : list nat) : bool := existsb (Nat.eqb x) l.

(* UniqueList(iterable): first occurrences, order kept *)
Fixpoint dedupe_acc (seen l : list nat) : list nat :=
  match l with
  | [] => []
  | x :: t => if memb x seen then dedupe_acc seen t else x :: dedupe_acc (x :: seen) t
  end.
Definition dedupe (l : list nat) : list nat := dedupe_acc [] l.

Definition is_none {A} (o : option A) : bool := match o with None => true | Some _ => false end.

Definition any_missing (ps : list pnode) : bool :=
  existsb (fun p => existsb (fun u => is_none (find_last u ps)) (p_from p)) ps.

(* _reassign_edges_by_node_ids: every uid is replaced by lookup_dict.get(uid, None), then
   `node.nodes_from = nodes_from` stores a UniqueList of the result *)
Definition link (base : nat) (ps : list pnode) (p : pnode) : node :=
  mkNode (p_uid p) (p_content p)
         (dedupe (map (fun u => match find_last u ps with
                                | Some i => base + i
                                | None => base + List.length ps        (* the None object *)
                                end) (p_from p)))
         true.

(* the decoded objects are new objects: they are appended to the heap in `_nodes` order
   (and the None object after them when some parent uid is unknown) *)
Definition load_linked (h : heap) (j : json) : res (heap * list ref) :=
  bind (decode_linked j) (fun ps =>
  let base := List.length h in
  Ok (h ++ map (fun p => Obj (link base ps p)) ps ++ (if any_missing ps then [NoneObj] else []),
      seq base (List.length ps))).

(* json.loads(text, cls=Serializer) of a graph.  GraphDelegate: cls() builds an empty inner
   LinkedGraph which is replaced by the decoded `operator` when the key is present. *)
Definition load_graph (h : heap) (j : json) : res (heap * graph) :=
  match j with
  | JObj kv =>
      match class_of kv with
      | Some CLinked => bind (load_linked h j) (fun x => Ok (fst x, mkGraph GLinked (snd x)))
      | Some CDelegate =>
          match lookup "operator" kv with
          | None => Ok (h, mkGraph GDelegate [])
          | Some op => bind (load_linked h op) (fun x => Ok (fst x, mkGraph GDelegate (snd x)))
          end
      | _ => Raise Unmodelled
      end
  | _ => Raise Unmodelled
  end.

(* ================================================================= individuals *)
(* kind of a python sequence: the constructors build tuples, any_from_json leaves JSON lists *)
Inductive seqkind := Tuple | PList.
Definition seqkind_eqb (a b : seqkind) : bool :=
  match a, b with Tuple, Tuple | PList, PList => true | _, _ => false end.

(* a python float / int stored in a fitness: a rational or one of the three non-finite floats.
   json.dumps writes these as the tokens Infinity / -Infinity / NaN and json.loads reads them
   back; a JSON tree shows them as the reserved strings below (the harness maps every
   non-finite float - also inside params and metadata - to these strings, so nan equals nan
   and infinities are compared by sign) *)
Inductive fnum := Fin (q : Q) | PInf | NInf | FNaN.
Definition tok_inf := "#Infinity#".
Definition tok_ninf := "#-Infinity#".
Definition tok_nan := "#NaN#".

Inductive fitness :=
| FSingle (k : seqkind) (vals : list (option fnum))          (* SingleObjFitness._values *)
| FMulti (kw kv : seqkind) (weights wvalues : list fnum).    (* MultiObjFitness._weights, .wvalues *)

(* an entry of ParentOperator.parent_individuals: a live Individual (only its uid is read by
   the encoder), a bare uid string (what a decoded operator holds) or None *)
Inductive pind := PLive (u : string) | PUid (u : string) | PNoneInd.

Record parent_op := mkPO {
  po_type : string;
  po_okind : seqkind; po_operators : list json;
  po_pkind : seqkind; po_parents : list pind;
  po_uid : string
}.

Record individual := mkInd {
  i_fitness : fitness;
  i_graph : graph;
  i_metadata : list (string * json);
  i_native : option Z;
  i_pop : option parent_op;
  i_uid : string
}.

Definition fnum_json (x : fnum) : json :=
  match x with Fin q => JNum q | PInf => JStr tok_inf | NInf => JStr tok_ninf | FNaN => JStr tok_nan end.

Definition json_fnum (j : json) : option fnum :=
  match j with
  | JNum q => Some (Fin q)
  | JStr s => if s =? tok_inf then Some PInf else if s =? tok_ninf then Some NInf
              else if s =? tok_nan then Some FNaN else None
  | _ => None
  end.

Definition jopt_num (o : option fnum) : json := match o with Some x => fnum_json x | None => JNull end.

Definition fitness_json (f : fitness) : json :=
  match f with
  | FSingle _ vals => JObj [("_values", JArr (map jopt_num vals)); (CP, JStr single_fit_path)]
  | FMulti _ _ ws wv => JObj [("_weights", JArr (map fnum_json ws)); ("wvalues", JArr (map fnum_json wv));
                              (CP, JStr multi_fit_path)]
  end.

(* parent_operator_to_json:
   [p if isinstance(p, str) else p.uid for p in parent_individuals if p is not None] *)
Fixpoint parent_uids (ps : list pind) : res (list json) :=
  match ps with
  | [] => Ok []
  | PNoneInd :: t => parent_uids t
  | PLive u :: t => bind (parent_uids t) (fun l => Ok (JStr u :: l))
  | PUid u :: t => bind (parent_uids t) (fun l => Ok (JStr u :: l))
  end.

Definition parent_op_json (po : parent_op) : res json :=
  bind (parent_uids (po_parents po)) (fun us =>
  Ok (JObj [("operators", JArr (po_operators po)); ("parent_individuals", JArr us);
            ("type_", JStr (po_type po)); ("uid", JStr (po_uid po)); (CP, JStr parent_op_path)])).

(* json.dumps(individual, cls=Serializer): vars() sorted; values are encoded in that order *)
Definition save_individual (h : heap) (ind : individual) : res json * heap :=
  let '(gj, h') := save_graph h (i_graph ind) in
  (bind gj (fun g =>
   bind (match i_pop ind with None => Ok JNull | Some po => parent_op_json po end) (fun pj =>
   Ok (JObj [("fitness", fitness_json (i_fitness ind));
             ("graph", g);
             ("metadata", JObj (i_metadata ind));
             ("native_generation", match i_native ind with Some z => JNum (Qmake z 1%positive) | None => JNull end);
             ("parent_operator", pj);
             ("uid", JStr (i_uid ind));
             (CP, JStr individual_path)]))), h').

Fixpoint opt_nums (l : list json) : res (list (option fnum)) :=
  match l with
  | [] => Ok []
  | JNull :: t => bind (opt_nums t) (fun r => Ok (None :: r))
  | j :: t => match json_fnum j with
              | Some x => bind (opt_nums t) (fun r => Ok (Some x :: r))
              | None => Raise Unmodelled
              end
  end.

Fixpoint nums (l : list json) : res (list fnum) :=
  match l with
  | [] => Ok []
  | j :: t => match json_fnum j with
              | Some x => bind (nums t) (fun r => Ok (x :: r))
              | None => Raise Unmodelled
              end
  end.

(* fitness_from_json: any_from_json, then every list-valued field becomes a tuple again *)
Definition decode_fitness (j : json) : res fitness :=
  match j with
  | JObj kv =>
      match class_of kv with
      | Some CSingleFit =>
          match lookup "_values" kv with
          | Some (JArr l) => bind (opt_nums l) (fun v => Ok (FSingle Tuple v))
          | _ => Raise Unmodelled
          end
      | Some CMultiFit =>
          match lookup "_weights" kv, lookup "wvalues" kv with
          | Some (JArr w), Some (JArr v) =>
              bind (nums w) (fun ws => bind (nums v) (fun wv => Ok (FMulti Tuple Tuple ws wv)))
          | _, _ => Raise Unmodelled
          end
      | _ => Raise Unmodelled
      end
  | _ => Raise Unmodelled
  end.

(* parent_operator_from_json = any_from_json: uid strings stay strings *)
Definition decode_parent_op (j : json) : res (option parent_op) :=
  match j with
  | JNull => Ok None
  | JObj kv =>
      match class_of kv with
      | Some CParentOp =>
          match lookup "operators" kv, lookup "parent_individuals" kv, lookup "type_" kv, lookup "uid" kv with
          | Some (JArr ops), Some (JArr ps), Some (JStr t), Some (JStr u) =>
              bind (strs ps) (fun us => Ok (Some (mkPO t PList ops PList (map PUid us) u)))
          | _, _, _, _ => Raise Unmodelled
          end
      | _ => Raise Unmodelled
      end
  | _ => Raise Unmodelled
  end.

Definition decode_native (j : json) : res (option Z) :=
  match j with
  | JNull => Ok None
  | JNum q => if Pos.eqb (Qden q) 1%positive then Ok (Some (Qnum q)) else Raise Unmodelled
  | _ => Raise Unmodelled
  end.

Definition load_individual (h : heap) (j : json) : res (heap * individual) :=
  match j with
  | JObj kv =>
      match class_of kv with
      | Some CIndividual =>
          match lookup "fitness" kv, lookup "graph" kv, lookup "metadata" kv,
                lookup "native_generation" kv, lookup "parent_operator" kv, lookup "uid" kv with
          | Some fj, Some gj, Some (JObj md), Some nj, Some pj, Some (JStr u) =>
              bind (decode_fitness fj) (fun f =>
              bind (load_graph h gj) (fun hg =>
              bind (decode_native nj) (fun n =>
              bind (decode_parent_op pj) (fun po =>
              Ok (fst hg, mkInd f (snd hg) md n po u)))))
          | _, _, _, _, _, _ => Raise Unmodelled
          end
      | _ => Raise Unmodelled
      end
  | _ => Raise Unmodelled
  end.

(* ---------------------------------------------------------------- behaviour of a fitness *)
(* Fitness.valid *)
Definition fit_valid (f : fitness) : bool :=
  match f with
  | FSingle _ (Some _ :: _) => true
  | FSingle _ _ => false
  | FMulti _ _ _ wv => match wv with [] => false | _ => true end
  end.

Definition fit_values_kind (f : fitness) : seqkind :=
  match f with FSingle k _ => k | FMulti _ kv _ _ => kv end.

Definition same_class (a b : fitness) : bool :=
  match a, b with FSingle _ _, FSingle _ _ | FMulti _ _ _ _, FMulti _ _ _ _ => true | _, _ => false end.

(* a < b (and >, <=, >= through Comparable) between two valid fitness objects of one class
   evaluates `a.values > b.values`: python raises TypeError for list against tuple *)
Definition cmp_raises (a b : fitness) : bool :=
  same_class a b && fit_valid a && fit_valid b &&
  negb (seqkind_eqb (fit_values_kind a) (fit_values_kind b)).

(* hash(fitness): MultiObjFitness hashes `wvalues` itself (a list is unhashable);
   SingleObjFitness hashes a tuple built from the values *)
Definition hash_raises (f : fitness) : bool :=
  match f with FMulti _ PList _ _ => true | _ => false end.

(* nan equals nan here: this compares what is stored, not what python's == says *)
Definition fnum_eqb (a b : fnum) : bool :=
  match a, b with
  | Fin p, Fin q => Q_eqb p q
  | PInf, PInf | NInf, NInf | FNaN, FNaN => true
  | _, _ => false
  end.

Definition optQ_eqb (a b : option fnum) : bool :=
  match a, b with Some p, Some q => fnum_eqb p q | None, None => true | _, _ => false end.

(* same class, same numbers (the container kind is not looked at) *)
Definition fit_same (a b : fitness) : bool :=
  match a, b with
  | FSingle _ v, FSingle _ w => list_eqb optQ_eqb v w
  | FMulti _ _ w1 v1, FMulti _ _ w2 v2 => list_eqb fnum_eqb w1 w2 && list_eqb fnum_eqb v1 v2
  | _, _ => false
  end.

(* ================================================================= editing operations *)
(* the LinkedGraph methods whose effect depends on the container kind; state = heap + `_nodes` *)
Definition pars (h : heap) (r : ref) : list ref :=
  match get h r with Some nd => parents nd | None => [] end.
Definition kind_of (h : heap) (r : ref) : bool :=
  match get h r with Some nd => uniq nd | None => false end.

Definition set_pars (h : heap) (r : ref) (ps : list ref) : heap :=
  match get h r with
  | Some nd => upd h r (Obj (mkNode (uid nd) (content nd) ps (uniq nd)))
  | None => h
  end.

(* UniqueList.append / list.append *)
Definition pl_append (u : bool) (l : list ref) (v : ref) : list ref :=
  if u && memb v l then l else l ++ [v].
(* extend consumes a lazy generator: each element is tested against the list as it is then *)
Definition pl_extend (u : bool) (l vs : list ref) : list ref := fold_left (pl_append u) vs l.

(* list.remove(x): first occurrence; ValueError when absent *)
Fixpoint list_remove (x : nat) (l : list nat) : res (list nat) :=
  match l with
  | [] => Raise ValueError
  | y :: t => if Nat.eqb x y then Ok t
              else match list_remove x t with Ok t' => Ok (y :: t') | Raise e => Raise e end
  end.

(* LinkedGraph.node_children *)
Definition node_children (h : heap) (g : list ref) (n : ref) : list ref :=
  filter (fun c => memb n (pars h c)) g.

Definition state := (heap * list ref)%type.

Definition connect_nodes (s : state) (p c : ref) : res state :=
  let '(h, g) := s in
  if memb c (node_children h g p) then Ok s
  else Ok (set_pars h c (pl_append (kind_of h c) (pars h c) p), g).

(* clean_up_leftovers = False *)
Definition disconnect_nodes (s : state) (p c : ref) : res state :=
  let '(h, g) := s in
  if negb (memb p (pars h c)) then Ok s
  else if negb (memb p g) || negb (memb c g) then Ok s
  else bind (list_remove p (pars h c)) (fun ps => Ok (set_pars h c ps, g)).

Inductive mode := RNone | RSingle | RAll.

(* for c in cs: c.nodes_from.remove(n) *)
Fixpoint unlink_all (h : heap) (n : ref) (cs : list ref) : res heap :=
  match cs with
  | [] => Ok h
  | c :: t => bind (list_remove n (pars h c)) (fun ps => unlink_all (set_pars h c ps) n t)
  end.

(* for c in cs: c.nodes_from.extend(n.nodes_from)   (n.nodes_from is read at every turn) *)
Fixpoint extend_all (h : heap) (n : ref) (cs : list ref) : heap :=
  match cs with
  | [] => h
  | c :: t => extend_all (set_pars h c (pl_extend (kind_of h c) (pars h c) (pars h n))) n t
  end.

Definition delete_node (s : state) (n : ref) (m : mode) : res state :=
  let '(h, g) := s in
  let ch := node_children h g n in
  bind (list_remove n g) (fun g1 =>
  bind (unlink_all h n ch) (fun h1 =>
  match m with
  | RNone => Ok (h1, g1)
  | RSingle => match pars h1 n, ch with
               | _ :: _, [c] => Ok (extend_all h1 n [c], g1)
               | _, _ => Ok (h1, g1)
               end
  | RAll => match pars h1 n with
            | [] => Ok (h1, g1)
            | _ :: _ => Ok (extend_all h1 n ch, g1)
            end
  end)).

Inductive op :=
| OConnect (p c : ref)
| ODisconnect (p c : ref)
| ODelete (n : ref) (m : mode)
| OOther.                      (* an operation this file does not model (see Graph/Ops.v, C04) *)

Definition run_op (s : state) (o : op) : res state :=
  match o with
  | OConnect p c => connect_nodes s p c
  | ODisconnect p c => disconnect_nodes s p c
  | ODelete n m => delete_node s n m
  | OOther => Raise Unmodelled
  end.

Fixpoint run_ops (s : state) (os : list op) : res state :=
  match os with
  | [] => Ok s
  | o :: t => bind (run_op s o) (fun s' => run_ops s' t)
  end.

(* ================================================================= equality tests *)
Definition node_eqb (a b : node) : bool :=
  String.eqb (uid a) (uid b) && list_eqb kv_eqb (content a) (content b) &&
  list_eqb Nat.eqb (parents a) (parents b) && Bool.eqb (uniq a) (uniq b).

Definition cell_eqb (a b : cell) : bool :=
  match a, b with
  | Obj x, Obj y => node_eqb x y
  | NoneObj, NoneObj => true
  | _, _ => false
  end.

Definition heap_eqb (a b : heap) : bool := list_eqb cell_eqb a b.

Definition gkind_eqb (a b : gkind) : bool :=
  match a, b with GLinked, GLinked | GDelegate, GDelegate => true | _, _ => false end.

Definition graph_eqb (a b : graph) : bool :=
  gkind_eqb (kind a) (kind b) && list_eqb Nat.eqb (nodes a) (nodes b).

Definition fitness_eqb (a b : fitness) : bool :=
  match a, b with
  | FSingle k v, FSingle k' w => seqkind_eqb k k' && list_eqb optQ_eqb v w
  | FMulti a1 a2 w1 v1, FMulti b1 b2 w2 v2 =>
      seqkind_eqb a1 b1 && seqkind_eqb a2 b2 && list_eqb fnum_eqb w1 w2 && list_eqb fnum_eqb v1 v2
  | _, _ => false
  end.

Definition pind_eqb (a b : pind) : bool :=
  match a, b with
  | PLive u, PLive v => String.eqb u v
  | PUid u, PUid v => String.eqb u v
  | PNoneInd, PNoneInd => true
  | _, _ => false
  end.

Definition po_eqb (a b : parent_op) : bool :=
  String.eqb (po_type a) (po_type b) && seqkind_eqb (po_okind a) (po_okind b) &&
  list_eqb json_eqb (po_operators a) (po_operators b) && seqkind_eqb (po_pkind a) (po_pkind b) &&
  list_eqb pind_eqb (po_parents a) (po_parents b) && String.eqb (po_uid a) (po_uid b).

Definition opt_eqb {A} (e : A -> A -> bool) (a b : option A) : bool :=
  match a, b with Some x, Some y => e x y | None, None => true | _, _ => false end.

Definition ind_eqb (a b : individual) : bool :=
  fitness_eqb (i_fitness a) (i_fitness b) && graph_eqb (i_graph a) (i_graph b) &&
  list_eqb kv_eqb (i_metadata a) (i_metadata b) && opt_eqb Z.eqb (i_native a) (i_native b) &&
  opt_eqb po_eqb (i_pop a) (i_pop b) && String.eqb (i_uid a) (i_uid b).

(* equality of JSON trees up to the order of the keys of an object (keys are unique): the order
   in which the encoder emits keys is not part of the property; a rewrite of the encoder that
   changes it must not be reported as a disagreement *)
Fixpoint json_sim (a b : json) {struct a} : bool :=
  match a, b with
  | JArr l, JArr m =>
      (fix go (l m : list json) {struct l} : bool :=
         match l, m with
         | [], [] => true
         | x :: l', y :: m' => json_sim x y && go l' m'
         | _, _ => false
         end) l m
  | JObj l, JObj m =>
      Nat.eqb (List.length l) (List.length m) &&
      (fix go (l : list (string * json)) {struct l} : bool :=
         match l with
         | [] => true
         | x :: l' => match lookup (fst x) m with
                      | Some y => json_sim (snd x) y
                      | None => false
                      end && go l'
         end) l
  | JArr _, _ | JObj _, _ => false
  | _, _ => json_eqb a b
  end.

Definition res_json_eqb (m : res json) (o : option json) : bool :=
  match m, o with
  | Ok a, Some b => json_sim a b
  | Raise e, None => match e with Unmodelled => false | _ => true end
  | _, _ => false
  end.

(* ================================================================= correspondence: graphs *)
(* what the harness observed on the implementation for a graph living in heap `h`:
   the heap cells are the node objects of the graph in creation order *)
Record gobs := mkGObs {
  o_json : option json;            (* tree of json.dumps(graph, cls=Serializer); None: it raised *)
  o_after : heap;                  (* the same objects read again after the save *)
  o_loaded : option (list cell * graph);  (* objects built by json.loads(text, cls=Serializer),
                                      numbered from |h| on in `nodes` order (None parent: last) *)
  o_resave : option json;          (* tree of json.dumps(loaded, cls=Serializer); None: it raised *)
  o_text_same : bool;              (* the two texts are equal *)
  o_descid_same : bool;            (* loaded.descriptive_id == original.descriptive_id *)
  o_eq : bool                      (* original == loaded and loaded == original (Graph.__eq__) *)
}.

Definition agree_graph (h : heap) (g : graph) (o : gobs) : bool :=
  let '(mj, mh) := save_graph h g in
  res_json_eqb mj (o_json o) && heap_eqb mh (o_after o) &&
  match o_json o with
  | None => true
  | Some j =>
      match load_graph h j, o_loaded o with
      | Ok (h', g'), Some (frag, og) =>
          heap_eqb h' (h ++ frag) && graph_eqb g' og &&
          res_json_eqb (fst (save_graph h' g')) (o_resave o)
      | Raise Unmodelled, _ => false
      | Raise _, None => true
      | _, _ => false
      end
  end.

(* ---- the property's clauses, evaluated on the observed behaviour only *)
(* position of a reference in a list *)
Fixpoint pos (x : nat) (l : list nat) : nat :=
  match l with
  | [] => 0
  | y :: t => if Nat.eqb x y then 0 else S (pos x t)
  end.

Definition uid_at (h : heap) (r : ref) : option string :=
  match get h r with Some nd => Some (uid nd) | None => None end.

(* the loaded node is the original one: same uid, same name (as LinkedGraphNode.name gives it),
   same parameters, same parent uids in the same order, parents held in a UniqueList *)
Definition same_node (h : heap) (a : ref) (h' : heap) (b : ref) : bool :=
  match get h a, get h' b with
  | Some x, Some y =>
      String.eqb (uid x) (uid y) &&
      opt_eqb String.eqb (node_name x) (node_name y) && negb (is_none (node_name x)) &&
      json_eqb (node_params x) (node_params y) &&
      list_eqb (opt_eqb String.eqb) (map (uid_at h) (parents x)) (map (uid_at h') (parents y)) &&
      forallb (fun p => negb (is_none (uid_at h p))) (parents x) &&
      uniq y
  | _, _ => false
  end.

Fixpoint forallb2 {A B} (p : A -> B -> bool) (l : list A) (r : list B) : bool :=
  match l, r with
  | [], [] => true
  | a :: l', b :: r' => p a b && forallb2 p l' r'
  | _, _ => false
  end.

Definition same_graph (h : heap) (g : graph) (h' : heap) (g' : graph) : bool :=
  gkind_eqb (kind g) (kind g') &&
  forallb2 (fun a b => same_node h a h' b) (nodes g) (nodes g').

(* the loaded objects are new ones *)
Definition fresh_from (h : heap) (g' : graph) : bool :=
  forallb (fun r => Nat.leb (List.length h) r) (nodes g').

(* [saving changed nothing; content is the same; identifiers agree; second save = first] *)
Definition holds_graph (h : heap) (g : graph) (o : gobs) : list bool :=
  [ heap_eqb (o_after o) h;
    match o_json o, o_loaded o with
    | Some _, Some (frag, og) => same_graph h g (h ++ frag) og && fresh_from h og
    | _, _ => false
    end;
    o_descid_same o && o_eq o;
    match o_json o with
    | Some j => opt_eqb json_eqb (Some j) (o_resave o) && o_text_same o
    | None => false
    end ].

(* ================================================================= correspondence: individuals *)
Record iobs := mkIObs {
  io_json : option json;
  io_after_heap : heap;
  io_after : individual;                       (* the saved individual read again after the save *)
  io_loaded : option (list cell * individual);
  io_resave : option json;
  io_text_same : bool;
  io_descid_same : bool;
  io_cmp_raised : bool;       (* some of  l == o, l < o, l > o, o < l, o > l, l <= o, l >= o  raised
                                 (l, o the loaded and the original fitness) *)
  io_cmp_equal : bool;        (* none raised and they say: equal when valid, never better/worse *)
  io_hash_raised : bool;      (* hash(l) raised although hash(o) did not *)
  io_hash_same : bool
}.

Definition agree_ind (h : heap) (ind : individual) (o : iobs) : bool :=
  let '(mj, mh) := save_individual h ind in
  res_json_eqb mj (io_json o) && heap_eqb mh (io_after_heap o) && ind_eqb ind (io_after o) &&
  match io_json o with
  | None => true
  | Some j =>
      match load_individual h j, io_loaded o with
      | Ok (h', l), Some (frag, ol) =>
          heap_eqb h' (h ++ frag) && ind_eqb l ol &&
          res_json_eqb (fst (save_individual h' l)) (io_resave o) &&
          Bool.eqb (cmp_raises (i_fitness l) (i_fitness ind)) (io_cmp_raised o) &&
          Bool.eqb (hash_raises (i_fitness l) && negb (hash_raises (i_fitness ind))) (io_hash_raised o)
      | Raise Unmodelled, _ => false
      | Raise _, None => true
      | _, _ => false
      end
  end.

Definition pind_uid (p : pind) : option string :=
  match p with PLive u | PUid u => Some u | PNoneInd => None end.

(* the parent-operator description: type, operators, uids of the parents *)
Definition same_parent_op (a b : option parent_op) : bool :=
  match a, b with
  | None, None => true
  | Some x, Some y =>
      String.eqb (po_type x) (po_type y) && list_eqb json_eqb (po_operators x) (po_operators y) &&
      list_eqb (opt_eqb String.eqb)
               (filter (fun u => negb (is_none u)) (map pind_uid (po_parents x)))
               (filter (fun u => negb (is_none u)) (map pind_uid (po_parents y))) &&
      String.eqb (po_uid x) (po_uid y)
  | _, _ => false
  end.

(* [saving changed nothing; content is the same; the loaded fitness behaves like the original;
    identifiers agree; second save = first] *)
Definition holds_ind (h : heap) (ind : individual) (o : iobs) : list bool :=
  [ heap_eqb (io_after_heap o) h && ind_eqb (io_after o) ind;
    match io_json o, io_loaded o with
    | Some _, Some (frag, l) =>
        String.eqb (i_uid ind) (i_uid l) && fit_same (i_fitness ind) (i_fitness l) &&
        list_eqb kv_eqb (i_metadata ind) (i_metadata l) && opt_eqb Z.eqb (i_native ind) (i_native l) &&
        same_parent_op (i_pop ind) (i_pop l) &&
        same_graph h (i_graph ind) (h ++ frag) (i_graph l) && fresh_from h (i_graph l)
    | _, _ => false
    end;
    negb (io_cmp_raised o) && io_cmp_equal o && negb (io_hash_raised o) && io_hash_same o;
    io_descid_same o;
    match io_json o with
    | Some j => opt_eqb json_eqb (Some j) (io_resave o) && io_text_same o
    | None => false
    end ].

(* ================================================================= correspondence: lock-step *)
(* canonical form of a graph as the harness reads it: per node of `nodes` (in order) the uid,
   LinkedGraphNode.name, the parameters, the positions of the parents in `nodes` (in order,
   duplicates kept) and whether nodes_from is a UniqueList *)
Record vnode := mkV { v_uid : string; v_name : string; v_params : json; v_parents : list nat; v_uniq : bool }.
Definition view := list vnode.

Definition vnode_eqb (a b : vnode) : bool :=
  String.eqb (v_uid a) (v_uid b) && String.eqb (v_name a) (v_name b) && json_eqb (v_params a) (v_params b) &&
  list_eqb Nat.eqb (v_parents a) (v_parents b) && Bool.eqb (v_uniq a) (v_uniq b).
Definition view_eqb (a b : view) : bool := list_eqb vnode_eqb a b.

(* a view as a state: node i of the view is object i *)
Definition state_of_view (v : view) : state :=
  (map (fun x => Obj (mkNode (v_uid x) [("name", JStr (v_name x)); ("params", v_params x)]
                             (v_parents x) (v_uniq x))) v,
   seq 0 (List.length v)).

Definition view_of (s : state) : view :=
  let '(h, g) := s in
  map (fun r => match get h r with
                | Some nd => mkV (uid nd) (match node_name nd with Some s => s | None => "" end)
                                 (node_params nd) (map (fun p => pos p g) (parents nd)) (uniq nd)
                | None => mkV "" "" JNull [] false
                end) g.

(* one lock-step step: the operation (positions refer to the views before the step) and the
   views of the original and of the loaded copy afterwards (None: the call raised) *)
Record lstep := mkStep { s_op : op; s_orig : option view; s_load : option view }.

Definition step_model_ok (before : option view) (o : op) (after : option view) : bool :=
  match o, before with
  | OOther, _ => true
  | _, None => true
  | _, Some v =>
      match run_op (state_of_view v) o, after with
      | Ok s', Some w => view_eqb (view_of s') w
      | Raise Unmodelled, _ => false
      | Raise _, None => true
      | _, _ => false
      end
  end.

(* the modelled operations, run on the observed state before each step, give the observed
   state after it - for the original and for the loaded copy *)
Fixpoint agree_lock (vo vl : option view) (steps : list lstep) : bool :=
  match steps with
  | [] => true
  | st :: t => step_model_ok vo (s_op st) (s_orig st) && step_model_ok vl (s_op st) (s_load st) &&
               agree_lock (s_orig st) (s_load st) t
  end.

Definition nodup_b (l : list nat) : bool :=
  (fix go (l : list nat) : bool := match l with [] => true | x :: t => negb (memb x t) && go t end) l.

(* the property: the original and the loaded copy are indistinguishable after every step
   (same canonical form, or both calls raised) *)
Definition pair_ok (a b : option view) : bool :=
  match a, b with
  | Some x, Some y => view_eqb x y
  | None, None => true
  | _, _ => false
  end.

Definition holds_lock (vo vl : view) (steps : list lstep) : bool :=
  view_eqb vo vl && forallb (fun st => pair_ok (s_orig st) (s_load st)) steps.

(* some parent list of the view holds one parent twice *)
Definition has_dup_links (v : view) : bool := existsb (fun x => negb (nodup_b (v_parents x))) v.
