(* Proofs about the JSON codec model of graphs and individuals (property C11). *)
From Coq Require Import List String ZArith QArith Bool Arith Lia.
From GolemV Require Import Serial.Json Serial.GraphCodec.
Import ListNotations.
Local Close Scope Q_scope.
Local Open Scope nat_scope.
Local Open Scope string_scope.
Local Open Scope list_scope.

(* ================================================================= heap basics *)
Lemma node_eta : forall nd, mkNode (uid nd) (content nd) (parents nd) (uniq nd) = nd.
Proof. destruct nd; reflexivity. Qed.

Lemma upd_same : forall h r c, nth_error h r = Some c -> upd h r c = h.
Proof.
  induction h as [|x t IH]; intros [|r] c E; simpl in *; try discriminate; auto.
  - inversion E. reflexivity.
  - rewrite IH; auto.
Qed.

Lemma get_nth : forall h r nd, get h r = Some nd -> nth_error h r = Some (Obj nd).
Proof.
  unfold get. intros h r nd. destruct (nth_error h r) as [[x|]|]; intros E; inversion E; reflexivity.
Qed.

Lemma length_upd : forall h r c, List.length (upd h r c) = List.length h.
Proof. induction h as [|x t IH]; intros [|r] c; simpl; auto. Qed.

Lemma nth_upd_eq : forall h r c, r < List.length h -> nth_error (upd h r c) r = Some c.
Proof. induction h as [|x t IH]; intros [|r] c L; simpl in *; try lia; auto. apply IH. lia. Qed.

Lemma nth_upd_neq : forall h r r' c, r <> r' -> nth_error (upd h r c) r' = nth_error h r'.
Proof. induction h as [|x t IH]; intros [|r] [|r'] c N; simpl; auto; try congruence. Qed.

Lemma get_app_r : forall h0 l i, get (h0 ++ l) (List.length h0 + i) = get l i.
Proof.
  unfold get. intros. rewrite nth_error_app2 by lia. replace (List.length h0 + i - List.length h0) with i by lia.
  reflexivity.
Qed.

Lemma get_app_l : forall h0 l i, i < List.length h0 -> get (h0 ++ l) i = get h0 i.
Proof. unfold get. intros. rewrite nth_error_app1 by assumption. reflexivity. Qed.

(* ================================================================= saving is pure *)
(* the JSON part of save_nodes, without the heap threading *)
Fixpoint enc_nodes (h : heap) (rs : list ref) : res (list json) :=
  match rs with
  | [] => Ok []
  | r :: t =>
      match get h r with
      | None => bind (enc_nodes h t) (fun l => Ok (JNull :: l))
      | Some nd => bind (fst (encode_node h nd)) (fun jn => bind (enc_nodes h t) (fun l => Ok (jn :: l)))
      end
  end.

Lemma save_nodes_eq : forall rs h, save_nodes h rs = (enc_nodes h rs, h).
Proof.
  induction rs as [|r t IH]; intros h; cbn [save_nodes enc_nodes]; [reflexivity|].
  destruct (get h r) as [nd|] eqn:E.
  - destruct (encode_node h nd) as [j live] eqn:EN.
    assert (live = nd) by (unfold encode_node in EN; inversion EN; apply node_eta). subst live.
    rewrite (upd_same h r (Obj nd) (get_nth _ _ _ E)). cbn [fst].
    destruct j as [jn|e]; cbn [bind]; [|reflexivity].
    rewrite IH. reflexivity.
  - rewrite IH. reflexivity.
Qed.

Theorem save_nodes_pure : forall h rs, snd (save_nodes h rs) = h.
Proof. intros. rewrite save_nodes_eq. reflexivity. Qed.

Theorem save_graph_pure : forall h g, snd (save_graph h g) = h.
Proof. intros. unfold save_graph. rewrite save_nodes_eq. reflexivity. Qed.

Theorem save_individual_pure : forall h ind, snd (save_individual h ind) = h.
Proof.
  intros. unfold save_individual. pose proof (save_graph_pure h (i_graph ind)) as P.
  destruct (save_graph h (i_graph ind)) as [gj h']. simpl in *. exact P.
Qed.

Lemma save_graph_fst : forall h g,
  fst (save_graph h g) = bind (enc_nodes h (nodes g)) (fun l => Ok (graph_json (kind g) l)).
Proof. intros. unfold save_graph. rewrite save_nodes_eq. reflexivity. Qed.

(* ================================================================= well-formed graphs *)
Definition dummy : node := mkNode "" [] [] true.
Definition getn (h : heap) (r : ref) : node := match get h r with Some nd => nd | None => dummy end.

Record WF (h : heap) (g : graph) : Prop := mkWF {
  wf_nodup : NoDup (nodes g);                                            (* no node listed twice *)
  wf_obj : forall r, In r (nodes g) -> exists nd, get h r = Some nd;     (* members are node objects *)
  wf_uid : forall a b, In a (nodes g) -> In b (nodes g) ->
           uid (getn h a) = uid (getn h b) -> a = b;                     (* one node per uid *)
  wf_pnodup : forall r, In r (nodes g) -> NoDup (parents (getn h r));    (* no parent linked twice *)
  wf_closed : forall r p, In r (nodes g) -> In p (parents (getn h r)) -> In p (nodes g);
  wf_name : forall r, In r (nodes g) -> is_ok (stringify_name (content (getn h r))) = true
                                                   (* the name is a str, an int, a bool or None *)
}.

Lemma getn_get : forall h r nd, get h r = Some nd -> getn h r = nd.
Proof. unfold getn. intros h r nd ->. reflexivity. Qed.

Lemma WF_get : forall h g r, WF h g -> In r (nodes g) -> get h r = Some (getn h r).
Proof. intros h g r W I. destruct (wf_obj _ _ W r I) as [nd E]. rewrite (getn_get _ _ _ E). exact E. Qed.

(* the content the encoder writes: the name replaced by its string *)
Definition str_content (c : list (string * json)) : list (string * json) :=
  match stringify_name c with Ok c' => c' | Raise _ => c end.

(* ---------------------------------------------------------------- dict lemmas *)
Lemma lookup_assoc_set_same : forall k v c, lookup k (assoc_set k v c) = Some v.
Proof.
  induction c as [|[k' v'] t IH]; simpl.
  - rewrite String.eqb_refl. reflexivity.
  - destruct (String.eqb k k') eqn:E; simpl.
    + rewrite String.eqb_refl. reflexivity.
    + rewrite E. exact IH.
Qed.

Lemma lookup_assoc_set_other : forall k k' v c, k <> k' -> lookup k' (assoc_set k v c) = lookup k' c.
Proof.
  induction c as [|[k2 v2] t IH]; intros N; simpl.
  - destruct (String.eqb_spec k' k); [congruence|reflexivity].
  - destruct (String.eqb_spec k k2) as [->|N2]; simpl.
    + destruct (String.eqb_spec k' k2); [congruence|reflexivity].
    + destruct (String.eqb_spec k' k2); [reflexivity|apply IH; assumption].
Qed.

Lemma assoc_set_idem : forall k v c, assoc_set k v (assoc_set k v c) = assoc_set k v c.
Proof.
  induction c as [|[k' v'] t IH]; simpl.
  - rewrite String.eqb_refl. reflexivity.
  - destruct (String.eqb k k') eqn:E; simpl.
    + rewrite String.eqb_refl. reflexivity.
    + rewrite E, IH. reflexivity.
Qed.

Lemma stringify_cases : forall c,
  (stringify_name c = Ok c /\ (lookup "name" c = None \/ lookup "name" c = Some JNull)) \/
  (exists v s, lookup "name" c = Some v /\ v <> JNull /\ py_str v = Some s /\
               stringify_name c = Ok (assoc_set "name" (JStr s) c)) \/
  (exists e, stringify_name c = Raise e).
Proof.
  intros c. unfold stringify_name. destruct (lookup "name" c) as [v|]; [|left; auto].
  destruct (py_str v) as [s|] eqn:P.
  - destruct v; try (left; split; [reflexivity|right; reflexivity]);
      right; left; eexists; eexists; (split; [reflexivity|]); (split; [discriminate|]);
      (split; [exact P|]); reflexivity.
  - destruct v; try discriminate P; right; right; eexists; reflexivity.
Qed.

(* str(str(x)) = str(x): encoding an encoded content changes nothing *)
Lemma stringify_idem : forall c, is_ok (stringify_name c) = true ->
  stringify_name (str_content c) = Ok (str_content c).
Proof.
  intros c H. unfold str_content.
  destruct (stringify_cases c) as [[E _]|[[v [s [L [N [P E]]]]]|[e E]]]; rewrite E in *.
  - exact E.
  - unfold stringify_name. rewrite lookup_assoc_set_same. simpl. rewrite assoc_set_idem. reflexivity.
  - discriminate.
Qed.

(* LinkedGraphNode.name and .parameters of the encoded content are those of the live content *)
Lemma name_str_content : forall u c ps q u' ps' q',
  is_ok (stringify_name c) = true ->
  node_name (mkNode u' (str_content c) ps' q') = node_name (mkNode u c ps q).
Proof.
  intros u c ps q u' ps' q' H. unfold node_name, str_content. simpl.
  destruct (stringify_cases c) as [[E _]|[[v [s [L [N [P E]]]]]|[e E]]]; rewrite E in *; [reflexivity| |discriminate].
  rewrite lookup_assoc_set_same, L. simpl. destruct v; try congruence; exact (eq_sym P).
Qed.

Lemma params_str_content : forall u c ps q u' ps' q',
  node_params (mkNode u' (str_content c) ps' q') = node_params (mkNode u c ps q).
Proof.
  intros. unfold node_params, str_content. simpl.
  destruct (stringify_cases c) as [[E _]|[[v [s [L [N [P E]]]]]|[e E]]]; rewrite E; try reflexivity.
  rewrite lookup_assoc_set_other; [reflexivity|discriminate].
Qed.

(* ---------------------------------------------------------------- positions *)
Lemma pos_lt : forall x l, In x l -> pos x l < List.length l.
Proof.
  induction l as [|y t IH]; simpl; intros H; [contradiction|].
  destruct (Nat.eqb_spec x y); [lia|]. destruct H; [congruence|]. apply IH in H. lia.
Qed.

Lemma nth_pos : forall {A} (F : nat -> A) x l, In x l -> nth_error (map F l) (pos x l) = Some (F x).
Proof.
  induction l as [|y t IH]; simpl; intros H; [contradiction|].
  destruct (Nat.eqb_spec x y) as [->|N]; [reflexivity|]. destruct H; [congruence|]. simpl. apply IH. assumption.
Qed.

Lemma pos_inj : forall l a b, In a l -> In b l -> pos a l = pos b l -> a = b.
Proof.
  induction l as [|y t IH]; simpl; intros a b Ha Hb E; [contradiction|].
  destruct (Nat.eqb_spec a y) as [->|Na]; destruct (Nat.eqb_spec b y) as [->|Nb]; auto; try discriminate.
  destruct Ha; [congruence|]. destruct Hb; [congruence|]. apply IH; auto.
Qed.

Lemma seq_map_pos : forall l base, NoDup l -> seq base (List.length l) = map (fun r => base + pos r l) l.
Proof.
  induction l as [|y t IH]; intros base ND; simpl; [reflexivity|].
  inversion ND as [|? ? Hy NDt]; subst. rewrite Nat.eqb_refl. f_equal; [lia|].
  rewrite (IH (S base) NDt). apply map_ext_in. intros a Ha.
  destruct (Nat.eqb_spec a y) as [->|N]; [contradiction|]. lia.
Qed.

(* ---------------------------------------------------------------- UniqueList(iterable) *)
Lemma memb_In : forall x l, memb x l = true <-> In x l.
Proof.
  unfold memb. intros x l. rewrite existsb_exists. split.
  - intros [y [Hy E]]. apply Nat.eqb_eq in E. subst. exact Hy.
  - intros H. exists x. split; [exact H|apply Nat.eqb_refl].
Qed.

Lemma memb_false : forall x l, memb x l = false <-> ~ In x l.
Proof. intros x l. rewrite <- memb_In. destruct (memb x l); split; congruence. Qed.

Lemma dedupe_acc_nodup : forall l seen, NoDup l -> (forall x, In x l -> ~ In x seen) -> dedupe_acc seen l = l.
Proof.
  induction l as [|x t IH]; intros seen ND D; simpl; [reflexivity|].
  inversion ND as [|? ? Hx NDt]; subst.
  assert (M : memb x seen = false) by (apply memb_false; apply D; left; reflexivity).
  rewrite M. f_equal. apply IH; [assumption|].
  intros y Hy [A|A]; [subst; contradiction|]. apply (D y); [right; assumption|assumption].
Qed.

Lemma dedupe_nodup : forall l, NoDup l -> dedupe l = l.
Proof. intros. apply dedupe_acc_nodup; auto. Qed.

Lemma dedupe_acc_spec : forall l seen,
  NoDup (dedupe_acc seen l) /\ (forall x, In x (dedupe_acc seen l) <-> In x l /\ ~ In x seen).
Proof.
  induction l as [|x t IH]; intros seen; simpl.
  - split; [constructor|]. intros y. tauto.
  - destruct (memb x seen) eqn:M.
    + destruct (IH seen) as [A B]. split; [exact A|]. intros y. rewrite B. apply memb_In in M.
      split; [tauto|]. intros [[C|C] D]; [subst; contradiction|tauto].
    + destruct (IH (x :: seen)) as [A B]. apply memb_false in M. split.
      * constructor; [|exact A]. rewrite B. simpl. tauto.
      * intros y. simpl. rewrite B. simpl. split.
        -- intros [C|[C D]]; [subst; tauto|tauto].
        -- intros [[C|C] D]; [auto|]. destruct (Nat.eq_dec x y); [auto|right; tauto].
Qed.

Lemma dedupe_NoDup : forall l, NoDup (dedupe l).
Proof. intros. apply (dedupe_acc_spec l []). Qed.

(* ================================================================= what the encoder writes *)
Definition enc_node (h : heap) (nd : node) : json :=
  JObj [("_nodes_from", JArr (map (fun p => JStr (uid (getn h p))) (parents nd)));
        ("content", JObj (str_content (content nd)));
        ("uid", JStr (uid nd));
        (CP, JStr node_path)].

Lemma uids_of_objs : forall h ps, (forall p, In p ps -> exists nd, get h p = Some nd) ->
  uids_of h ps = Ok (map (fun p => JStr (uid (getn h p))) ps).
Proof.
  induction ps as [|p t IH]; intros H; simpl; [reflexivity|].
  destruct (H p (or_introl eq_refl)) as [nd E]. rewrite E, (getn_get _ _ _ E).
  rewrite IH; [reflexivity|]. intros q Hq. apply H. right. exact Hq.
Qed.

Lemma encode_node_ok : forall h nd,
  is_ok (stringify_name (content nd)) = true ->
  (forall p, In p (parents nd) -> exists x, get h p = Some x) ->
  fst (encode_node h nd) = Ok (enc_node h nd).
Proof.
  intros h nd Hn Hp. unfold encode_node, enc_node, str_content. simpl.
  destruct (stringify_name (content nd)) as [c|e]; [|discriminate]. simpl.
  rewrite (uids_of_objs _ _ Hp). reflexivity.
Qed.

Lemma enc_nodes_members : forall h g, WF h g ->
  forall rs, incl rs (nodes g) -> enc_nodes h rs = Ok (map (fun r => enc_node h (getn h r)) rs).
Proof.
  intros h g W. induction rs as [|r t IH]; intros I; cbn [enc_nodes map]; [reflexivity|].
  assert (Hr : In r (nodes g)) by (apply I; left; reflexivity).
  rewrite (WF_get _ _ _ W Hr). rewrite encode_node_ok.
  - cbn [bind]. rewrite IH; [reflexivity|]. intros x Hx. apply I. right. exact Hx.
  - apply (wf_name _ _ W). exact Hr.
  - intros p Hp. apply (wf_obj _ _ W). apply (wf_closed _ _ W r); assumption.
Qed.

Theorem save_graph_ok : forall h g, WF h g ->
  fst (save_graph h g) = Ok (graph_json (kind g) (map (fun r => enc_node h (getn h r)) (nodes g))).
Proof.
  intros h g W. rewrite save_graph_fst, (enc_nodes_members h g W); [reflexivity|apply incl_refl].
Qed.

(* ================================================================= decoding what was encoded *)
Definition pn (h : heap) (r : ref) : pnode :=
  mkP (uid (getn h r)) (str_content (content (getn h r))) (map (fun p => uid (getn h p)) (parents (getn h r))).

Lemma strs_map : forall l, strs (map JStr l) = Ok l.
Proof. induction l as [|s t IH]; simpl; [reflexivity|]. rewrite IH. reflexivity. Qed.

Lemma class_of_node : forall a b c, class_of [("_nodes_from", a); ("content", b); ("uid", c); (CP, JStr node_path)] = Some CNode.
Proof. reflexivity. Qed.

Lemma decode_enc_node : forall h r, decode_node (enc_node h (getn h r)) = Ok (pn h r).
Proof.
  intros. unfold enc_node, decode_node. rewrite class_of_node.
  change (lookup "uid" _) with (Some (JStr (uid (getn h r)))).
  change (lookup "content" _) with (Some (JObj (str_content (content (getn h r))))).
  change (lookup "_nodes_from" _) with (Some (JArr (map (fun p => JStr (uid (getn h p))) (parents (getn h r))))).
  rewrite <- (map_map (fun p => uid (getn h p)) JStr), strs_map. reflexivity.
Qed.

Lemma decode_enc_nodes : forall h rs,
  decode_nodes (map (fun r => enc_node h (getn h r)) rs) = Ok (map (pn h) rs).
Proof.
  induction rs as [|r t IH]; cbn [map decode_nodes]; [reflexivity|].
  rewrite decode_enc_node. cbn [bind]. rewrite IH. reflexivity.
Qed.

Lemma decode_linked_json : forall ns, decode_linked (linked_json ns) = decode_nodes ns.
Proof. intros. reflexivity. Qed.

(* ---------------------------------------------------------------- uid lookup *)
Lemma find_last_none : forall h u rs, (forall r, In r rs -> uid (getn h r) <> u) ->
  find_last u (map (pn h) rs) = None.
Proof.
  induction rs as [|a t IH]; intros H; simpl; [reflexivity|].
  rewrite IH by (intros r Hr; apply H; right; exact Hr).
  destruct (String.eqb_spec (uid (getn h a)) u) as [E|N]; [|reflexivity].
  exfalso. apply (H a); [left; reflexivity|exact E].
Qed.

Lemma find_last_pos : forall h rs, NoDup rs ->
  (forall a b, In a rs -> In b rs -> uid (getn h a) = uid (getn h b) -> a = b) ->
  forall p, In p rs -> find_last (uid (getn h p)) (map (pn h) rs) = Some (pos p rs).
Proof.
  induction rs as [|a t IH]; intros ND Inj p Hp; [contradiction|].
  inversion ND as [|? ? Ha NDt]; subst. simpl.
  destruct (Nat.eqb_spec p a) as [->|N].
  - rewrite find_last_none.
    + rewrite String.eqb_refl. reflexivity.
    + intros r Hr E. assert (r = a) by (apply Inj; [right; exact Hr|left; reflexivity|exact E]). subst. contradiction.
  - destruct Hp as [Hp|Hp]; [congruence|].
    rewrite IH; auto. intros x y Hx Hy. apply Inj; right; assumption.
Qed.

(* ================================================================= load (save g) *)
Definition loaded_node (base : nat) (rs : list ref) (nd : node) : node :=
  mkNode (uid nd) (str_content (content nd)) (map (fun p => base + pos p rs) (parents nd)) true.

Definition loaded_cells (base : nat) (h : heap) (rs : list ref) : list cell :=
  map (fun r => Obj (loaded_node base rs (getn h r))) rs.

Lemma NoDup_map_pos : forall base rs ps, NoDup ps -> incl ps rs -> NoDup (map (fun p => base + pos p rs) ps).
Proof.
  induction ps as [|p t IH]; intros ND I; simpl; [constructor|].
  inversion ND as [|? ? Hp NDt]; subst. constructor.
  - rewrite in_map_iff. intros [q [E Hq]].
    assert (q = p).
    { apply (pos_inj rs); [apply I; right; exact Hq|apply I; left; reflexivity|lia]. }
    subst. contradiction.
  - apply IH; [assumption|]. intros x Hx. apply I. right. exact Hx.
Qed.

Lemma link_member : forall h g base, WF h g -> forall r, In r (nodes g) ->
  link base (map (pn h) (nodes g)) (pn h r) = loaded_node base (nodes g) (getn h r).
Proof.
  intros h g base W r Hr. unfold link, loaded_node, pn. simpl. f_equal.
  rewrite map_map.
  assert (E : map (fun x => match find_last (uid (getn h x)) (map (pn h) (nodes g)) with
                            | Some i => base + i
                            | None => base + List.length (map (pn h) (nodes g))
                            end) (parents (getn h r))
              = map (fun p => base + pos p (nodes g)) (parents (getn h r))).
  { apply map_ext_in. intros p Hp.
    rewrite (find_last_pos h (nodes g) (wf_nodup _ _ W) (wf_uid _ _ W)); [reflexivity|].
    apply (wf_closed _ _ W r); assumption. }
  unfold pn in E. rewrite E. apply dedupe_nodup. apply NoDup_map_pos.
  - apply (wf_pnodup _ _ W). exact Hr.
  - intros p Hp. apply (wf_closed _ _ W r); assumption.
Qed.

Lemma no_missing : forall h g, WF h g -> any_missing (map (pn h) (nodes g)) = false.
Proof.
  intros h g W. unfold any_missing. apply not_true_is_false. intros H.
  apply existsb_exists in H. destruct H as [p [Hp H]]. apply in_map_iff in Hp. destruct Hp as [r [<- Hr]].
  apply existsb_exists in H. destruct H as [u [Hu H]]. simpl in Hu. apply in_map_iff in Hu.
  destruct Hu as [q [<- Hq]].
  rewrite (find_last_pos h (nodes g) (wf_nodup _ _ W) (wf_uid _ _ W)) in H; [discriminate|].
  apply (wf_closed _ _ W r); assumption.
Qed.

Lemma load_linked_saved : forall h g h0, WF h g ->
  load_linked h0 (linked_json (map (fun r => enc_node h (getn h r)) (nodes g)))
  = Ok (h0 ++ loaded_cells (List.length h0) h (nodes g), seq (List.length h0) (List.length (nodes g))).
Proof.
  intros h g h0 W. unfold load_linked. rewrite decode_linked_json, decode_enc_nodes. simpl.
  rewrite (no_missing h g W), app_nil_r, map_length. f_equal. f_equal. f_equal.
  unfold loaded_cells. rewrite map_map. apply map_ext_in. intros r Hr. f_equal.
  apply (link_member h g _ W r Hr).
Qed.

Lemma load_graph_linked : forall h0 ns,
  load_graph h0 (linked_json ns)
  = bind (load_linked h0 (linked_json ns)) (fun x => Ok (fst x, mkGraph GLinked (snd x))).
Proof. reflexivity. Qed.

Lemma load_graph_delegate : forall h0 ns,
  load_graph h0 (JObj [("operator", linked_json ns); (CP, JStr delegate_path)])
  = bind (load_linked h0 (linked_json ns)) (fun x => Ok (fst x, mkGraph GDelegate (snd x))).
Proof. reflexivity. Qed.

(* T1: loading what was saved gives, as new objects appended to the heap, exactly the saved
   nodes in the same order with the name replaced by its string, every parent list mapped to
   the new objects in the same order, and every parent container a UniqueList *)
Theorem load_save_graph : forall h g h0 j, WF h g -> fst (save_graph h g) = Ok j ->
  load_graph h0 j = Ok (h0 ++ loaded_cells (List.length h0) h (nodes g),
                        mkGraph (kind g) (seq (List.length h0) (List.length (nodes g)))).
Proof.
  intros h g h0 j W S. rewrite (save_graph_ok h g W) in S. inversion S as [J]. clear S J.
  pose proof (load_linked_saved h g h0 W) as L.
  destruct g as [k rs]. cbn [nodes kind] in *. destruct k; cbn [graph_json].
  - rewrite load_graph_linked, L. reflexivity.
  - rewrite load_graph_delegate, L. reflexivity.
Qed.

(* ---- the same statement read node by node *)
Lemma get_loaded : forall h rs h0 r, In r rs ->
  get (h0 ++ loaded_cells (List.length h0) h rs) (List.length h0 + pos r rs)
  = Some (loaded_node (List.length h0) rs (getn h r)).
Proof.
  intros. rewrite get_app_r. unfold get, loaded_cells.
  erewrite nth_pos by exact H. reflexivity.
Qed.

(* the isomorphism: member r of the original corresponds to object |h0| + (position of r) *)
Theorem load_save_iso : forall h g h0 j h' g', WF h g -> fst (save_graph h g) = Ok j ->
  load_graph h0 j = Ok (h', g') ->
  let f := fun r => List.length h0 + pos r (nodes g) in
  kind g' = kind g /\ nodes g' = map f (nodes g) /\
  (forall r, In r (nodes g) -> List.length h0 <= f r) /\                (* new objects *)
  (forall a b, In a (nodes g) -> In b (nodes g) -> f a = f b -> a = b) /\
  forall r, In r (nodes g) ->
    exists nd', get h' (f r) = Some nd' /\
      uid nd' = uid (getn h r) /\
      content nd' = str_content (content (getn h r)) /\
      node_name nd' = node_name (getn h r) /\
      node_params nd' = node_params (getn h r) /\
      parents nd' = map f (parents (getn h r)) /\                         (* same parents, same order *)
      uniq nd' = true.                                                    (* held in a UniqueList *)
Proof.
  intros h g h0 j h' g' W S L f. rewrite (load_save_graph h g h0 j W S) in L. inversion L; subst. clear L.
  simpl. repeat split.
  - apply seq_map_pos. apply (wf_nodup _ _ W).
  - intros. unfold f. lia.
  - intros a b Ha Hb E. unfold f in E. apply (pos_inj (nodes g)); auto. lia.
  - intros r Hr. exists (loaded_node (List.length h0) (nodes g) (getn h r)). split; [apply get_loaded; exact Hr|].
    unfold loaded_node. simpl. repeat split.
    + destruct (getn h r) as [u c ps q] eqn:E. simpl. apply name_str_content.
      pose proof (wf_name _ _ W r Hr) as N. rewrite E in N. exact N.
    + destruct (getn h r) as [u c ps q]. simpl. apply params_str_content.
Qed.

(* ================================================================= save (load (save g)) *)
Lemma enc_loaded : forall h g h0, WF h g -> forall r, In r (nodes g) ->
  let h' := h0 ++ loaded_cells (List.length h0) h (nodes g) in
  fst (encode_node h' (loaded_node (List.length h0) (nodes g) (getn h r))) = Ok (enc_node h (getn h r)).
Proof.
  intros h g h0 W r Hr h'. unfold encode_node, loaded_node, enc_node. simpl.
  rewrite stringify_idem by (apply (wf_name _ _ W); exact Hr). simpl.
  assert (U : uids_of h' (map (fun p => List.length h0 + pos p (nodes g)) (parents (getn h r)))
              = Ok (map (fun p => JStr (uid (getn h p))) (parents (getn h r)))).
  { assert (I : incl (parents (getn h r)) (nodes g)) by (intros p Hp; apply (wf_closed _ _ W r); assumption).
    revert I. generalize (parents (getn h r)). induction l as [|p t IH]; intros I; simpl; [reflexivity|].
    unfold h'. rewrite get_loaded by (apply I; left; reflexivity). fold h'.
    rewrite IH by (intros x Hx; apply I; right; exact Hx). reflexivity. }
  rewrite U. reflexivity.
Qed.

Lemma enc_nodes_loaded : forall h g h0, WF h g ->
  let h' := h0 ++ loaded_cells (List.length h0) h (nodes g) in
  forall rs, incl rs (nodes g) ->
  enc_nodes h' (map (fun r => List.length h0 + pos r (nodes g)) rs) = Ok (map (fun r => enc_node h (getn h r)) rs).
Proof.
  intros h g h0 W h'. induction rs as [|r t IH]; intros I; cbn [enc_nodes map]; [reflexivity|].
  assert (Hr : In r (nodes g)) by (apply I; left; reflexivity).
  unfold h' at 1. rewrite get_loaded by exact Hr. fold h'.
  unfold h'. rewrite (enc_loaded h g h0 W r Hr). fold h'. cbn [bind].
  rewrite IH; [reflexivity|]. intros x Hx. apply I. right. exact Hx.
Qed.

(* T3: saving the loaded graph gives the same JSON tree *)
Theorem save_load_save : forall h g h0 j h' g', WF h g -> fst (save_graph h g) = Ok j ->
  load_graph h0 j = Ok (h', g') -> fst (save_graph h' g') = Ok j.
Proof.
  intros h g h0 j h' g' W S L. rewrite (load_save_graph h g h0 j W S) in L. inversion L; subst. clear L.
  rewrite (save_graph_ok h g W) in S. inversion S; subst. clear S.
  rewrite save_graph_fst. simpl.
  pose proof (seq_map_pos (nodes g) (List.length h0) (wf_nodup _ _ W)) as SQ. unfold ref in *. rewrite SQ.
  rewrite (enc_nodes_loaded h g h0 W (nodes g) (incl_refl _)). reflexivity.
Qed.

(* the loaded graph is again well-formed (so the round trip can be repeated) *)
Theorem loaded_WF : forall h g h0 j h' g', WF h g -> fst (save_graph h g) = Ok j ->
  load_graph h0 j = Ok (h', g') -> WF h' g'.
Proof.
  intros h g h0 j h' g' W S L.
  destruct (load_save_iso h g h0 j h' g' W S L) as [K [N [F [Inj P]]]].
  cbv zeta in *.
  assert (M : forall x, In x (nodes g') -> exists r, x = List.length h0 + pos r (nodes g) /\ In r (nodes g)).
  { intros x Hx. rewrite N in Hx. apply in_map_iff in Hx. destruct Hx as [r [E Hr]]. exists r. auto. }
  constructor.
  - rewrite N. clear -Inj W. pose proof (wf_nodup _ _ W) as ND.
    assert (G : forall l, NoDup l -> incl l (nodes g) ->
                NoDup (map (fun r => List.length h0 + pos r (nodes g)) l)).
    { induction l as [|a t IH]; intros NDl I; simpl; [constructor|]. inversion NDl; subst. constructor.
      - rewrite in_map_iff. intros [b [E Hb]].
        assert (b = a) by (apply Inj; [apply I; right; auto|apply I; left; auto|exact E]).
        subst. contradiction.
      - apply IH; [assumption|]. intros x Hx. apply I. right. exact Hx. }
    apply G; [exact ND|apply incl_refl].
  - intros x Hx. destruct (M x Hx) as [r [-> Hr]]. destruct (P r Hr) as [nd' [G _]]. exists nd'. exact G.
  - intros a b Ha Hb E. destruct (M a Ha) as [ra [-> Hra]]. destruct (M b Hb) as [rb [-> Hrb]].
    destruct (P ra Hra) as [na [Ga [Ua _]]]. destruct (P rb Hrb) as [nb [Gb [Ub _]]].
    rewrite (getn_get _ _ _ Ga), (getn_get _ _ _ Gb), Ua, Ub in E.
    f_equal. f_equal. apply (wf_uid _ _ W); assumption.
  - intros x Hx. destruct (M x Hx) as [r [-> Hr]]. destruct (P r Hr) as [nd' [G [_ [_ [_ [_ [Pa _]]]]]]].
    rewrite (getn_get _ _ _ G), Pa. apply NoDup_map_pos; [apply (wf_pnodup _ _ W); exact Hr|].
    intros p Hp. apply (wf_closed _ _ W r); assumption.
  - intros x p Hx Hp. destruct (M x Hx) as [r [-> Hr]]. destruct (P r Hr) as [nd' [G [_ [_ [_ [_ [Pa _]]]]]]].
    rewrite (getn_get _ _ _ G), Pa in Hp. apply in_map_iff in Hp. destruct Hp as [q [<- Hq]].
    rewrite N. apply (in_map (fun r => List.length h0 + pos r (nodes g))). apply (wf_closed _ _ W r); assumption.
  - intros x Hx. destruct (M x Hx) as [r [-> Hr]]. destruct (P r Hr) as [nd' [G [_ [C _]]]].
    rewrite (getn_get _ _ _ G), C, stringify_idem; [reflexivity|apply (wf_name _ _ W); exact Hr].
Qed.

(* ================================================================= individuals *)
Definition tuple_fit (f : fitness) : fitness :=
  match f with
  | FSingle _ v => FSingle Tuple v
  | FMulti _ _ w v => FMulti Tuple Tuple w v
  end.

Fixpoint live_uids (ps : list pind) : list string :=
  match ps with
  | [] => []
  | PNoneInd :: t => live_uids t
  | PLive u :: t => u :: live_uids t
  | PUid u :: t => u :: live_uids t
  end.

(* the decoded parent operator: same type, operators and uid; the parents are the uids *)
Definition loaded_po (po : parent_op) : parent_op :=
  mkPO (po_type po) PList (po_operators po) PList (map PUid (live_uids (po_parents po))) (po_uid po).

Definition loaded_ind (base : nat) (ind : individual) : individual :=
  mkInd (tuple_fit (i_fitness ind))
        (mkGraph (kind (i_graph ind)) (seq base (List.length (nodes (i_graph ind)))))
        (i_metadata ind) (i_native ind) (option_map loaded_po (i_pop ind)) (i_uid ind).

Lemma parent_uids_live : forall ps, parent_uids ps = Ok (map JStr (live_uids ps)).
Proof.
  induction ps as [|[u|u|] t IH]; simpl; try rewrite IH; reflexivity.
Qed.

Lemma json_fnum_json : forall x, json_fnum (fnum_json x) = Some x.
Proof. intros [q| | |]; reflexivity. Qed.

Lemma opt_nums_map : forall v, opt_nums (map jopt_num v) = Ok v.
Proof.
  induction v as [|[x|] t IH]; cbn [map jopt_num opt_nums]; [reflexivity| |rewrite IH; reflexivity].
  pose proof (json_fnum_json x) as E. destruct x; cbn [fnum_json opt_nums] in *; rewrite ?E, IH; try reflexivity.
  all: unfold tok_inf, tok_ninf, tok_nan in *; cbn [opt_nums]; rewrite E, IH; reflexivity.
Qed.

Lemma nums_map : forall v, nums (map fnum_json v) = Ok v.
Proof.
  induction v as [|x t IH]; cbn [map nums]; [reflexivity|]. rewrite json_fnum_json, IH. reflexivity.
Qed.

Lemma fnum_eqb_refl : forall x, fnum_eqb x x = true.
Proof. intros [q| | |]; simpl; try reflexivity. apply Q_eqb_eq. reflexivity. Qed.

Lemma decode_fitness_json : forall f, decode_fitness (fitness_json f) = Ok (tuple_fit f).
Proof.
  intros [k v|kw kv w v]; unfold fitness_json, decode_fitness.
  - change (class_of _) with (Some CSingleFit). cbv beta iota.
    change (lookup "_values" _) with (Some (JArr (map jopt_num v))). cbv beta iota.
    rewrite opt_nums_map. reflexivity.
  - change (class_of _) with (Some CMultiFit). cbv beta iota.
    change (lookup "_weights" _) with (Some (JArr (map fnum_json w))).
    change (lookup "wvalues" _) with (Some (JArr (map fnum_json v))). cbv beta iota.
    rewrite !nums_map. reflexivity.
Qed.

Lemma decode_parent_op_json : forall po j, parent_op_json po = Ok j -> decode_parent_op j = Ok (Some (loaded_po po)).
Proof.
  intros po j E. unfold parent_op_json in E. rewrite parent_uids_live in E. simpl in E. inversion E; subst. clear E.
  unfold decode_parent_op. change (class_of _) with (Some CParentOp). cbv beta iota.
  change (lookup "operators" _) with (Some (JArr (po_operators po))).
  change (lookup "parent_individuals" _) with (Some (JArr (map JStr (live_uids (po_parents po))))).
  change (lookup "type_" _) with (Some (JStr (po_type po))).
  change (lookup "uid" _) with (Some (JStr (po_uid po))). cbv beta iota.
  rewrite strs_map. reflexivity.
Qed.

Definition pop_json (ind : individual) : res json :=
  match i_pop ind with None => Ok JNull | Some po => parent_op_json po end.

Lemma pop_json_ok : forall ind, exists pj, pop_json ind = Ok pj.
Proof.
  intros. unfold pop_json. destruct (i_pop ind) as [po|]; [|eexists; reflexivity].
  unfold parent_op_json. rewrite parent_uids_live. simpl. eexists; reflexivity.
Qed.

Lemma decode_pop_json : forall ind pj, pop_json ind = Ok pj ->
  decode_parent_op pj = Ok (option_map loaded_po (i_pop ind)).
Proof.
  intros ind pj E. unfold pop_json in E. destruct (i_pop ind) as [po|]; simpl.
  - apply decode_parent_op_json. exact E.
  - inversion E. reflexivity.
Qed.

Lemma decode_native_json : forall n,
  decode_native (match n with Some z => JNum (Qmake z 1%positive) | None => JNull end) = Ok n.
Proof. intros [z|]; reflexivity. Qed.

Definition ind_json (ind : individual) (g pj : json) : json :=
  JObj [("fitness", fitness_json (i_fitness ind));
        ("graph", g);
        ("metadata", JObj (i_metadata ind));
        ("native_generation", match i_native ind with Some z => JNum (Qmake z 1%positive) | None => JNull end);
        ("parent_operator", pj);
        ("uid", JStr (i_uid ind));
        (CP, JStr individual_path)].

Lemma save_individual_fst : forall h ind,
  fst (save_individual h ind)
  = bind (fst (save_graph h (i_graph ind))) (fun g => bind (pop_json ind) (fun pj => Ok (ind_json ind g pj))).
Proof. intros. unfold save_individual. destruct (save_graph h (i_graph ind)). reflexivity. Qed.

Definition saved_graph_json (h : heap) (g : graph) : json :=
  graph_json (kind g) (map (fun r => enc_node h (getn h r)) (nodes g)).

Lemma save_individual_eq : forall h ind, WF h (i_graph ind) ->
  exists pj, pop_json ind = Ok pj /\
             fst (save_individual h ind) = Ok (ind_json ind (saved_graph_json h (i_graph ind)) pj).
Proof.
  intros h ind W. destruct (pop_json_ok ind) as [pj E]. exists pj. split; [exact E|].
  rewrite save_individual_fst, (save_graph_ok h _ W). cbn [bind]. rewrite E. reflexivity.
Qed.

(* saving an individual whose graph is well-formed succeeds *)
Theorem save_individual_ok : forall h ind, WF h (i_graph ind) -> exists j, fst (save_individual h ind) = Ok j.
Proof. intros h ind W. destruct (save_individual_eq h ind W) as [pj [_ E]]. eexists. exact E. Qed.

Lemma load_ind_json : forall h0 ind g pj,
  load_individual h0 (ind_json ind g pj)
  = bind (decode_fitness (fitness_json (i_fitness ind))) (fun f =>
    bind (load_graph h0 g) (fun hg =>
    bind (decode_native (match i_native ind with Some z => JNum (Qmake z 1%positive) | None => JNull end)) (fun n =>
    bind (decode_parent_op pj) (fun po =>
    Ok (fst hg, mkInd f (snd hg) (i_metadata ind) n po (i_uid ind)))))).
Proof. reflexivity. Qed.

(* T1 for individuals: uid, fitness values, metadata, native generation, parent-operator
   description and graph come back; the fitness holds tuples again *)
Theorem load_save_individual : forall h ind h0 j, WF h (i_graph ind) -> fst (save_individual h ind) = Ok j ->
  load_individual h0 j = Ok (h0 ++ loaded_cells (List.length h0) h (nodes (i_graph ind)),
                             loaded_ind (List.length h0) ind).
Proof.
  intros h ind h0 j W S. destruct (save_individual_eq h ind W) as [pj [EP E]]. rewrite E in S.
  inversion S; subst. clear S.
  rewrite load_ind_json, decode_fitness_json. cbn [bind].
  unfold saved_graph_json. rewrite (load_save_graph h (i_graph ind) h0 _ W (save_graph_ok h _ W)). cbn [bind fst snd].
  rewrite decode_native_json. cbn [bind].
  rewrite (decode_pop_json ind pj EP). reflexivity.
Qed.

Lemma live_uids_loaded : forall l, live_uids (map PUid l) = l.
Proof. induction l as [|u t IH]; simpl; [reflexivity|]. rewrite IH. reflexivity. Qed.

Lemma pop_json_loaded : forall base ind, pop_json (loaded_ind base ind) = pop_json ind.
Proof.
  intros. unfold pop_json, loaded_ind. simpl. destruct (i_pop ind) as [po|]; simpl; [|reflexivity].
  unfold parent_op_json. rewrite !parent_uids_live. simpl. rewrite live_uids_loaded. reflexivity.
Qed.

(* T3 for individuals: saving the loaded individual gives the same JSON tree *)
Theorem save_load_save_individual : forall h ind h0 j h' l, WF h (i_graph ind) ->
  fst (save_individual h ind) = Ok j -> load_individual h0 j = Ok (h', l) ->
  fst (save_individual h' l) = Ok j.
Proof.
  intros h ind h0 j h' l W S L. rewrite (load_save_individual h ind h0 j W S) in L. inversion L; subst. clear L.
  destruct (save_individual_eq h ind W) as [pj [EP E]]. rewrite E in S. inversion S; subst. clear S.
  pose proof (save_graph_ok h _ W) as SG.
  pose proof (load_save_graph h (i_graph ind) h0 _ W SG) as LG.
  pose proof (save_load_save h (i_graph ind) h0 _ _ _ W SG LG) as RS.
  rewrite save_individual_fst. unfold loaded_ind at 1. cbn [i_graph]. rewrite RS. cbn [bind].
  rewrite pop_json_loaded, EP. cbn [bind]. unfold ind_json, loaded_ind. simpl.
  destruct (i_fitness ind); reflexivity.
Qed.

(* the loaded fitness behaves like a freshly computed one: comparisons with any fitness that
   holds tuples do not raise, hashing does not raise, the numbers are those that were saved *)
Theorem loaded_fitness_behaves : forall f,
  fit_same f (tuple_fit f) = true /\ fit_valid (tuple_fit f) = fit_valid f /\
  hash_raises (tuple_fit f) = false /\
  forall f', fit_values_kind f' = Tuple -> cmp_raises (tuple_fit f) f' = false /\ cmp_raises f' (tuple_fit f) = false.
Proof.
  intros f.
  assert (R : forall l, list_eqb fnum_eqb l l = true).
  { induction l as [|x t IH]; simpl; [reflexivity|]. rewrite fnum_eqb_refl, IH. reflexivity. }
  assert (R' : forall l, list_eqb optQ_eqb l l = true).
  { induction l as [|[x|] t IH]; simpl; [reflexivity| |exact IH]. rewrite fnum_eqb_refl, IH. reflexivity. }
  repeat split.
  - destruct f as [k v|kw kv w v]; simpl; [apply R'|rewrite !R; reflexivity].
  - destruct f; reflexivity.
  - destruct f; reflexivity.
  - unfold cmp_raises. destruct f; destruct f'; simpl in *; subst; simpl; rewrite ?andb_false_r; reflexivity.
  - unfold cmp_raises. destruct f; destruct f'; simpl in *; subst; simpl; rewrite ?andb_false_r; reflexivity.
Qed.

(* ================================================================= editing a loaded graph *)
(* every parent container in the heap is a UniqueList without repetitions *)
Definition all_uniq (h : heap) : Prop :=
  forall r nd, get h r = Some nd -> uniq nd = true /\ NoDup (parents nd).

Lemma get_upd : forall h r c r', r < List.length h ->
  get (upd h r c) r' = if Nat.eqb r r' then (match c with Obj nd => Some nd | NoneObj => None end) else get h r'.
Proof.
  intros. unfold get. destruct (Nat.eqb_spec r r') as [<-|N].
  - rewrite nth_upd_eq by assumption. destruct c; reflexivity.
  - rewrite nth_upd_neq by assumption. reflexivity.
Qed.

Lemma get_lt : forall h r nd, get h r = Some nd -> r < List.length h.
Proof.
  intros h r nd E. apply get_nth in E. apply nth_error_Some. congruence.
Qed.

Lemma all_uniq_set_pars : forall h c ps, all_uniq h -> NoDup ps -> all_uniq (set_pars h c ps).
Proof.
  intros h c ps A ND r nd E. unfold set_pars in E. destruct (get h c) as [x|] eqn:G; [|apply (A r nd E)].
  rewrite (get_upd _ _ _ _ (get_lt _ _ _ G)) in E. destruct (Nat.eqb_spec c r) as [<-|N].
  - inversion E; subst. simpl. split; [apply (A c x G)|exact ND].
  - apply (A r nd E).
Qed.

Lemma NoDup_snoc : forall (l : list nat) v, NoDup l -> ~ In v l -> NoDup (l ++ [v]).
Proof.
  induction l as [|x t IH]; simpl; intros v ND H.
  - constructor; [auto|constructor].
  - inversion ND; subst. constructor.
    + rewrite in_app_iff. simpl. intros [A|[A|[]]]; [auto|subst; tauto].
    + apply IH; tauto.
Qed.

(* UniqueList.append never creates a repetition *)
Lemma pl_append_nodup : forall l v, NoDup l -> NoDup (pl_append true l v).
Proof.
  intros l v ND. unfold pl_append. simpl. destruct (memb v l) eqn:M; [exact ND|].
  apply NoDup_snoc; [exact ND|apply memb_false; exact M].
Qed.

Lemma pl_extend_nodup : forall vs l, NoDup l -> NoDup (pl_extend true l vs).
Proof.
  unfold pl_extend. induction vs as [|v t IH]; intros l ND; simpl; [exact ND|].
  apply IH. apply pl_append_nodup. exact ND.
Qed.

Lemma list_remove_nodup : forall x l l', list_remove x l = Ok l' -> NoDup l -> NoDup l' /\ ~ In x l' /\ incl l' l.
Proof.
  induction l as [|z t IH]; simpl; intros l' E ND; [discriminate|].
  inversion ND as [|? ? Hz NDt]; subst.
  destruct (Nat.eqb_spec x z) as [->|Nz].
  - inversion E; subst. repeat split; auto. intros y Hy. right. exact Hy.
  - destruct (list_remove x t) eqn:E'; [|discriminate]. inversion E; subst.
    destruct (IH _ eq_refl NDt) as [A [B C]]. repeat split.
    + constructor; [|assumption]. intros D. apply Hz. apply C. exact D.
    + intros [D|D]; [congruence|tauto].
    + intros y [Hy|Hy]; [left; exact Hy|right; apply C; exact Hy].
Qed.

Lemma pars_nodup : forall h r, all_uniq h -> NoDup (pars h r).
Proof.
  intros h r A. unfold pars. destruct (get h r) as [nd|] eqn:E; [apply (A r nd E)|constructor].
Qed.

Lemma kind_of_uniq : forall h r nd, all_uniq h -> get h r = Some nd -> kind_of h r = true.
Proof. intros h r nd A E. unfold kind_of. rewrite E. apply (A r nd E). Qed.

Lemma set_pars_noobj : forall h r ps, get h r = None -> set_pars h r ps = h.
Proof. intros h r ps E. unfold set_pars. rewrite E. reflexivity. Qed.

Lemma unlink_all_uniq : forall cs h n h', all_uniq h -> unlink_all h n cs = Ok h' -> all_uniq h'.
Proof.
  induction cs as [|c t IH]; intros h n h' A E; simpl in E; [inversion E; subst; exact A|].
  destruct (list_remove n (pars h c)) as [ps|e] eqn:R; [|discriminate]. simpl in E.
  apply (IH _ _ _ (all_uniq_set_pars h c ps A (proj1 (list_remove_nodup _ _ _ R (pars_nodup h c A)))) E).
Qed.

Lemma extend_all_uniq : forall cs h n, all_uniq h -> all_uniq (extend_all h n cs).
Proof.
  induction cs as [|c t IH]; intros h n A; simpl; [exact A|].
  apply IH. destruct (get h c) as [nd|] eqn:G.
  - apply all_uniq_set_pars; [exact A|]. rewrite (kind_of_uniq h c nd A G). apply pl_extend_nodup. apply pars_nodup. exact A.
  - rewrite set_pars_noobj by exact G. exact A.
Qed.

(* T4 (container part): the three operations that add or remove parent links keep every
   container free of repetitions when the containers are UniqueLists *)
Theorem run_op_all_uniq : forall s o s', all_uniq (fst s) -> run_op s o = Ok s' -> all_uniq (fst s').
Proof.
  intros [h g] o [h' g'] A E. cbn [fst] in *. destruct o as [p c|p c|n m|]; cbn [run_op] in E.
  3: { unfold delete_node in E.
       destruct (list_remove n g) as [g1|e]; [|discriminate]. cbn [bind] in E.
       destruct (unlink_all h n (node_children h g n)) as [h1|e] eqn:U; [|discriminate]. cbn [bind] in E.
       pose proof (unlink_all_uniq _ _ _ _ A U) as A1.
       pose proof (fun cs => extend_all_uniq cs h1 n A1) as EX.
       destruct m.
       - inversion E; subst. exact A1.
       - destruct (pars h1 n); [inversion E; subst; exact A1|].
         destruct (node_children h g n) as [|c [|c2 t]]; inversion E; subst; try exact A1. exact (EX [c]).
       - destruct (pars h1 n); inversion E; subst; [exact A1|]. exact (EX (node_children h g n)). }
  all: unfold connect_nodes, disconnect_nodes in E.
  - destruct (memb c (node_children h g p)); inversion E; subst; [exact A|].
    destruct (get h c) as [nd|] eqn:G.
    + apply all_uniq_set_pars; [exact A|]. rewrite (kind_of_uniq h c nd A G). apply pl_append_nodup. apply pars_nodup. exact A.
    + rewrite set_pars_noobj by exact G. exact A.
  - destruct (negb (memb p (pars h c))); [inversion E; subst; exact A|].
    destruct (negb (memb p g) || negb (memb c g)); [inversion E; subst; exact A|].
    destruct (list_remove p (pars h c)) as [ps|e] eqn:R; [|discriminate]. inversion E; subst.
    apply all_uniq_set_pars; [exact A|]. apply (list_remove_nodup _ _ _ R (pars_nodup h c A)).
  - discriminate.
Qed.

Theorem run_ops_all_uniq : forall os s s', all_uniq (fst s) -> run_ops s os = Ok s' -> all_uniq (fst s').
Proof.
  induction os as [|o t IH]; intros s s' A E; simpl in E; [inversion E; subst; exact A|].
  destruct (run_op s o) as [s1|e] eqn:R; [|discriminate]. simpl in E.
  apply (IH s1 s' (run_op_all_uniq s o s1 A R) E).
Qed.

(* the heap after loading into a heap of UniqueLists holds only UniqueLists *)
Theorem loaded_all_uniq : forall h g h0 j h' g', WF h g -> all_uniq h0 -> fst (save_graph h g) = Ok j ->
  load_graph h0 j = Ok (h', g') -> all_uniq h'.
Proof.
  intros h g h0 j h' g' W A S L. rewrite (load_save_graph h g h0 j W S) in L. inversion L; subst. clear L.
  intros r nd E. destruct (Nat.lt_ge_cases r (List.length h0)) as [Lt|Ge].
  - rewrite get_app_l in E by exact Lt. apply (A r nd E).
  - replace r with (List.length h0 + (r - List.length h0)) in E by lia. rewrite get_app_r in E.
    unfold get, loaded_cells in E. rewrite nth_error_map in E.
    destruct (nth_error (nodes g) (r - List.length h0)) as [x|] eqn:Nx; [|discriminate].
    simpl in E. inversion E; subst. simpl. split; [reflexivity|].
    apply nth_error_In in Nx. apply NoDup_map_pos; [apply (wf_pnodup _ _ W); exact Nx|].
    intros p Hp. apply (wf_closed _ _ W x); assumption.
Qed.

(* T4, for every sequence of the modelled operations on a loaded graph: no parent is ever
   linked twice *)
Theorem loaded_no_duplicate_links : forall h g h0 j h' g' os s', WF h g -> all_uniq h0 ->
  fst (save_graph h g) = Ok j -> load_graph h0 j = Ok (h', g') ->
  run_ops (h', nodes g') os = Ok s' -> forall r, NoDup (pars (fst s') r).
Proof.
  intros h g h0 j h' g' os s' W A S L R r.
  apply pars_nodup. apply (run_ops_all_uniq os (h', nodes g') s'); [|exact R].
  simpl. apply (loaded_all_uniq h g h0 j h' g' W A S L).
Qed.

(* with plain lists instead (what the decoder built before it was repaired) delete_node with
   reconnection links a parent twice: a diamond a <- b, a <- c, b <- d, c <- d ... here the
   smallest case: child 2 has parents [0; 1], node 1 has parent [0]; deleting 1 with
   reconnect = all gives child 2 the parents [0; 0] *)
Theorem plain_list_duplicates : exists h g n s',
  delete_node (h, g) n RAll = Ok s' /\ (forall r, NoDup (pars h r)) /\ ~ NoDup (pars (fst s') 2).
Proof.
  exists [Obj (mkNode "a" [] [] false); Obj (mkNode "b" [] [0] false); Obj (mkNode "c" [] [0; 1] false)],
         [2; 1; 0], 1.
  eexists. split; [vm_compute; reflexivity|]. split.
  - intros r. do 3 (destruct r as [|r]; [vm_compute; repeat constructor; simpl; intuition discriminate|]).
    unfold pars, get. simpl. destruct r; constructor.
  - vm_compute. intros H. inversion H as [|? ? N _]; subst. apply N. left. reflexivity.
Qed.

(* ================================================================= what round-trips of a name *)
Theorem name_roundtrip : forall c, is_ok (stringify_name c) = true ->
  stringify_name (str_content c) = Ok (str_content c) /\
  (forall s, lookup "name" c = Some (JStr s) -> lookup "name" (str_content c) = Some (JStr s)) /\
  (forall z, lookup "name" c = Some (JNum (Qmake z 1)) -> lookup "name" (str_content c) = Some (JStr (zstr z))) /\
  (lookup "name" c = Some JNull -> str_content c = c) /\
  (lookup "name" c = None -> str_content c = c).
Proof.
  intros c H. split; [apply stringify_idem; exact H|].
  unfold str_content, stringify_name. repeat split.
  - intros s L. rewrite L. simpl. apply lookup_assoc_set_same.
  - intros z L. rewrite L. simpl. apply lookup_assoc_set_same.
  - intros L. rewrite L. reflexivity.
  - intros L. rewrite L. reflexivity.
Qed.

(* ================================================================= fields of a loaded individual *)
Lemma list_eqb_refl : forall {A} (e : A -> A -> bool), (forall x, e x x = true) -> forall l, list_eqb e l l = true.
Proof. intros A e He. induction l as [|x t IH]; simpl; [reflexivity|]. rewrite He, IH. reflexivity. Qed.

Lemma live_uids_filter : forall ps,
  filter (fun u => negb (is_none u)) (map pind_uid ps) = map Some (live_uids ps).
Proof. induction ps as [|[u|u|] t IH]; simpl; try rewrite IH; reflexivity. Qed.

Theorem loaded_individual_fields : forall base ind,
  let l := loaded_ind base ind in
  i_uid l = i_uid ind /\ fit_same (i_fitness ind) (i_fitness l) = true /\
  fit_valid (i_fitness l) = fit_valid (i_fitness ind) /\
  i_metadata l = i_metadata ind /\ i_native l = i_native ind /\
  same_parent_op (i_pop ind) (i_pop l) = true.
Proof.
  intros base ind. simpl. repeat split.
  - apply (loaded_fitness_behaves (i_fitness ind)).
  - apply (loaded_fitness_behaves (i_fitness ind)).
  - destruct (i_pop ind) as [po|]; simpl; [|reflexivity].
    rewrite !String.eqb_refl. simpl.
    rewrite (list_eqb_refl json_eqb json_eqb_refl). simpl.
    rewrite !live_uids_filter, live_uids_loaded.
    rewrite list_eqb_refl; [reflexivity|]. intros [s|]; simpl; [apply String.eqb_refl|reflexivity].
Qed.

(* ================================================================= the equality tests decide equality *)
Lemma node_eqb_eq : forall a b, node_eqb a b = true <-> a = b.
Proof.
  intros [u c p q] [u' c' p' q']. unfold node_eqb. simpl.
  rewrite !andb_true_iff, String.eqb_eq, (list_eqb_eq kv_eqb kv_eqb_eq), (list_eqb_eq Nat.eqb Nat.eqb_eq),
    Bool.eqb_true_iff.
  split.
  - intros [[[-> ->] ->] ->]. reflexivity.
  - intros E. inversion E. auto.
Qed.

Lemma cell_eqb_eq : forall a b, cell_eqb a b = true <-> a = b.
Proof.
  intros [x|] [y|]; simpl; try (split; [discriminate|discriminate]).
  - rewrite node_eqb_eq. split; [intros ->; reflexivity|intros E; inversion E; reflexivity].
  - split; reflexivity.
Qed.

Theorem heap_eqb_eq : forall a b, heap_eqb a b = true <-> a = b.
Proof. apply list_eqb_eq. apply cell_eqb_eq. Qed.

(* ================================================================= a worked example *)
Definition ex_heap : heap :=
  [Obj (mkNode "u0" [("name", JNum (Qmake 3 1)); ("params", JObj [("a", JNum (Qmake 1 2))])] [1; 2] true);
   Obj (mkNode "u1" [("name", JStr "b")] [2] true);
   Obj (mkNode "u2" [] [0] true)].
Definition ex_graph : graph := mkGraph GDelegate [0; 2; 1].

Lemma ex_wf : WF ex_heap ex_graph.
Proof.
  constructor; simpl.
  - repeat constructor; simpl; intuition discriminate.
  - intros r [<-|[<-|[<-|[]]]]; eexists; reflexivity.
  - intros a b [<-|[<-|[<-|[]]]] [<-|[<-|[<-|[]]]]; vm_compute; intros E; try reflexivity; discriminate E.
  - intros r [<-|[<-|[<-|[]]]]; vm_compute; repeat constructor; simpl; intuition discriminate.
  - intros r p [<-|[<-|[<-|[]]]]; vm_compute; intuition.
  - intros r [<-|[<-|[<-|[]]]]; reflexivity.
Qed.

Lemma ex_roundtrip :
  exists j h' g', fst (save_graph ex_heap ex_graph) = Ok j /\ load_graph ex_heap j = Ok (h', g') /\
                  fst (save_graph h' g') = Ok j /\ nodes g' = [3; 4; 5] /\
                  pars h' 3 = [5; 4] /\ node_name (getn h' 3) = Some "3".
Proof. do 3 eexists. repeat split; vm_compute; reflexivity. Qed.

Definition ex_ind : individual :=
  mkInd (FMulti Tuple Tuple [Fin (Qmake (-1) 1); Fin (Qmake 1 1)] [Fin (Qmake (-3) 2); PInf]) ex_graph
        [("note", JStr "x")] (Some 2%Z)
        (Some (mkPO "crossover" Tuple [JStr "one_point"] Tuple [PLive "p1"; PLive "p2"] "op-uid")) "ind-uid".

Lemma ex_individual_roundtrip :
  exists j h' l, fst (save_individual ex_heap ex_ind) = Ok j /\ load_individual ex_heap j = Ok (h', l) /\
                 fst (save_individual h' l) = Ok j /\
                 cmp_raises (i_fitness l) (i_fitness ex_ind) = false /\ hash_raises (i_fitness l) = false /\
                 option_map po_parents (i_pop l) = Some [PUid "p1"; PUid "p2"].
Proof. do 3 eexists. repeat split; vm_compute; reflexivity. Qed.

(* ================================================================= the oracle accepts what the theorems describe *)
(* holds_graph (Serial/GraphCodec.v) is what the harness evaluates on the OBSERVED behaviour.
   Here: an observation that coincides with the model's behaviour on a well-formed graph (and
   whose python-level flags are true) satisfies every clause of the oracle.  So the oracle asks
   for nothing the theorems do not give. *)
Lemma opt_str_eqb_refl : forall o : option string, opt_eqb String.eqb o o = true.
Proof. intros [s|]; simpl; [apply String.eqb_refl|reflexivity]. Qed.

Lemma name_defined : forall nd, is_ok (stringify_name (content nd)) = true -> is_none (node_name nd) = false.
Proof.
  intros nd H. unfold node_name.
  destruct (stringify_cases (content nd)) as [[E [L|L]]|[[v [s [L [N [P E]]]]]|[e E]]]; try rewrite L; try reflexivity.
  - destruct v; try congruence; rewrite P; reflexivity.
  - rewrite E in H. discriminate.
Qed.

Lemma uid_at_get : forall h r nd, get h r = Some nd -> uid_at h r = Some (uid nd).
Proof. intros h r nd E. unfold uid_at. rewrite E. reflexivity. Qed.

Lemma forallb2_map_r : forall {A B} (p : A -> B -> bool) (F : A -> B) l,
  (forall a, In a l -> p a (F a) = true) -> forallb2 p l (map F l) = true.
Proof.
  induction l as [|a t IH]; intros H; simpl; [reflexivity|].
  rewrite H by (left; reflexivity). apply IH. intros x Hx. apply H. right. exact Hx.
Qed.

Theorem oracle_accepts_model : forall h g j h' g' o, WF h g ->
  fst (save_graph h g) = Ok j -> load_graph h j = Ok (h', g') ->
  o_json o = Some j -> o_after o = snd (save_graph h g) ->
  o_loaded o = Some (skipn (List.length h) h', g') ->
  o_resave o = (match fst (save_graph h' g') with Ok j2 => Some j2 | Raise _ => None end) ->
  o_text_same o = true -> o_descid_same o = true -> o_eq o = true ->
  holds_graph h g o = [true; true; true; true].
Proof.
  intros h g j h' g' o W S L Oj Oa Ol Or Ot Od Oe.
  pose proof (load_save_iso h g h j h' g' W S L) as I. cbv zeta in I. destruct I as [K [N [F [Inj P]]]].
  pose proof (save_load_save h g h j h' g' W S L) as RS.
  assert (Hh : h ++ skipn (List.length h) h' = h').
  { rewrite (load_save_graph h g h j W S) in L. inversion L; subst.
    rewrite skipn_app, skipn_all, Nat.sub_diag. reflexivity. }
  unfold holds_graph. rewrite Oj, Oa, Ol, Or, Ot, Od, Oe, RS, save_graph_pure, Hh.
  assert (E1 : heap_eqb h h = true) by (apply heap_eqb_eq; reflexivity). rewrite E1.
  assert (E4 : opt_eqb json_eqb (Some j) (Some j) = true) by (simpl; apply json_eqb_refl). rewrite E4.
  assert (X : same_graph h g h' g' && fresh_from h g' = true); [|rewrite X; reflexivity].
  apply andb_true_iff. split.
  - unfold same_graph. rewrite K. apply andb_true_iff. split; [destruct (kind g); reflexivity|].
    rewrite N. apply forallb2_map_r. intros r Hr.
    destruct (P r Hr) as [nd' [G' [U [C [Nm [Pm [Pa Q]]]]]]].
    unfold same_node. rewrite (WF_get _ _ _ W Hr), G'.
    rewrite U, String.eqb_refl, Nm, opt_str_eqb_refl, (name_defined _ (wf_name _ _ W r Hr)), Pm, json_eqb_refl, Q.
    simpl. rewrite !andb_true_r. apply andb_true_iff. split.
    + apply list_eqb_eq.
      * intros [a|] [b|]; simpl; try (split; congruence). rewrite String.eqb_eq.
        split; [intros ->; reflexivity|intros E; inversion E; reflexivity].
      * rewrite Pa, map_map. apply map_ext_in. intros p Hp.
        assert (Hpg : In p (nodes g)) by (apply (wf_closed _ _ W r); assumption).
        destruct (P p Hpg) as [pd' [Gp' [Up _]]].
        rewrite (uid_at_get _ _ _ (WF_get _ _ _ W Hpg)), (uid_at_get _ _ _ Gp'), Up. reflexivity.
    + apply forallb_forall. intros p Hp.
      assert (Hpg : In p (nodes g)) by (apply (wf_closed _ _ W r); assumption).
      rewrite (uid_at_get _ _ _ (WF_get _ _ _ W Hpg)). reflexivity.
  - unfold fresh_from. apply forallb_forall. intros x Hx. rewrite N in Hx. apply in_map_iff in Hx.
    destruct Hx as [r [<- Hr]]. apply Nat.leb_le. apply F. exact Hr.
Qed.
