(* Property C11, clause "the loaded object behaves like the original": the modelled editing
   operations (connect_nodes, disconnect_nodes, delete_node with every reconnect mode) commute
   with an isomorphism between two graphs whose parent containers are UniqueLists.  The round
   trip theorem gives such an isomorphism between a graph and its loaded copy. *)
From Coq Require Import List String ZArith QArith Bool Arith Lia.
From GolemV Require Import Serial.Json Serial.GraphCodec Serial.GraphCodecProofs.
Import ListNotations.
Local Close Scope Q_scope.
Local Open Scope nat_scope.
Local Open Scope list_scope.

Definition rename_op (f : ref -> ref) (o : op) : op :=
  match o with
  | OConnect p c => OConnect (f p) (f c)
  | ODisconnect p c => ODisconnect (f p) (f c)
  | ODelete n m => ODelete (f n) m
  | OOther => OOther
  end.

(* the arguments of an operation are member nodes *)
Definition op_in (g : list ref) (o : op) : bool :=
  match o with
  | OConnect p c | ODisconnect p c => memb p g && memb c g
  | ODelete n _ => memb n g
  | OOther => true
  end.

(* ... at every step of a sequence *)
Fixpoint ops_ok (s : state) (os : list op) : bool :=
  match os with
  | [] => true
  | o :: t => op_in (snd s) o && match run_op s o with Ok s' => ops_ok s' t | Raise _ => true end
  end.

(* isomorphic states: f maps the node list onto the node list, injectively; corresponding
   nodes have the same uid, name and parameters, f-corresponding parents in the same order;
   all parent containers are UniqueLists without repetitions; parents of members are members *)
Record sim (f : ref -> ref) (s s' : state) : Prop := mkSim {
  sim_nodes : snd s' = map f (snd s);
  sim_nodup : NoDup (snd s);
  sim_inj : forall a b, In a (snd s) -> In b (snd s) -> f a = f b -> a = b;
  sim_node : forall r, In r (snd s) ->
    exists nd nd', get (fst s) r = Some nd /\ get (fst s') (f r) = Some nd' /\
      uid nd' = uid nd /\ node_name nd' = node_name nd /\ node_params nd' = node_params nd /\
      parents nd' = map f (parents nd) /\ uniq nd = true /\ uniq nd' = true /\
      NoDup (parents nd) /\ incl (parents nd) (snd s)
}.

Definition members_uniq (h : heap) (g : graph) : Prop :=
  forall r, In r (nodes g) -> uniq (getn h r) = true.

(* ================================================================= list lemmas under an injection *)
Section Inj.
  Variable f : ref -> ref.
  Variable g : list ref.
  Hypothesis inj : forall a b, In a g -> In b g -> f a = f b -> a = b.

  Lemma eqb_inj : forall x y, In x g -> In y g -> Nat.eqb (f x) (f y) = Nat.eqb x y.
  Proof.
    intros x y Hx Hy. destruct (Nat.eqb_spec x y) as [->|N]; [apply Nat.eqb_refl|].
    apply Nat.eqb_neq. intros E. apply N. apply inj; assumption.
  Qed.

  Lemma memb_map_inj : forall x l, In x g -> incl l g -> memb (f x) (map f l) = memb x l.
  Proof.
    intros x l Hx. unfold memb. induction l as [|y t IH]; intros I; simpl; [reflexivity|].
    rewrite eqb_inj; [|exact Hx|apply I; left; reflexivity].
    rewrite IH; [reflexivity|]. intros z Hz. apply I. right. exact Hz.
  Qed.

  Lemma list_remove_map : forall x l, In x g -> incl l g ->
    list_remove (f x) (map f l) = match list_remove x l with Ok l' => Ok (map f l') | Raise e => Raise e end.
  Proof.
    intros x l Hx. induction l as [|y t IH]; intros I; simpl; [reflexivity|].
    rewrite eqb_inj; [|exact Hx|apply I; left; reflexivity].
    destruct (Nat.eqb x y); [reflexivity|].
    rewrite IH by (intros z Hz; apply I; right; exact Hz).
    destruct (list_remove x t); reflexivity.
  Qed.

  Lemma pl_append_map : forall l v, In v g -> incl l g ->
    pl_append true (map f l) (f v) = map f (pl_append true l v).
  Proof.
    intros l v Hv I. unfold pl_append. simpl. rewrite memb_map_inj by assumption.
    destruct (memb v l); [reflexivity|]. rewrite map_app. reflexivity.
  Qed.

  Lemma pl_append_incl : forall u l v, In v g -> incl l g -> incl (pl_append u l v) g.
  Proof.
    intros u l v Hv I. unfold pl_append. destruct (u && memb v l); [exact I|].
    intros x Hx. apply in_app_iff in Hx. destruct Hx as [Hx|[<-|[]]]; [apply I; exact Hx|exact Hv].
  Qed.

  Lemma pl_extend_map : forall vs l, incl vs g -> incl l g ->
    pl_extend true (map f l) (map f vs) = map f (pl_extend true l vs) /\ incl (pl_extend true l vs) g.
  Proof.
    unfold pl_extend. induction vs as [|v t IH]; intros l Iv Il; simpl; [split; [reflexivity|exact Il]|].
    assert (Hv : In v g) by (apply Iv; left; reflexivity).
    rewrite pl_append_map by assumption.
    apply IH; [intros z Hz; apply Iv; right; exact Hz|apply pl_append_incl; assumption].
  Qed.
End Inj.

Lemma list_remove_ok : forall x l, In x l -> exists l', list_remove x l = Ok l'.
Proof.
  induction l as [|y t IH]; simpl; intros H; [contradiction|].
  destruct (Nat.eqb_spec x y) as [->|N]; [eexists; reflexivity|].
  destruct H as [H|H]; [congruence|]. destruct (IH H) as [l' E]. rewrite E. eexists; reflexivity.
Qed.

Lemma list_remove_in : forall x l l', list_remove x l = Ok l' -> In x l.
Proof.
  induction l as [|y t IH]; simpl; intros l' E; [discriminate|].
  destruct (Nat.eqb_spec x y) as [->|N]; [left; reflexivity|].
  destruct (list_remove x t) eqn:E'; [|discriminate]. right. eapply IH. reflexivity.
Qed.

Lemma list_remove_spec : forall x l l', NoDup l -> list_remove x l = Ok l' ->
  forall y, In y l' <-> (In y l /\ y <> x).
Proof.
  induction l as [|z t IH]; simpl; intros l' ND E y; [discriminate|].
  inversion ND as [|? ? Hz NDt]; subst.
  destruct (Nat.eqb_spec x z) as [->|Nz].
  - inversion E; subst. split.
    + intros H. split; [right; exact H|]. intros ->. contradiction.
    + intros [[H|H] N]; [congruence|exact H].
  - destruct (list_remove x t) eqn:E'; [|discriminate]. inversion E; subst. simpl.
    rewrite (IH _ NDt eq_refl y). split.
    + intros [->|[H N]]; [split; [left; reflexivity|congruence]|split; [right; exact H|exact N]].
    + intros [[H|H] N]; [left; exact H|right; split; assumption].
Qed.

Lemma list_remove_raise : forall x l e, list_remove x l = Raise e -> e = ValueError.
Proof.
  induction l as [|y t IH]; simpl; intros e E; [inversion E; reflexivity|].
  destruct (Nat.eqb x y); [discriminate|]. destruct (list_remove x t) eqn:E'; [discriminate|].
  inversion E; subst. apply IH. reflexivity.
Qed.

Lemma pl_append_in : forall u l v y, In y (pl_append u l v) <-> In y l \/ y = v.
Proof.
  unfold pl_append. intros. destruct (u && memb v l) eqn:E.
  - apply andb_true_iff in E. destruct E as [_ E]. apply memb_In in E. split; [auto|].
    intros [A|A]; subst; assumption.
  - rewrite in_app_iff. simpl. split; intros [A|A]; auto. destruct A; [auto|contradiction].
Qed.

Lemma pl_extend_in : forall u vs l y, In y (pl_extend u l vs) <-> In y l \/ In y vs.
Proof.
  unfold pl_extend. induction vs as [|v t IH]; intros l y; simpl; [tauto|].
  rewrite IH, pl_append_in. split; intros H; intuition (subst; auto).
Qed.

(* ================================================================= heap access through set_pars *)
Lemma get_set_pars : forall h c ps r nd, get h c = Some nd ->
  get (set_pars h c ps) r = if Nat.eqb c r then Some (mkNode (uid nd) (content nd) ps (uniq nd)) else get h r.
Proof.
  intros h c ps r nd G. unfold set_pars. rewrite G. rewrite (get_upd _ _ _ _ (get_lt _ _ _ G)). reflexivity.
Qed.

Lemma pars_set_pars : forall h c ps r nd, get h c = Some nd ->
  pars (set_pars h c ps) r = if Nat.eqb c r then ps else pars h r.
Proof.
  intros h c ps r nd G. unfold pars. rewrite (get_set_pars h c ps r nd G).
  destruct (Nat.eqb c r); reflexivity.
Qed.

(* ================================================================= facts read off a simulation *)
Section Sim.
  Variable f : ref -> ref.

  Lemma sim_pars : forall h g h' g' r, sim f (h, g) (h', g') -> In r g ->
    pars h' (f r) = map f (pars h r) /\ kind_of h r = true /\ kind_of h' (f r) = true /\
    NoDup (pars h r) /\ incl (pars h r) g /\ exists nd, get h r = Some nd.
  Proof.
    intros h g h' g' r S Hr. destruct (sim_node _ _ _ S r Hr) as [nd [nd' [G [G' [_ [_ [_ [P [U [U' [ND I]]]]]]]]]]].
    simpl in *. unfold pars, kind_of. rewrite G, G'. repeat split; auto. exists nd. reflexivity.
  Qed.

  (* replacing the parents of a member by a list of members, on both sides *)
  Lemma sim_set_pars : forall h g h' g' c ps, sim f (h, g) (h', g') -> In c g -> incl ps g -> NoDup ps ->
    sim f (set_pars h c ps, g) (set_pars h' (f c) (map f ps), g').
  Proof.
    intros h g h' g' c ps S Hc I ND.
    destruct (sim_node _ _ _ S c Hc) as [cd [cd' [Gc [Gc' [Uc [Nc [Pc [_ [Qc [Qc' _]]]]]]]]]]. simpl in *.
    constructor; simpl.
    - apply (sim_nodes _ _ _ S).
    - apply (sim_nodup _ _ _ S).
    - apply (sim_inj _ _ _ S).
    - intros r Hr. destruct (sim_node _ _ _ S r Hr) as [nd [nd' [G [G' [U [N [P [Pa [Q [Q' [NDp Ip]]]]]]]]]]]. simpl in *.
      rewrite (get_set_pars h c ps r cd Gc), (get_set_pars h' (f c) (map f ps) (f r) cd' Gc').
      destruct (Nat.eqb_spec c r) as [<-|Ne].
      + rewrite Nat.eqb_refl. do 2 eexists. repeat split; simpl; auto.
      + assert (Nf : Nat.eqb (f c) (f r) = false).
        { apply Nat.eqb_neq. intros E. apply Ne. apply (sim_inj _ _ _ S); assumption. }
        rewrite Nf. exists nd, nd'. repeat split; auto.
  Qed.

  Lemma sim_children : forall h g h' g' n, sim f (h, g) (h', g') -> In n g ->
    node_children h' g' (f n) = map f (node_children h g n) /\ incl (node_children h g n) g.
  Proof.
    intros h g h' g' n S Hn. pose proof (sim_nodes _ _ _ S) as E. simpl in E. subst g'.
    unfold node_children. split; [|intros x Hx; apply filter_In in Hx; apply Hx].
    assert (G : forall l, incl l g ->
              filter (fun c => memb (f n) (pars h' c)) (map f l) = map f (filter (fun c => memb n (pars h c)) l)).
    { induction l as [|c t IH]; intros I; simpl; [reflexivity|].
      assert (Hc : In c g) by (apply I; left; reflexivity).
      destruct (sim_pars h g h' (map f g) c S Hc) as [P [_ [_ [_ [Ip _]]]]].
      rewrite P, (memb_map_inj f g (sim_inj _ _ _ S) n (pars h c) Hn Ip).
      rewrite IH by (intros z Hz; apply I; right; exact Hz).
      destruct (memb n (pars h c)); reflexivity. }
    apply G. apply incl_refl.
  Qed.

  (* ---------------------------------------------------------------- connect_nodes *)
  Lemma connect_sim : forall s s' p c, sim f s s' -> In p (snd s) -> In c (snd s) ->
    exists t t', connect_nodes s p c = Ok t /\ connect_nodes s' (f p) (f c) = Ok t' /\ sim f t t'.
  Proof.
    intros [h g] [h' g'] p c S Hp Hc. simpl in *. unfold connect_nodes.
    destruct (sim_children h g h' g' p S Hp) as [Ch ICh]. rewrite Ch.
    rewrite (memb_map_inj f g (sim_inj _ _ _ S) c _ Hc ICh).
    destruct (memb c (node_children h g p)); [do 2 eexists; split; [reflexivity|split; [reflexivity|exact S]]|].
    destruct (sim_pars h g h' g' c S Hc) as [P [K [K' [ND [I _]]]]]. rewrite P, K, K'.
    rewrite (pl_append_map f g (sim_inj _ _ _ S) _ _ Hp I).
    do 2 eexists. split; [reflexivity|]. split; [reflexivity|]. apply sim_set_pars; auto.
    - apply pl_append_incl; assumption.
    - apply pl_append_nodup. exact ND.
  Qed.

  (* ---------------------------------------------------------------- disconnect_nodes *)
  Lemma disconnect_sim : forall s s' p c, sim f s s' -> In p (snd s) -> In c (snd s) ->
    exists t t', disconnect_nodes s p c = Ok t /\ disconnect_nodes s' (f p) (f c) = Ok t' /\ sim f t t'.
  Proof.
    intros [h g] [h' g'] p c S Hp Hc. simpl in *. unfold disconnect_nodes.
    destruct (sim_pars h g h' g' c S Hc) as [P [K [K' [ND [I _]]]]]. rewrite P.
    rewrite (memb_map_inj f g (sim_inj _ _ _ S) p _ Hp I).
    destruct (memb p (pars h c)) eqn:M; simpl; [|do 2 eexists; split; [reflexivity|split; [reflexivity|exact S]]].
    pose proof (sim_nodes _ _ _ S) as Eg. simpl in Eg. rewrite Eg.
    rewrite !(memb_map_inj f g (sim_inj _ _ _ S)) by (auto; apply incl_refl).
    assert (Mp : memb p g = true) by (apply memb_In; exact Hp).
    assert (Mc : memb c g = true) by (apply memb_In; exact Hc).
    rewrite Mp, Mc. simpl.
    rewrite (list_remove_map f g (sim_inj _ _ _ S) p _ Hp I).
    destruct (list_remove p (pars h c)) as [ps|e] eqn:R.
    - simpl. do 2 eexists. split; [reflexivity|]. split; [reflexivity|]. rewrite <- Eg. apply sim_set_pars; auto.
      + intros x Hx. apply I. apply (list_remove_nodup _ _ _ R ND). exact Hx.
      + apply (list_remove_nodup _ _ _ R ND).
    - exfalso. apply memb_In in M. destruct (list_remove_ok p (pars h c) M) as [l' E]. congruence.
  Qed.
End Sim.

(* ================================================================= delete_node *)
Section SimDelete.
  Variable f : ref -> ref.

  Lemma unlink_sim : forall cs h g h' g' n, sim f (h, g) (h', g') -> In n g -> incl cs g ->
    match unlink_all h n cs with
    | Ok h1 => exists h1', unlink_all h' (f n) (map f cs) = Ok h1' /\ sim f (h1, g) (h1', g')
    | Raise e => unlink_all h' (f n) (map f cs) = Raise e
    end.
  Proof.
    induction cs as [|c t IH]; intros h g h' g' n S Hn I; cbn [unlink_all map].
    - exists h'. split; [reflexivity|exact S].
    - assert (Hc : In c g) by (apply I; left; reflexivity).
      destruct (sim_pars f h g h' g' c S Hc) as [P [_ [_ [ND [Ip _]]]]]. rewrite P.
      rewrite (list_remove_map f g (sim_inj _ _ _ S) n _ Hn Ip).
      destruct (list_remove n (pars h c)) as [ps|e] eqn:R; cbn [bind]; [|reflexivity].
      apply IH; [|exact Hn|intros z Hz; apply I; right; exact Hz].
      apply sim_set_pars; auto.
      + intros x Hx. apply Ip. apply (list_remove_nodup _ _ _ R ND). exact Hx.
      + apply (list_remove_nodup _ _ _ R ND).
  Qed.

  Lemma unlink_no_n : forall cs h g h' g' n h1, sim f (h, g) (h', g') -> incl cs g ->
    (forall r, In r g -> ~ In r cs -> ~ In n (pars h r)) ->
    unlink_all h n cs = Ok h1 -> forall r, In r g -> ~ In n (pars h1 r).
  Proof.
    induction cs as [|c t IH]; intros h g h' g' n h1 S I H E; cbn [unlink_all] in E.
    - inversion E; subst. intros r Hr. apply H; [exact Hr|intros []].
    - assert (Hc : In c g) by (apply I; left; reflexivity).
      destruct (sim_pars f h g h' g' c S Hc) as [P [_ [_ [ND [Ip [cd Gc]]]]]].
      destruct (list_remove n (pars h c)) as [ps|e] eqn:R; cbn [bind] in E; [|discriminate].
      destruct (list_remove_nodup _ _ _ R ND) as [NDps [Nn Ips]].
      apply (IH (set_pars h c ps) g (set_pars h' (f c) (map f ps)) g' n h1); auto.
      + apply sim_set_pars; auto. intros x Hx. apply Ip. apply Ips. exact Hx.
      + intros z Hz. apply I. right. exact Hz.
      + intros r Hr Nt. rewrite (pars_set_pars h c ps r cd Gc).
        destruct (Nat.eqb_spec c r) as [<-|Ne]; [exact Nn|].
        apply H; [exact Hr|]. intros [A|A]; [congruence|contradiction].
  Qed.

  Lemma extend_sim : forall cs h g h' g' n, sim f (h, g) (h', g') -> In n g -> incl cs g ->
    sim f (extend_all h n cs, g) (extend_all h' (f n) (map f cs), g').
  Proof.
    induction cs as [|c t IH]; intros h g h' g' n S Hn I; cbn [extend_all map]; [exact S|].
    assert (Hc : In c g) by (apply I; left; reflexivity).
    destruct (sim_pars f h g h' g' c S Hc) as [P [K [K' [ND [Ip _]]]]].
    destruct (sim_pars f h g h' g' n S Hn) as [Pn [_ [_ [_ [Ipn _]]]]].
    rewrite P, K, K', Pn.
    destruct (pl_extend_map f g (sim_inj _ _ _ S) (pars h n) (pars h c) Ipn Ip) as [EM EI]. rewrite EM.
    apply IH; [|exact Hn|intros z Hz; apply I; right; exact Hz].
    apply sim_set_pars; auto. apply pl_extend_nodup. exact ND.
  Qed.

  Lemma extend_no_n : forall cs h g h' g' n, sim f (h, g) (h', g') -> In n g -> incl cs g ->
    (forall r, In r g -> ~ In n (pars h r)) ->
    forall r, In r g -> ~ In n (pars (extend_all h n cs) r).
  Proof.
    induction cs as [|c t IH]; intros h g h' g' n S Hn I H; cbn [extend_all]; [exact H|].
    assert (Hc : In c g) by (apply I; left; reflexivity).
    destruct (sim_pars f h g h' g' c S Hc) as [P [K [K' [ND [Ip [cd Gc]]]]]].
    destruct (sim_pars f h g h' g' n S Hn) as [Pn [_ [_ [_ [Ipn _]]]]].
    destruct (pl_extend_map f g (sim_inj _ _ _ S) (pars h n) (pars h c) Ipn Ip) as [EM EI].
    rewrite K.
    apply (IH _ g (set_pars h' (f c) (map f (pl_extend true (pars h c) (pars h n)))) g' n); auto.
    - apply sim_set_pars; auto. apply pl_extend_nodup. exact ND.
    - intros z Hz. apply I. right. exact Hz.
    - intros r Hr. rewrite (pars_set_pars h c _ r cd Gc).
      destruct (Nat.eqb_spec c r) as [<-|Ne]; [|apply H; exact Hr].
      rewrite pl_extend_in. intros [A|A]; [apply (H c Hc A)|apply (H n Hn A)].
  Qed.

  (* dropping a node that nobody has as a parent from the node list *)
  Lemma sim_restrict : forall h g h' g' n g1, sim f (h, g) (h', g') -> list_remove n g = Ok g1 ->
    (forall r, In r g -> ~ In n (pars h r)) -> sim f (h, g1) (h', map f g1).
  Proof.
    intros h g h' g' n g1 S R H.
    destruct (list_remove_nodup _ _ _ R (sim_nodup _ _ _ S)) as [ND1 [Nn I1]]. simpl in *.
    constructor; simpl.
    - reflexivity.
    - exact ND1.
    - intros a b Ha Hb. apply (sim_inj _ _ _ S); simpl; apply I1; assumption.
    - intros r Hr. destruct (sim_node _ _ _ S r (I1 r Hr)) as [nd [nd' [G [G' [U [N [P [Pa [Q [Q' [NDp Ip]]]]]]]]]]].
      simpl in *. exists nd, nd'. repeat split; auto.
      intros p Hp. apply (list_remove_spec n g g1 (sim_nodup _ _ _ S) R). split; [apply Ip; exact Hp|].
      intros ->. apply (H r (I1 r Hr)). unfold pars. rewrite G. exact Hp.
  Qed.

  Lemma delete_sim : forall s s' n m, sim f s s' -> In n (snd s) ->
    match delete_node s n m with
    | Ok t => exists t', delete_node s' (f n) m = Ok t' /\ sim f t t'
    | Raise e => delete_node s' (f n) m = Raise e
    end.
  Proof.
    intros [h g] [h' g'] n m S Hn. simpl in Hn. unfold delete_node.
    destruct (sim_children f h g h' g' n S Hn) as [Ch ICh]. rewrite Ch.
    pose proof (sim_nodes _ _ _ S) as Eg. simpl in Eg. rewrite Eg.
    rewrite (list_remove_map f g (sim_inj _ _ _ S) n g Hn (incl_refl g)).
    destruct (list_remove_ok n g Hn) as [g1 R]. rewrite R. cbn [bind].
    pose proof (unlink_sim (node_children h g n) h g h' g' n S Hn ICh) as US. rewrite Eg in US.
    destruct (unlink_all h n (node_children h g n)) as [h1|e] eqn:U; cbn [bind].
    2: { rewrite US. reflexivity. }
    destruct US as [h1' [U' S1]]. rewrite U'. cbn [bind].
    assert (N1 : forall r, In r g -> ~ In n (pars h1 r)).
    { apply (unlink_no_n (node_children h g n) h g h' g' n h1 S ICh); [|exact U].
      intros r Hr Nc A. apply Nc. unfold node_children. apply filter_In. split; [exact Hr|].
      apply memb_In. exact A. }
    destruct (sim_pars f h1 g h1' (map f g) n S1 Hn) as [Pn _].
    assert (Fin : forall cs, incl cs g ->
              sim f (extend_all h1 n cs, g1) (extend_all h1' (f n) (map f cs), map f g1)).
    { intros cs Ics. apply (sim_restrict _ g _ (map f g) n g1); [|exact R|].
      - apply extend_sim; assumption.
      - apply (extend_no_n cs h1 g h1' (map f g) n S1 Hn Ics N1). }
    destruct m.
    - eexists. split; [reflexivity|]. apply (Fin [] (fun x (H : In x []) => match H with end)).
    - rewrite Pn. destruct (pars h1 n) as [|q qs]; cbn [map].
      + eexists. split; [reflexivity|]. apply (Fin [] (fun x (H : In x []) => match H with end)).
      + destruct (node_children h g n) as [|c [|c2 t]] eqn:EC; cbn [map].
        * eexists. split; [reflexivity|]. apply (Fin [] (fun x (H : In x []) => match H with end)).
        * eexists. split; [reflexivity|]. apply (Fin [c]). exact ICh.
        * eexists. split; [reflexivity|]. apply (Fin [] (fun x (H : In x []) => match H with end)).
    - rewrite Pn. destruct (pars h1 n) as [|q qs]; cbn [map].
      + eexists. split; [reflexivity|]. apply (Fin [] (fun x (H : In x []) => match H with end)).
      + eexists. split; [reflexivity|]. apply (Fin (node_children h g n) ICh).
  Qed.
End SimDelete.

(* ================================================================= every modelled operation, sequences *)
Theorem run_op_sim : forall f s s' o, sim f s s' -> op_in (snd s) o = true ->
  match run_op s o with
  | Ok t => exists t', run_op s' (rename_op f o) = Ok t' /\ sim f t t'
  | Raise e => run_op s' (rename_op f o) = Raise e
  end.
Proof.
  intros f s s' o S I. destruct o as [p c|p c|n m|]; simpl in *.
  - apply andb_true_iff in I. destruct I as [Ip Ic]. apply memb_In in Ip, Ic.
    destruct (connect_sim f s s' p c S Ip Ic) as [t [t' [E [E' St]]]]. rewrite E. exists t'. auto.
  - apply andb_true_iff in I. destruct I as [Ip Ic]. apply memb_In in Ip, Ic.
    destruct (disconnect_sim f s s' p c S Ip Ic) as [t [t' [E [E' St]]]]. rewrite E. exists t'. auto.
  - apply memb_In in I. apply (delete_sim f s s' n m S I).
  - reflexivity.
Qed.

Theorem run_ops_sim : forall f os s s', sim f s s' -> ops_ok s os = true ->
  match run_ops s os with
  | Ok t => exists t', run_ops s' (map (rename_op f) os) = Ok t' /\ sim f t t'
  | Raise e => run_ops s' (map (rename_op f) os) = Raise e
  end.
Proof.
  intros f. induction os as [|o t IH]; intros s s' S K; cbn [run_ops map ops_ok] in *.
  - exists s'. split; [reflexivity|exact S].
  - apply andb_true_iff in K. destruct K as [K1 K2].
    pose proof (run_op_sim f s s' o S K1) as R.
    destruct (run_op s o) as [s1|e]; cbn [bind].
    + destruct R as [s1' [E S1]]. rewrite E. cbn [bind]. apply IH; assumption.
    + rewrite R. reflexivity.
Qed.

(* the round trip gives a simulation between a graph and its loaded copy *)
Theorem loaded_sim : forall h g h0 j h' g', WF h g -> members_uniq h g ->
  fst (save_graph h g) = Ok j -> load_graph h0 j = Ok (h', g') ->
  sim (fun r => List.length h0 + pos r (nodes g)) (h, nodes g) (h', nodes g').
Proof.
  intros h g h0 j h' g' W MU S L.
  destruct (load_save_iso h g h0 j h' g' W S L) as [K [N [F [Inj P]]]]. cbv zeta in *.
  constructor; simpl.
  - exact N.
  - apply (wf_nodup _ _ W).
  - exact Inj.
  - intros r Hr. destruct (P r Hr) as [nd' [G' [U [C [Nm [Pm [Pa Q]]]]]]].
    exists (getn h r), nd'. repeat split; auto.
    + apply (WF_get _ _ _ W Hr).
    + apply (wf_pnodup _ _ W r Hr).
    + intros p Hp. apply (wf_closed _ _ W r); assumption.
Qed.

(* T4: the original and the loaded copy behave alike under every sequence of the modelled
   operations on member nodes: same exception, or isomorphic results *)
Theorem loaded_behaves_alike : forall h g h0 j h' g' os, WF h g -> members_uniq h g ->
  fst (save_graph h g) = Ok j -> load_graph h0 j = Ok (h', g') ->
  ops_ok (h, nodes g) os = true ->
  let f := fun r => List.length h0 + pos r (nodes g) in
  match run_ops (h, nodes g) os with
  | Ok s1 => exists s2, run_ops (h', nodes g') (map (rename_op f) os) = Ok s2 /\ sim f s1 s2
  | Raise e => run_ops (h', nodes g') (map (rename_op f) os) = Raise e
  end.
Proof.
  intros h g h0 j h' g' os W MU S L K f.
  apply run_ops_sim; [|exact K]. apply (loaded_sim h g h0 j h' g' W MU S L).
Qed.
