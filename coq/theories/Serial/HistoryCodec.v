(* C10 - model of the JSON codec of optimisation histories.

   Anchored code (GOLEM):
     golem/serializers/coders/opt_history_serialization.py   (pool, uid lists, decode, re-linking)
     golem/serializers/coders/parent_operator_serialization.py
     golem/serializers/serializer.py                         (_get_class, legacy path maps)
     golem/core/optimisers/opt_history_objects/opt_history.py, generation.py, individual.py

   Modelling decisions
   * Object identity is explicit: an Individual is a reference (index into a heap); [i_uid] is a
     field.  Several objects may carry one uid.
   * Python is dynamically typed: a parent slot of a ParentOperator holds either an Individual
     object ([PRef]) or a uid string ([PStr]) - the decoder creates the latter and re-links them in
     place, an individual loaded on its own keeps them.
   * Payloads the history codec only passes through (fitness, graph, metadata, operator names,
     labels, metric names, tuning result, save dir) are opaque tokens (nat); token 0 of the
     fitness / graph / metadata kinds is the payload of the MISSING_INDIVIDUAL placeholder
     (null fitness, empty graph, the MISSING_INDIVIDUAL metadata).
   * uids are nat (canonical renaming of the uuid strings).
   * Python recursion ([extract_intermediate_parents], [deserialize_intermediate_parents]) is
     recursion on an explicit depth budget [d]; [None] = the call raises (RecursionError, or
     AttributeError when the encoder meets a uid string where it needs an Individual).
   * The encoded form is a record mirroring the JSON tree (the text layer json.dumps/loads is
     trusted); python dicts are association lists with dict insertion semantics.

   Definitions only; proofs are in HistoryCodecProofs.v. *)
From Coq Require Import String Ascii List Arith Bool.
Import ListNotations.

Set Implicit Arguments.

(* ------------------------------------------------------------------------------------- *)
(* data                                                                                   *)
(* ------------------------------------------------------------------------------------- *)
Inductive pref := PRef (r : nat) | PStr (u : nat).

(* ParentOperator: type_, operators, uid, parent_individuals *)
Record pop (P : Type) := mkPop { p_type : nat; p_ops : list nat; p_uid : nat; p_parents : list P }.

(* Individual: uid, fitness, graph, metadata, native_generation, parent_operator *)
Record ind (P : Type) := mkInd {
  i_uid : nat; i_fit : nat; i_graph : nat; i_meta : nat; i_ng : option nat; i_op : option (pop P) }.

(* Generation: generation_num, label, metadata, data *)
Record gen := mkGen { g_num : nat; g_label : nat; g_meta : nat; g_members : list nat }.

(* ObjectiveInfo *)
Record objinfo := mkObj { o_multi : bool; o_names : list nat }.

(* in-memory history: heap of individuals + generations (refs) + archive snapshots (refs) *)
Record hist := mkHist {
  h_heap : list (ind pref);
  h_obj : objinfo;
  h_gens : list gen;
  h_snaps : list (list nat);
  h_tuning : nat;
  h_dir : nat }.

(* encoded history (JSON tree).  Legacy files: key [_is_multi_objective] instead of
   [_objective]; generations stored as plain lists of uids *)
Inductive eobj := EObj (o : objinfo) | ELegacyMulti (b : bool).
Inductive egens := EGens (gs : list gen) | ELists (ls : list (list nat)).
Record ehist := mkEHist {
  e_pool : list (ind nat);
  e_obj : eobj;
  e_gens : egens;
  e_arch : list (list nat);
  e_tuning : nat;
  e_dir : nat }.

(* short constructor names for generated case files *)
Definition mI := @mkInd pref.
Definition mE := @mkInd nat.
Definition mP := @mkPop pref.
Definition mQ := @mkPop nat.

Definition dummy_ind : ind pref := mkInd 0 0 0 0 None None.
Definition get (h : list (ind pref)) (r : nat) : ind pref := nth r h dummy_ind.
Definition uid_of (h : list (ind pref)) (r : nat) : nat := i_uid (get h r).

(* Individual.parents: [] when there is no parent operator *)
Definition parents_of (P : Type) (i : ind P) : list P :=
  match i_op i with None => [] | Some o => p_parents o end.

Definition all_members (gs : list gen) : list nat := concat (map g_members gs).

(* a python loop whose body may raise: the first [None] aborts the loop *)
Fixpoint ofold (A B : Type) (f : A -> B -> option A) (xs : list B) (a : A) : option A :=
  match xs with
  | [] => Some a
  | x :: t => match f a x with None => None | Some a' => ofold f t a' end
  end.

(* in-place update of one heap cell *)
Definition upd (A : Type) (l : list A) (r : nat) (x : A) : list A := firstn r l ++ x :: skipn (S r) l.

(* ------------------------------------------------------------------------------------- *)
(* python dict: association list with insertion semantics                                *)
(* ------------------------------------------------------------------------------------- *)
Definition dict := list (nat * nat).

Fixpoint dict_set (m : dict) (k v : nat) : dict :=
  match m with
  | [] => [(k, v)]
  | (k', v') :: t => if Nat.eqb k k' then (k, v) :: t else (k', v') :: dict_set t k v
  end.

Fixpoint dict_get (m : dict) (k : nat) : option nat :=
  match m with
  | [] => None
  | (k', v') :: t => if Nat.eqb k k' then Some v' else dict_get t k
  end.

Definition dict_keys (m : dict) : list nat := map fst m.
Definition dict_vals (m : dict) : list nat := map snd m.

(* ------------------------------------------------------------------------------------- *)
(* encoder                                                                                *)
(* ------------------------------------------------------------------------------------- *)
(* parent_operator_to_json: parents become uids (a uid string is kept) *)
Definition enc_pref (h : list (ind pref)) (x : pref) : nat :=
  match x with PRef r => uid_of h r | PStr u => u end.

Definition enc_pop (h : list (ind pref)) (o : pop pref) : pop nat :=
  mkPop (p_type o) (p_ops o) (p_uid o) (map (enc_pref h) (p_parents o)).

Definition enc_indv (h : list (ind pref)) (i : ind pref) : ind nat :=
  mkInd (i_uid i) (i_fit i) (i_graph i) (i_meta i) (i_ng i) (option_map (enc_pop h) (i_op i)).

Definition enc_ind (h : list (ind pref)) (r : nat) : ind nat := enc_indv h (get h r).

Definition has_key (m : dict) (k : nat) : bool := existsb (Nat.eqb k) (dict_keys m).

(* extract_intermediate_parents(ind):
     for parent in ind.parents:
         if parent.uid not in generations_map and parent.uid not in parents_map:
             parents_map[parent.uid] = parent
             extract_intermediate_parents(parent)
   ([parent.uid] of a uid string raises AttributeError)                                   *)
Fixpoint extract (d : nat) (h : list (ind pref)) (gm pm : dict) (r : nat) : option dict :=
  match d with
  | O => None
  | S d' =>
    ofold (fun pm1 x =>
        match x with
        | PStr _ => None
        | PRef p =>
          if has_key gm (uid_of h p) || has_key pm1 (uid_of h p) then Some pm1
          else extract d' h gm (dict_set pm1 (uid_of h p) p) p
        end) (parents_of (get h r)) pm
  end.

(* generations_map = {ind.uid: ind for ind in chain( *generations_list)} where generations_list
   is the generations followed by the archive snapshots *)
Definition pool_roots (H : hist) : list nat := all_members (h_gens H) ++ concat (h_snaps H).

Definition gens_map (h : list (ind pref)) (roots : list nat) : dict :=
  fold_left (fun m r => dict_set m (uid_of h r) r) roots [].

(* for individual in generations_map.values(): extract_intermediate_parents(individual) *)
Definition parents_map (d : nat) (h : list (ind pref)) (gm : dict) : option dict :=
  ofold (fun pm r => extract d h gm pm r) (dict_vals gm) [].

(* parents_map.update(generations_map) *)
Definition dict_update (m m2 : dict) : dict := fold_left (fun acc kv => dict_set acc (fst kv) (snd kv)) m2 m.

(* _flatten_generations_list: the pool, as references *)
Definition pool_refs (d : nat) (H : hist) : option (list nat) :=
  let gm := gens_map (h_heap H) (pool_roots H) in
  match parents_map d (h_heap H) gm with
  | None => None
  | Some pm => Some (dict_vals (dict_update pm gm))
  end.

Definition enc_gen (h : list (ind pref)) (g : gen) : gen :=
  mkGen (g_num g) (g_label g) (g_meta g) (map (uid_of h) (g_members g)).

(* opt_history_to_json *)
Definition encode_history (d : nat) (H : hist) : option ehist :=
  match pool_refs d H with
  | None => None
  | Some rs =>
    Some (mkEHist (map (enc_ind (h_heap H)) rs)
                  (EObj (h_obj H))
                  (EGens (map (enc_gen (h_heap H)) (h_gens H)))
                  (map (map (uid_of (h_heap H))) (h_snaps H))
                  (h_tuning H) (h_dir H))
  end.

(* OptHistory.save(is_save_light=True): lighten_history, then the same encoder.
   Generation(snapshot, i) gives a native generation to members that have none. *)
Definition set_ng (hp : list (ind pref)) (k r : nat) : list (ind pref) :=
  match nth_error hp r with
  | None => hp
  | Some i =>
    match i_ng i with
    | Some _ => hp
    | None => upd hp r (mkInd (i_uid i) (i_fit i) (i_graph i) (i_meta i) (Some k) (i_op i))
    end
  end.

Fixpoint wrap_lists (hp : list (ind pref)) (k : nat) (ls : list (list nat)) : list (ind pref) * list gen :=
  match ls with
  | [] => (hp, [])
  | l :: t =>
    let hp1 := fold_left (fun a r => set_ng a k r) l hp in
    let (hp2, gs) := wrap_lists hp1 (S k) t in
    (hp2, mkGen k 0 0 l :: gs)
  end.

Definition lighten (H : hist) : hist :=
  let (hp, gs) := wrap_lists (h_heap H) 0 (h_snaps H) in
  mkHist hp (h_obj H) gs (h_snaps H) (h_tuning H) 0.

(* ------------------------------------------------------------------------------------- *)
(* decoder                                                                                *)
(* ------------------------------------------------------------------------------------- *)
(* Individual(OptGraph(), metadata=MISSING_INDIVIDUAL, uid=uid) *)
Definition placeholder (u : nat) : ind pref := mkInd u 0 0 0 None None.

(* any_from_json over the pool: parent slots hold uid strings *)
Definition dec_pop (o : pop nat) : pop pref := mkPop (p_type o) (p_ops o) (p_uid o) (map PStr (p_parents o)).
Definition dec_ind (e : ind nat) : ind pref :=
  mkInd (i_uid e) (i_fit e) (i_graph e) (i_meta e) (i_ng e) (option_map dec_pop (i_op e)).

(* uid_to_individual_map = {ind.uid: ind for ind in individuals_pool} *)
Fixpoint umap_from (k : nat) (pool : list (ind nat)) (m : dict) : dict :=
  match pool with
  | [] => m
  | e :: t => umap_from (S k) t (dict_set m (i_uid e) k)
  end.
Definition umap (pool : list (ind nat)) : dict := umap_from 0 pool [].

(* uid_to_individual_mapper: a missing uid gives a fresh placeholder, one per occurrence *)
Definition resolve1 (m : dict) (hp : list (ind pref)) (x : pref) : list (ind pref) * nat :=
  match x with
  | PRef r => (hp, r)
  | PStr u =>
    match dict_get m u with
    | Some r => (hp, r)
    | None => (hp ++ [placeholder u], length hp)
    end
  end.

Fixpoint resolve_list (m : dict) (hp : list (ind pref)) (xs : list pref) : list (ind pref) * list nat :=
  match xs with
  | [] => (hp, [])
  | x :: t =>
    let (hp1, r) := resolve1 m hp x in
    let (hp2, rs) := resolve_list m hp1 t in
    (hp2, r :: rs)
  end.

(* _deserialize_generations_list over lists of uid lists *)
Fixpoint resolve_lists (m : dict) (hp : list (ind pref)) (ls : list (list nat)) : list (ind pref) * list (list nat) :=
  match ls with
  | [] => (hp, [])
  | l :: t =>
    let (hp1, rs) := resolve_list m hp (map PStr l) in
    let (hp2, rss) := resolve_lists m hp1 t in
    (hp2, rs :: rss)
  end.

Fixpoint resolve_gens (m : dict) (hp : list (ind pref)) (gs : list gen) : list (ind pref) * list gen :=
  match gs with
  | [] => (hp, [])
  | g :: t =>
    let (hp1, rs) := resolve_list m hp (map PStr (g_members g)) in
    let (hp2, gs') := resolve_gens m hp1 t in
    (hp2, mkGen (g_num g) (g_label g) (g_meta g) rs :: gs')
  end.

Definition has_str (i : ind pref) : bool :=
  existsb (fun x => match x with PStr _ => true | PRef _ => false end) (parents_of i).

(* object.__setattr__(parent_op, 'parent_individuals', tuple(parent_individuals)) *)
Definition set_parents (hp : list (ind pref)) (r : nat) (ps : list nat) : list (ind pref) :=
  match nth_error hp r with
  | None => hp
  | Some i =>
    match i_op i with
    | None => hp
    | Some o =>
      upd hp r (mkInd (i_uid i) (i_fit i) (i_graph i) (i_meta i) (i_ng i)
                      (Some (mkPop (p_type o) (p_ops o) (p_uid o) (map PRef ps))))
    end
  end.

(* deserialize_intermediate_parents(ind):
     parent_op = ind.parent_operator
     if not parent_op: return
     parent_individuals = _uids_to_individuals(parent_op.parent_individuals, map)
     object.__setattr__(parent_op, 'parent_individuals', tuple(parent_individuals))
     for parent in parent_individuals:
         if any(isinstance(i, str) for i in parent.parents):
             deserialize_intermediate_parents(parent)                                      *)
Fixpoint relink (d : nat) (m : dict) (hp : list (ind pref)) (r : nat) : option (list (ind pref)) :=
  match d with
  | O => None
  | S d' =>
    match i_op (get hp r) with
    | None => Some hp
    | Some o =>
      let (hp1, ps) := resolve_list m hp (p_parents o) in
      let hp2 := set_parents hp1 r ps in
      ofold (fun hq p => if has_str (get hq p) then relink d' m hq p else Some hq) ps hp2
    end
  end.

(* _deserialize_parent_individuals(list(chain( *history.generations)), map) *)
Definition relink_all (d : nat) (m : dict) (hp : list (ind pref)) (rs : list nat) : option (list (ind pref)) :=
  ofold (fun hq r => relink d m hq r) rs hp.

(* the individuals from which the decoder re-links parents:
   list(chain( *history.generations, *history.archive_history)) *)
Definition relink_roots (gs : list gen) (snaps : list (list nat)) : list nat := all_members gs ++ concat snaps.

Definition dec_obj (o : eobj) : objinfo :=
  match o with EObj o => o | ELegacyMulti b => mkObj b [] end.

(* opt_history_from_json *)
Definition decode_history (d : nat) (E : ehist) : option hist :=
  let m := umap (e_pool E) in
  let hp0 := map dec_ind (e_pool E) in
  let '(hp1, gs) :=
    match e_gens E with
    | EGens gs => resolve_gens m hp0 gs
    | ELists ls => let (hp, rss) := resolve_lists m hp0 ls in (hp, map (fun rs => mkGen 0 0 0 rs) rss)
    end in
  let (hp2, snaps) := resolve_lists m hp1 (e_arch E) in
  (* older histories: wrap plain lists into Generation objects (sets native generations) *)
  let (hp3, gs3) :=
    match e_gens E with
    | EGens _ => (hp2, gs)
    | ELists _ => wrap_lists hp2 0 (map g_members gs)
    end in
  match relink_all d m hp3 (relink_roots gs3 snaps) with
  | None => None
  | Some hp4 => Some (mkHist hp4 (dec_obj (e_obj E)) gs3 snaps (e_tuning E) (e_dir E))
  end.

(* ------------------------------------------------------------------------------------- *)
(* reachability, faithfulness, closedness, isomorphism (the Props of the theorems)        *)
(* ------------------------------------------------------------------------------------- *)
Definition gen_member (H : hist) (r : nat) : Prop := In r (all_members (h_gens H)).
Definition snap_member (H : hist) (r : nat) : Prop := In r (concat (h_snaps H)).

Inductive reach (H : hist) : nat -> Prop :=
| reach_gen : forall r, gen_member H r -> reach H r
| reach_snap : forall r, snap_member H r -> reach H r
| reach_parent : forall c p, reach H c -> In (PRef p) (parents_of (get (h_heap H) c)) -> reach H p.

(* one object per uid among everything reachable *)
Definition uid_faithful (H : hist) : Prop :=
  forall r1 r2, reach H r1 -> reach H r2 -> uid_of (h_heap H) r1 = uid_of (h_heap H) r2 -> r1 = r2.

(* guard of the round-trip theorems (besides one object per uid): every parent slot of a reachable
   individual holds an object, not a uid string (strings appear only in an individual that was
   loaded on its own from a dump) *)
Definition no_str (H : hist) : Prop :=
  forall c x, reach H c -> In x (parents_of (get (h_heap H) c)) -> exists p, x = PRef p.

Definition pref_rel (R : nat -> nat -> Prop) (x y : pref) : Prop :=
  match x, y with
  | PRef a, PRef b => R a b
  | PStr u, PStr v => u = v
  | _, _ => False
  end.

Definition pop_rel (R : nat -> nat -> Prop) (a b : option (pop pref)) : Prop :=
  match a, b with
  | None, None => True
  | Some p, Some q => p_type p = p_type q /\ p_ops p = p_ops q /\ p_uid p = p_uid q /\
                      Forall2 (pref_rel R) (p_parents p) (p_parents q)
  | _, _ => False
  end.

Definition ind_rel (R : nat -> nat -> Prop) (a b : ind pref) : Prop :=
  i_uid a = i_uid b /\ i_fit a = i_fit b /\ i_graph a = i_graph b /\ i_meta a = i_meta b /\
  i_ng a = i_ng b /\ pop_rel R (i_op a) (i_op b).

Definition gen_rel (R : nat -> nat -> Prop) (g g' : gen) : Prop :=
  g_num g = g_num g' /\ g_label g = g_label g' /\ g_meta g = g_meta g' /\
  Forall2 R (g_members g) (g_members g').

(* R is an isomorphism between the object graphs of two histories: it relates generation
   members and archive members position by position, related individuals agree on every field
   and have related parents (so it extends over the whole lineage), and it is one-to-one (the
   sharing structure is the same) *)
Record iso_by (R : nat -> nat -> Prop) (H H' : hist) : Prop := {
  iso_obj : h_obj H = h_obj H';
  iso_tuning : h_tuning H = h_tuning H';
  iso_dir : h_dir H = h_dir H';
  iso_gens : Forall2 (gen_rel R) (h_gens H) (h_gens H');
  iso_snaps : Forall2 (Forall2 R) (h_snaps H) (h_snaps H');
  iso_inds : forall r r', R r r' -> ind_rel R (get (h_heap H) r) (get (h_heap H') r');
  iso_fun : forall r r1 r2, R r r1 -> R r r2 -> r1 = r2;
  iso_inj : forall r1 r2 r', R r1 r' -> R r2 r' -> r1 = r2 }.

Definition iso (H H' : hist) : Prop := exists R, iso_by R H H'.

(* every uid mentioned by the encoded history is in its pool, pool uids are distinct *)
Definition e_gen_uids (E : ehist) : list nat :=
  match e_gens E with EGens gs => all_members gs | ELists ls => concat ls end.

Definition e_closed (E : ehist) : Prop :=
  NoDup (map (@i_uid nat) (e_pool E)) /\
  (forall u, In u (e_gen_uids E) -> In u (map (@i_uid nat) (e_pool E))) /\
  (forall u, In u (concat (e_arch E)) -> In u (map (@i_uid nat) (e_pool E))) /\
  (forall e u, In e (e_pool E) -> In u (parents_of e) -> In u (map (@i_uid nat) (e_pool E))).

(* ------------------------------------------------------------------------------------- *)
(* continuing a history: add_to_history / add_to_archive_history with new individuals      *)
(* ------------------------------------------------------------------------------------- *)
(* new individuals (appended to the heap), new generations, new archive snapshots; the references
   are references into the extended heap *)
Record ext := mkExt { x_cells : list (ind pref); x_gens : list gen; x_snaps : list (list nat) }.

Definition extend (H : hist) (G : ext) : hist :=
  mkHist (h_heap H ++ x_cells G) (h_obj H) (h_gens H ++ x_gens G) (h_snaps H ++ x_snaps G) (h_tuning H) (h_dir H).

(* the same continuation expressed over other object references *)
Definition ren_pref (f : nat -> nat) (x : pref) : pref := match x with PRef r => PRef (f r) | PStr u => PStr u end.
Definition ren_ind (f : nat -> nat) (i : ind pref) : ind pref :=
  mkInd (i_uid i) (i_fit i) (i_graph i) (i_meta i) (i_ng i)
        (option_map (fun o => mkPop (p_type o) (p_ops o) (p_uid o) (map (ren_pref f) (p_parents o))) (i_op i)).
Definition ren_gen (f : nat -> nat) (g : gen) : gen := mkGen (g_num g) (g_label g) (g_meta g) (map f (g_members g)).
Definition ren_ext (f : nat -> nat) (G : ext) : ext :=
  mkExt (map (ren_ind f) (x_cells G)) (map (ren_gen f) (x_gens G)) (map (map f) (x_snaps G)).

Definition ref_parents (i : ind pref) : list nat :=
  flat_map (fun x => match x with PRef r => [r] | PStr _ => [] end) (parents_of i).

(* every reference a continuation mentions *)
Definition ext_refs (G : ext) : list nat :=
  flat_map ref_parents (x_cells G) ++ all_members (x_gens G) ++ concat (x_snaps G).

(* ------------------------------------------------------------------------------------- *)
(* executable oracles                                                                     *)
(* ------------------------------------------------------------------------------------- *)
Definition opt_nat_eqb (a b : option nat) : bool :=
  match a, b with None, None => true | Some x, Some y => Nat.eqb x y | _, _ => false end.

Fixpoint list_eqb (A : Type) (eqb : A -> A -> bool) (a b : list A) : bool :=
  match a, b with
  | [], [] => true
  | x :: s, y :: t => eqb x y && list_eqb eqb s t
  | _, _ => false
  end.

Definition pop_nat_eqb (a b : pop nat) : bool :=
  Nat.eqb (p_type a) (p_type b) && list_eqb Nat.eqb (p_ops a) (p_ops b) &&
  Nat.eqb (p_uid a) (p_uid b) && list_eqb Nat.eqb (p_parents a) (p_parents b).

Definition eind_eqb (a b : ind nat) : bool :=
  Nat.eqb (i_uid a) (i_uid b) && Nat.eqb (i_fit a) (i_fit b) && Nat.eqb (i_graph a) (i_graph b) &&
  Nat.eqb (i_meta a) (i_meta b) && opt_nat_eqb (i_ng a) (i_ng b) &&
  match i_op a, i_op b with
  | None, None => true
  | Some p, Some q => pop_nat_eqb p q
  | _, _ => false
  end.

Definition gen_eqb (a b : gen) : bool :=
  Nat.eqb (g_num a) (g_num b) && Nat.eqb (g_label a) (g_label b) && Nat.eqb (g_meta a) (g_meta b) &&
  list_eqb Nat.eqb (g_members a) (g_members b).

Definition obj_eqb (a b : objinfo) : bool :=
  Bool.eqb (o_multi a) (o_multi b) && list_eqb Nat.eqb (o_names a) (o_names b).

Definition eobj_eqb (a b : eobj) : bool :=
  match a, b with
  | EObj x, EObj y => obj_eqb x y
  | ELegacyMulti x, ELegacyMulti y => Bool.eqb x y
  | _, _ => false
  end.

Definition egens_eqb (a b : egens) : bool :=
  match a, b with
  | EGens x, EGens y => list_eqb gen_eqb x y
  | ELists x, ELists y => list_eqb (list_eqb Nat.eqb) x y
  | _, _ => false
  end.

Definition ehist_eqb (a b : ehist) : bool :=
  list_eqb eind_eqb (e_pool a) (e_pool b) && eobj_eqb (e_obj a) (e_obj b) &&
  egens_eqb (e_gens a) (e_gens b) && list_eqb (list_eqb Nat.eqb) (e_arch a) (e_arch b) &&
  Nat.eqb (e_tuning a) (e_tuning b) && Nat.eqb (e_dir a) (e_dir b).

Definition opt_ehist_eqb (a : option ehist) (b : ehist) : bool :=
  match a with Some x => ehist_eqb x b | None => false end.

(* --- decision of isomorphism by a parallel walk ---------------------------------------- *)
Definition pair_eqb (a b : nat * nat) : bool := Nat.eqb (fst a) (fst b) && Nat.eqb (snd a) (snd b).
Definition pair_mem (p : nat * nat) (l : list (nat * nat)) : bool := existsb (pair_eqb p) l.
(* p = (a, b) clashes with rel when a or b is already related to something else *)
Definition pair_clash (p : nat * nat) (l : list (nat * nat)) : bool :=
  existsb (fun q => (Nat.eqb (fst p) (fst q) || Nat.eqb (snd p) (snd q)) && negb (pair_eqb p q)) l.

Fixpoint zip_prefs (xs ys : list pref) : option (list (nat * nat)) :=
  match xs, ys with
  | [], [] => Some []
  | PRef a :: s, PRef b :: t => match zip_prefs s t with Some l => Some ((a, b) :: l) | None => None end
  | PStr u :: s, PStr v :: t => if Nat.eqb u v then zip_prefs s t else None
  | _, _ => None
  end.

(* fields of two individuals agree; returns the pairs of parents that must be related *)
Definition ind_match (a b : ind pref) : option (list (nat * nat)) :=
  if Nat.eqb (i_uid a) (i_uid b) && Nat.eqb (i_fit a) (i_fit b) && Nat.eqb (i_graph a) (i_graph b) &&
     Nat.eqb (i_meta a) (i_meta b) && opt_nat_eqb (i_ng a) (i_ng b)
  then match i_op a, i_op b with
       | None, None => Some []
       | Some p, Some q =>
         if Nat.eqb (p_type p) (p_type q) && list_eqb Nat.eqb (p_ops p) (p_ops q) && Nat.eqb (p_uid p) (p_uid q)
         then zip_prefs (p_parents p) (p_parents q) else None
       | _, _ => None
       end
  else None.

Fixpoint iso_walk (fuel : nat) (h h' : list (ind pref)) (todo rel : list (nat * nat)) : option (list (nat * nat)) :=
  match fuel with
  | O => None
  | S k =>
    match todo with
    | [] => Some rel
    | p :: t =>
      if pair_mem p rel then iso_walk k h h' t rel
      else if pair_clash p rel then None
      else match ind_match (get h (fst p)) (get h' (snd p)) with
           | None => None
           | Some more => iso_walk k h h' (more ++ t) (p :: rel)
           end
    end
  end.

Fixpoint zip_refs (xs ys : list nat) : option (list (nat * nat)) :=
  match xs, ys with
  | [], [] => Some []
  | a :: s, b :: t => match zip_refs s t with Some l => Some ((a, b) :: l) | None => None end
  | _, _ => None
  end.

Fixpoint zip_lists (xs ys : list (list nat)) : option (list (nat * nat)) :=
  match xs, ys with
  | [], [] => Some []
  | a :: s, b :: t =>
    match zip_refs a b, zip_lists s t with Some l, Some l2 => Some (l ++ l2) | _, _ => None end
  | _, _ => None
  end.

Fixpoint gens_hdr_eqb (gs gs' : list gen) : bool :=
  match gs, gs' with
  | [], [] => true
  | g :: s, g' :: t => Nat.eqb (g_num g) (g_num g') && Nat.eqb (g_label g) (g_label g') &&
                       Nat.eqb (g_meta g) (g_meta g') && gens_hdr_eqb s t
  | _, _ => false
  end.

Definition slots (h : list (ind pref)) : nat := fold_right (fun i n => length (parents_of i) + n) 0 h.

Definition iso_b (H H' : hist) : bool :=
  obj_eqb (h_obj H) (h_obj H') && Nat.eqb (h_tuning H) (h_tuning H') && Nat.eqb (h_dir H) (h_dir H') &&
  gens_hdr_eqb (h_gens H) (h_gens H') &&
  match zip_lists (map g_members (h_gens H)) (map g_members (h_gens H')),
        zip_lists (h_snaps H) (h_snaps H') with
  | Some l1, Some l2 =>
    match iso_walk (S (length l1 + length l2 + slots (h_heap H) + length (h_heap H))) (h_heap H) (h_heap H') (l1 ++ l2) [] with
    | Some _ => true
    | None => false
    end
  | _, _ => false
  end.

Definition opt_iso_b (a : option hist) (b : hist) : bool :=
  match a with Some x => iso_b x b | None => false end.

(* --- reachable objects, one object per uid --------------------------------------------- *)
Fixpoint reach_walk (fuel : nat) (h : list (ind pref)) (todo seen : list nat) : list nat :=
  match fuel with
  | O => seen
  | S k =>
    match todo with
    | [] => seen
    | r :: t =>
      if existsb (Nat.eqb r) seen then reach_walk k h t seen
      else reach_walk k h (ref_parents (get h r) ++ t) (r :: seen)
    end
  end.

Definition reach_list (H : hist) : list nat :=
  let roots := all_members (h_gens H) ++ concat (h_snaps H) in
  reach_walk (S (length roots + slots (h_heap H) + length (h_heap H))) (h_heap H) roots [].

Fixpoint nodup_b (l : list nat) : bool :=
  match l with [] => true | x :: t => negb (existsb (Nat.eqb x) t) && nodup_b t end.

Definition uid_faithful_b (H : hist) : bool := nodup_b (map (uid_of (h_heap H)) (reach_list H)).

(* no reachable parent slot holds a uid string *)
Definition no_str_b (H : hist) : bool :=
  forallb (fun r => negb (has_str (get (h_heap H) r))) (reach_list H).

(* closedness of an encoded history *)
Definition mem_b (x : nat) (l : list nat) : bool := existsb (Nat.eqb x) l.
Definition e_closed_b (E : ehist) : bool :=
  let us := map (@i_uid nat) (e_pool E) in
  nodup_b us && forallb (fun u => mem_b u us) (e_gen_uids E) && forallb (fun u => mem_b u us) (concat (e_arch E)) &&
  forallb (fun e => forallb (fun u => mem_b u us) (parents_of e)) (e_pool E).

(* --- per-individual dumps (Individual.save / Individual.load) --------------------------- *)
Definition ind_pref_eqb (a b : ind pref) : bool :=
  match ind_match a b with Some [] => true | _ => false end.

(* ------------------------------------------------------------------------------------- *)
(* observations and the correspondence / property oracles                                 *)
(* ------------------------------------------------------------------------------------- *)
(* One history case: the in-memory history, the JSON written by save(), the history returned
   by load(), the JSON written by saving that one again, and what the driver observed on the
   text / fitness level. *)
Record obs := mkObs {
  ob_mem : hist;            (* exported in-memory history before save *)
  ob_json : ehist;          (* parsed text of history.save() *)
  ob_loaded : hist;         (* exported OptHistory.load(text) *)
  ob_json2 : ehist;         (* parsed text of loaded.save() *)
  ob_pre : option ehist;    (* when the in-memory history was itself loaded from a (legacy) file: that JSON *)
  ob_text_equal : bool;     (* the two texts are equal as strings *)
  ob_fitness_ok : bool;     (* loaded fitness compares with fresh fitness without raising, as expected *)
  ob_depth : nat }.         (* recursion budget for the model *)

(* model = implementation: save() wrote what the model encodes, load() built what the model
   decodes (up to renaming of objects), the second save wrote the model's encoding of the
   loaded history *)
Definition agree (o : obs) : bool :=
  match ob_pre o with None => true | Some e => opt_iso_b (decode_history (ob_depth o) e) (ob_mem o) end &&
  opt_ehist_eqb (encode_history (ob_depth o) (ob_mem o)) (ob_json o) &&
  opt_iso_b (decode_history (ob_depth o) (ob_json o)) (ob_loaded o) &&
  opt_ehist_eqb (encode_history (ob_depth o) (ob_loaded o)) (ob_json2 o).

(* the property on the observed behaviour: the loaded history is isomorphic to the saved one
   (objective, generations, snapshots, every field of every individual over the whole lineage,
   same sharing), has one object per uid, saving it again reproduces the JSON (tree and text),
   loaded fitness values are usable *)
Definition holds_b (o : obs) : bool :=
  iso_b (ob_mem o) (ob_loaded o) && uid_faithful_b (ob_loaded o) &&
  ehist_eqb (ob_json2 o) (ob_json o) && ob_text_equal o && ob_fitness_ok o.

(* classification used by the driver: is the saved history inside the guard of the theorems *)
Definition guard_b (o : obs) : bool :=
  uid_faithful_b (ob_mem o) && no_str_b (ob_mem o).

(* light save: OptHistory.save(is_save_light=True) writes the encoding of the lightened history *)
Definition light_agree (d : nat) (H : hist) (E : ehist) : bool :=
  opt_ehist_eqb (encode_history d (lighten H)) E.

(* individual dumps: (in-memory individual at dump time with the heap it lives in, parsed dump
   file, exported Individual.load of the file) *)
Definition dump_agree (h : list (ind pref)) (r : nat) (file : ind nat) (loaded : ind pref) : bool :=
  eind_eqb (enc_ind h r) file && ind_pref_eqb (dec_ind file) loaded.

(* the loaded individual equals its in-memory counterpart: every field, parents by uid *)
Definition dump_holds_b (h : list (ind pref)) (r : nat) (loaded : ind pref) : bool :=
  eind_eqb (enc_ind h r) (enc_indv [] loaded) && negb (existsb (fun x => match x with PRef _ => true | PStr _ => false end) (parents_of loaded)).

(* ------------------------------------------------------------------------------------- *)
(* legacy class / module paths (serializer.py)                                            *)
(* ------------------------------------------------------------------------------------- *)
Local Open Scope string_scope.

Definition LEGACY_CLASS_PATHS : list (string * string) := [
  ("fedot.core.optimisers.gp_comp.individual/Individual", "golem.core.optimisers.opt_history_objects.individual/Individual");
  ("fedot.core.optimisers.gp_comp.individual/ParentOperator", "golem.core.optimisers.opt_history_objects.parent_operator/ParentOperator");
  ("fedot.core.optimisers.opt_history/OptHistory", "golem.core.optimisers.opt_history_objects.opt_history/OptHistory");
  ("fedot.core.dag.graph_node/GraphNode", "golem.core.dag.linked_graph_node/LinkedGraphNode");
  ("fedot.core.dag.graph_operator/GraphOperator", "golem.core.dag.linked_graph/LinkedGraph");
  ("fedot.core.dag.graph_operator/GraphOperator._empty_postprocess", "golem.core.dag.linked_graph/LinkedGraph._empty_postprocess");
  ("fedot.core.optimisers.objective.objective/Objective", "golem.core.optimisers.objective.objective/Objective");
  ("fedot.core.optimisers.fitness.fitness/Fitness", "golem.core.optimisers.fitness.fitness/Fitness") ].

Definition LEGACY_MODULE_PATHS : list (string * string) := [
  ("fedot.core.optimisers.gp_comp.individual", "golem.core.optimisers.opt_history_objects.individual");
  ("fedot.core.optimisers.opt_history_objects", "golem.core.optimisers.opt_history_objects");
  ("fedot.core.optimisers.gp_comp", "golem.core.optimisers.genetic");
  ("fedot.core.optimisers.graph", "golem.core.optimisers.graph");
  ("fedot.core.optimisers.objective.objective", "golem.core.optimisers.objective.objective");
  ("fedot.core.optimisers.fitness", "golem.core.optimisers.fitness");
  ("fedot.core.log", "golem.core.log");
  ("fedot.core.adapter", "golem.core.adapter");
  ("fedot.core.dag", "golem.core.dag");
  ("fedot.core.utilities", "golem.utilities") ].

(* the classes / functions and modules that exist in the current tree (the driver checks on
   every run that each of them is importable) *)
Definition CURRENT_OBJECTS : list (string * string) := [
  ("golem.core.optimisers.opt_history_objects.individual", "Individual");
  ("golem.core.optimisers.opt_history_objects.parent_operator", "ParentOperator");
  ("golem.core.optimisers.opt_history_objects.opt_history", "OptHistory");
  ("golem.core.dag.linked_graph_node", "LinkedGraphNode");
  ("golem.core.dag.linked_graph", "LinkedGraph");
  ("golem.core.dag.linked_graph", "LinkedGraph._empty_postprocess");
  ("golem.core.optimisers.objective.objective", "Objective");
  ("golem.core.optimisers.fitness.fitness", "Fitness") ].

Definition CURRENT_MODULES : list string := [
  "golem.core.optimisers.opt_history_objects.individual";
  "golem.core.optimisers.opt_history_objects";
  "golem.core.optimisers.genetic";
  "golem.core.optimisers.graph";
  "golem.core.optimisers.objective.objective";
  "golem.core.optimisers.fitness";
  "golem.core.log";
  "golem.core.adapter";
  "golem.core.dag";
  "golem.utilities" ].

Fixpoint assoc_str (k : string) (l : list (string * string)) : option string :=
  match l with
  | [] => None
  | (a, b) :: t => if String.eqb k a then Some b else assoc_str k t
  end.

(* str.split('/') into exactly two parts (first delimiter) *)
Fixpoint split_slash (s : string) : option (string * string) :=
  match s with
  | EmptyString => None
  | String c t =>
    if Ascii.eqb c "/"%char then Some (EmptyString, t)
    else match split_slash t with Some (a, b) => Some (String c a, b) | None => None end
  end.

Fixpoint drop (n : nat) (s : string) : string :=
  match n, s with
  | O, _ => s
  | S k, EmptyString => EmptyString
  | S k, String _ t => drop k t
  end.

(* str.replace(old, new) for non-empty old: every non-overlapping occurrence, left to right *)
Fixpoint replace_from (skip : nat) (old new s : string) : string :=
  match s with
  | EmptyString => EmptyString
  | String c t =>
    match skip with
    | S k => replace_from k old new t
    | O => if String.prefix old s
           then append new (replace_from (String.length old - 1) old new t)
           else String c (replace_from 0 old new t)
    end
  end.
Definition str_replace (old new s : string) : string := replace_from 0 old new s.

(* Serializer._legacy_module_map: first prefix of the table that matches *)
Fixpoint legacy_module_map_in (tbl : list (string * string)) (m : string) : string :=
  match tbl with
  | [] => m
  | (old, new) :: t => if String.prefix old m then str_replace old new m else legacy_module_map_in t m
  end.
Definition legacy_module_map (m : string) : string := legacy_module_map_in LEGACY_MODULE_PATHS m.

(* Serializer._get_class up to the import: (module to import, qualified name to look up) *)
Definition resolve_class_path (p : string) : option (string * string) :=
  let p1 := match assoc_str p LEGACY_CLASS_PATHS with Some q => q | None => p end in
  match split_slash p1 with
  | Some (m, c) => Some (legacy_module_map m, c)
  | None => None
  end.

Definition pair_str_eqb (a b : string * string) : bool := String.eqb (fst a) (fst b) && String.eqb (snd a) (snd b).

Definition resolves_to_current (p : string) : bool :=
  match resolve_class_path p with
  | Some mc => existsb (pair_str_eqb mc) CURRENT_OBJECTS
  | None => false
  end.

Definition legacy_classes_ok : bool := forallb (fun kv => resolves_to_current (fst kv)) LEGACY_CLASS_PATHS.

Definition legacy_module_ok (kv : string * string) : bool :=
  existsb (String.eqb (legacy_module_map (fst kv))) CURRENT_MODULES && String.eqb (legacy_module_map (fst kv)) (snd kv).

Definition legacy_modules_ok : bool := forallb legacy_module_ok LEGACY_MODULE_PATHS.

(* comparison of the tables with the dicts of the running implementation, and of the model's
   resolution with what Serializer._get_class returned *)
Definition tables_agree (cls mods : list (string * string)) : bool :=
  list_eqb pair_str_eqb cls LEGACY_CLASS_PATHS && list_eqb pair_str_eqb mods LEGACY_MODULE_PATHS.

Definition resolve_agree (p : string) (observed : option (string * string)) : bool :=
  match resolve_class_path p, observed with
  | Some a, Some b => pair_str_eqb a b
  | None, None => true
  | _, _ => false
  end.
