(* C10 - proofs about the history codec model (Serial/HistoryCodec.v). *)
From Coq Require Import String Ascii List Arith Bool Lia.
From GolemV Require Import Serial.HistoryCodec.
Import ListNotations.

(* ------------------------------------------------------------------------------------- *)
(* legacy class paths                                                                     *)
(* ------------------------------------------------------------------------------------- *)
Lemma legacy_classes_ok_true : legacy_classes_ok = true.
Proof. vm_compute. reflexivity. Qed.

Lemma legacy_modules_ok_true : legacy_modules_ok = true.
Proof. vm_compute. reflexivity. Qed.

Theorem legacy_paths : forall k v, In (k, v) LEGACY_CLASS_PATHS -> resolves_to_current k = true.
Proof.
  intros k v Hin. pose proof legacy_classes_ok_true as H. unfold legacy_classes_ok in H.
  rewrite forallb_forall in H. exact (H (k, v) Hin).
Qed.

Theorem legacy_module_paths : forall k v, In (k, v) LEGACY_MODULE_PATHS ->
  legacy_module_map k = v /\ In v CURRENT_MODULES.
Proof.
  intros k v Hin. pose proof legacy_modules_ok_true as H. unfold legacy_modules_ok in H.
  rewrite forallb_forall in H. specialize (H (k, v) Hin). cbn [fst snd] in H.
  apply andb_true_iff in H. destruct H as [H1 H2]. apply String.eqb_eq in H2. split; [exact H2|].
  apply existsb_exists in H1. destruct H1 as [x [Hx He]]. apply String.eqb_eq in He. rewrite <- H2, He. exact Hx.
Qed.
