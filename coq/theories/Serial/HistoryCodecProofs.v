(* C10 - proofs about the history codec model (Serial/HistoryCodec.v). *)
From Coq Require Import String Ascii List Arith Bool Lia.
From GolemV Require Import Serial.HistoryCodec.
Import ListNotations.


(* ------------------------------------------------------------------------------------- *)
(* legacy class paths                                                                     *)
(* ------------------------------------------------------------------------------------- *)
Lemma legacy_classes_ok_true : legacy_classes_ok = true.
Proof. vm_compute. reflexivity. Qed.

Theorem legacy_paths : forall k v, In (k, v) LEGACY_CLASS_PATHS -> resolves_to_current k = true.
Proof.
  intros k v Hin. pose proof legacy_classes_ok_true as H. unfold legacy_classes_ok in H.
  rewrite forallb_forall in H. exact (H (k, v) Hin).
Qed.

(* module prefixes: every entry maps its own prefix to its target, an existing module *)
Lemma legacy_modules_ok_true : legacy_modules_ok = true.
Proof. vm_compute. reflexivity. Qed.

Theorem legacy_module_paths : forall k v, In (k, v) LEGACY_MODULE_PATHS ->
  legacy_module_map k = v /\ In v CURRENT_MODULES.
Proof.
  intros k v Hin. pose proof legacy_modules_ok_true as H. unfold legacy_modules_ok in H.
  rewrite forallb_forall in H. specialize (H (k, v) Hin).
  unfold legacy_module_ok in H. cbn [fst snd] in H. apply andb_true_iff in H. destruct H as [H1 H2].
  apply String.eqb_eq in H2. split; [exact H2|].
  apply existsb_exists in H1. destruct H1 as [x [Hx He]]. apply String.eqb_eq in He. rewrite <- H2, He. exact Hx.
Qed.

(* ------------------------------------------------------------------------------------- *)
(* generic helpers                                                                        *)
(* ------------------------------------------------------------------------------------- *)
Lemma nth_error_firstn_lt : forall (A : Type) (l : list A) r i, i < r -> nth_error (firstn r l) i = nth_error l i.
Proof.
  induction l as [|x t IH]; intros r i Hi.
  - rewrite firstn_nil. reflexivity.
  - destruct r as [|r]; [lia|]. destruct i as [|i]; [reflexivity|]. cbn. apply IH. lia.
Qed.

Lemma nth_error_skipn_add : forall (A : Type) (l : list A) n i, nth_error (skipn n l) i = nth_error l (n + i).
Proof.
  induction l as [|x t IH]; intros n i.
  - rewrite skipn_nil. destruct i, n; reflexivity.
  - destruct n as [|n]; [reflexivity|]. cbn. apply IH.
Qed.

Lemma NoDup_app_intro_single : forall (A : Type) (l : list A) x, NoDup l -> ~ In x l -> NoDup (l ++ [x]).
Proof.
  induction l as [|y t IH]; intros x Hnd Hx; cbn.
  - constructor; [intros []|constructor].
  - inversion Hnd; subst. constructor.
    + intros Hin. apply in_app_or in Hin. destruct Hin as [Hin|[->|[]]]; [contradiction|]. apply Hx. left. reflexivity.
    + apply IH; [assumption|]. intros Hin. apply Hx. right. exact Hin.
Qed.

Lemma upd_length : forall (A : Type) (l : list A) r x, r < length l -> length (upd l r x) = length l.
Proof.
  intros A l r x Hr. unfold upd. rewrite app_length. cbn [length]. rewrite firstn_length, skipn_length. lia.
Qed.

Lemma upd_nth_same : forall (A : Type) (l : list A) r x, r < length l -> nth_error (upd l r x) r = Some x.
Proof.
  intros A l r x Hr. unfold upd. rewrite nth_error_app2; rewrite firstn_length; [|lia].
  replace (r - Nat.min r (length l)) with 0 by lia. reflexivity.
Qed.

Lemma upd_nth_other : forall (A : Type) (l : list A) r x i, r < length l -> i <> r ->
  nth_error (upd l r x) i = nth_error l i.
Proof.
  intros A l r x i Hr Hi. unfold upd.
  destruct (Nat.lt_ge_cases i r) as [Hlt|Hge].
  - rewrite nth_error_app1 by (rewrite firstn_length; lia). apply nth_error_firstn_lt. exact Hlt.
  - rewrite nth_error_app2 by (rewrite firstn_length; lia). rewrite firstn_length.
    replace (Nat.min r (length l)) with r by lia.
    destruct (i - r) as [|k] eqn:E; [lia|]. cbn [nth_error].
    rewrite nth_error_skipn_add. f_equal. lia.
Qed.

Lemma get_nth_error : forall h r i, nth_error h r = Some i -> get h r = i.
Proof. intros h r i H. unfold get. apply nth_error_nth. exact H. Qed.

Lemma get_default : forall h r, length h <= r -> get h r = dummy_ind.
Proof. intros. unfold get. apply nth_overflow. assumption. Qed.

Lemma nth_error_get : forall h r, r < length h -> nth_error h r = Some (get h r).
Proof. intros h r Hr. unfold get. apply nth_error_nth'. exact Hr. Qed.

(* ------------------------------------------------------------------------------------- *)
(* dict                                                                                   *)
(* ------------------------------------------------------------------------------------- *)
Lemma dict_set_absent : forall m k v, ~ In k (dict_keys m) -> dict_set m k v = m ++ [(k, v)].
Proof.
  induction m as [|[k' v'] t IH]; intros k v H; cbn [dict_set]; [reflexivity|].
  cbn in H. destruct (Nat.eqb k k') eqn:E.
  - apply Nat.eqb_eq in E. exfalso. apply H. left. symmetry. exact E.
  - cbn [app]. f_equal. apply IH. intros Hin. apply H. right. exact Hin.
Qed.

Lemma dict_set_present : forall m k v, NoDup (dict_keys m) -> In (k, v) m -> dict_set m k v = m.
Proof.
  induction m as [|[k' v'] t IH]; intros k v Hnd Hin; [destruct Hin|].
  cbn [dict_set]. cbn in Hnd. inversion Hnd as [|? ? Hnotin Hnd']; subst.
  destruct (Nat.eqb k k') eqn:E.
  - apply Nat.eqb_eq in E. subst k'. destruct Hin as [Hin|Hin].
    + inversion Hin. reflexivity.
    + exfalso. apply Hnotin. unfold dict_keys. change k with (fst (k, v)). apply in_map. exact Hin.
  - apply Nat.eqb_neq in E. destruct Hin as [Hin|Hin].
    + inversion Hin. exfalso. apply E. symmetry. assumption.
    + f_equal. apply IH; assumption.
Qed.

Lemma dict_keys_app : forall m m2, dict_keys (m ++ m2) = dict_keys m ++ dict_keys m2.
Proof. intros. unfold dict_keys. apply map_app. Qed.

Lemma dict_vals_app : forall m m2, dict_vals (m ++ m2) = dict_vals m ++ dict_vals m2.
Proof. intros. unfold dict_vals. apply map_app. Qed.

Lemma in_dict_keys : forall (m : dict) k v, In (k, v) m -> In k (dict_keys m).
Proof. intros m k v H. unfold dict_keys. change k with (fst (k, v)). apply in_map. exact H. Qed.

Lemma in_dict_vals : forall (m : dict) k v, In (k, v) m -> In v (dict_vals m).
Proof. intros m k v H. unfold dict_vals. change v with (snd (k, v)). apply in_map. exact H. Qed.

Lemma dict_get_in : forall m k v, NoDup (dict_keys m) -> In (k, v) m -> dict_get m k = Some v.
Proof.
  induction m as [|[k' v'] t IH]; intros k v Hnd Hin; [destruct Hin|].
  cbn [dict_get]. cbn in Hnd. inversion Hnd as [|? ? Hnotin Hnd']; subst.
  destruct (Nat.eqb k k') eqn:E.
  - apply Nat.eqb_eq in E. subst k'. destruct Hin as [Hin|Hin]; [inversion Hin; reflexivity|].
    exfalso. apply Hnotin. eapply in_dict_keys. exact Hin.
  - apply Nat.eqb_neq in E. destruct Hin as [Hin|Hin]; [inversion Hin; exfalso; apply E; symmetry; assumption|].
    apply IH; assumption.
Qed.

Lemma dict_get_some_in : forall m k v, dict_get m k = Some v -> In (k, v) m.
Proof.
  induction m as [|[k' v'] t IH]; intros k v H; cbn [dict_get] in H; [discriminate|].
  destruct (Nat.eqb k k') eqn:E.
  - apply Nat.eqb_eq in E. subst. inversion H. left. reflexivity.
  - right. apply IH. exact H.
Qed.

Lemma dict_get_none : forall m k, ~ In k (dict_keys m) -> dict_get m k = None.
Proof.
  induction m as [|[k' v'] t IH]; intros k H; [reflexivity|]. cbn [dict_get]. cbn in H.
  destruct (Nat.eqb k k') eqn:E.
  - apply Nat.eqb_eq in E. exfalso. apply H. left. symmetry. exact E.
  - apply IH. intros Hin. apply H. right. exact Hin.
Qed.

(* ofold *)
Lemma ofold_app : forall (A B : Type) (f : A -> B -> option A) xs ys a,
  ofold f (xs ++ ys) a = match ofold f xs a with Some a' => ofold f ys a' | None => None end.
Proof.
  induction xs as [|x t IH]; intros ys a; cbn [ofold app]; [reflexivity|].
  destruct (f a x); [apply IH|reflexivity].
Qed.

(* ------------------------------------------------------------------------------------- *)
(* the pool computed by the encoder                                                       *)
(* ------------------------------------------------------------------------------------- *)
Section Pool.
Variable H : hist.
Let h := h_heap H.
Hypothesis UF : uid_faithful H.

(* entries are (uid of the object, object), objects are reachable, keys are distinct *)
Definition good (pm : dict) : Prop :=
  NoDup (dict_keys pm) /\ forall k v, In (k, v) pm -> k = uid_of h v /\ reach H v.

Lemma good_nil : good [].
Proof. split; [constructor|intros k v []]. Qed.

Lemma good_set : forall pm p, good pm -> reach H p ->
  (dict_set pm (uid_of h p) p = pm /\ In (uid_of h p, p) pm) \/
  (dict_set pm (uid_of h p) p = pm ++ [(uid_of h p, p)] /\ ~ In (uid_of h p) (dict_keys pm)).
Proof.
  intros pm p [Hnd Hg] Hp.
  destruct (in_dec Nat.eq_dec (uid_of h p) (dict_keys pm)) as [Hin|Hnin].
  - left. unfold dict_keys in Hin. apply in_map_iff in Hin. destruct Hin as [[k v] [Hk Hin]]. cbn in Hk. subst k.
    destruct (Hg _ _ Hin) as [Hu Hv].
    assert (v = p) as ->.
    { apply UF; [exact Hv|exact Hp|]. fold h. symmetry. exact Hu. }
    split; [apply dict_set_present; assumption|exact Hin].
  - right. split; [apply dict_set_absent; exact Hnin|exact Hnin].
Qed.

Lemma good_set_good : forall pm p, good pm -> reach H p ->
  good (dict_set pm (uid_of h p) p) /\ incl pm (dict_set pm (uid_of h p) p) /\
  In (uid_of h p, p) (dict_set pm (uid_of h p) p).
Proof.
  intros pm p Hg Hp. destruct (good_set _ _ Hg Hp) as [[-> Hin]|[-> Hnin]].
  - split; [exact Hg|]. split; [apply incl_refl|exact Hin].
  - destruct Hg as [Hnd Hg]. split; [split|split].
    + rewrite dict_keys_app. cbn. apply NoDup_app_intro_single; assumption.
    + intros k v Hin. apply in_app_or in Hin. destruct Hin as [Hin|[Hin|[]]]; [apply Hg; exact Hin|].
      inversion Hin. subst. split; [reflexivity|exact Hp].
    + apply incl_appl. apply incl_refl.
    + apply in_or_app. right. left. reflexivity.
Qed.

(* has_key on a good dict: the key of a reachable object finds the object itself *)
Lemma has_key_good : forall pm p, good pm -> reach H p -> has_key pm (uid_of h p) = true -> In (uid_of h p, p) pm.
Proof.
  intros pm p [Hnd Hg] Hp Hk. unfold has_key in Hk. apply existsb_exists in Hk. destruct Hk as [k [Hk He]].
  apply Nat.eqb_eq in He. subst k. unfold dict_keys in Hk. apply in_map_iff in Hk. destruct Hk as [[k v] [Hkv Hin]].
  cbn in Hkv. subst k. destruct (Hg _ _ Hin) as [Hu Hv].
  assert (v = p) as -> by (apply UF; [exact Hv|exact Hp|fold h; symmetry; exact Hu]). exact Hin.
Qed.

Lemma has_key_false : forall pm k, has_key pm k = false -> ~ In k (dict_keys pm).
Proof.
  intros pm k Hk Hin. unfold has_key in Hk. assert (existsb (Nat.eqb k) (dict_keys pm) = true); [|congruence].
  apply existsb_exists. exists k. split; [exact Hin|apply Nat.eqb_refl].
Qed.

Variable gm : dict.
Hypothesis GM : good gm.

(* the object is stored: in the generations map or in the parents map *)
Definition covered (pm : dict) (p : nat) : Prop := In (uid_of h p, p) gm \/ In (uid_of h p, p) pm.

Definition newclosed_d (pm pm' : dict) : Prop :=
  forall k v, In (k, v) pm' -> ~ In (k, v) pm -> forall p, In (PRef p) (parents_of (get h v)) -> covered pm' p.

Lemma covered_incl : forall pm pm' p, incl pm pm' -> covered pm p -> covered pm' p.
Proof. intros pm pm' p Hi [Hc|Hc]; [left; exact Hc|right; apply Hi; exact Hc]. Qed.

Lemma pair_in_dec : forall (kv : nat * nat) (l : dict), {In kv l} + {~ In kv l}.
Proof. intros. apply in_dec. decide equality; apply Nat.eq_dec. Qed.

Lemma newclosed_d_trans : forall a b c, newclosed_d a b -> newclosed_d b c -> incl b c -> newclosed_d a c.
Proof.
  intros a b c Hab Hbc Hi k v Hc Ha p Hp.
  destruct (pair_in_dec (k, v) b) as [Hb|Hb].
  - eapply covered_incl; [exact Hi|]. eapply Hab; eassumption.
  - eapply Hbc; eassumption.
Qed.

Definition extract_post (pm : dict) (r : nat) (pm' : dict) : Prop :=
  good pm' /\ incl pm pm' /\ (forall p, In (PRef p) (parents_of (get h r)) -> covered pm' p) /\ newclosed_d pm pm'.

Lemma extract_spec : forall d pm r pm', good pm -> reach H r -> extract d h gm pm r = Some pm' -> extract_post pm r pm'.
Proof.
  induction d as [|d IHd]; intros pm r pm' Hg Hr Hex; [discriminate|].
  cbn [extract] in Hex.
  set (F := fun (pm1 : dict) (x : pref) =>
        match x with
        | PStr _ => None
        | PRef p => if has_key gm (uid_of h p) || has_key pm1 (uid_of h p) then Some pm1
                    else extract d h gm (dict_set pm1 (uid_of h p) p) p
        end) in Hex.
  assert (Hfold : forall xs pm0 pm1, good pm0 -> (forall p, In (PRef p) xs -> reach H p) ->
            ofold F xs pm0 = Some pm1 ->
            good pm1 /\ incl pm0 pm1 /\ (forall p, In (PRef p) xs -> covered pm1 p) /\ newclosed_d pm0 pm1).
  { induction xs as [|x t IHt]; intros pm0 pm1 Hg0 Hin Hf; cbn [ofold] in Hf.
    - inversion Hf; subst. split; [exact Hg0|]. split; [apply incl_refl|]. split; [intros p []|].
      intros k v H1 H2. contradiction.
    - destruct (F pm0 x) as [pm2|] eqn:EF; [|discriminate].
      assert (Hstep : good pm2 /\ incl pm0 pm2 /\ (forall p, x = PRef p -> covered pm2 p) /\ newclosed_d pm0 pm2).
      { unfold F in EF. destruct x as [p|u]; [|discriminate].
        assert (Hp : reach H p) by (apply Hin; left; reflexivity).
        destruct (has_key gm (uid_of h p) || has_key pm0 (uid_of h p)) eqn:Ek.
        - inversion EF; subst pm2. split; [exact Hg0|]. split; [apply incl_refl|]. split.
          + intros p0 Hx. inversion Hx; subst p0. apply orb_true_iff in Ek. destruct Ek as [Ek|Ek].
            * left. apply has_key_good; assumption.
            * right. apply has_key_good; assumption.
          + intros k v H1 H2. contradiction.
        - apply orb_false_iff in Ek. destruct Ek as [_ Ek2].
          destruct (good_set_good _ _ Hg0 Hp) as [Hg1 [Hinc1 Hmem]].
          destruct (IHd _ _ _ Hg1 Hp EF) as [Hg2 [Hinc2 [Hcov2 Hnc2]]].
          split; [exact Hg2|]. split; [eapply incl_tran; eassumption|]. split.
          + intros p0 Hx. inversion Hx; subst p0. right. apply Hinc2. exact Hmem.
          + intros k v H1 H2 q Hq.
            destruct (pair_in_dec (k, v) (dict_set pm0 (uid_of h p) p)) as [Hd|Hd].
            * rewrite (dict_set_absent _ _ _ (has_key_false _ _ Ek2)) in Hd. apply in_app_or in Hd.
              destruct Hd as [Hd|[Hd|[]]]; [contradiction|]. inversion Hd; subst k v. apply Hcov2. exact Hq.
            * eapply Hnc2; eassumption. }
      destruct Hstep as [Hg2 [Hinc2 [Hcov2 Hnc2]]].
      destruct (IHt pm2 pm1 Hg2 (fun p Hp => Hin p (or_intror Hp)) Hf) as [Hg1 [Hinc1 [Hcov1 Hnc1]]].
      split; [exact Hg1|]. split; [eapply incl_tran; eassumption|]. split.
      + intros p [Hx|Hx]; [eapply covered_incl; [exact Hinc1|]; apply Hcov2; exact Hx|apply Hcov1; exact Hx].
      + eapply newclosed_d_trans; eassumption. }
  destruct (Hfold _ _ _ Hg (fun p Hp => @reach_parent H r p Hr Hp) Hex) as [Hg1 [Hinc [Hcov Hnc]]].
  split; [exact Hg1|]. split; [exact Hinc|]. split; [exact Hcov|exact Hnc].
Qed.

Lemma parents_map_spec : forall d vs pm0 pm, good pm0 -> (forall r, In r vs -> reach H r) ->
  ofold (fun pm r => extract d h gm pm r) vs pm0 = Some pm ->
  good pm /\ incl pm0 pm /\ (forall r p, In r vs -> In (PRef p) (parents_of (get h r)) -> covered pm p) /\ newclosed_d pm0 pm.
Proof.
  induction vs as [|v t IH]; intros pm0 pm Hg Hin Hf; cbn [ofold] in Hf.
  - inversion Hf; subst. split; [exact Hg|]. split; [apply incl_refl|]. split; [intros r p []|]. intros k v H1 H2. contradiction.
  - destruct (extract d h gm pm0 v) as [pm1|] eqn:E; [|discriminate].
    destruct (extract_spec _ _ _ _ Hg (Hin v (or_introl eq_refl)) E) as [Hg1 [Hinc1 [Hcov1 Hnc1]]].
    destruct (IH _ _ Hg1 (fun r Hr => Hin r (or_intror Hr)) Hf) as [Hg2 [Hinc2 [Hcov2 Hnc2]]].
    split; [exact Hg2|]. split; [eapply incl_tran; eassumption|]. split.
    + intros r p [->|Hr] Hp; [eapply covered_incl; [exact Hinc2|]; apply Hcov1; exact Hp|eapply Hcov2; eassumption].
    + eapply newclosed_d_trans; eassumption.
Qed.

End Pool.

Section Pool2.
Variable H : hist.
Let h := h_heap H.
Hypothesis UF : uid_faithful H.

(* generations_map *)
Lemma gens_map_spec : forall rs m0, good H m0 -> (forall r, In r rs -> reach H r) ->
  let m := fold_left (fun m r => dict_set m (uid_of h r) r) rs m0 in
  good H m /\ incl m0 m /\ forall r, In r rs -> In (uid_of h r, r) m.
Proof.
  induction rs as [|r t IH]; intros m0 Hg Hin; cbn [fold_left].
  - split; [exact Hg|]. split; [apply incl_refl|intros r []].
  - destruct (good_set_good H UF _ _ Hg (Hin r (or_introl eq_refl))) as [Hg1 [Hinc1 Hmem]].
    destruct (IH _ Hg1 (fun r0 Hr0 => Hin r0 (or_intror Hr0))) as [Hg2 [Hinc2 Hall]].
    split; [exact Hg2|]. split; [eapply incl_tran; eassumption|].
    intros r0 [->|Hr0]; [apply Hinc2; exact Hmem|apply Hall; exact Hr0].
Qed.

Lemma dict_update_spec : forall m2 m, good H m -> (forall k v, In (k, v) m2 -> k = uid_of h v /\ reach H v) ->
  good H (dict_update m m2) /\ incl m (dict_update m m2) /\ incl m2 (dict_update m m2).
Proof.
  unfold dict_update. induction m2 as [|[k v] t IH]; intros m Hg Hin; cbn [fold_left].
  - split; [exact Hg|]. split; [apply incl_refl|intros x []].
  - destruct (Hin k v (or_introl eq_refl)) as [-> Hv]. cbn [fst snd].
    destruct (good_set_good H UF _ _ Hg Hv) as [Hg1 [Hinc1 Hmem]].
    destruct (IH _ Hg1 (fun k0 v0 H0 => Hin k0 v0 (or_intror H0))) as [Hg2 [Hinc2 Hinc3]].
    split; [exact Hg2|]. split; [eapply incl_tran; eassumption|].
    intros x [<-|Hx]; [apply Hinc2; exact Hmem|apply Hinc3; exact Hx].
Qed.

Lemma pool_roots_reach : forall r, In r (pool_roots H) -> reach H r.
Proof.
  intros r Hr. unfold pool_roots in Hr. apply in_app_or in Hr. destruct Hr as [Hr|Hr]; [apply reach_gen|apply reach_snap]; exact Hr.
Qed.

(* the pool: distinct uids, exactly the reachable objects *)
Lemma pool_refs_spec : forall d rs, pool_refs d H = Some rs ->
  NoDup (map (uid_of h) rs) /\ forall x, reach H x <-> In x rs.
Proof.
  intros d rs Hp. unfold pool_refs in Hp. fold h in Hp.
  destruct (parents_map d h (gens_map h (pool_roots H))) as [pm|] eqn:Epm; [|discriminate].
  inversion Hp; subst rs; clear Hp.
  destruct (gens_map_spec _ _ (good_nil H) pool_roots_reach) as [Hgm [_ Hgm_all]].
  fold (gens_map h (pool_roots H)) in Hgm, Hgm_all.
  set (gm := gens_map h (pool_roots H)) in *.
  assert (Hvals : forall r, In r (dict_vals gm) -> reach H r).
  { intros r Hr. unfold dict_vals in Hr. apply in_map_iff in Hr. destruct Hr as [[k v] [Hk Hin]]. cbn in Hk. subst v.
    apply (proj2 Hgm) in Hin. apply Hin. }
  unfold parents_map in Epm.
  destruct (parents_map_spec H UF gm Hgm _ _ _ _ (good_nil H) Hvals Epm) as [Hgpm [_ [Hcov Hnc]]].
  destruct (dict_update_spec gm _ Hgpm (proj2 Hgm)) as [Hgu [Hinc1 Hinc2]].
  set (P := dict_update pm gm) in *.
  assert (Hkeys : dict_keys P = map (uid_of h) (dict_vals P)).
  { unfold dict_keys, dict_vals. rewrite map_map. apply map_ext_in. intros [k v] Hin. cbn.
    apply (proj2 Hgu) in Hin. apply Hin. }
  split; [rewrite <- Hkeys; apply Hgu|].
  assert (Hall : forall x, reach H x -> covered H gm pm x).
  { induction 1 as [r Hg|r Hs|c p Hc IH Hp].
    - left. apply Hgm_all. unfold pool_roots. apply in_or_app. left. exact Hg.
    - left. apply Hgm_all. unfold pool_roots. apply in_or_app. right. exact Hs.
    - destruct IH as [Hc1|Hc2].
      + eapply Hcov; [eapply in_dict_vals; exact Hc1|exact Hp].
      + eapply Hnc; [exact Hc2|intros []|exact Hp]. }
  intros x. split.
  - intros Hx. destruct (Hall x Hx) as [Hc|Hc]; eapply in_dict_vals; [apply Hinc2|apply Hinc1]; exact Hc.
  - intros Hx. unfold dict_vals in Hx. apply in_map_iff in Hx. destruct Hx as [[k v] [Hk Hin]]. cbn in Hk. subst v.
    apply (proj2 Hgu) in Hin. apply Hin.
Qed.

End Pool2.

(* ------------------------------------------------------------------------------------- *)
(* more helpers                                                                           *)
(* ------------------------------------------------------------------------------------- *)
Lemma get_upd_same : forall (hp : list (ind pref)) r x, r < length hp -> get (upd hp r x) r = x.
Proof. intros. apply get_nth_error. apply upd_nth_same. assumption. Qed.

Lemma get_upd_other : forall (hp : list (ind pref)) r x i, r < length hp -> i <> r -> get (upd hp r x) i = get hp i.
Proof.
  intros hp r x i Hr Hi. unfold get.
  destruct (nth_error (upd hp r x) i) as [y|] eqn:E.
  - rewrite (nth_error_nth _ _ _ E). rewrite upd_nth_other in E by assumption. rewrite (nth_error_nth _ _ _ E). reflexivity.
  - pose proof E as E2. rewrite upd_nth_other in E2 by assumption.
    apply nth_error_None in E. apply nth_error_None in E2. rewrite !nth_overflow by assumption. reflexivity.
Qed.

Lemma dict_get_set : forall m k v k', dict_get (dict_set m k v) k' = if Nat.eqb k' k then Some v else dict_get m k'.
Proof.
  induction m as [|[k0 v0] t IH]; intros k v k'; cbn [dict_set dict_get].
  - reflexivity.
  - destruct (Nat.eqb k k0) eqn:E.
    + apply Nat.eqb_eq in E. subst k0. cbn [dict_get]. destruct (Nat.eqb k' k); reflexivity.
    + cbn [dict_get]. destruct (Nat.eqb k' k0) eqn:E2.
      * apply Nat.eqb_eq in E2. subst k0. destruct (Nat.eqb k' k) eqn:E3; [|reflexivity].
        apply Nat.eqb_eq in E3. subst. rewrite Nat.eqb_refl in E. discriminate.
      * apply IH.
Qed.

Fixpoint find_index (u : nat) (us : list nat) : option nat :=
  match us with
  | [] => None
  | x :: t => if Nat.eqb u x then Some 0 else option_map S (find_index u t)
  end.

Lemma find_index_none : forall u us, ~ In u us -> find_index u us = None.
Proof.
  induction us as [|x t IH]; intros Hn; [reflexivity|]. cbn [find_index].
  destruct (Nat.eqb u x) eqn:E; [apply Nat.eqb_eq in E; exfalso; apply Hn; left; symmetry; exact E|].
  rewrite IH; [reflexivity|]. intros Hin. apply Hn. right. exact Hin.
Qed.

Lemma find_index_some : forall u us, In u us -> exists i, find_index u us = Some i /\ nth_error us i = Some u.
Proof.
  induction us as [|x t IH]; intros Hin; [destruct Hin|]. cbn [find_index].
  destruct (Nat.eqb u x) eqn:E.
  - apply Nat.eqb_eq in E. subst. exists 0. split; reflexivity.
  - apply Nat.eqb_neq in E. destruct Hin as [Hin|Hin]; [exfalso; apply E; symmetry; exact Hin|].
    destruct (IH Hin) as [i [Hi Hn]]. exists (S i). rewrite Hi. split; [reflexivity|exact Hn].
Qed.

Lemma find_index_nth : forall us i u, NoDup us -> nth_error us i = Some u -> find_index u us = Some i.
Proof.
  induction us as [|x t IH]; intros i u Hnd Hn; [destruct i; discriminate|].
  inversion Hnd as [|? ? Hnotin Hnd']; subst. cbn [find_index]. destruct i as [|i]; cbn in Hn.
  - inversion Hn. subst. rewrite Nat.eqb_refl. reflexivity.
  - destruct (Nat.eqb u x) eqn:E.
    + apply Nat.eqb_eq in E. subst. exfalso. apply Hnotin. eapply nth_error_In. exact Hn.
    + rewrite (IH _ _ Hnd' Hn). reflexivity.
Qed.

Lemma umap_from_get : forall pool k m0 u, NoDup (map (@i_uid nat) pool) ->
  dict_get (umap_from k pool m0) u =
  match find_index u (map (@i_uid nat) pool) with Some i => Some (k + i) | None => dict_get m0 u end.
Proof.
  induction pool as [|e t IH]; intros k m0 u Hnd; cbn [umap_from map find_index]; [reflexivity|].
  inversion Hnd as [|? ? Hnotin Hnd']; subst. rewrite IH by assumption.
  destruct (Nat.eqb u (i_uid e)) eqn:E.
  - apply Nat.eqb_eq in E. subst u. rewrite find_index_none by assumption.
    rewrite dict_get_set. rewrite Nat.eqb_refl. f_equal. lia.
  - destruct (find_index u (map (@i_uid nat) t)) as [i|]; cbn [option_map].
    + f_equal. lia.
    + rewrite dict_get_set. rewrite E. reflexivity.
Qed.

(* ------------------------------------------------------------------------------------- *)
(* the decoder on a closed pool                                                           *)
(* ------------------------------------------------------------------------------------- *)
Section ClosedDecode.
Variable pool : list (ind nat).
Let us := map (@i_uid nat) pool.
Let m := umap pool.
Let n := length pool.
Hypothesis ND : NoDup us.
Hypothesis PC : forall e u, In e pool -> In u (parents_of e) -> In u us.

Definition ix (u : nat) : nat := match dict_get m u with Some r => r | None => 0 end.

Lemma ix_spec : forall u, In u us ->
  dict_get m u = Some (ix u) /\ ix u < n /\ exists e, nth_error pool (ix u) = Some e /\ i_uid e = u.
Proof.
  intros u Hin. unfold ix, m, umap. rewrite umap_from_get by exact ND.
  destruct (find_index_some _ _ Hin) as [i [Hf Hn]]. fold us. rewrite Hf. cbn [Nat.add].
  split; [reflexivity|]. unfold us in Hn. rewrite nth_error_map in Hn.
  destruct (nth_error pool i) as [e|] eqn:E; [|discriminate]. cbn in Hn. inversion Hn.
  split; [unfold n; apply nth_error_Some; rewrite E; discriminate|]. exists e. split; reflexivity.
Qed.

Lemma ix_nth : forall i e, nth_error pool i = Some e -> ix (i_uid e) = i.
Proof.
  intros i e Hn. unfold ix, m, umap. rewrite umap_from_get by exact ND. fold us.
  rewrite (find_index_nth us i (i_uid e) ND); [reflexivity|]. unfold us. rewrite nth_error_map, Hn. reflexivity.
Qed.

Definition rref (x : pref) : nat := match x with PRef r => r | PStr u => ix u end.

Lemma resolve_list_closed : forall xs hp, (forall u, In (PStr u) xs -> In u us) ->
  resolve_list m hp xs = (hp, map rref xs).
Proof.
  induction xs as [|x t IH]; intros hp Hc; cbn [resolve_list map]; [reflexivity|].
  assert (E1 : resolve1 m hp x = (hp, rref x)).
  { destruct x as [r|u]; cbn [resolve1 rref]; [reflexivity|].
    destruct (ix_spec u (Hc u (or_introl eq_refl))) as [Hg _]. rewrite Hg. reflexivity. }
  rewrite E1. rewrite IH by (intros u Hu; apply Hc; right; exact Hu). reflexivity.
Qed.

Lemma resolve_lists_closed : forall ls hp, (forall u, In u (concat ls) -> In u us) ->
  resolve_lists m hp ls = (hp, map (map ix) ls).
Proof.
  induction ls as [|l t IH]; intros hp Hc; cbn [resolve_lists map]; [reflexivity|].
  rewrite resolve_list_closed.
  - rewrite IH by (intros u Hu; apply Hc; cbn; apply in_or_app; right; exact Hu).
    rewrite map_map. reflexivity.
  - intros u Hu. apply in_map_iff in Hu. destruct Hu as [u' [Hu' Hin]]. inversion Hu'. subst.
    apply Hc. cbn. apply in_or_app. left. exact Hin.
Qed.

Definition ix_gen (g : gen) : gen := mkGen (g_num g) (g_label g) (g_meta g) (map ix (g_members g)).

Lemma resolve_gens_closed : forall gs hp, (forall u, In u (all_members gs) -> In u us) ->
  resolve_gens m hp gs = (hp, map ix_gen gs).
Proof.
  induction gs as [|g t IH]; intros hp Hc; cbn [resolve_gens map]; [reflexivity|].
  rewrite resolve_list_closed.
  - rewrite IH by (intros u Hu; apply Hc; unfold all_members; cbn; apply in_or_app; right; exact Hu).
    rewrite map_map. reflexivity.
  - intros u Hu. apply in_map_iff in Hu. destruct Hu as [u' [Hu' Hin]]. inversion Hu'. subst.
    apply Hc. unfold all_members. cbn. apply in_or_app. left. exact Hin.
Qed.

(* the re-linked form of a pool entry *)
Definition link_pop (o : pop nat) : pop pref := mkPop (p_type o) (p_ops o) (p_uid o) (map (fun u => PRef (ix u)) (p_parents o)).
Definition link_ind (e : ind nat) : ind pref :=
  mkInd (i_uid e) (i_fit e) (i_graph e) (i_meta e) (i_ng e) (option_map link_pop (i_op e)).

Definition Inv (hp : list (ind pref)) : Prop :=
  length hp = n /\ forall i e, nth_error pool i = Some e -> get hp i = dec_ind e \/ get hp i = link_ind e.

Definition lnk (hp : list (ind pref)) (i : nat) : Prop := has_str (get hp i) = false.
Definition mono (hp hp' : list (ind pref)) : Prop := forall i, lnk hp i -> lnk hp' i.
Definition newclosed (hp hp' : list (ind pref)) : Prop :=
  forall i e, nth_error pool i = Some e -> lnk hp' i -> ~ lnk hp i -> forall u, In u (parents_of e) -> lnk hp' (ix u).

Lemma has_str_link : forall e, has_str (link_ind e) = false.
Proof.
  intros e. unfold has_str, parents_of, link_ind. cbn [i_op]. destruct (i_op e) as [o|]; [|reflexivity].
  cbn [option_map link_pop p_parents]. induction (p_parents o) as [|u t IH]; [reflexivity|exact IH].
Qed.

Lemma has_str_dec : forall e, has_str (dec_ind e) = false -> parents_of e = [].
Proof.
  intros e. unfold has_str, parents_of, dec_ind. cbn [i_op]. destruct (i_op e) as [o|]; [|reflexivity].
  cbn [option_map dec_pop p_parents]. destruct (p_parents o) as [|u t]; [reflexivity|discriminate].
Qed.

Lemma dec_eq_link_of_nil : forall e, parents_of e = [] -> dec_ind e = link_ind e.
Proof.
  intros e. unfold parents_of, dec_ind, link_ind. destruct (i_op e) as [o|]; [|reflexivity].
  intros Hp. cbn [option_map]. unfold dec_pop, link_pop. rewrite Hp. reflexivity.
Qed.

Lemma newclosed_trans : forall a b c, newclosed a b -> newclosed b c -> mono b c -> newclosed a c.
Proof.
  intros a b c Hab Hbc Hm i e Hn Hc Ha u Hu.
  destruct (has_str (get b i)) eqn:Eb.
  - eapply Hbc; try eassumption. unfold lnk. rewrite Eb. discriminate.
  - apply Hm. eapply Hab; eassumption.
Qed.

Definition relink_post (hp : list (ind pref)) (r : nat) (hp' : list (ind pref)) : Prop :=
  Inv hp' /\ mono hp hp' /\ lnk hp' r /\ newclosed hp hp'.

Lemma relink_fold_spec : forall d,
  (forall hp r hp', Inv hp -> r < n -> relink d m hp r = Some hp' -> relink_post hp r hp') ->
  forall vs hq hq', Inv hq -> (forall v, In v vs -> v < n) ->
  ofold (fun hq p => if has_str (get hq p) then relink d m hq p else Some hq) vs hq = Some hq' ->
  Inv hq' /\ mono hq hq' /\ (forall v, In v vs -> lnk hq' v) /\ newclosed hq hq'.
Proof.
  intros d IHd. induction vs as [|v t IH]; intros hq hq' Hinv Hlt Hf; cbn [ofold] in Hf.
  - inversion Hf; subst. split; [exact Hinv|]. split; [intros i Hi; exact Hi|]. split; [intros v []|].
    intros i e _ H1 H2. contradiction.
  - destruct (has_str (get hq v)) eqn:Ev.
    + destruct (relink d m hq v) as [hq1|] eqn:Er; [|discriminate].
      destruct (IHd _ _ _ Hinv (Hlt v (or_introl eq_refl)) Er) as [Hinv1 [Hm1 [Hl1 Hnc1]]].
      destruct (IH _ _ Hinv1 (fun v0 Hv0 => Hlt v0 (or_intror Hv0)) Hf) as [Hinv2 [Hm2 [Hl2 Hnc2]]].
      split; [exact Hinv2|]. split; [intros i Hi; apply Hm2; apply Hm1; exact Hi|].
      split; [intros v0 [->|Hv0]; [apply Hm2; exact Hl1|apply Hl2; exact Hv0]|].
      eapply newclosed_trans; eassumption.
    + destruct (IH _ _ Hinv (fun v0 Hv0 => Hlt v0 (or_intror Hv0)) Hf) as [Hinv2 [Hm2 [Hl2 Hnc2]]].
      split; [exact Hinv2|]. split; [exact Hm2|].
      split; [intros v0 [->|Hv0]; [apply Hm2; exact Ev|apply Hl2; exact Hv0]|exact Hnc2].
Qed.

Lemma relink_spec : forall d hp r hp', Inv hp -> r < n -> relink d m hp r = Some hp' -> relink_post hp r hp'.
Proof.
  induction d as [|d IHd]; intros hp r hp' Hinv Hr Hrel; [discriminate|].
  cbn [relink] in Hrel. destruct Hinv as [Hlen Hcells].
  assert (Hre : exists e, nth_error pool r = Some e).
  { destruct (nth_error pool r) as [e|] eqn:E; [exists e; reflexivity|]. apply nth_error_None in E. unfold n in Hr. lia. }
  destruct Hre as [e He].
  assert (Hcases : i_op e = None /\ i_op (get hp r) = None \/
          exists o o1, i_op e = Some o /\ i_op (get hp r) = Some o1 /\ p_type o1 = p_type o /\ p_ops o1 = p_ops o /\ p_uid o1 = p_uid o /\
                       (p_parents o1 = map PStr (p_parents o) \/ p_parents o1 = map (fun u => PRef (ix u)) (p_parents o))).
  { destruct (Hcells _ _ He) as [Hc|Hc]; rewrite Hc; unfold dec_ind, link_ind; cbn [i_op];
      destruct (i_op e) as [o|]; cbn [option_map]; try (left; split; reflexivity).
    - right. exists o, (dec_pop o). repeat split; try reflexivity. left. reflexivity.
    - right. exists o, (link_pop o). repeat split; try reflexivity. right. reflexivity. }
  destruct Hcases as [[Heo Hgo]|[o [o1 [Heo [Hgo [Ht [Hops [Hu Hpar]]]]]]]].
  - rewrite Hgo in Hrel. inversion Hrel; subst hp'.
    split; [split; assumption|]. split; [intros i Hi; exact Hi|].
    split; [|intros i e0 _ H1 H2; contradiction].
    unfold lnk, has_str, parents_of. rewrite Hgo. reflexivity.
  - rewrite Hgo in Hrel.
    assert (Hres : resolve_list m hp (p_parents o1) = (hp, map ix (p_parents o))).
    { rewrite resolve_list_closed.
      - f_equal. destruct Hpar as [-> | ->]; rewrite map_map; reflexivity.
      - intros u Hin. destruct Hpar as [Hp | Hp]; rewrite Hp in Hin; apply in_map_iff in Hin; destruct Hin as [u' [Hu' Hin]]; [|discriminate].
        inversion Hu'. subst u'. eapply PC; [eapply nth_error_In; exact He|]. unfold parents_of. rewrite Heo. exact Hin. }
    rewrite Hres in Hrel.
    assert (Hset : set_parents hp r (map ix (p_parents o)) = upd hp r (link_ind e)).
    { unfold set_parents. rewrite (nth_error_get hp) by lia. rewrite Hgo. f_equal.
      unfold link_ind. rewrite Heo. cbn [option_map]. unfold link_pop. rewrite Ht, Hops, Hu, map_map.
      destruct (Hcells _ _ He) as [Hc|Hc]; rewrite Hc; reflexivity. }
    rewrite Hset in Hrel.
    set (hp2 := upd hp r (link_ind e)) in *.
    assert (Hinv2 : Inv hp2).
    { split; [unfold hp2; rewrite upd_length; lia|]. intros i e0 Hi.
      destruct (Nat.eq_dec i r) as [->|Hne].
      - right. unfold hp2. rewrite get_upd_same by lia. rewrite He in Hi. inversion Hi. reflexivity.
      - unfold hp2. rewrite get_upd_other by lia. apply Hcells. exact Hi. }
    assert (Hlt : forall v, In v (map ix (p_parents o)) -> v < n).
    { intros v Hv. apply in_map_iff in Hv. destruct Hv as [u [<- Hin]].
      apply ix_spec. eapply PC; [eapply nth_error_In; exact He|]. unfold parents_of. rewrite Heo. exact Hin. }
    destruct (relink_fold_spec d IHd _ _ _ Hinv2 Hlt Hrel) as [Hinv' [Hm' [Hl' Hnc']]].
    assert (Hl2 : lnk hp2 r).
    { unfold lnk, hp2. rewrite get_upd_same by lia. apply has_str_link. }
    split; [exact Hinv'|]. split; [|split; [apply Hm'; exact Hl2|]].
    + intros i Hi. apply Hm'. destruct (Nat.eq_dec i r) as [->|Hne]; [exact Hl2|].
      unfold lnk, hp2. rewrite get_upd_other by lia. exact Hi.
    + intros i e0 Hi Hc Hnot u Hin. destruct (Nat.eq_dec i r) as [->|Hne].
      * rewrite He in Hi. inversion Hi; subst e0. apply Hl'. apply in_map. unfold parents_of in Hin. rewrite Heo in Hin. exact Hin.
      * eapply Hnc'; try eassumption. unfold lnk, hp2. rewrite get_upd_other by lia. exact Hnot.
Qed.

Lemma relink_all_spec : forall d rs hp hp', Inv hp -> (forall r, In r rs -> r < n) ->
  relink_all d m hp rs = Some hp' ->
  Inv hp' /\ mono hp hp' /\ (forall r, In r rs -> lnk hp' r) /\ newclosed hp hp'.
Proof.
  unfold relink_all. induction rs as [|r t IH]; intros hp hp' Hinv Hlt Hf; cbn [ofold] in Hf.
  - inversion Hf; subst. split; [exact Hinv|]. split; [intros i Hi; exact Hi|]. split; [intros r []|].
    intros i e _ H1 H2. contradiction.
  - destruct (relink d m hp r) as [hp1|] eqn:Er; [|discriminate].
    destruct (relink_spec _ _ _ _ Hinv (Hlt r (or_introl eq_refl)) Er) as [Hinv1 [Hm1 [Hl1 Hnc1]]].
    destruct (IH _ _ Hinv1 (fun r0 Hr0 => Hlt r0 (or_intror Hr0)) Hf) as [Hinv2 [Hm2 [Hl2 Hnc2]]].
    split; [exact Hinv2|]. split; [intros i Hi; apply Hm2; apply Hm1; exact Hi|].
    split; [intros r0 [->|Hr0]; [apply Hm2; exact Hl1|apply Hl2; exact Hr0]|].
    eapply newclosed_trans; eassumption.
Qed.

(* pool indices reachable from the roots through parent uids *)
Inductive rch (roots : list nat) : nat -> Prop :=
| rch_root : forall r, In r roots -> rch roots r
| rch_step : forall i e u, rch roots i -> nth_error pool i = Some e -> In u (parents_of e) -> rch roots (ix u).

Lemma Inv_pristine : Inv (map dec_ind pool).
Proof.
  split; [apply map_length|]. intros i e Hi. left. apply get_nth_error. rewrite nth_error_map, Hi. reflexivity.
Qed.

(* after re-linking from the roots every reachable cell holds the linked form *)
Lemma relink_all_linked : forall d roots hp', (forall r, In r roots -> r < n) ->
  relink_all d m (map dec_ind pool) roots = Some hp' ->
  length hp' = n /\ forall i e, rch roots i -> nth_error pool i = Some e -> get hp' i = link_ind e.
Proof.
  intros d roots hp' Hlt Hrel.
  destruct (relink_all_spec _ _ _ _ Inv_pristine Hlt Hrel) as [[Hlen Hcells] [Hm [Hl Hnc]]].
  split; [exact Hlen|].
  assert (Hall : forall i, rch roots i -> lnk hp' i).
  { induction 1 as [r Hr|i e u Hi IH He Hu]; [apply Hl; exact Hr|].
    destruct (has_str (get (map dec_ind pool) i)) eqn:E0.
    - eapply Hnc; try eassumption. unfold lnk. rewrite E0. discriminate.
    - exfalso. assert (Hg : get (map dec_ind pool) i = dec_ind e) by (apply get_nth_error; rewrite nth_error_map, He; reflexivity).
      rewrite Hg in E0. apply has_str_dec in E0. rewrite E0 in Hu. destruct Hu. }
  intros i e Hi He. destruct (Hcells _ _ He) as [Hc|Hc]; [|exact Hc].
  rewrite Hc. apply dec_eq_link_of_nil. apply has_str_dec. rewrite <- Hc. apply Hall. exact Hi.
Qed.

End ClosedDecode.

(* ------------------------------------------------------------------------------------- *)
(* decode (encode H) is isomorphic to H                                                   *)
(* ------------------------------------------------------------------------------------- *)
Lemma Forall2_map_r : forall (A B : Type) (R : A -> B -> Prop) (f : A -> B) l,
  (forall x, In x l -> R x (f x)) -> Forall2 R l (map f l).
Proof.
  induction l as [|x t IH]; intros Hall; cbn [map]; constructor.
  - apply Hall. left. reflexivity.
  - apply IH. intros y Hy. apply Hall. right. exact Hy.
Qed.

Lemma in_concat_map_members : forall gs r g, In g gs -> In r (g_members g) -> In r (all_members gs).
Proof.
  intros gs r g Hg Hr. unfold all_members. apply in_concat. exists (g_members g). split; [apply in_map; exact Hg|exact Hr].
Qed.

Lemma all_members_map : forall (f : gen -> gen) (k : nat -> nat) gs,
  (forall g, g_members (f g) = map k (g_members g)) -> all_members (map f gs) = map k (all_members gs).
Proof.
  intros f k gs Hf. unfold all_members. induction gs as [|g t IH]; [reflexivity|].
  cbn [map concat]. rewrite map_app, Hf, IH. reflexivity.
Qed.

Lemma concat_map_map : forall (A B : Type) (k : A -> B) (ls : list (list A)), concat (map (map k) ls) = map k (concat ls).
Proof. intros. symmetry. apply concat_map. Qed.

(* ------------------------------------------------------------------------------------- *)
(* continuing isomorphic histories in the same way keeps them isomorphic                  *)
(* ------------------------------------------------------------------------------------- *)
Lemma Forall2_impl : forall (A B : Type) (P Q : A -> B -> Prop), (forall a b, P a b -> Q a b) ->
  forall l l', Forall2 P l l' -> Forall2 Q l l'.
Proof. intros A B P Q HPQ l l' HF. induction HF; constructor; auto. Qed.

Lemma pref_rel_mono : forall (R R2 : nat -> nat -> Prop), (forall a b, R a b -> R2 a b) ->
  forall x y, pref_rel R x y -> pref_rel R2 x y.
Proof. intros R R2 HM [a|u] [b|v] Hxy; cbn in *; auto. Qed.

Lemma ind_rel_mono : forall (R R2 : nat -> nat -> Prop), (forall a b, R a b -> R2 a b) ->
  forall x y, ind_rel R x y -> ind_rel R2 x y.
Proof.
  intros R R2 HM x y [H1 [H2 [H3 [H4 [H5 H6]]]]]. unfold ind_rel. repeat split; try assumption.
  destruct (i_op x) as [p|], (i_op y) as [q|]; cbn in *; try contradiction; [|exact I].
  destruct H6 as [A [B [C D]]]. repeat split; try assumption.
  eapply Forall2_impl; [|exact D]. apply pref_rel_mono. exact HM.
Qed.

Lemma ren_ind_dummy : forall f, ren_ind f dummy_ind = dummy_ind.
Proof. reflexivity. Qed.

Section Extend.
Variables (R : nat -> nat -> Prop) (H H' : hist) (G : ext) (f : nat -> nat).
Let h := h_heap H.
Let h' := h_heap H'.
Let nc := length (x_cells G).
Hypothesis ISO : iso_by R H H'.
Hypothesis BOUND : forall r r', R r r' -> r < length h /\ r' < length h'.
(* the continuation mentions related old objects, or new cells (renamed positionally) *)
Hypothesis SCOPE : forall r, In r (ext_refs G) ->
  (r < length h /\ R r (f r)) \/ (exists i, i < nc /\ r = length h + i /\ f r = length h' + i).

Definition R2 (r r' : nat) : Prop := R r r' \/ exists i, i < nc /\ r = length h + i /\ r' = length h' + i.

Lemma R2_of_scope : forall r, In r (ext_refs G) -> R2 r (f r).
Proof.
  intros r Hr. destruct (SCOPE r Hr) as [[_ HR]|[i [Hi [E1 E2]]]]; [left; exact HR|].
  right. exists i. rewrite E2. repeat split; assumption.
Qed.

Lemma get_old : forall (a b : list (ind pref)) r, r < length a -> get (a ++ b) r = get a r.
Proof. intros a b r Hr. unfold get. apply app_nth1. exact Hr. Qed.

Lemma get_new : forall (a b : list (ind pref)) i, get (a ++ b) (length a + i) = get b i.
Proof. intros a b i. unfold get. rewrite app_nth2 by lia. f_equal. lia. Qed.

Lemma get_ren : forall cells i, get (map (ren_ind f) cells) i = ren_ind f (get cells i).
Proof. intros cells i. unfold get. rewrite <- (ren_ind_dummy f) at 1. apply map_nth. Qed.

Lemma in_ref_parents : forall c p, In (PRef p) (parents_of c) -> In p (ref_parents c).
Proof.
  intros c p Hp. unfold ref_parents. apply in_flat_map. exists (PRef p). split; [exact Hp|left; reflexivity].
Qed.

Theorem extend_iso_by : iso_by R2 (extend H G) (extend H' (ren_ext f G)).
Proof.
  assert (HM : forall a b, R a b -> R2 a b) by (intros a b Hab; left; exact Hab).
  constructor; cbn [extend h_obj h_tuning h_dir h_gens h_snaps h_heap ren_ext x_cells x_gens x_snaps].
  - exact (iso_obj ISO).
  - exact (iso_tuning ISO).
  - exact (iso_dir ISO).
  - apply Forall2_app.
    + eapply Forall2_impl; [|exact (iso_gens ISO)]. intros g g' [A [B [C D]]]. repeat split; try assumption.
      eapply Forall2_impl; [|exact D]. exact HM.
    + apply Forall2_map_r. intros g Hg. unfold gen_rel, ren_gen. cbn. repeat split; try reflexivity.
      apply Forall2_map_r. intros r Hr. apply R2_of_scope. unfold ext_refs. apply in_or_app. right. apply in_or_app. left.
      eapply in_concat_map_members; eassumption.
  - apply Forall2_app.
    + eapply Forall2_impl; [|exact (iso_snaps ISO)]. intros l l' D. eapply Forall2_impl; [|exact D]. exact HM.
    + apply Forall2_map_r. intros l Hl. apply Forall2_map_r. intros r Hr. apply R2_of_scope.
      unfold ext_refs. apply in_or_app. right. apply in_or_app. right. apply in_concat. exists l. split; assumption.
  - intros r r' [Hr|[i [Hi [E1 E2]]]].
    + destruct (BOUND r r' Hr) as [B1 B2]. fold h h'. rewrite (get_old h _ r B1), (get_old h' _ r' B2).
      eapply ind_rel_mono; [exact HM|]. exact (iso_inds ISO r r' Hr).
    + subst r r'. fold h h'. rewrite !get_new, get_ren.
      set (c := get (x_cells G) i).
      assert (Hc : In c (x_cells G)) by (unfold c, get; apply nth_In; exact Hi).
      unfold ind_rel, ren_ind. cbn [i_uid i_fit i_graph i_meta i_ng i_op]. repeat split; try reflexivity.
      pose proof (in_ref_parents c) as Hpar. unfold parents_of in Hpar.
      destruct (i_op c) as [o|]; cbn [option_map pop_rel]; [|exact I]. cbn [p_type p_ops p_uid p_parents].
      repeat split; try reflexivity. apply Forall2_map_r. intros x Hx. destruct x as [p|u]; cbn [ren_pref pref_rel]; [|reflexivity].
      apply R2_of_scope. unfold ext_refs. apply in_or_app. left. apply in_flat_map. exists c. split; [exact Hc|apply Hpar; exact Hx].
  - intros r r1 r2 [A|[i [Hi [E1 E2]]]] [B|[j [Hj [F1 F2]]]].
    + exact (iso_fun ISO r r1 r2 A B).
    + destruct (BOUND _ _ A). lia.
    + destruct (BOUND _ _ B). lia.
    + lia.
  - intros r1 r2 r' [A|[i [Hi [E1 E2]]]] [B|[j [Hj [F1 F2]]]].
    + exact (iso_inj ISO r1 r2 r' A B).
    + destruct (BOUND _ _ A). lia.
    + destruct (BOUND _ _ B). lia.
    + lia.
Qed.

End Extend.

Section RoundTrip.
Variable H : hist.
Let h := h_heap H.
Hypothesis UF : uid_faithful H.
Hypothesis WF : no_str H.
Variable d : nat.
Variable rs : list nat.
Hypothesis Hpool : pool_refs d H = Some rs.

Let pool := map (enc_ind h) rs.
Let E := mkEHist pool (EObj (h_obj H)) (EGens (map (enc_gen h) (h_gens H)))
                 (map (map (uid_of h)) (h_snaps H)) (h_tuning H) (h_dir H).

Lemma rs_nodup_uids : NoDup (map (uid_of h) rs).
Proof. exact (proj1 (pool_refs_spec H UF d rs Hpool)). Qed.

Lemma rs_in_pool : forall x, reach H x <-> In x rs.
Proof. exact (proj2 (pool_refs_spec H UF d rs Hpool)). Qed.

Lemma rs_nodup : NoDup rs.
Proof. eapply NoDup_map_inv. exact rs_nodup_uids. Qed.

Lemma pool_uids : map (@i_uid nat) pool = map (uid_of h) rs.
Proof. unfold pool. rewrite map_map. reflexivity. Qed.

Lemma pool_nodup : NoDup (map (@i_uid nat) pool).
Proof. rewrite pool_uids. exact rs_nodup_uids. Qed.

Lemma parent_in_pool : forall c x, reach H c -> In x (parents_of (get h c)) -> exists p, x = PRef p /\ reach H p.
Proof.
  intros c x Hc Hx. destruct (WF c x Hc Hx) as [p ->].
  exists p. split; [reflexivity|]. eapply reach_parent; eassumption.
Qed.

Lemma parents_enc : forall r, parents_of (enc_ind h r) = map (enc_pref h) (parents_of (get h r)).
Proof.
  intros r. unfold enc_ind, enc_indv, parents_of. cbn [i_op]. destruct (i_op (get h r)) as [o|]; reflexivity.
Qed.

Lemma pool_closed_parents : forall e u, In e pool -> In u (parents_of e) -> In u (map (@i_uid nat) pool).
Proof.
  intros e u He Hu. unfold pool in He. apply in_map_iff in He. destruct He as [r [<- Hr]].
  rewrite parents_enc in Hu. apply in_map_iff in Hu. destruct Hu as [x [<- Hx]].
  destruct (parent_in_pool r x (proj2 (rs_in_pool r) Hr) Hx) as [p [-> Hp]].
  rewrite pool_uids. cbn [enc_pref]. apply in_map. apply rs_in_pool. exact Hp.
Qed.

Let ixp := ix pool.

Lemma uid_in_pool : forall r, reach H r -> In (uid_of h r) (map (@i_uid nat) pool).
Proof. intros r Hr. rewrite pool_uids. apply in_map. apply rs_in_pool. exact Hr. Qed.

(* the index of a pool member in the pool *)
Lemma key_index : forall r, reach H r -> nth_error rs (ixp (uid_of h r)) = Some r.
Proof.
  intros r Hr. destruct (ix_spec pool pool_nodup (uid_of h r) (uid_in_pool r Hr)) as [_ [_ [e [He Hu]]]].
  unfold ixp. unfold pool in He at 1. rewrite nth_error_map in He.
  destruct (nth_error rs (ix pool (uid_of h r))) as [r0|] eqn:E0; [|discriminate].
  cbn in He. inversion He; subst e. f_equal.
  apply UF.
  - apply rs_in_pool. eapply nth_error_In. exact E0.
  - exact Hr.
  - exact Hu.
Qed.

Lemma index_key : forall i r, nth_error rs i = Some r -> ixp (uid_of h r) = i.
Proof.
  intros i r Hi. apply (ix_nth pool pool_nodup i (enc_ind h r)). unfold pool. rewrite nth_error_map, Hi. reflexivity.
Qed.

Variable d' : nat.
Variable H' : hist.
Hypothesis Hdec : decode_history d' E = Some H'.

Let gs' := map (ix_gen pool) (map (enc_gen h) (h_gens H)).
Let snaps' := map (map ixp) (map (map (uid_of h)) (h_snaps H)).
Let roots := relink_roots gs' snaps'.

Lemma gs_members : all_members gs' = map (fun r => ixp (uid_of h r)) (all_members (h_gens H)).
Proof.
  unfold gs'. rewrite map_map.
  rewrite (all_members_map (fun g => ix_gen pool (enc_gen h g)) (fun r => ixp (uid_of h r))); [reflexivity|].
  intros g. cbn. rewrite map_map. reflexivity.
Qed.

Lemma snaps_members : concat snaps' = map (fun r => ixp (uid_of h r)) (concat (h_snaps H)).
Proof.
  unfold snaps'. rewrite map_map. rewrite (map_ext _ (map (fun r => ixp (uid_of h r)))) by (intros l; apply map_map).
  apply concat_map_map.
Qed.

Lemma roots_eq : roots = map (fun r => ixp (uid_of h r)) (pool_roots H).
Proof. unfold roots, relink_roots, pool_roots. rewrite map_app, gs_members, snaps_members. reflexivity. Qed.

Lemma decode_shape : exists hp4,
  relink_all d' (umap pool) (map dec_ind pool) roots = Some hp4 /\
  H' = mkHist hp4 (h_obj H) gs' snaps' (h_tuning H) (h_dir H).
Proof.
  unfold decode_history in Hdec. cbn [e_pool e_gens e_arch e_obj e_tuning e_dir E] in Hdec.
  rewrite (resolve_gens_closed pool pool_nodup) in Hdec.
  2:{ intros u Hu. rewrite (all_members_map (enc_gen h) (uid_of h)) in Hu by reflexivity.
      apply in_map_iff in Hu. destruct Hu as [r [<- Hr]]. apply uid_in_pool. apply reach_gen. exact Hr. }
  rewrite (resolve_lists_closed pool pool_nodup) in Hdec.
  2:{ intros u Hu. rewrite concat_map_map in Hu. apply in_map_iff in Hu. destruct Hu as [r [<- Hr]].
      apply uid_in_pool. apply reach_snap. exact Hr. }
  fold ixp in Hdec. fold gs' in Hdec. fold snaps' in Hdec. fold roots in Hdec.
  destruct (relink_all d' (umap pool) (map dec_ind pool) roots) as [hp4|] eqn:Er; [|discriminate].
  exists hp4. split; [reflexivity|]. inversion Hdec. reflexivity.
Qed.

Lemma roots_lt : forall r, In r roots -> r < length pool.
Proof.
  intros r Hr. rewrite roots_eq in Hr. apply in_map_iff in Hr. destruct Hr as [x [<- Hx]].
  apply (ix_spec pool pool_nodup). apply uid_in_pool. apply pool_roots_reach. exact Hx.
Qed.

Lemma all_reachable : forall r, reach H r -> rch pool roots (ixp (uid_of h r)).
Proof.
  induction 1 as [r Hg|r Hs|c p Hc IH Hp].
  - apply rch_root. rewrite roots_eq. apply in_map_iff. exists r. split; [reflexivity|].
    unfold pool_roots. apply in_or_app. left. exact Hg.
  - apply rch_root. rewrite roots_eq. apply in_map_iff. exists r. split; [reflexivity|].
    unfold pool_roots. apply in_or_app. right. exact Hs.
  - eapply (rch_step pool roots (ixp (uid_of h c)) (enc_ind h c) (uid_of h p)).
    + exact IH.
    + unfold pool. rewrite nth_error_map. fold ixp. rewrite (key_index c Hc). reflexivity.
    + rewrite parents_enc. apply in_map_iff. exists (PRef p). split; [reflexivity|exact Hp].
Qed.

Lemma decoded_cells : exists hp4,
  H' = mkHist hp4 (h_obj H) gs' snaps' (h_tuning H) (h_dir H) /\
  length hp4 = length pool /\
  forall i r, nth_error rs i = Some r -> get hp4 i = link_ind pool (enc_ind h r).
Proof.
  destruct decode_shape as [hp4 [Hrel Heq]]. exists hp4. split; [exact Heq|].
  destruct (relink_all_linked pool pool_nodup pool_closed_parents d' roots hp4 roots_lt Hrel) as [Hlen Hcells].
  split; [exact Hlen|]. intros i r Hi. apply Hcells.
  - rewrite <- (index_key i r Hi). apply all_reachable. apply rs_in_pool. eapply nth_error_In. exact Hi.
  - unfold pool. rewrite nth_error_map, Hi. reflexivity.
Qed.

Definition RT (r r' : nat) : Prop := nth_error rs r' = Some r.

Lemma RT_member : forall r, reach H r -> RT r (ixp (uid_of h r)).
Proof. intros r Hr. unfold RT. apply key_index. exact Hr. Qed.

Theorem decode_encode_iso_by : iso_by RT H H'.
Proof.
  destruct decoded_cells as [hp4 [Heq [Hlen Hcells]]]. subst H'.
  constructor; cbn [h_obj h_tuning h_dir h_gens h_snaps h_heap].
  - reflexivity.
  - reflexivity.
  - reflexivity.
  - unfold gs'. rewrite map_map. apply Forall2_map_r. intros g Hg. unfold gen_rel. cbn.
    repeat split; try reflexivity. rewrite map_map. apply Forall2_map_r. intros r Hr.
    apply RT_member. apply reach_gen. eapply in_concat_map_members; eassumption.
  - unfold snaps'. rewrite map_map. apply Forall2_map_r. intros l Hl. rewrite map_map. apply Forall2_map_r. intros r Hr.
    apply RT_member. apply reach_snap. unfold snap_member. apply in_concat. exists l. split; assumption.
  - intros r r' Hrr. unfold RT in Hrr. rewrite (Hcells _ _ Hrr). fold h.
    assert (Hr : reach H r) by (apply rs_in_pool; eapply nth_error_In; exact Hrr).
    unfold ind_rel, link_ind, enc_ind, enc_indv. cbn [i_uid i_fit i_graph i_meta i_ng i_op].
    repeat split; try reflexivity.
    pose proof (parent_in_pool r) as Hpar. unfold parents_of in Hpar.
    destruct (i_op (get h r)) as [o|]; cbn [option_map pop_rel]; [|exact I].
    unfold link_pop, enc_pop. cbn [p_type p_ops p_uid p_parents].
    repeat split; try reflexivity. rewrite map_map. apply Forall2_map_r. intros x Hx.
    destruct (Hpar x Hr Hx) as [p [-> Hp]]. cbn [pref_rel enc_pref]. apply RT_member. exact Hp.
  - intros r r1 r2 H1 H2. unfold RT in *.
    apply (proj1 (NoDup_nth_error rs) rs_nodup); [apply nth_error_Some; rewrite H1; discriminate|congruence].
  - intros r1 r2 r' H1 H2. unfold RT in *. congruence.
Qed.

Lemma reach_decoded : forall r', reach H' r' -> exists r, nth_error rs r' = Some r.
Proof.
  destruct decoded_cells as [hp4 [Heq [Hlen Hcells]]].
  intros r' Hr'. induction Hr' as [r' Hg|r' Hs|c' p' Hc IH Hp].
  - subst H'. unfold gen_member in Hg. cbn [h_gens] in Hg. rewrite gs_members in Hg.
    apply in_map_iff in Hg. destruct Hg as [r [<- Hr]]. exists r. apply key_index. apply reach_gen. exact Hr.
  - subst H'. unfold snap_member in Hs. cbn [h_snaps] in Hs. rewrite snaps_members in Hs.
    apply in_map_iff in Hs. destruct Hs as [r [<- Hr]]. exists r. apply key_index. apply reach_snap. exact Hr.
  - destruct IH as [c Hc']. subst H'. cbn [h_heap] in Hp. rewrite (Hcells _ _ Hc') in Hp.
    assert (Hcp : reach H c) by (apply rs_in_pool; eapply nth_error_In; exact Hc').
    unfold parents_of, link_ind, enc_ind, enc_indv in Hp. cbn [i_op] in Hp.
    pose proof (parent_in_pool c) as Hpar. unfold parents_of in Hpar.
    destruct (i_op (get h c)) as [o|]; cbn [option_map link_pop enc_pop p_parents] in Hp; [|destruct Hp].
    rewrite map_map in Hp. apply in_map_iff in Hp. destruct Hp as [x [Hx Hin]].
    destruct (Hpar x Hcp Hin) as [p [-> Hpp]]. inversion Hx. exists p. apply key_index. exact Hpp.
Qed.

Theorem decoded_uid_faithful : uid_faithful H'.
Proof.
  intros r1 r2 H1 H2 Hu.
  destruct (reach_decoded r1 H1) as [a Ha]. destruct (reach_decoded r2 H2) as [b Hb].
  destruct decoded_cells as [hp4 [Heq [Hlen Hcells]]]. subst H'. cbn [h_heap] in Hu.
  unfold uid_of in Hu. rewrite (Hcells _ _ Ha), (Hcells _ _ Hb) in Hu. cbn in Hu.
  assert (a = b).
  { apply UF; [apply rs_in_pool; eapply nth_error_In; exact Ha|apply rs_in_pool; eapply nth_error_In; exact Hb|exact Hu]. }
  subst b. apply (proj1 (NoDup_nth_error rs) rs_nodup); [apply nth_error_Some; rewrite Ha; discriminate|congruence].
Qed.

Lemma decoded_length : length (h_heap H') = length rs.
Proof.
  destruct decoded_cells as [hp4 [Heq [Hlen _]]]. subst H'. cbn [h_heap]. rewrite Hlen. unfold pool. apply map_length.
Qed.

(* the loaded history continued like the original one: old objects through the uid, new cells by position *)
Definition cont_f (r : nat) : nat :=
  if r <? length h then ixp (uid_of h r) else length (h_heap H') + (r - length h).

Theorem continuation_iso : forall G,
  (forall r, reach H r -> r < length h) ->
  (forall r, In r (ext_refs G) -> (r < length h /\ reach H r) \/ (length h <= r < length h + length (x_cells G))) ->
  iso (extend H G) (extend H' (ren_ext cont_f G)).
Proof.
  intros G VALID SC. exists (R2 RT H H' G). apply extend_iso_by.
  - exact decode_encode_iso_by.
  - intros r r' Hrr. unfold RT in Hrr. split.
    + apply VALID. apply rs_in_pool. eapply nth_error_In. exact Hrr.
    + rewrite decoded_length. apply nth_error_Some. rewrite Hrr. discriminate.
  - intros r Hr. destruct (SC r Hr) as [[Hlt Hre]|[Hge Hlt]].
    + left. split; [exact Hlt|]. unfold cont_f. fold h. apply Nat.ltb_lt in Hlt. rewrite Hlt. apply RT_member. exact Hre.
    + right. exists (r - length h). fold h. split; [lia|]. split; [lia|].
      unfold cont_f. destruct (r <? length h) eqn:Elt; [apply Nat.ltb_lt in Elt; lia|reflexivity].
Qed.

End RoundTrip.

Theorem decode_encode_iso : forall H d d' E H',
  uid_faithful H -> no_str H ->
  encode_history d H = Some E -> decode_history d' E = Some H' ->
  iso H H' /\ uid_faithful H'.
Proof.
  intros H d d' E H' UF PCL Henc Hdec. unfold encode_history in Henc.
  destruct (pool_refs d H) as [rs|] eqn:Hpool; [|discriminate]. inversion Henc; subst E; clear Henc.
  split.
  - exists (RT rs). eapply decode_encode_iso_by; eassumption.
  - eapply decoded_uid_faithful; eassumption.
Qed.

(* ------------------------------------------------------------------------------------- *)
(* the encoder does not distinguish isomorphic histories                                  *)
(* ------------------------------------------------------------------------------------- *)
Definition orel (A B : Type) (P : A -> B -> Prop) (x : option A) (y : option B) : Prop :=
  match x, y with
  | Some a, Some b => P a b
  | None, None => True
  | _, _ => False
  end.
Arguments orel {A B} P x y.

Lemma ofold_rel : forall (A A' B B' : Type) (P : A -> A' -> Prop) (Q : B -> B' -> Prop)
    (f : A -> B -> option A) (f' : A' -> B' -> option A'),
  (forall a a' b b', P a a' -> Q b b' -> orel P (f a b) (f' a' b')) ->
  forall xs xs', Forall2 Q xs xs' -> forall a a', P a a' -> orel P (ofold f xs a) (ofold f' xs' a').
Proof.
  intros A A' B B' P Q f f' Hf xs xs' HF. induction HF as [|x x' t t' Hx Ht IH]; intros a a' Ha; cbn [ofold].
  - exact Ha.
  - pose proof (Hf a a' x x' Ha Hx) as Hstep.
    destruct (f a x) as [a1|], (f' a' x') as [a1'|]; cbn in Hstep; try contradiction; [apply IH; exact Hstep|exact I].
Qed.

Arguments ofold_rel {A A' B B'} P Q {f f'} _ {xs xs'} _ {a a'} _.

Lemma Forall2_concat : forall (A B : Type) (R : A -> B -> Prop) ls ls',
  Forall2 (Forall2 R) ls ls' -> Forall2 R (concat ls) (concat ls').
Proof.
  intros A B R ls ls' HF. induction HF as [|l l' t t' Hl Ht IH]; cbn [concat]; [constructor|].
  apply Forall2_app; assumption.
Qed.

Lemma Forall2_map_eq : forall (A B C : Type) (R : A -> B -> Prop) (f : A -> C) (g : B -> C) l l',
  Forall2 R l l' -> (forall a b, R a b -> f a = g b) -> map f l = map g l'.
Proof.
  intros A B C R f g l l' HF Hfg. induction HF as [|a b t t' Hab Ht IH]; cbn [map]; [reflexivity|].
  rewrite (Hfg a b Hab), IH. reflexivity.
Qed.

Arguments Forall2_map_eq {A B C} R {f g l l'} _ _.

Section RespectIso.
Variables (R : nat -> nat -> Prop) (H H' : hist).
Hypothesis ISO : iso_by R H H'.
Let h := h_heap H.
Let h' := h_heap H'.

Definition drel (pm pm' : dict) : Prop :=
  Forall2 (fun kv kv' => fst kv = fst kv' /\ R (snd kv) (snd kv')) pm pm'.

Lemma R_fields : forall r r', R r r' -> ind_rel R (get h r) (get h' r').
Proof. exact (iso_inds ISO). Qed.

Lemma R_uid : forall r r', R r r' -> uid_of h r = uid_of h' r'.
Proof. intros r r' Hr. destruct (R_fields r r' Hr) as [Hu _]. exact Hu. Qed.

Lemma R_parents : forall r r', R r r' -> Forall2 (pref_rel R) (parents_of (get h r)) (parents_of (get h' r')).
Proof.
  intros r r' Hr. destruct (R_fields r r' Hr) as [_ [_ [_ [_ [_ Hop]]]]]. unfold parents_of.
  destruct (i_op (get h r)) as [o|], (i_op (get h' r')) as [o'|]; cbn in Hop; try contradiction; [|constructor].
  apply Hop.
Qed.

Lemma dict_set_rel : forall pm pm' k v v', drel pm pm' -> R v v' -> drel (dict_set pm k v) (dict_set pm' k v').
Proof.
  intros pm pm' k v v' HD Hv. induction HD as [|[k0 v0] [k0' v0'] t t' [Hk Hr] Ht IH]; cbn [dict_set].
  - constructor; [split; [reflexivity|exact Hv]|constructor].
  - cbn in Hk. subst k0'. destruct (Nat.eqb k k0).
    + constructor; [split; [reflexivity|exact Hv]|exact Ht].
    + constructor; [split; [reflexivity|exact Hr]|exact IH].
Qed.

Lemma drel_vals : forall pm pm', drel pm pm' -> Forall2 R (dict_vals pm) (dict_vals pm').
Proof.
  intros pm pm' HD. unfold dict_vals. induction HD as [|kv kv' t t' [_ Hr] Ht IH]; cbn [map]; constructor; assumption.
Qed.

Lemma drel_keys : forall pm pm', drel pm pm' -> dict_keys pm = dict_keys pm'.
Proof.
  intros pm pm' HD. unfold dict_keys. induction HD as [|kv kv' t t' [Hk _] Ht IH]; cbn [map]; [reflexivity|].
  rewrite Hk, IH. reflexivity.
Qed.

Lemma extract_rel : forall d gm gm' pm pm' r r', drel gm gm' -> drel pm pm' -> R r r' ->
  orel drel (extract d h gm pm r) (extract d h' gm' pm' r').
Proof.
  induction d as [|d IHd]; intros gm gm' pm pm' r r' HG HD Hr; cbn [extract]; [exact I|].
  apply (ofold_rel drel (pref_rel R)); [|apply R_parents; exact Hr|exact HD].
  intros a a' x x' Ha Hx. destruct x as [p|u], x' as [p'|u']; cbn in Hx; try contradiction; [|exact I].
  rewrite <- (R_uid p p' Hx). unfold has_key. rewrite <- (drel_keys _ _ HG), <- (drel_keys _ _ Ha).
  destruct (existsb (Nat.eqb (uid_of h p)) (dict_keys gm) || existsb (Nat.eqb (uid_of h p)) (dict_keys a)); [exact Ha|].
  apply IHd; [exact HG| |exact Hx]. apply dict_set_rel; assumption.
Qed.

Lemma members_rel : Forall2 R (all_members (h_gens H)) (all_members (h_gens H')).
Proof.
  unfold all_members. apply Forall2_concat.
  pose proof (iso_gens ISO) as HG. induction HG as [|g g' t t' Hg Ht IH]; cbn [map]; constructor; [|exact IH].
  apply Hg.
Qed.

Lemma roots_rel : Forall2 R (pool_roots H) (pool_roots H').
Proof.
  unfold pool_roots. apply Forall2_app; [exact members_rel|]. apply Forall2_concat. exact (iso_snaps ISO).
Qed.

Lemma gens_map_rel : drel (gens_map h (pool_roots H)) (gens_map h' (pool_roots H')).
Proof.
  unfold gens_map. pose proof roots_rel as HM.
  assert (Hgen : forall m0 m0', drel m0 m0' ->
            drel (fold_left (fun m r => dict_set m (uid_of h r) r) (pool_roots H) m0)
                 (fold_left (fun m r => dict_set m (uid_of h' r) r) (pool_roots H') m0')).
  { induction HM as [|r r' t t' Hr Ht IH]; intros m0 m0' H0; cbn [fold_left]; [exact H0|].
    apply IH. rewrite (R_uid r r' Hr). apply dict_set_rel; assumption. }
  apply Hgen. constructor.
Qed.

Lemma dict_update_rel : forall m2 m2' m m', drel m2 m2' -> drel m m' -> drel (dict_update m m2) (dict_update m' m2').
Proof.
  unfold dict_update. intros m2 m2' m m' H2. revert m m'.
  induction H2 as [|[k v] [k' v'] t t' [Hk Hr] Ht IH]; intros m m' Hm; cbn [fold_left]; [exact Hm|].
  cbn in Hk, Hr. subst k'. apply IH. cbn [fst snd]. apply dict_set_rel; assumption.
Qed.

Lemma pool_refs_rel : forall d, orel (Forall2 R) (pool_refs d H) (pool_refs d H').
Proof.
  intros d. unfold pool_refs. fold h h'.
  pose proof gens_map_rel as HG.
  assert (HP : orel drel (parents_map d h (gens_map h (pool_roots H))) (parents_map d h' (gens_map h' (pool_roots H')))).
  { unfold parents_map. apply (ofold_rel drel R); [|apply drel_vals; exact HG|constructor].
    intros a a' b b' Ha Hb. apply extract_rel; assumption. }
  destruct (parents_map d h (gens_map h (pool_roots H))) as [pm|], (parents_map d h' (gens_map h' (pool_roots H'))) as [pm'|];
    cbn in HP; try contradiction; [|exact I].
  cbn. apply drel_vals. apply dict_update_rel; assumption.
Qed.

Lemma enc_ind_rel : forall r r', R r r' -> enc_ind h r = enc_ind h' r'.
Proof.
  intros r r' Hr. pose proof (R_parents r r' Hr) as HP. destruct (R_fields r r' Hr) as [Hu [Hf [Hg [Hm [Hn Hop]]]]].
  unfold enc_ind, enc_indv. rewrite Hu, Hf, Hg, Hm, Hn. f_equal. unfold parents_of in HP.
  destruct (i_op (get h r)) as [o|], (i_op (get h' r')) as [o'|]; cbn in Hop; try contradiction; [|reflexivity].
  destruct Hop as [Ht [Ho [Hpu _]]]. cbn [option_map]. unfold enc_pop. rewrite Ht, Ho, Hpu. do 2 f_equal.
  apply (Forall2_map_eq (pref_rel R)); [exact HP|].
  intros x x' Hx. destruct x as [p|u], x' as [p'|u']; cbn in Hx; try contradiction; cbn [enc_pref]; [apply R_uid; exact Hx|exact Hx].
Qed.

Theorem encode_respects_iso_by : forall d, encode_history d H = encode_history d H'.
Proof.
  intros d. unfold encode_history. pose proof (pool_refs_rel d) as HP. fold h h'.
  destruct (pool_refs d H) as [rs|], (pool_refs d H') as [rs'|]; cbn in HP; try contradiction; [|reflexivity].
  f_equal. f_equal.
  - apply (Forall2_map_eq R); [exact HP|exact enc_ind_rel].
  - f_equal. exact (iso_obj ISO).
  - f_equal. apply (Forall2_map_eq (gen_rel R)); [exact (iso_gens ISO)|].
    intros g g' [Hn [Hl [Hm Hmem]]]. unfold enc_gen. rewrite Hn, Hl, Hm. f_equal.
    apply (Forall2_map_eq R); [exact Hmem|exact R_uid].
  - apply (Forall2_map_eq (Forall2 R)); [exact (iso_snaps ISO)|].
    intros l l' Hl. apply (Forall2_map_eq R); [exact Hl|exact R_uid].
  - exact (iso_tuning ISO).
  - exact (iso_dir ISO).
Qed.

End RespectIso.

Theorem encode_respects_iso : forall H H' d, iso H H' -> encode_history d H = encode_history d H'.
Proof. intros H H' d [R HR]. eapply encode_respects_iso_by. exact HR. Qed.

(* saving the loaded history reproduces the same JSON *)
Theorem encode_idempotent : forall H d d' E H',
  uid_faithful H -> no_str H ->
  encode_history d H = Some E -> decode_history d' E = Some H' ->
  encode_history d H' = Some E.
Proof.
  intros H d d' E H' UF PCL Henc Hdec.
  destruct (decode_encode_iso H d d' E H' UF PCL Henc Hdec) as [Hiso _].
  rewrite <- (encode_respects_iso H H' d Hiso). exact Henc.
Qed.

(* a loaded history that is continued (new generations / snapshots with new individuals, children of
   loaded ones) is saved exactly like the original history continued in the same way: the encoder
   reads nothing but the generations, the archive and the objects reachable from them *)
Theorem continuation_encode : forall H d d' E H' G,
  uid_faithful H -> no_str H ->
  encode_history d H = Some E -> decode_history d' E = Some H' ->
  (forall r, reach H r -> r < length (h_heap H)) ->
  (forall r, In r (ext_refs G) -> (r < length (h_heap H) /\ reach H r) \/
                                  (length (h_heap H) <= r < length (h_heap H) + length (x_cells G))) ->
  exists f, (forall i, i < length (x_cells G) -> f (length (h_heap H) + i) = length (h_heap H') + i) /\
            iso (extend H G) (extend H' (ren_ext f G)) /\
            forall d2, encode_history d2 (extend H G) = encode_history d2 (extend H' (ren_ext f G)).
Proof.
  intros H d d' E H' G UF NS Henc Hdec VALID SC. unfold encode_history in Henc.
  destruct (pool_refs d H) as [rs|] eqn:Hpool; [|discriminate]. inversion Henc; subst E; clear Henc.
  pose proof (continuation_iso H UF NS d rs Hpool d' H' Hdec G VALID SC) as Hiso.
  eexists. split; [|split; [exact Hiso|intros d2; apply encode_respects_iso; exact Hiso]].
  intros i Hi. unfold cont_f. destruct (length (h_heap H) + i <? length (h_heap H)) eqn:E; [apply Nat.ltb_lt in E; lia|].
  f_equal. lia.
Qed.

(* ------------------------------------------------------------------------------------- *)
(* boundaries of the round-trip theorems                                                  *)
(* ------------------------------------------------------------------------------------- *)
(* two objects with one uid (not uid-faithful): the pool keeps the last one, both generations
   get that object back - the first individual's payload is lost *)
Definition D_heap : list (ind pref) := [ mkInd 10 1 1 1 (Some 0) None; mkInd 10 2 2 2 (Some 1) None ].
Definition D : hist := mkHist D_heap (mkObj false []) [mkGen 0 0 0 [0]; mkGen 1 0 0 [1]] [] 0 0.
Definition D_loaded : hist :=
  mkHist [ mkInd 10 2 2 2 (Some 1) None ] (mkObj false []) [mkGen 0 0 0 [0]; mkGen 1 0 0 [0]] [] 0 0.

Theorem duplicate_uid_refuted :
  ~ uid_faithful D /\
  exists E, encode_history 5 D = Some E /\ decode_history 5 E = Some D_loaded /\ ~ iso D D_loaded.
Proof.
  split.
  - intros UF. assert (E : 0 = 1); [|discriminate]. apply UF.
    + apply reach_gen. unfold gen_member. cbn. left. reflexivity.
    + apply reach_gen. unfold gen_member. cbn. right. left. reflexivity.
    + reflexivity.
  - eexists. split; [vm_compute; reflexivity|]. split; [vm_compute; reflexivity|].
    intros [R HR].
    pose proof (iso_gens HR) as HG. cbn in HG. inversion HG as [|g g' t t' [_ [_ [_ Hm]]] HG2]; subst. cbn in Hm.
    inversion Hm as [|a b s s' H00 _]; subst.
    pose proof (iso_inds HR 0 0 H00) as [_ [Hfit _]]. cbn in Hfit. discriminate.
Qed.

(* a history holding an individual that was loaded on its own (its parents are uid strings)
   cannot be saved: the encoder raises *)
Definition S_hist : hist :=
  mkHist [ mkInd 11 2 2 2 None (Some (mkPop 1 [5] 100 [PStr 10])) ] (mkObj false []) [mkGen 0 0 0 [0]] [] 0 0.

Theorem string_parent_refuted : forall d, encode_history d S_hist = None.
Proof. intros [|d]; reflexivity. Qed.

(* ------------------------------------------------------------------------------------- *)
(* individual dumps                                                                       *)
(* ------------------------------------------------------------------------------------- *)
Lemma list_eqb_refl : forall (A : Type) (eqb : A -> A -> bool) l, (forall x, eqb x x = true) -> list_eqb eqb l l = true.
Proof. intros A eqb l Hr. induction l as [|x t IH]; [reflexivity|]. cbn. rewrite Hr, IH. reflexivity. Qed.

Lemma opt_nat_eqb_refl : forall a, opt_nat_eqb a a = true.
Proof. destruct a; cbn; [apply Nat.eqb_refl|reflexivity]. Qed.

Lemma eind_eqb_refl : forall e, eind_eqb e e = true.
Proof.
  intros e. unfold eind_eqb. rewrite !Nat.eqb_refl, opt_nat_eqb_refl. cbn.
  destruct (i_op e) as [o|]; [|reflexivity]. unfold pop_nat_eqb. rewrite !Nat.eqb_refl, !list_eqb_refl by apply Nat.eqb_refl. reflexivity.
Qed.

(* saving the individual loaded from a dump gives the dump again *)
Theorem dump_reencode : forall e, enc_indv [] (dec_ind e) = e.
Proof.
  intros [u f g mt ng op]. unfold enc_indv, dec_ind. cbn. f_equal. destruct op as [[t os pu ps]|]; [|reflexivity].
  cbn. unfold enc_pop, dec_pop. cbn. do 2 f_equal. rewrite map_map. cbn. apply map_id.
Qed.

(* the individual loaded from its dump equals the in-memory one: every field, parents by uid *)
Theorem dump_roundtrip : forall h r, dump_holds_b h r (dec_ind (enc_ind h r)) = true.
Proof.
  intros h r. unfold dump_holds_b. rewrite dump_reencode, eind_eqb_refl. cbn [andb].
  unfold parents_of, dec_ind. cbn [i_op]. destruct (i_op (enc_ind h r)) as [o|]; [|reflexivity].
  cbn. induction (p_parents o) as [|u t IH]; [reflexivity|exact IH].
Qed.

(* ------------------------------------------------------------------------------------- *)
(* the decoder terminates within a budget of (pool size + 1), whatever the JSON           *)
(* ------------------------------------------------------------------------------------- *)
Definition cnt (hp : list (ind pref)) : nat := length (filter has_str hp).
Definition bstr (hp : list (ind pref)) (r : nat) : nat := if has_str (get hp r) then 1 else 0.

Lemma cnt_app : forall a b, cnt (a ++ b) = cnt a + cnt b.
Proof. intros. unfold cnt. rewrite filter_app, app_length. reflexivity. Qed.

Lemma cnt_le_length : forall hp, cnt hp <= length hp.
Proof. intros. unfold cnt. induction hp as [|x t IH]; cbn; [lia|]. destruct (has_str x); cbn; lia. Qed.

Lemma cnt_zero_forall : forall ph i, cnt ph = 0 -> In i ph -> has_str i = false.
Proof.
  unfold cnt. induction ph as [|x t IH]; intros i Hc Hin; [destruct Hin|]. cbn in Hc.
  destruct (has_str x) eqn:E; [discriminate|]. destruct Hin as [->|Hin]; [exact E|apply IH; assumption].
Qed.

Lemma has_str_dummy : has_str dummy_ind = false.
Proof. reflexivity. Qed.

Lemma has_str_get_app : forall hp ph r, cnt ph = 0 -> has_str (get (hp ++ ph) r) = has_str (get hp r).
Proof.
  intros hp ph r Hc. unfold get. destruct (Nat.lt_ge_cases r (length hp)) as [Hlt|Hge].
  - rewrite app_nth1 by exact Hlt. reflexivity.
  - rewrite app_nth2 by exact Hge. rewrite (nth_overflow hp) by exact Hge. rewrite has_str_dummy.
    destruct (Nat.lt_ge_cases (r - length hp) (length ph)) as [Hl2|Hg2].
    + apply (cnt_zero_forall ph); [exact Hc|apply nth_In; exact Hl2].
    + rewrite nth_overflow by exact Hg2. reflexivity.
Qed.

Lemma split_at : forall (hp : list (ind pref)) r, r < length hp -> hp = firstn r hp ++ get hp r :: skipn (S r) hp.
Proof.
  induction hp as [|x t IH]; intros r Hr; cbn in Hr; [lia|]. destruct r as [|r]; [reflexivity|].
  cbn [firstn skipn app]. unfold get. cbn [nth]. f_equal. apply IH. lia.
Qed.

Lemma cnt_upd : forall hp r x, r < length hp ->
  cnt (upd hp r x) + bstr hp r = cnt hp + (if has_str x then 1 else 0).
Proof.
  intros hp r x Hr. unfold bstr. rewrite (split_at hp r Hr) at 3. unfold upd. rewrite !cnt_app.
  change (x :: skipn (S r) hp) with ([x] ++ skipn (S r) hp).
  change (get hp r :: skipn (S r) hp) with ([get hp r] ++ skipn (S r) hp). rewrite !cnt_app.
  unfold cnt at 2 5. cbn [filter]. destruct (has_str x), (has_str (get hp r)); cbn [length]; lia.
Qed.

Lemma has_str_cnt_pos : forall hp r, has_str (get hp r) = true -> 1 <= cnt hp.
Proof.
  intros hp r Hs. destruct (Nat.lt_ge_cases r (length hp)) as [Hlt|Hge].
  - rewrite (split_at hp r Hlt). rewrite cnt_app. change (get hp r :: skipn (S r) hp) with ([get hp r] ++ skipn (S r) hp).
    rewrite cnt_app. unfold cnt at 2. cbn [filter]. rewrite Hs. cbn. lia.
  - rewrite get_default in Hs by exact Hge. discriminate.
Qed.

Lemma resolve1_ext : forall m hp x hp' r, resolve1 m hp x = (hp', r) -> exists ph, hp' = hp ++ ph /\ cnt ph = 0.
Proof.
  intros m hp x hp' r Hres. destruct x as [r0|u]; cbn [resolve1] in Hres.
  - inversion Hres. exists []. rewrite app_nil_r. split; reflexivity.
  - destruct (dict_get m u); inversion Hres.
    + exists []. rewrite app_nil_r. split; reflexivity.
    + exists [placeholder u]. split; reflexivity.
Qed.

Lemma resolve_list_ext : forall m xs hp hp' rs, resolve_list m hp xs = (hp', rs) -> exists ph, hp' = hp ++ ph /\ cnt ph = 0.
Proof.
  induction xs as [|x t IH]; intros hp hp' rs Hres; cbn [resolve_list] in Hres.
  - inversion Hres. exists []. rewrite app_nil_r. split; reflexivity.
  - destruct (resolve1 m hp x) as [hp1 r] eqn:E1. destruct (resolve_list m hp1 t) as [hp2 rs2] eqn:E2. inversion Hres; subst.
    destruct (resolve1_ext _ _ _ _ _ E1) as [ph1 [-> Hc1]]. destruct (IH _ _ _ E2) as [ph2 [-> Hc2]].
    exists (ph1 ++ ph2). rewrite app_assoc, cnt_app. split; [reflexivity|lia].
Qed.

Lemma resolve_lists_ext : forall m ls hp hp' rss, resolve_lists m hp ls = (hp', rss) -> exists ph, hp' = hp ++ ph /\ cnt ph = 0.
Proof.
  induction ls as [|l t IH]; intros hp hp' rss Hres; cbn [resolve_lists] in Hres.
  - inversion Hres. exists []. rewrite app_nil_r. split; reflexivity.
  - destruct (resolve_list m hp (map PStr l)) as [hp1 r] eqn:E1. destruct (resolve_lists m hp1 t) as [hp2 rs2] eqn:E2. inversion Hres; subst.
    destruct (resolve_list_ext _ _ _ _ _ E1) as [ph1 [-> Hc1]]. destruct (IH _ _ _ E2) as [ph2 [-> Hc2]].
    exists (ph1 ++ ph2). rewrite app_assoc, cnt_app. split; [reflexivity|lia].
Qed.

Lemma resolve_gens_ext : forall m gs hp hp' gs', resolve_gens m hp gs = (hp', gs') -> exists ph, hp' = hp ++ ph /\ cnt ph = 0.
Proof.
  induction gs as [|g t IH]; intros hp hp' gs' Hres; cbn [resolve_gens] in Hres.
  - inversion Hres. exists []. rewrite app_nil_r. split; reflexivity.
  - destruct (resolve_list m hp (map PStr (g_members g))) as [hp1 r] eqn:E1. destruct (resolve_gens m hp1 t) as [hp2 rs2] eqn:E2. inversion Hres; subst.
    destruct (resolve_list_ext _ _ _ _ _ E1) as [ph1 [-> Hc1]]. destruct (IH _ _ _ E2) as [ph2 [-> Hc2]].
    exists (ph1 ++ ph2). rewrite app_assoc, cnt_app. split; [reflexivity|lia].
Qed.

Lemma has_str_all_ref : forall u f g mt ng t os pu ps,
  has_str (mkInd u f g mt ng (Some (mkPop t os pu (map PRef ps)))) = false.
Proof.
  intros. unfold has_str, parents_of. cbn [i_op p_parents]. induction ps as [|p t0 IH]; [reflexivity|exact IH].
Qed.

Lemma cnt_set_parents : forall hp r ps, cnt (set_parents hp r ps) + bstr hp r = cnt hp.
Proof.
  intros hp r ps. unfold set_parents. destruct (nth_error hp r) as [i|] eqn:E.
  - assert (Hr : r < length hp) by (apply nth_error_Some; rewrite E; discriminate).
    pose proof (get_nth_error _ _ _ E) as Hg.
    destruct (i_op i) as [o|] eqn:Eo.
    + pose proof (cnt_upd hp r (mkInd (i_uid i) (i_fit i) (i_graph i) (i_meta i) (i_ng i)
                     (Some (mkPop (p_type o) (p_ops o) (p_uid o) (map PRef ps)))) Hr) as Hu.
      rewrite has_str_all_ref in Hu. lia.
    + unfold bstr, has_str, parents_of. rewrite Hg, Eo. cbn. lia.
  - apply nth_error_None in E. unfold bstr. rewrite get_default by exact E. cbn. lia.
Qed.

Lemma relink_total : forall m d hp r, cnt hp < d + bstr hp r ->
  exists hp', relink d m hp r = Some hp' /\ cnt hp' + bstr hp r <= cnt hp.
Proof.
  intros m. induction d as [|d IHd]; intros hp r Hc.
  - exfalso. unfold bstr in Hc. destruct (has_str (get hp r)) eqn:E; [|lia].
    pose proof (has_str_cnt_pos hp r E). lia.
  - cbn [relink]. destruct (i_op (get hp r)) as [o|] eqn:Eo.
    + destruct (resolve_list m hp (p_parents o)) as [hp1 ps] eqn:Er.
      destruct (resolve_list_ext _ _ _ _ _ Er) as [ph [-> Hph]].
      pose proof (cnt_set_parents (hp ++ ph) r ps) as Hset.
      assert (Hb : bstr (hp ++ ph) r = bstr hp r) by (unfold bstr; rewrite has_str_get_app by exact Hph; reflexivity).
      rewrite Hb, cnt_app, Hph in Hset.
      set (hp2 := set_parents (hp ++ ph) r ps) in *.
      assert (Hfold : forall vs hq, cnt hq <= d ->
                exists hq', ofold (fun hq p => if has_str (get hq p) then relink d m hq p else Some hq) vs hq = Some hq' /\ cnt hq' <= cnt hq).
      { induction vs as [|v t IH]; intros hq Hq; cbn [ofold]; [exists hq; split; [reflexivity|lia]|].
        destruct (has_str (get hq v)) eqn:Ev.
        - destruct (IHd hq v) as [hq1 [E1 Hc1]]; [unfold bstr; rewrite Ev; lia|].
          rewrite E1. destruct (IH hq1) as [hq' [E' Hc']]; [lia|]. exists hq'. split; [exact E'|lia].
        - apply IH. exact Hq. }
      destruct (Hfold ps hp2) as [hp' [E' Hc']]; [lia|]. exists hp'. split; [exact E'|lia].
    + exists hp. split; [reflexivity|]. unfold bstr, has_str, parents_of. rewrite Eo. cbn. lia.
Qed.

Lemma relink_all_total : forall m d rs hp, cnt hp < d -> exists hp', relink_all d m hp rs = Some hp'.
Proof.
  intros m d. unfold relink_all. induction rs as [|r t IH]; intros hp Hc; cbn [ofold]; [exists hp; reflexivity|].
  destruct (relink_total m d hp r) as [hp1 [E1 Hc1]]; [lia|]. rewrite E1. apply IH. lia.
Qed.

Lemma cnt_set_ng : forall hp k r, cnt (set_ng hp k r) = cnt hp.
Proof.
  intros hp k r. unfold set_ng. destruct (nth_error hp r) as [i|] eqn:E; [|reflexivity].
  destruct (i_ng i); [reflexivity|].
  assert (Hr : r < length hp) by (apply nth_error_Some; rewrite E; discriminate).
  pose proof (cnt_upd hp r (mkInd (i_uid i) (i_fit i) (i_graph i) (i_meta i) (Some k) (i_op i)) Hr) as Hu.
  unfold bstr in Hu. rewrite (get_nth_error _ _ _ E) in Hu.
  unfold has_str, parents_of in Hu. cbn [i_op] in Hu. unfold has_str, parents_of in *.
  destruct (existsb _ _); lia.
Qed.

Lemma cnt_wrap_lists : forall ls hp k hp' gs, wrap_lists hp k ls = (hp', gs) -> cnt hp' = cnt hp.
Proof.
  induction ls as [|l t IH]; intros hp k hp' gs Hw; cbn [wrap_lists] in Hw; [inversion Hw; reflexivity|].
  destruct (wrap_lists (fold_left (fun a r => set_ng a k r) l hp) (S k) t) as [hp2 gs2] eqn:E. inversion Hw; subst.
  rewrite (IH _ _ _ _ E). clear. revert hp. induction l as [|r t IH]; intros hp; cbn [fold_left]; [reflexivity|].
  rewrite IH. apply cnt_set_ng.
Qed.

(* loading never exceeds a recursion budget of (pool size + 1) *)
Theorem decode_total : forall E d, length (e_pool E) < d -> decode_history d E <> None.
Proof.
  intros E d Hd. unfold decode_history.
  set (m := umap (e_pool E)). set (hp0 := map dec_ind (e_pool E)).
  assert (H0 : cnt hp0 <= length (e_pool E)).
  { pose proof (cnt_le_length hp0). unfold hp0 in *. rewrite map_length in *. assumption. }
  destruct (e_gens E) as [gs|ls].
  - destruct (resolve_gens m hp0 gs) as [hp1 gs1] eqn:E1.
    destruct (resolve_gens_ext _ _ _ _ _ E1) as [ph1 [-> Hc1]].
    destruct (resolve_lists m (hp0 ++ ph1) (e_arch E)) as [hp2 snaps] eqn:E2.
    destruct (resolve_lists_ext _ _ _ _ _ E2) as [ph2 [-> Hc2]].
    destruct (relink_all_total m d (relink_roots gs1 snaps) ((hp0 ++ ph1) ++ ph2)) as [hp4 E4]; [rewrite !cnt_app; lia|].
    rewrite E4. discriminate.
  - destruct (resolve_lists m hp0 ls) as [hp1 rss] eqn:E1.
    destruct (resolve_lists_ext _ _ _ _ _ E1) as [ph1 [-> Hc1]].
    destruct (resolve_lists m (hp0 ++ ph1) (e_arch E)) as [hp2 snaps] eqn:E2.
    destruct (resolve_lists_ext _ _ _ _ _ E2) as [ph2 [-> Hc2]].
    destruct (wrap_lists ((hp0 ++ ph1) ++ ph2) 0 (map g_members (map (fun rs => mkGen 0 0 0 rs) rss))) as [hp3 gs3] eqn:E3.
    pose proof (cnt_wrap_lists _ _ _ _ _ E3) as Hc3.
    destruct (relink_all_total m d (relink_roots gs3 snaps) hp3) as [hp4 E4]; [rewrite Hc3, !cnt_app; lia|].
    rewrite E4. discriminate.
Qed.

(* ------------------------------------------------------------------------------------- *)
(* the encoder terminates on histories built by the constructors                          *)
(* ------------------------------------------------------------------------------------- *)
(* a ParentOperator is frozen: its parents exist before the child, and they are objects *)
Definition heap_ordered (h : list (ind pref)) : Prop :=
  forall r x, In x (parents_of (get h r)) -> exists p, x = PRef p /\ p < r.

Lemma extract_total : forall h, heap_ordered h -> forall gm d r pm, r < d -> exists pm', extract d h gm pm r = Some pm'.
Proof.
  intros h HO gm. induction d as [|d IHd]; intros r pm Hr; [lia|]. cbn [extract].
  assert (Hfold : forall xs pm0, (forall x, In x xs -> exists p, x = PRef p /\ p < r) ->
            exists pm', ofold (fun pm1 x => match x with
                                           | PStr _ => None
                                           | PRef p => if has_key gm (uid_of h p) || has_key pm1 (uid_of h p) then Some pm1
                                                       else extract d h gm (dict_set pm1 (uid_of h p) p) p
                                           end) xs pm0 = Some pm').
  { induction xs as [|x t IH]; intros pm0 Hall; cbn [ofold]; [exists pm0; reflexivity|].
    destruct (Hall x (or_introl eq_refl)) as [p [-> Hp]].
    destruct (has_key gm (uid_of h p) || has_key pm0 (uid_of h p)).
    - apply IH. intros y Hy. apply Hall. right. exact Hy.
    - destruct (IHd p (dict_set pm0 (uid_of h p) p)) as [pm1 E1]; [lia|]. rewrite E1.
      apply IH. intros y Hy. apply Hall. right. exact Hy. }
  apply Hfold. intros x Hx. apply (HO r x Hx).
Qed.

Theorem encode_total : forall H d, heap_ordered (h_heap H) ->
  (forall r, In r (pool_roots H) -> r < d) -> encode_history d H <> None.
Proof.
  intros H d HO Hm. unfold encode_history, pool_refs, parents_map.
  set (h := h_heap H). set (gm := gens_map h (pool_roots H)).
  assert (Hvals : forall r, In r (dict_vals gm) -> r < d).
  { unfold gm, gens_map.
    assert (Hgen : forall rs m0, (forall r, In r rs -> r < d) -> (forall r, In r (dict_vals m0) -> r < d) ->
              forall r, In r (dict_vals (fold_left (fun m r => dict_set m (uid_of h r) r) rs m0)) -> r < d).
    { induction rs as [|x t IH]; intros m0 H1 H2 r Hr; cbn [fold_left] in Hr; [apply H2; exact Hr|].
      eapply IH; [intros y Hy; apply H1; right; exact Hy| |exact Hr].
      intros y Hy. unfold dict_vals in Hy. apply in_map_iff in Hy. destruct Hy as [[k v] [Hk Hin]]. cbn in Hk. subst v.
      assert (Hcases : In (k, y) m0 \/ y = x).
      { clear - Hin. induction m0 as [|[k0 v0] t0 IHm]; cbn [dict_set] in Hin.
        - destruct Hin as [Hin|[]]. inversion Hin. right. reflexivity.
        - destruct (Nat.eqb (uid_of h x) k0).
          + destruct Hin as [Hin|Hin]; [inversion Hin; right; reflexivity|left; right; exact Hin].
          + destruct Hin as [Hin|Hin]; [left; left; exact Hin|]. destruct (IHm Hin) as [Hl|Hr]; [left; right; exact Hl|right; exact Hr]. }
      destruct Hcases as [Hl| ->]; [apply H2; eapply in_dict_vals; exact Hl|apply H1; left; reflexivity]. }
    apply Hgen; [exact Hm|intros r []]. }
  assert (Hfold : forall vs pm0, (forall r, In r vs -> r < d) -> exists pm, ofold (fun pm r => extract d h gm pm r) vs pm0 = Some pm).
  { induction vs as [|v t IH]; intros pm0 Hall; cbn [ofold]; [exists pm0; reflexivity|].
    destruct (extract_total h HO gm d v pm0 (Hall v (or_introl eq_refl))) as [pm1 E1]. rewrite E1.
    apply IH. intros r Hr. apply Hall. right. exact Hr. }
  destruct (Hfold (dict_vals gm) [] Hvals) as [pm Epm]. fold h. fold gm. rewrite Epm. discriminate.
Qed.

(* ------------------------------------------------------------------------------------- *)
(* the encoding of a faithful, pool-closed history is closed; reflection of the oracle     *)
(* ------------------------------------------------------------------------------------- *)
Theorem encode_closed : forall H d E, uid_faithful H -> no_str H -> encode_history d H = Some E -> e_closed E.
Proof.
  intros H d E UF WF Henc. unfold encode_history in Henc.
  destruct (pool_refs d H) as [rs|] eqn:Hpool; [|discriminate]. inversion Henc; subst E; clear Henc.
  unfold e_closed, e_gen_uids. cbn [e_pool e_gens e_arch].
  split; [exact (pool_nodup H UF d rs Hpool)|]. split; [|split].
  - intros u Hu. rewrite (all_members_map (enc_gen (h_heap H)) (uid_of (h_heap H))) in Hu by reflexivity.
    apply in_map_iff in Hu. destruct Hu as [r [<- Hr]]. apply (uid_in_pool H UF d rs Hpool). apply reach_gen. exact Hr.
  - intros u Hu. rewrite concat_map_map in Hu. apply in_map_iff in Hu. destruct Hu as [r [<- Hr]].
    apply (uid_in_pool H UF d rs Hpool). apply reach_snap. exact Hr.
  - intros e u He Hu. exact (pool_closed_parents H UF WF d rs Hpool e u He Hu).
Qed.

Lemma mem_b_In : forall x l, mem_b x l = true <-> In x l.
Proof.
  intros x l. unfold mem_b. rewrite existsb_exists. split.
  - intros [y [Hy He]]. apply Nat.eqb_eq in He. subst. exact Hy.
  - intros Hin. exists x. split; [exact Hin|apply Nat.eqb_refl].
Qed.

Lemma nodup_b_NoDup : forall l, nodup_b l = true <-> NoDup l.
Proof.
  induction l as [|x t IH]; cbn [nodup_b]; [split; [constructor|reflexivity]|].
  rewrite andb_true_iff, negb_true_iff, IH. split.
  - intros [Hn Hnd]. constructor; [|exact Hnd]. intros Hin. apply mem_b_In in Hin. unfold mem_b in Hin. rewrite Hin in Hn. discriminate.
  - intros Hnd. inversion Hnd; subst. split; [|assumption].
    destruct (existsb (Nat.eqb x) t) eqn:E; [|reflexivity]. exfalso. apply H1. apply mem_b_In. exact E.
Qed.

Theorem e_closed_b_iff : forall E, e_closed_b E = true <-> e_closed E.
Proof.
  intros E. unfold e_closed_b, e_closed. rewrite !andb_true_iff, nodup_b_NoDup, !forallb_forall.
  split.
  - intros [[[H1 H2] H3] H4]. split; [exact H1|]. split; [|split].
    + intros u Hu. apply mem_b_In. apply H2. exact Hu.
    + intros u Hu. apply mem_b_In. apply H3. exact Hu.
    + intros e u He Hu. apply mem_b_In. specialize (H4 e He). rewrite forallb_forall in H4. apply H4. exact Hu.
  - intros [H1 [H2 [H3 H4]]]. repeat split; [exact H1| | |].
    + intros u Hu. apply mem_b_In. apply H2. exact Hu.
    + intros u Hu. apply mem_b_In. apply H3. exact Hu.
    + intros e He. apply forallb_forall. intros u Hu. apply mem_b_In. eapply H4; eassumption.
Qed.

(* ------------------------------------------------------------------------------------- *)
(* a non-trivial history inside the guard (used by the Examples of Properties/C10.v)       *)
(* ------------------------------------------------------------------------------------- *)
(* 0: initial individual (generation 0); 1: intermediate ancestor without native generation
   (mutation of 0); 2: crossover of 1 and 0, member of generation 1 together with 0 *)
Definition X_heap : list (ind pref) := [
  mkInd 10 1 1 1 (Some 0) None;
  mkInd 11 0 2 2 None (Some (mkPop 1 [5] 100 [PRef 0]));
  mkInd 12 3 3 2 (Some 1) (Some (mkPop 2 [6; 7] 101 [PRef 1; PRef 0])) ].
Definition X : hist := mkHist X_heap (mkObj true [1; 2]) [mkGen 0 1 1 [0]; mkGen 1 0 0 [2; 0]] [[2]] 0 0.

Lemma X_reach : forall r, reach X r -> r < 3.
Proof.
  induction 1 as [r Hg|r Hs|c p Hc IH Hp].
  - unfold gen_member in Hg. cbn in Hg. lia.
  - unfold snap_member in Hs. cbn in Hs. lia.
  - cbn [h_heap X] in Hp. destruct c as [|[|[|c]]]; cbn in Hp; try lia.
    + destruct Hp as [Hp|[]]; inversion Hp; lia.
    + destruct Hp as [Hp|[Hp|[]]]; inversion Hp; lia.
Qed.

Lemma X_faithful : uid_faithful X.
Proof.
  intros r1 r2 H1 H2 Hu. apply X_reach in H1. apply X_reach in H2.
  destruct r1 as [|[|[|r1]]]; destruct r2 as [|[|[|r2]]]; try lia; cbn in Hu; try discriminate; reflexivity.
Qed.

Lemma X_no_str : no_str X.
Proof.
  intros c x Hc Hx. apply X_reach in Hc. cbn [h_heap X] in Hx.
  destruct c as [|[|[|c]]]; cbn in Hx; try lia.
  - destruct Hx as [<-|[]]. eexists; reflexivity.
  - destruct Hx as [<-|[<-|[]]]; eexists; reflexivity.
Qed.

Lemma X_ordered : heap_ordered (h_heap X).
Proof.
  intros r x Hx. cbn [h_heap X] in Hx. destruct r as [|[|[|r]]]; cbn in Hx.
  - destruct Hx.
  - destruct Hx as [<-|[]]. exists 0. split; [reflexivity|lia].
  - destruct Hx as [<-|[<-|[]]]; eexists; (split; [reflexivity|lia]).
  - unfold get in Hx. destruct r; cbn in Hx; destruct Hx.
Qed.

(* ------------------------------------------------------------------------------------- *)
(* the executable isomorphism check is sound                                              *)
(* ------------------------------------------------------------------------------------- *)
Lemma list_eqb_nat_eq : forall a b, list_eqb Nat.eqb a b = true -> a = b.
Proof.
  induction a as [|x s IH]; intros [|y t] H; cbn in H; try discriminate; [reflexivity|].
  apply andb_true_iff in H. destruct H as [H1 H2]. apply Nat.eqb_eq in H1. rewrite H1, (IH _ H2). reflexivity.
Qed.

Lemma opt_nat_eqb_eq : forall a b, opt_nat_eqb a b = true -> a = b.
Proof. intros [x|] [y|] H; cbn in H; try discriminate; [apply Nat.eqb_eq in H; rewrite H|]; reflexivity. Qed.

Lemma zip_prefs_sound : forall (R : nat -> nat -> Prop) xs ys l, zip_prefs xs ys = Some l ->
  (forall a b, In (a, b) l -> R a b) -> Forall2 (pref_rel R) xs ys.
Proof.
  induction xs as [|x s IH]; intros [|y t] l Hz HR; cbn in Hz; try discriminate; [constructor| |].
  - destruct x; discriminate.
  - destruct x as [a|u], y as [b|v]; try discriminate.
    + destruct (zip_prefs s t) as [l2|] eqn:E; [|discriminate]. inversion Hz; subst l.
      constructor; [cbn; apply HR; left; reflexivity|]. eapply IH; [exact E|]. intros a0 b0 H0. apply HR. right. exact H0.
    + destruct (Nat.eqb u v) eqn:E; [|discriminate]. apply Nat.eqb_eq in E. constructor; [exact E|]. eapply IH; eassumption.
Qed.

Lemma ind_match_sound : forall (R : nat -> nat -> Prop) a b more, ind_match a b = Some more ->
  (forall x y, In (x, y) more -> R x y) -> ind_rel R a b.
Proof.
  intros R a b more Hm HR. unfold ind_match in Hm.
  destruct (Nat.eqb (i_uid a) (i_uid b) && Nat.eqb (i_fit a) (i_fit b) && Nat.eqb (i_graph a) (i_graph b) &&
            Nat.eqb (i_meta a) (i_meta b) && opt_nat_eqb (i_ng a) (i_ng b)) eqn:E; [|discriminate].
  repeat (apply andb_true_iff in E; destruct E as [E ?]).
  apply Nat.eqb_eq in E. apply Nat.eqb_eq in H2. apply Nat.eqb_eq in H1. apply Nat.eqb_eq in H0. apply opt_nat_eqb_eq in H.
  unfold ind_rel. repeat split; try assumption.
  destruct (i_op a) as [p|], (i_op b) as [q|]; try discriminate; cbn [pop_rel]; [|exact I].
  destruct (Nat.eqb (p_type p) (p_type q) && list_eqb Nat.eqb (p_ops p) (p_ops q) && Nat.eqb (p_uid p) (p_uid q)) eqn:E2; [|discriminate].
  repeat (apply andb_true_iff in E2; destruct E2 as [E2 ?]).
  apply Nat.eqb_eq in E2. apply list_eqb_nat_eq in H4. apply Nat.eqb_eq in H3.
  repeat split; try assumption. eapply zip_prefs_sound; eassumption.
Qed.

Section Walk.
Variables h h' : list (ind pref).

Definition one_to_one (rel : list (nat * nat)) : Prop :=
  forall a b a' b', In (a, b) rel -> In (a', b') rel -> (a = a' <-> b = b').

Definition WInv (rel todo : list (nat * nat)) : Prop :=
  one_to_one rel /\
  forall a b, In (a, b) rel -> exists more, ind_match (get h a) (get h' b) = Some more /\
                                            forall q, In q more -> In q rel \/ In q todo.

Lemma pair_eqb_eq : forall p q, pair_eqb p q = true <-> p = q.
Proof.
  intros [a b] [c d]. unfold pair_eqb. cbn. rewrite andb_true_iff, !Nat.eqb_eq. split; [intros [-> ->]; reflexivity|intros E; inversion E; split; reflexivity].
Qed.

Lemma pair_mem_In : forall p l, pair_mem p l = true <-> In p l.
Proof.
  intros p l. unfold pair_mem. rewrite existsb_exists. split.
  - intros [q [Hq He]]. apply pair_eqb_eq in He. subst. exact Hq.
  - intros Hin. exists p. split; [exact Hin|apply pair_eqb_eq; reflexivity].
Qed.

Lemma no_clash : forall p rel, pair_clash p rel = false -> ~ In p rel ->
  forall q, In q rel -> fst p <> fst q /\ snd p <> snd q.
Proof.
  intros p rel Hc Hn q Hq. unfold pair_clash in Hc.
  assert (Hq' : ((Nat.eqb (fst p) (fst q) || Nat.eqb (snd p) (snd q)) && negb (pair_eqb p q)) = false).
  { destruct ((Nat.eqb (fst p) (fst q) || Nat.eqb (snd p) (snd q)) && negb (pair_eqb p q)) eqn:E; [|reflexivity].
    assert (existsb (fun q => (Nat.eqb (fst p) (fst q) || Nat.eqb (snd p) (snd q)) && negb (pair_eqb p q)) rel = true); [|congruence].
    apply existsb_exists. exists q. split; assumption. }
  assert (Hne : pair_eqb p q = false).
  { destruct (pair_eqb p q) eqn:E; [|reflexivity]. apply pair_eqb_eq in E. subst. contradiction. }
  rewrite Hne in Hq'. cbn in Hq'. rewrite andb_true_r in Hq'. apply orb_false_iff in Hq'. destruct Hq' as [H1 H2].
  apply Nat.eqb_neq in H1. apply Nat.eqb_neq in H2. split; assumption.
Qed.

Lemma iso_walk_sound : forall fuel todo rel R, iso_walk fuel h h' todo rel = Some R -> WInv rel todo ->
  WInv R [] /\ incl rel R /\ incl todo R.
Proof.
  induction fuel as [|k IH]; intros todo rel R Hw Hinv; cbn [iso_walk] in Hw; [discriminate|].
  destruct todo as [|p t].
  - inversion Hw; subst R. split; [exact Hinv|]. split; [apply incl_refl|intros x []].
  - destruct (pair_mem p rel) eqn:Em.
    + apply pair_mem_In in Em.
      destruct (IH t rel R Hw) as [H1 [H2 H3]].
      { destruct Hinv as [Ho Hm]. split; [exact Ho|]. intros a b Hab. destruct (Hm a b Hab) as [more [Hmm Hq]].
        exists more. split; [exact Hmm|]. intros q Hq'. destruct (Hq q Hq') as [Hl|[<-|Hr]]; [left; exact Hl|left; exact Em|right; exact Hr]. }
      split; [exact H1|]. split; [exact H2|]. intros x [<-|Hx]; [apply H2; exact Em|apply H3; exact Hx].
    + assert (Hn : ~ In p rel) by (intros Hin; apply pair_mem_In in Hin; congruence).
      destruct (pair_clash p rel) eqn:Ec; [discriminate|].
      destruct (ind_match (get h (fst p)) (get h' (snd p))) as [more|] eqn:Emt; [|discriminate].
      destruct (IH (more ++ t) (p :: rel) R Hw) as [H1 [H2 H3]].
      { destruct Hinv as [Ho Hm]. split.
        - intros a b a' b' [E1|H1] [E2|H2].
          + subst p. inversion E2; subst. split; reflexivity.
          + subst p. destruct (no_clash (a, b) rel Ec Hn (a', b') H2) as [N1 N2]. cbn in N1, N2. split; intros; contradiction.
          + subst p. destruct (no_clash (a', b') rel Ec Hn (a, b) H1) as [N1 N2]. cbn in N1, N2. split; intros E; symmetry in E; contradiction.
          + apply Ho; assumption.
        - intros a b [E1|Hab].
          + subst p. cbn [fst snd] in Emt. exists more. split; [exact Emt|]. intros q Hq. right. apply in_or_app. left. exact Hq.
          + destruct (Hm a b Hab) as [more2 [Hmm Hq]]. exists more2. split; [exact Hmm|].
            intros q Hq'. destruct (Hq q Hq') as [Hl|[<-|Hr]]; [left; right; exact Hl|left; left; reflexivity|right; apply in_or_app; right; exact Hr]. }
      split; [exact H1|]. split; [intros x Hx; apply H2; right; exact Hx|].
      intros x [<-|Hx]; [apply H2; left; reflexivity|apply H3; apply in_or_app; right; exact Hx].
Qed.

End Walk.

Lemma zip_refs_sound : forall (R : nat -> nat -> Prop) xs ys l, zip_refs xs ys = Some l ->
  (forall a b, In (a, b) l -> R a b) -> Forall2 R xs ys.
Proof.
  induction xs as [|x s IH]; intros [|y t] l Hz HR; cbn in Hz; try discriminate; [constructor|].
  destruct (zip_refs s t) as [l2|] eqn:E; [|discriminate]. inversion Hz; subst l.
  constructor; [apply HR; left; reflexivity|]. eapply IH; [exact E|]. intros a b H0. apply HR. right. exact H0.
Qed.

Lemma zip_lists_sound : forall (R : nat -> nat -> Prop) xs ys l, zip_lists xs ys = Some l ->
  (forall a b, In (a, b) l -> R a b) -> Forall2 (Forall2 R) xs ys.
Proof.
  induction xs as [|x s IH]; intros [|y t] l Hz HR; cbn in Hz; try discriminate; [constructor|].
  destruct (zip_refs x y) as [l1|] eqn:E1; [|discriminate]. destruct (zip_lists s t) as [l2|] eqn:E2; [|discriminate].
  inversion Hz; subst l. constructor.
  - eapply zip_refs_sound; [exact E1|]. intros a b H0. apply HR. apply in_or_app. left. exact H0.
  - eapply IH; [exact E2|]. intros a b H0. apply HR. apply in_or_app. right. exact H0.
Qed.

Lemma gens_rel_of : forall (R : nat -> nat -> Prop) gs gs', gens_hdr_eqb gs gs' = true ->
  Forall2 (Forall2 R) (map g_members gs) (map g_members gs') -> Forall2 (gen_rel R) gs gs'.
Proof.
  induction gs as [|g s IH]; intros [|g' t] Hh HF; cbn in Hh; try discriminate; [constructor|].
  cbn [map] in HF. inversion HF; subst.
  repeat (apply andb_true_iff in Hh; destruct Hh as [Hh ?]).
  apply Nat.eqb_eq in Hh. apply Nat.eqb_eq in H1. apply Nat.eqb_eq in H0.
  constructor; [unfold gen_rel; repeat split; assumption|apply IH; assumption].
Qed.

Lemma obj_eqb_eq : forall a b, obj_eqb a b = true -> a = b.
Proof.
  intros [m1 n1] [m2 n2] H. unfold obj_eqb in H. cbn in H. apply andb_true_iff in H. destruct H as [H1 H2].
  apply eqb_prop in H1. apply list_eqb_nat_eq in H2. subst. reflexivity.
Qed.

(* what the driver's oracle accepts is an isomorphism in the sense of the theorems *)
Theorem iso_b_sound : forall H H', iso_b H H' = true -> iso H H'.
Proof.
  intros H H' Hb. unfold iso_b in Hb.
  apply andb_true_iff in Hb. destruct Hb as [Hb Hwalk].
  apply andb_true_iff in Hb. destruct Hb as [Hb Hhdr].
  apply andb_true_iff in Hb. destruct Hb as [Hb Hdir].
  apply andb_true_iff in Hb. destruct Hb as [Hb Htun].
  destruct (zip_lists (map g_members (h_gens H)) (map g_members (h_gens H'))) as [l1|] eqn:E1; [|discriminate].
  destruct (zip_lists (h_snaps H) (h_snaps H')) as [l2|] eqn:E2; [|discriminate].
  destruct (iso_walk _ (h_heap H) (h_heap H') (l1 ++ l2) []) as [R|] eqn:Ew; [|discriminate].
  destruct (iso_walk_sound _ _ _ _ _ _ Ew) as [[Ho Hm] [_ Hincl]].
  { split; [intros a b a' b' []|intros a b []]. }
  exists (fun a b => In (a, b) R). constructor.
  - apply obj_eqb_eq. exact Hb.
  - apply Nat.eqb_eq. exact Htun.
  - apply Nat.eqb_eq. exact Hdir.
  - apply gens_rel_of; [exact Hhdr|]. eapply zip_lists_sound; [exact E1|]. intros a b Hab. apply Hincl. apply in_or_app. left. exact Hab.
  - eapply zip_lists_sound; [exact E2|]. intros a b Hab. apply Hincl. apply in_or_app. right. exact Hab.
  - intros r r' Hr. destruct (Hm r r' Hr) as [more [Hmm Hq]]. eapply ind_match_sound; [exact Hmm|].
    intros x y Hxy. destruct (Hq (x, y) Hxy) as [Hl|[]]. exact Hl.
  - intros r r1 r2 H1 H2. apply (Ho r r1 r r2 H1 H2). reflexivity.
  - intros r1 r2 r' H1 H2. apply (Ho r1 r' r2 r' H1 H2). reflexivity.
Qed.
