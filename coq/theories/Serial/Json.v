(* JSON trees (property C10 / C11).  The codecs are modelled between in-memory objects and JSON
   *trees*; the text layer (json.dumps / json.loads of CPython: key order = dict order, float
   printing) is trusted and compared textually by the harness.

   Numbers are exact rationals.  The codecs only copy numbers, they never compute with them,
   so equality of trees is plain (Leibniz) equality: `json_eqb a b = true <-> a = b`.
   (The harness prints every number as a reduced fraction.)  Definitions + the reflection
   lemma of the equality test only. *)
From Coq Require Import List String ZArith QArith Bool DecimalString.
Import ListNotations.
Local Open Scope string_scope.

Inductive json :=
| JNull
| JBool (b : bool)
| JNum (q : Q)
| JStr (s : string)
| JArr (l : list json)
| JObj (kv : list (string * json)).

(* ---------------------------------------------------------------- induction principle *)
Section JsonInd.
  Variable P : json -> Prop.
  Hypothesis HNull : P JNull.
  Hypothesis HBool : forall b, P (JBool b).
  Hypothesis HNum : forall q, P (JNum q).
  Hypothesis HStr : forall s, P (JStr s).
  Hypothesis HArr : forall l, Forall P l -> P (JArr l).
  Hypothesis HObj : forall kv, Forall (fun p => P (snd p)) kv -> P (JObj kv).

  Fixpoint json_ind' (j : json) : P j :=
    match j with
    | JNull => HNull
    | JBool b => HBool b
    | JNum q => HNum q
    | JStr s => HStr s
    | JArr l => HArr l ((fix go (l : list json) : Forall P l :=
                           match l with
                           | [] => Forall_nil _
                           | x :: t => Forall_cons x (json_ind' x) (go t)
                           end) l)
    | JObj kv => HObj kv ((fix go (l : list (string * json)) : Forall (fun p => P (snd p)) l :=
                             match l with
                             | [] => Forall_nil _
                             | x :: t => Forall_cons x (json_ind' (snd x)) (go t)
                             end) kv)
    end.
End JsonInd.

(* ---------------------------------------------------------------- equality test *)
Definition Q_eqb (p q : Q) : bool := Z.eqb (Qnum p) (Qnum q) && Pos.eqb (Qden p) (Qden q).

Fixpoint json_eqb (a b : json) {struct a} : bool :=
  match a, b with
  | JNull, JNull => true
  | JBool x, JBool y => Bool.eqb x y
  | JNum p, JNum q => Q_eqb p q
  | JStr s, JStr t => String.eqb s t
  | JArr l, JArr m =>
      (fix go (l m : list json) {struct l} : bool :=
         match l, m with
         | [], [] => true
         | x :: l', y :: m' => json_eqb x y && go l' m'
         | _, _ => false
         end) l m
  | JObj l, JObj m =>
      (fix go (l m : list (string * json)) {struct l} : bool :=
         match l, m with
         | [], [] => true
         | x :: l', y :: m' => String.eqb (fst x) (fst y) && json_eqb (snd x) (snd y) && go l' m'
         | _, _ => false
         end) l m
  | _, _ => false
  end.

Fixpoint list_eqb {A} (e : A -> A -> bool) (l m : list A) : bool :=
  match l, m with
  | [], [] => true
  | x :: l', y :: m' => e x y && list_eqb e l' m'
  | _, _ => false
  end.

Definition kv_eqb (x y : string * json) : bool := String.eqb (fst x) (fst y) && json_eqb (snd x) (snd y).

Lemma Q_eqb_eq : forall p q, Q_eqb p q = true <-> p = q.
Proof.
  intros [a b] [c d]. unfold Q_eqb. simpl. rewrite andb_true_iff, Z.eqb_eq, Pos.eqb_eq. split.
  - intros [-> ->]. reflexivity.
  - intros E. inversion E. auto.
Qed.

Lemma json_eqb_eq : forall a b, json_eqb a b = true <-> a = b.
Proof.
  induction a using json_ind'; intros c; destruct c; simpl; try (split; [discriminate|discriminate]);
    try (split; reflexivity).
  - rewrite Bool.eqb_true_iff. split; [intros ->; reflexivity|intros E; inversion E; reflexivity].
  - rewrite Q_eqb_eq. split; [intros ->; reflexivity|intros E; inversion E; reflexivity].
  - rewrite String.eqb_eq. split; [intros ->; reflexivity|intros E; inversion E; reflexivity].
  - revert l0. induction H as [|x t Hx Ht IH]; intros [|y m]; try (split; [discriminate|discriminate]).
    + split; reflexivity.
    + rewrite andb_true_iff, Hx, IH. split.
      * intros [-> E]. inversion E. reflexivity.
      * intros E. inversion E. split; reflexivity.
  - revert kv0. induction H as [|x t Hx Ht IH]; intros [|y m]; try (split; [discriminate|discriminate]).
    + split; reflexivity.
    + rewrite !andb_true_iff, String.eqb_eq, Hx, IH. destruct x as [k v], y as [k' v']. simpl. split.
      * intros [[-> ->] E]. inversion E. reflexivity.
      * intros E. inversion E. repeat split; reflexivity.
Qed.

Lemma json_eqb_refl : forall a, json_eqb a a = true.
Proof. intros. apply json_eqb_eq. reflexivity. Qed.

Definition json_eq_dec (a b : json) : {a = b} + {a <> b}.
Proof.
  destruct (json_eqb a b) eqn:E.
  - left. apply json_eqb_eq. exact E.
  - right. intros H. apply json_eqb_eq in H. congruence.
Defined.

Lemma list_eqb_eq : forall {A} (e : A -> A -> bool), (forall x y, e x y = true <-> x = y) ->
  forall l m, list_eqb e l m = true <-> l = m.
Proof.
  intros A e He. induction l as [|x t IH]; intros [|y m]; simpl; try (split; [discriminate|discriminate]).
  - split; reflexivity.
  - rewrite andb_true_iff, He, IH. split.
    + intros [-> ->]. reflexivity.
    + intros E. inversion E. split; reflexivity.
Qed.

Lemma kv_eqb_eq : forall x y, kv_eqb x y = true <-> x = y.
Proof.
  intros [k v] [k' v']. unfold kv_eqb. simpl. rewrite andb_true_iff, String.eqb_eq, json_eqb_eq. split.
  - intros [-> ->]. reflexivity.
  - intros E. inversion E. split; reflexivity.
Qed.

(* ---------------------------------------------------------------- python dict primitives *)
(* d.get(k) on an insertion-ordered dict (keys are unique) *)
Fixpoint lookup (k : string) (kv : list (string * json)) : option json :=
  match kv with
  | [] => None
  | (k', v) :: t => if String.eqb k k' then Some v else lookup k t
  end.

(* {**d, k: v}: an existing key keeps its position, a new key goes last *)
Fixpoint assoc_set (k : string) (v : json) (kv : list (string * json)) : list (string * json) :=
  match kv with
  | [] => [(k, v)]
  | (k', v') :: t => if String.eqb k k' then (k, v) :: t else (k', v') :: assoc_set k v t
  end.

Definition has_key (k : string) (kv : list (string * json)) : bool :=
  match lookup k kv with Some _ => true | None => false end.

(* str(int) *)
Definition zstr (z : Z) : string := NilZero.string_of_int (Z.to_int z).

(* str(x) for the JSON-like python values that can stand in a node's `name`: a string is
   itself, an int its decimal form, None is "None", a bool "True"/"False".  Other values
   (floats, containers: their text is CPython's repr) are not modelled. *)
Definition py_str (j : json) : option string :=
  match j with
  | JStr s => Some s
  | JNull => Some "None"
  | JBool true => Some "True"
  | JBool false => Some "False"
  | JNum q => if Pos.eqb (Qden q) 1 then Some (zstr (Qnum q)) else None
  | _ => None
  end.
