(* Model of golem/core/tuning: tuner_interface.py (BaseTuner.tune, init_check, final_check,
   _single_obj_final_check, _multi_obj_final_check, get_metric_value, set_arg_graph,
   set_arg_node, _check_if_tuning_possible), search_space.py (labels, convert_parameters),
   simultaneous.py, sequential.py, optuna_tuner.py, iopt_tuner.py and the `parameters`
   property of LinkedGraphNode.  Definitions only (proofs: TunerProofs.v).

   hyperopt / optuna / iOpt are ARBITRARY PROPOSERS: a proposer is the sequence of labelled
   parameter assignments the library asks the tuner to evaluate, plus the assignment(s) it
   finally declares best (and, for the sequential tuner, the loss it reports per node).
   The adapter is the identity adapter; the time budget is abstracted to two booleans. *)
From Coq Require Import List Bool String Ascii Arith ZArith QArith Qabs Qround.
From Coq Require Import DecimalString.
From GolemV Require Fitness.Fitness.
Import ListNotations.
Local Open Scope string_scope.

(* ---------------------------------------------------------------------------------- *)
(* parameter values and python dicts (insertion ordered association lists)             *)
(* ---------------------------------------------------------------------------------- *)
Inductive value := VNone | VInt (z : Z) | VNum (q : Q) | VStr (s : string).

(* identity of printed values (used to compare model and observation) *)
Definition value_eqb (a b : value) : bool :=
  match a, b with
  | VNone, VNone => true
  | VInt x, VInt y => Z.eqb x y
  | VNum x, VNum y => Qeq_bool x y
  | VStr x, VStr y => String.eqb x y
  | _, _ => false
  end.

(* python == on these values (2 == 2.0) *)
Definition value_pyeq (a b : value) : bool :=
  match a, b with
  | VInt x, VNum y => Qeq_bool (inject_Z x) y
  | VNum x, VInt y => Qeq_bool x (inject_Z y)
  | _, _ => value_eqb a b
  end.

Definition opt_value_eqb (a b : option value) : bool :=
  match a, b with
  | None, None => true
  | Some x, Some y => value_eqb x y
  | _, _ => false
  end.

Definition dict := list (string * value).

Fixpoint dget (d : dict) (k : string) : option value :=
  match d with
  | [] => None
  | (k', v) :: t => if String.eqb k' k then Some v else dget t k
  end.

(* d[k] = v : an existing key keeps its position *)
Fixpoint dset (d : dict) (k : string) (v : value) : dict :=
  match d with
  | [] => [(k, v)]
  | (k', v') :: t => if String.eqb k' k then (k', v) :: t else (k', v') :: dset t k v
  end.

(* d.update(new) *)
Definition dupdate (d new : dict) : dict :=
  fold_left (fun acc kv => dset acc (fst kv) (snd kv)) new d.

Definition dkeys (d : dict) : list string := map fst d.

(* python dict equality (order of insertion is not observable through ==) *)
Definition dict_sub (a b : dict) : bool :=
  forallb (fun kv => opt_value_eqb (dget a (fst kv)) (dget b (fst kv))) a.
Definition dict_eqb (a b : dict) : bool := dict_sub a b && dict_sub b a.

(* ---------------------------------------------------------------------------------- *)
(* graphs: graph.nodes as a list; a node is addressed by its position (node_id)        *)
(* ---------------------------------------------------------------------------------- *)
Record node := mkNode {
  uid : nat;                 (* canonical renaming of the uuid; deepcopy keeps it *)
  name : string;             (* str(content['name']) *)
  params : dict;             (* content.get('params', {}) *)
  parents : list nat         (* uids of nodes_from, in order *)
}.

Definition graph := list node.

Definition with_params (n : node) (p : dict) : node :=
  {| uid := uid n; name := name n; params := p; parents := parents n |}.

(* LinkedGraphNode.parameters setter:
     if self.content.get('params'): self.content['params'].update(new) else: self.content['params'] = new *)
Definition set_parameters (n : node) (newp : dict) : node :=
  match params n with
  | [] => with_params n newp
  | _ :: _ => with_params n (dupdate (params n) newp)
  end.

Fixpoint mapi_from {A B} (f : nat -> A -> B) (i : nat) (l : list A) : list B :=
  match l with
  | [] => []
  | a :: t => f i a :: mapi_from f (S i) t
  end.
Definition mapi {A B} (f : nat -> A -> B) (l : list A) : list B := mapi_from f 0 l.

(* ---------------------------------------------------------------------------------- *)
(* labels  "{node_id} || {operation} | {parameter}"  (search_space.py)                 *)
(* ---------------------------------------------------------------------------------- *)
Definition nat_str (n : nat) : string := NilEmpty.string_of_uint (Nat.to_uint n).

(* f'{str(node_id)} || {node.name}' : the prefix set_arg_graph matches keys against *)
Definition node_prefix (i : nat) (nm : string) : string := nat_str i ++ " || " ++ nm.

(* get_node_operation_parameter_label *)
Definition make_label (i : nat) (nm p : string) : string :=
  nat_str i ++ " || " ++ (nm ++ " | " ++ p).

Definition sep : string := " | ".

(* label.split(' | ')[-1] : python's left-to-right non-overlapping scan.  `skip` counts the
   characters of a matched separator still to be consumed; `piece` is the text after the
   last separator found so far. *)
Fixpoint split_last_aux (s : string) (skip : nat) (piece : string) : string :=
  match s with
  | EmptyString => piece
  | String _ s' =>
      match skip with
      | S k => split_last_aux s' k (match k with O => s' | S _ => piece end)
      | O => if prefix sep s then split_last_aux s' 2 piece else split_last_aux s' 0 piece
      end
  end.
Definition split_last (s : string) : string := split_last_aux s 0 s.

(* convert_parameters: strip the labels; None values are dropped *)
Definition convert_parameters (labelled : dict) : dict :=
  fold_left (fun acc kv => match snd kv with
                           | VNone => acc
                           | v => dset acc (split_last (fst kv)) v
                           end) labelled [].

(* BaseTuner.set_arg_node: graph.nodes[node_id].parameters = convert_parameters(node_params)
   (node_id always comes from range(len(graph.nodes))) *)
Definition set_arg_node (g : graph) (node_id : nat) (node_params : dict) : graph :=
  mapi (fun j n => if Nat.eqb j node_id then set_parameters n (convert_parameters node_params) else n) g.

(* BaseTuner.set_arg_graph: per node, the keys that START WITH the node's prefix *)
Definition node_keys (i : nat) (nm : string) (labelled : dict) : dict :=
  filter (fun kv => prefix (node_prefix i nm) (fst kv)) labelled.

Definition set_arg_graph (g : graph) (labelled : dict) : graph :=
  mapi (fun i n => set_parameters n (convert_parameters (node_keys i (name n) labelled))) g.

(* ---------------------------------------------------------------------------------- *)
(* search space                                                                        *)
(* ---------------------------------------------------------------------------------- *)
Inductive ptype :=
| Discrete (lo hi : Z)               (* 'type': 'discrete', sampling-scope [lo, hi] *)
| Continuous (lo hi : Q)             (* 'type': 'continuous' (uniform or log-uniform) *)
| Categorical (choices : list value).

Definition opspace := list (string * ptype).
Definition space := list (string * opspace).

Fixpoint assoc {A} (l : list (string * A)) (k : string) : option A :=
  match l with
  | [] => None
  | (k', a) :: t => if String.eqb k' k then Some a else assoc t k
  end.

(* search_space.parameters_per_operation.get(name, {}) *)
Definition space_params (sp : space) (nm : string) : opspace :=
  match assoc sp nm with Some l => l | None => [] end.

Definition space_type (sp : space) (nm p : string) : option ptype := assoc (space_params sp nm) p.

Definition in_space (sp : space) (nm p : string) : bool :=
  match space_type sp nm p with Some _ => true | None => false end.

Definition Qint (q : Q) : bool := Qeq_bool q (inject_Z (Qfloor q)).

(* the value lies inside the declared range / choice set *)
Definition in_range (ty : ptype) (v : value) : bool :=
  match ty, v with
  | Discrete lo hi, VInt z => Z.leb lo z && Z.leb z hi
  | Discrete lo hi, VNum q => Qint q && Z.leb lo (Qfloor q) && Z.leb (Qfloor q) hi
  | Continuous lo hi, VNum q => Qle_bool lo q && Qle_bool q hi
  | Continuous lo hi, VInt z => Qle_bool lo (inject_Z z) && Qle_bool (inject_Z z) hi
  | Categorical cs, _ => existsb (value_pyeq v) cs
  | _, _ => false
  end.

(* ---------------------------------------------------------------------------------- *)
(* objective, metric values                                                            *)
(* ---------------------------------------------------------------------------------- *)
(* what the objective returns on a graph *)
Inductive fitness :=
| FInvalid                      (* null_fitness(): SingleObjFitness(None), also for multi-objective objectives *)
| FSingle (q : Q)
| FMulti (l : list Q).

(* what get_metric_value returns *)
Inductive metric :=
| MInf                          (* MAX_TUNING_METRIC_VALUE = numpy.inf *)
| MFin (q : Q)
| MVec (l : list Q).

Definition metric_of (f : fitness) : metric :=
  match f with FInvalid => MInf | FSingle q => MFin q | FMulti l => MVec l end.

(* float <= on scalars (a tuple is never compared this way on a path that returns) *)
Definition metric_le (a b : metric) : bool :=
  match a, b with
  | MFin x, MFin y => Qle_bool x y
  | MFin _, MInf => true
  | MInf, MInf => true
  | _, _ => false
  end.

Fixpoint Qlist_eqb (a b : list Q) : bool :=
  match a, b with
  | [], [] => true
  | x :: a', y :: b' => Qeq_bool x y && Qlist_eqb a' b'
  | _, _ => false
  end.

Definition metric_eqb (a b : metric) : bool :=
  match a, b with
  | MInf, MInf => true
  | MFin x, MFin y => Qeq_bool x y
  | MVec x, MVec y => Qlist_eqb x y
  | _, _ => false
  end.

(* len(ensure_wrapped_in_sequence(metric)) *)
Definition metric_len (m : metric) : nat := match m with MVec l => List.length l | _ => 1%nat end.

(* tuner.obtained_metric after tune() *)
Inductive reported :=
| RNone                          (* None *)
| RMetric (m : metric)
| RList (l : list metric).       (* multi-objective: one entry per returned graph *)

Fixpoint metrics_eqb (a b : list metric) : bool :=
  match a, b with
  | [], [] => true
  | x :: a', y :: b' => metric_eqb x y && metrics_eqb a' b'
  | _, _ => false
  end.

Definition reported_eqb (a b : reported) : bool :=
  match a, b with
  | RNone, RNone => true
  | RMetric x, RMetric y => metric_eqb x y
  | RList x, RList y => metrics_eqb x y
  | _, _ => false
  end.

(* ---------------------------------------------------------------------------------- *)
(* exceptions are values                                                               *)
(* ---------------------------------------------------------------------------------- *)
Inductive exn := ValueError | TypeError | IndexError | LibraryError.
Inductive res (A : Type) := Ok (a : A) | Raise (e : exn).
Arguments Ok {A} a.
Arguments Raise {A} e.

(* ---------------------------------------------------------------------------------- *)
(* configuration and proposers                                                         *)
(* ---------------------------------------------------------------------------------- *)
Inductive tuner_kind := Simultaneous | Sequential (inverse_node_order : bool) | Optuna | IOpt.

Record config := mkConfig {
  c_kind : tuner_kind;
  c_dev : Q;                    (* deviation, in percent *)
  c_time_left : bool            (* remaining_time > MIN_TIME_FOR_TUNING_IN_SEC when _tune starts *)
}.

(* one node step of the sequential tuner as seen from hyperopt *)
Record seq_step := mkStep {
  st_trials : list dict;        (* assignments evaluated for the node, in order *)
  st_best : dict;               (* space_eval(trials.argmin) (+ fixed initial parameters) *)
  st_loss : metric              (* trials.best_trial['result']['loss'] *)
}.

Record proposer := mkProposer {
  p_trials : list dict;         (* graph-level tuners: assignments evaluated, in order *)
  p_final : option dict;        (* single objective: the assignment declared best *)
  p_bests : list dict;          (* multi-objective: the assignments on the library's front *)
  p_steps : list seq_step       (* sequential tuner: one step per tunable node *)
}.

Inductive tuned := TOne (g : graph) | TMany (gs : list graph).

(* what tune() leaves behind *)
Record outcome := mkOutcome {
  out_multi : bool;             (* a sequence of graphs was returned *)
  out_graphs : list graph;      (* the returned graph(s) *)
  out_init_metric : metric;     (* tuner.init_metric *)
  out_reported : reported       (* tuner.obtained_metric *)
}.

Definition is_nil {A} (l : list A) : bool := match l with [] => true | _ => false end.

Section Tune.
  Variable obj : graph -> fitness.      (* deterministic objective *)
  Variable sp : space.
  Variable cfg : config.

  (* get_metric_value *)
  Definition gmv (g : graph) : metric := metric_of (obj g).

  Definition tunable (n : node) : bool := negb (is_nil (space_params sp (name n))).
  Definition has_params (g : graph) : bool := existsb tunable g.

  Definition is_multi (m : metric) : bool := Nat.ltb 1 (metric_len m).

  (* _check_if_tuning_possible *)
  Definition check_possible (supports_multi parameters_to_optimize passes_time : bool) (init : metric) : bool :=
    if is_multi init && negb supports_multi then false
    else if negb parameters_to_optimize then false
    else if passes_time then c_time_left cfg
    else true.

  (* ---- SimultaneousTuner._tune ---- *)
  (* the trials mutate the graph in place; a tuple-valued loss makes hyperopt raise, which the
     try/except of _tune swallows (the graph stays as the failing trial left it) *)
  Fixpoint sim_trials (g : graph) (ts : list dict) : graph * bool :=
    match ts with
    | [] => (g, false)
    | d :: ts' =>
        let g' := set_arg_graph g d in
        match gmv g' with
        | MVec _ => (g', true)
        | _ => sim_trials g' ts'
        end
    end.

  Definition tune_simultaneous (p : proposer) (init : metric) (g : graph) : res tuned :=
    if check_possible false (has_params g) true init then
      let (g1, aborted) := sim_trials g (p_trials p) in
      if aborted then Ok (TOne g1)
      else match p_final p with
           | Some d => Ok (TOne (set_arg_graph g1 d))
           | None => Ok (TOne g1)                     (* exception inside the try *)
           end
    else Ok (TOne g).

  (* ---- SequentialTuner._tune ---- *)
  Fixpoint seq_node_trials (g : graph) (i : nat) (ts : list dict) : res graph :=
    match ts with
    | [] => Ok g
    | d :: ts' =>
        let g' := set_arg_node g i d in
        match gmv g' with
        | MVec _ => Raise TypeError                  (* hyperopt: dict(rval) on a tuple *)
        | _ => seq_node_trials g' i ts'
        end
    end.

  Record seq_state := mkSeq { ss_graph : graph; ss_final : graph; ss_best : metric }.

  Fixpoint seq_loop (order : list nat) (steps : list seq_step) (st : seq_state) : res graph :=
    match order with
    | [] => Ok (ss_final st)
    | i :: order' =>
        match nth_error (ss_graph st) i with
        | None => Raise IndexError
        | Some n =>
            if negb (tunable n) then seq_loop order' steps st
            else match steps with
                 | [] => Raise LibraryError                     (* hyperopt without a trial *)
                 | s :: steps' =>
                     match seq_node_trials (ss_graph st) i (st_trials s) with
                     | Raise e => Raise e
                     | Ok g1 =>
                         let g2 := set_arg_node g1 i (st_best s) in
                         let adopt := metric_le (st_loss s) (ss_best st) in      (* metric <= best_metric *)
                         seq_loop order' steps'
                           {| ss_graph := g2;
                              ss_final := if adopt then g2 else ss_final st;     (* deepcopy(graph) *)
                              ss_best := if adopt then st_loss s else ss_best st |}
                     end
                 end
        end
    end.

  Definition nodes_order (inverse : bool) (n : nat) : list nat :=
    if inverse then rev (seq 0 n) else seq 0 n.

  Definition tune_sequential (inverse : bool) (p : proposer) (init : metric) (g : graph) : res tuned :=
    (* graph.length > 0 and self._check_if_tuning_possible(graph, parameters_to_optimize=True, ...) *)
    if negb (is_nil g) && check_possible false true true init then
      match seq_loop (nodes_order inverse (List.length g)) (p_steps p)
                     {| ss_graph := g; ss_final := g; ss_best := init |} with
      | Ok fg => Ok (TOne fg)
      | Raise e => Raise e
      end
    else Ok (TOne g).

  (* ---- OptunaTuner._tune / IOptTuner._tune ---- *)
  (* a trial whose number of values differs from the number of objectives fails inside optuna *)
  Definition values_match (k : nat) (m : metric) : bool :=
    match m with MVec l => Nat.eqb (List.length l) k | _ => Nat.eqb k 1 end.

  Fixpoint lib_trials (k : nat) (g : graph) (ts : list dict) (some_ok : bool) : graph * bool :=
    match ts with
    | [] => (g, some_ok)
    | d :: ts' => let g' := set_arg_graph g d in lib_trials k g' ts' (some_ok || values_match k (gmv g'))
    end.

  Definition is_continuous (ty : ptype) : bool := match ty with Continuous _ _ => true | _ => false end.

  (* iOpt: "Must have at least one float variable" *)
  Definition has_float (g : graph) : bool :=
    existsb (fun n => existsb (fun pt => is_continuous (snd pt)) (space_params sp (name n))) g.

  Definition tune_lib (is_optuna : bool) (p : proposer) (init : metric) (g : graph) : res tuned :=
    let k := metric_len init in
    if check_possible true (has_params g) is_optuna init then
      if negb is_optuna && negb (has_float g) then Raise LibraryError
      else
        let (g1, some_ok) := lib_trials k g (p_trials p) false in
        if Nat.ltb 1 k then Ok (TMany (map (set_arg_graph g1) (p_bests p)))     (* deepcopy(graph) per best trial *)
        else if is_optuna && negb some_ok then Raise IndexError                  (* study.best_trials[0] *)
        else match p_final p with
             | Some d => Ok (TOne (set_arg_graph g1 d))
             | None => Raise IndexError
             end
    else if Nat.ltb 1 k then Ok (TMany [g])           (* tuned_graphs = [graph] if is_multi_objective else graph *)
    else Ok (TOne g).

  Definition run_tune (p : proposer) (init : metric) (g : graph) : res tuned :=
    match c_kind cfg with
    | Simultaneous => tune_simultaneous p init g
    | Sequential inv => tune_sequential inv p init g
    | Optuna => tune_lib true p init g
    | IOpt => tune_lib false p init g
    end.

  (* ---- final_check ---- *)
  (* init_metric + (init_metric / 100 * deviation) * (-sign(init_metric)) *)
  Definition threshold (init : Q) : Q := init - Qabs init * c_dev cfg / 100.

  (* _single_obj_final_check: returns (final graph, obtained_metric) *)
  Definition single_final_check (init_graph : graph) (init : metric) (tg : graph) : res (graph * reported) :=
    match gmv tg, init with
    | MVec _, _ => Raise ValueError                   (* numpy.isclose on a tuple / tuple <= float *)
    | _, MVec _ => Raise TypeError                    (* tuple / 100.0 *)
    | MInf, _ => Ok (init_graph, RMetric init)        (* obtained_metric is None -> final_metric = init_metric *)
    | MFin o, MInf => Ok (init_graph, RMetric MInf)   (* threshold is nan: every comparison is False *)
    | MFin o, MFin i =>
        if Qle_bool o (threshold i) then Ok (tg, RMetric (MFin o))
        else Ok (init_graph, RMetric (MFin i))
    end.

  (* _multi_obj_final_check *)
  Fixpoint multi_filter (iv : list Q) (tgs : list graph) : res (list (graph * metric)) :=
    match tgs with
    | [] => Ok []
    | tg :: rest =>
        match gmv tg with
        | MVec ov =>
            match multi_filter iv rest with
            | Raise e => Raise e
            | Ok kept => if Fitness.dominates_loop false iv ov then Ok kept else Ok ((tg, MVec ov) :: kept)
            end
        | _ => multi_filter iv rest                   (* objective invalid on this graph: skipped *)
        end
    end.

  Definition multi_final_check (init_graph : graph) (init : metric) (tgs : list graph)
    : res (list graph * reported) :=
    match init with
    | MVec iv =>
        match multi_filter iv tgs with
        | Raise e => Raise e
        | Ok [] => Ok ([init_graph], RList [init])
        | Ok kept => Ok (map fst kept, RList (map snd kept))
        end
    | _ => Raise TypeError
    end.

  (* self.objectives_number > 1 : only OptunaTuner / IOptTuner ever set objectives_number *)
  Definition multi_mode (init : metric) : bool :=
    match c_kind cfg with
    | Optuna | IOpt => is_multi init
    | _ => false
    end.

  (* BaseTuner.tune with the identity adapter *)
  Definition tune (p : proposer) (g : graph) : res outcome :=
    let init_graph := g in                            (* deepcopy(graph) *)
    let init := gmv init_graph in
    match run_tune p init g with
    | Raise e => Raise e
    | Ok t =>
        if multi_mode init then
          match t with
          | TOne _ => Raise TypeError                 (* unreachable: multi mode always builds a list *)
          | TMany tgs =>
              match multi_final_check init_graph init tgs with
              | Raise e => Raise e
              | Ok (fgs, r) =>
                  Ok {| out_multi := true; out_graphs := fgs; out_init_metric := init; out_reported := r |}
              end
          end
        else
          match t with
          | TMany _ => Raise TypeError                (* unreachable: a list is built only in multi mode *)
          | TOne tg =>
              match single_final_check init_graph init tg with
              | Raise e => Raise e
              | Ok (fg, r) =>
                  Ok {| out_multi := false; out_graphs := [fg]; out_init_metric := init; out_reported := r |}
              end
          end
    end.

  (* SequentialTuner.tune_node(graph, node_index): its own init_check -> _optimize_node -> final_check flow;
     needs MORE THAN ONE search-space parameter on the node (len(node_params) > 1); when tuning is not
     possible the graph is returned and obtained_metric = init_metric without a final check *)
  Definition tune_node (p : proposer) (i : nat) (g : graph) : res outcome :=
    let init := gmv g in
    match nth_error g i with
    | None => Raise IndexError
    | Some n =>
        if check_possible false (Nat.ltb 1 (List.length (space_params sp (name n)))) true init then
          match p_steps p with
          | [] => Raise LibraryError
          | s :: _ =>
              match seq_node_trials g i (st_trials s) with
              | Raise e => Raise e
              | Ok g1 =>
                  match single_final_check g init (set_arg_node g1 i (st_best s)) with
                  | Raise e => Raise e
                  | Ok (fg, r) =>
                      Ok {| out_multi := false; out_graphs := [fg]; out_init_metric := init; out_reported := r |}
                  end
              end
          end
        else Ok {| out_multi := false; out_graphs := [g]; out_init_metric := init; out_reported := RMetric init |}
    end.

  (* the public entry points *)
  Inductive entry := ETune | ETuneNode (node_index : nat).

  Definition run_entry (e : entry) (p : proposer) (g : graph) : res outcome :=
    match e with ETune => tune p g | ETuneNode i => tune_node p i g end.
End Tune.

(* ---------------------------------------------------------------------------------- *)
(* correspondence: objective given as the table of logged evaluations                  *)
(* ---------------------------------------------------------------------------------- *)
Fixpoint params_list_eqb (a b : list dict) : bool :=
  match a, b with
  | [], [] => true
  | x :: a', y :: b' => dict_eqb x y && params_list_eqb a' b'
  | _, _ => false
  end.

Definition table := list (list dict * fitness).

Fixpoint table_lookup (t : table) (ps : list dict) : fitness :=
  match t with
  | [] => FInvalid
  | (k, f) :: t' => if params_list_eqb k ps then f else table_lookup t' ps
  end.

(* a deterministic objective is a function of the parameter assignment of the (fixed) structure *)
Definition table_obj (t : table) (g : graph) : fitness := table_lookup t (map params g).

Definition skel (n : node) : nat * string * list nat := (uid n, name n, parents n).

Definition skel_eqb (a b : node) : bool :=
  Nat.eqb (uid a) (uid b) && String.eqb (name a) (name b) &&
  (Nat.eqb (List.length (parents a)) (List.length (parents b)) &&
   forallb (fun xy => Nat.eqb (fst xy) (snd xy)) (combine (parents a) (parents b))).

Fixpoint forallb2 {A B} (f : A -> B -> bool) (a : list A) (b : list B) : bool :=
  match a, b with
  | [], [] => true
  | x :: a', y :: b' => f x y && forallb2 f a' b'
  | _, _ => false
  end.

(* same nodes (uids, order of graph.nodes), names and edges *)
Definition same_structure_b (g g' : graph) : bool := forallb2 skel_eqb g g'.

Definition node_eqb (a b : node) : bool := skel_eqb a b && dict_eqb (params a) (params b).
Definition graph_eqb (g g' : graph) : bool := forallb2 node_eqb g g'.

(* what the harness observed on the implementation *)
Record observed := mkObserved {
  ob_raised : bool;              (* tune() raised *)
  ob_multi : bool;               (* tune() returned a sequence *)
  ob_graphs : list graph;        (* returned graph(s) *)
  ob_init_metric : metric;       (* tuner.init_metric *)
  ob_reported : reported;        (* tuner.obtained_metric *)
  ob_metric_in : metric;         (* the driver's own evaluation of the objective on the input graph *)
  ob_metric_ret : list metric    (* ... and on each returned graph *)
}.

Definition agree (cfg : config) (sp : space) (t : table) (p : proposer) (g : graph) (o : observed) : bool :=
  match tune (table_obj t) sp cfg p g with
  | Raise _ => ob_raised o
  | Ok r =>
      negb (ob_raised o) && Bool.eqb (out_multi r) (ob_multi o) &&
      forallb2 graph_eqb (out_graphs r) (ob_graphs o) &&
      metric_eqb (out_init_metric r) (ob_init_metric o) &&
      reported_eqb (out_reported r) (ob_reported o)
  end.

Definition agree_e (e : entry) (cfg : config) (sp : space) (t : table) (p : proposer) (g : graph) (o : observed) : bool :=
  match run_entry (table_obj t) sp cfg e p g with
  | Raise _ => ob_raised o
  | Ok r =>
      negb (ob_raised o) && Bool.eqb (out_multi r) (ob_multi o) &&
      forallb2 graph_eqb (out_graphs r) (ob_graphs o) &&
      metric_eqb (out_init_metric r) (ob_init_metric o) &&
      reported_eqb (out_reported r) (ob_reported o)
  end.

(* ---------------------------------------------------------------------------------- *)
(* the property, evaluated on the OBSERVED behaviour (independent of the model's answer) *)
(* ---------------------------------------------------------------------------------- *)
(* parameters of node (name nm) outside the search space are the same in a and b *)
Definition outside_untouched_node (sp : space) (nm : string) (a b : dict) : bool :=
  forallb (fun k => in_space sp nm k || opt_value_eqb (dget a k) (dget b k)) (dkeys a ++ dkeys b).

Definition outside_untouched_b (sp : space) (g g' : graph) : bool :=
  forallb2 (fun n n' => outside_untouched_node sp (name n) (params n) (params n')) g g'.

(* every parameter of the search space whose value differs from the input lies in its range *)
Definition in_range_node (sp : space) (nm : string) (a b : dict) : bool :=
  forallb (fun pt => opt_value_eqb (dget a (fst pt)) (dget b (fst pt)) ||
                     match dget b (fst pt) with
                     | Some v => in_range (snd pt) v
                     | None => false
                     end) (space_params sp nm).

Definition in_range_b (sp : space) (g g' : graph) : bool :=
  forallb2 (fun n n' => in_range_node sp (name n) (params n) (params n')) g g'.

Definition params_unchanged_b (g g' : graph) : bool :=
  forallb2 (fun n n' => dict_eqb (params n) (params n')) g g'.

Definition nothing_to_tune (sp : space) (g : graph) : bool := negb (has_params sp g).

(* not worse: single objective: metric(returned) <= metric(input); multi-objective: the input
   does not dominate the returned graph *)
Definition not_worse_b (multi : bool) (m_in m_ret : metric) : bool :=
  match m_in, m_ret with
  | MVec iv, MVec ov => negb (Fitness.dominates_loop false iv ov)   (* vector metrics: also for a single returned graph (tune_node) *)
  | _, _ => if multi then false else metric_le m_ret m_in
  end.

Definition reported_consistent_b (multi : bool) (r : reported) (m_ret : list metric) : bool :=
  if multi then reported_eqb r (RList m_ret)
  else match m_ret with
       | [m] => reported_eqb r (RMetric m)
       | _ => false
       end.

Definition holds_b (sp : space) (g : graph) (o : observed) : bool :=
  negb (ob_raised o) &&
  (ob_multi o || Nat.eqb (List.length (ob_graphs o)) 1) &&
  negb (is_nil (ob_graphs o)) &&
  Nat.eqb (List.length (ob_graphs o)) (List.length (ob_metric_ret o)) &&
  forallb (same_structure_b g) (ob_graphs o) &&
  forallb (outside_untouched_b sp g) (ob_graphs o) &&
  forallb (in_range_b sp g) (ob_graphs o) &&
  forallb (not_worse_b (ob_multi o) (ob_metric_in o)) (ob_metric_ret o) &&
  reported_consistent_b (ob_multi o) (ob_reported o) (ob_metric_ret o) &&
  (negb (nothing_to_tune sp g) || forallb (params_unchanged_b g) (ob_graphs o)).

(* tune_node: additionally, only the chosen node may change *)
Definition others_unchanged_b (i : nat) (g g' : graph) : bool :=
  Nat.eqb (List.length g) (List.length g') &&
  forallb (fun x => x) (mapi (fun j nn => Nat.eqb j i || dict_eqb (params (fst nn)) (params (snd nn))) (combine g g')).

Definition holds_e (e : entry) (sp : space) (g : graph) (o : observed) : bool :=
  holds_b sp g o &&
  match e with
  | ETune => true
  | ETuneNode i => negb (ob_multi o) && forallb (others_unchanged_b i g) (ob_graphs o)
  end.

(* ---------------------------------------------------------------------------------- *)
(* executable hypotheses of the theorems (evaluated by the harness on the inferred proposer) *)
(* ---------------------------------------------------------------------------------- *)
Definition is_vnone (v : value) : bool := match v with VNone => true | _ => false end.

Section ProposerOk.
  Variable sp : space.
  (* pb node_id operation_name parameter_name value *)
  Variable pb : nat -> string -> string -> value -> bool.

  (* every non-None assignment whose label starts with a node's prefix satisfies pb for that node *)
  Definition dict_ok_graph_b (g : graph) (d : dict) : bool :=
    forallb (fun kv => is_vnone (snd kv) ||
                       forallb (fun x => x)
                         (mapi (fun i n => negb (prefix (node_prefix i (name n)) (fst kv)) ||
                                           pb i (name n) (split_last (fst kv)) (snd kv)) g)) d.

  (* every non-None assignment handed to set_arg_node for node i satisfies pb for node i *)
  Definition dict_ok_node_b (g : graph) (i : nat) (d : dict) : bool :=
    match nth_error g i with
    | None => true
    | Some n => forallb (fun kv => is_vnone (snd kv) || pb i (name n) (split_last (fst kv)) (snd kv)) d
    end.

  Fixpoint seq_ok_b (g : graph) (order : list nat) (steps : list seq_step) : bool :=
    match order with
    | [] => true
    | i :: order' =>
        match nth_error g i with
        | None => true
        | Some n =>
            if tunable sp n then
              match steps with
              | [] => true
              | s :: steps' =>
                  forallb (dict_ok_node_b g i) (st_trials s) && dict_ok_node_b g i (st_best s) &&
                  seq_ok_b g order' steps'
              end
            else seq_ok_b g order' steps
        end
    end.

  Definition proposer_ok_b (kind : tuner_kind) (g : graph) (p : proposer) : bool :=
    match kind with
    | Sequential inv => seq_ok_b g (nodes_order inv (List.length g)) (p_steps p)
    | _ => forallb (dict_ok_graph_b g) (p_trials p) &&
           match p_final p with Some d => dict_ok_graph_b g d | None => true end &&
           forallb (dict_ok_graph_b g) (p_bests p)
    end.
End ProposerOk.

(* tune_node uses the first step only, for the chosen node *)
Definition node_step_ok_b (pb : nat -> string -> string -> value -> bool) (g : graph) (i : nat) (p : proposer) : bool :=
  match p_steps p with
  | [] => true
  | s :: _ => forallb (dict_ok_node_b pb g i) (st_trials s) && dict_ok_node_b pb g i (st_best s)
  end.

Definition entry_ok_b (sp : space) (pb : nat -> string -> string -> value -> bool) (e : entry) (kind : tuner_kind)
           (g : graph) (p : proposer) : bool :=
  match e with ETune => proposer_ok_b sp pb kind g p | ETuneNode i => node_step_ok_b pb g i p end.

(* the proposer only uses labels of search-space parameters of the node they address *)
Definition pb_space (sp : space) (i : nat) (nm k : string) (v : value) : bool := in_space sp nm k.
(* ... and only proposes values inside the declared range / choice set *)
Definition pb_range (sp : space) (i : nat) (nm k : string) (v : value) : bool :=
  match space_type sp nm k with Some ty => in_range ty v | None => false end.

Definition labels_in_space_b (sp : space) (kind : tuner_kind) (g : graph) (p : proposer) : bool :=
  proposer_ok_b sp (pb_space sp) kind g p.
Definition proposals_in_range_b (sp : space) (kind : tuner_kind) (g : graph) (p : proposer) : bool :=
  proposer_ok_b sp (pb_range sp) kind g p.
