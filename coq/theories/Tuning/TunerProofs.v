(* Proofs about the tuner model (property C19). *)
From Coq Require Import List Bool String Ascii Arith ZArith QArith Qabs Lia Lqa.
From GolemV Require Fitness.Fitness Fitness.FitnessProofs.
From GolemV Require Import Tuning.Tuner.
Import ListNotations.
Local Open Scope string_scope.

(* ---------------------------------------------------------------------------------- *)
(* dicts                                                                               *)
(* ---------------------------------------------------------------------------------- *)
Lemma dget_In d k v : dget d k = Some v -> In (k, v) d.
Proof.
  induction d as [|[k' v'] t IH]; simpl; [discriminate|].
  destruct (String.eqb k' k) eqn:E.
  - intros H. injection H as <-. apply String.eqb_eq in E. subst. now left.
  - intros H. right. auto.
Qed.

Lemma In_dset d k v k0 v0 : In (k, v) (dset d k0 v0) -> (k = k0 /\ v = v0) \/ In (k, v) d.
Proof.
  induction d as [|[k' v'] t IH]; simpl.
  - intros [H|[]]. injection H as <- <-. now left.
  - destruct (String.eqb k' k0) eqn:E; simpl.
    + intros [H|H].
      * injection H as <- <-. apply String.eqb_eq in E. now left.
      * right. now right.
    + intros [H|H].
      * right. now left.
      * destruct (IH H) as [?|?]; [now left|right; now right].
Qed.

Lemma dget_dset d k v k' :
  dget (dset d k v) k' = if String.eqb k k' then Some v else dget d k'.
Proof.
  induction d as [|[k1 v1] t IH]; simpl.
  - reflexivity.
  - destruct (String.eqb k1 k) eqn:E; simpl.
    + apply String.eqb_eq in E. subst k1. destruct (String.eqb k k'); reflexivity.
    + destruct (String.eqb k1 k') eqn:E'.
      * apply String.eqb_eq in E'. subst k1.
        destruct (String.eqb k k') eqn:E2; [|reflexivity].
        apply String.eqb_eq in E2. subst. rewrite String.eqb_refl in E. discriminate.
      * apply IH.
Qed.

Lemma dupdate_spec new : forall d k,
  dget (dupdate d new) k = dget d k \/ exists v, dget (dupdate d new) k = Some v /\ In (k, v) new.
Proof.
  unfold dupdate. induction new as [|[k0 v0] new IH]; intros d k; simpl.
  - now left.
  - destruct (IH (dset d k0 v0) k) as [H|[v [H1 H2]]].
    + rewrite H, dget_dset. destruct (String.eqb k0 k) eqn:E.
      * apply String.eqb_eq in E. subst. right. exists v0. split; [reflexivity|now left].
      * now left.
    + right. exists v. split; [assumption|now right].
Qed.

(* convert_parameters: every stored pair comes from a labelled pair with a non-None value *)
Lemma convert_spec l k v :
  In (k, v) (convert_parameters l) ->
  exists lab, In (lab, v) l /\ v <> VNone /\ split_last lab = k.
Proof.
  unfold convert_parameters.
  assert (G : forall acc,
    In (k, v) (fold_left (fun acc kv => match snd kv with
                                        | VNone => acc
                                        | v => dset acc (split_last (fst kv)) v
                                        end) l acc) ->
    In (k, v) acc \/ exists lab, In (lab, v) l /\ v <> VNone /\ split_last lab = k).
  { induction l as [|[lab0 v0] l IH]; intros acc; simpl; [now left|].
    intros H. apply IH in H. destruct H as [H|[lab [H1 H2]]].
    - destruct v0; try (left; exact H);
        (apply In_dset in H; destruct H as [[-> ->]|H];
         [right; exists lab0; split; [now left|split; [discriminate|reflexivity]]|now left]).
    - right. exists lab. split; [now right|assumption]. }
  intros H. destruct (G [] H) as [[]|R]. exact R.
Qed.

(* ---------------------------------------------------------------------------------- *)
(* the parameters setter                                                               *)
(* ---------------------------------------------------------------------------------- *)
Lemma skel_with_params n p : skel (with_params n p) = skel n.
Proof. reflexivity. Qed.

Lemma skel_set_parameters n p : skel (set_parameters n p) = skel n.
Proof. unfold set_parameters. destruct (params n); reflexivity. Qed.

Lemma name_set_parameters n p : name (set_parameters n p) = name n.
Proof. unfold set_parameters. destruct (params n); reflexivity. Qed.

Lemma set_parameters_spec n newp k :
  dget (params (set_parameters n newp)) k = dget (params n) k \/
  exists v, dget (params (set_parameters n newp)) k = Some v /\ In (k, v) newp.
Proof.
  unfold set_parameters. destruct (params n) as [|kv t] eqn:E; simpl.
  - destruct (dget newp k) as [v|] eqn:D.
    + right. exists v. split; [reflexivity|apply dget_In, D].
    + now left.
  - apply dupdate_spec.
Qed.

Lemma set_parameters_changes n l k :
  dget (params (set_parameters n (convert_parameters l))) k = dget (params n) k \/
  exists v lab, dget (params (set_parameters n (convert_parameters l))) k = Some v /\
                In (lab, v) l /\ v <> VNone /\ split_last lab = k.
Proof.
  destruct (set_parameters_spec n (convert_parameters l) k) as [H|[v [H1 H2]]]; [now left|].
  right. destruct (convert_spec _ _ _ H2) as [lab [A [B C]]]. exists v, lab. auto.
Qed.

(* ---------------------------------------------------------------------------------- *)
(* mapi                                                                                *)
(* ---------------------------------------------------------------------------------- *)
Lemma mapi_from_length {A B} (f : nat -> A -> B) l : forall s, List.length (mapi_from f s l) = List.length l.
Proof. induction l; intros s; simpl; [reflexivity|now rewrite IHl]. Qed.

Lemma mapi_from_nth {A B} (f : nat -> A -> B) l : forall s i,
  nth_error (mapi_from f s l) i = option_map (f (s + i)%nat) (nth_error l i).
Proof.
  induction l as [|a l IH]; intros s i; simpl.
  - destruct i; reflexivity.
  - destruct i; simpl.
    + now rewrite Nat.add_0_r.
    + rewrite IH. now rewrite Nat.add_succ_r.
Qed.

Lemma mapi_nth {A B} (f : nat -> A -> B) l i :
  nth_error (mapi f l) i = option_map (f i) (nth_error l i).
Proof. unfold mapi. now rewrite mapi_from_nth. Qed.

Lemma mapi_length {A B} (f : nat -> A -> B) l : List.length (mapi f l) = List.length l.
Proof. apply mapi_from_length. Qed.

(* ---------------------------------------------------------------------------------- *)
(* the invariant: a graph evolves from g0 by assignments that satisfy P                *)
(* ---------------------------------------------------------------------------------- *)
Section Evolves.
  (* P node_id operation_name parameter_name value *)
  Variable P : nat -> string -> string -> value -> Prop.

  Definition node_evolves (i : nat) (n n' : node) : Prop :=
    skel n' = skel n /\
    forall k, dget (params n') k = dget (params n) k \/
              exists v, dget (params n') k = Some v /\ P i (name n) k v.

  Definition evolves (g g' : graph) : Prop :=
    List.length g' = List.length g /\
    forall i n n', nth_error g i = Some n -> nth_error g' i = Some n' -> node_evolves i n n'.

  Lemma evolves_refl g : evolves g g.
  Proof.
    split; [reflexivity|]. intros i n n' H1 H2. rewrite H1 in H2. injection H2 as <-.
    split; [reflexivity|]. intros k. now left.
  Qed.

  Lemma skel_name n n' : skel n' = skel n -> name n' = name n.
  Proof. unfold skel. intros H. now injection H. Qed.

  (* labelled dict acceptable for set_arg_graph on a graph with the names of g0 *)
  Definition dict_ok_graph (g0 : graph) (d : dict) : Prop :=
    forall lab v, In (lab, v) d -> v <> VNone ->
    forall i n, nth_error g0 i = Some n -> prefix (node_prefix i (name n)) lab = true ->
                P i (name n) (split_last lab) v.

  (* labelled dict acceptable for set_arg_node on node i *)
  Definition dict_ok_node (g0 : graph) (i : nat) (d : dict) : Prop :=
    forall n, nth_error g0 i = Some n ->
    forall lab v, In (lab, v) d -> v <> VNone -> P i (name n) (split_last lab) v.

  Lemma nth_error_some_lt {A} (l : list A) i a : nth_error l i = Some a -> (i < List.length l)%nat.
  Proof. intros H. apply nth_error_Some. congruence. Qed.

  Lemma evolves_nth g0 g1 i n1 :
    evolves g0 g1 -> nth_error g1 i = Some n1 -> exists n0, nth_error g0 i = Some n0 /\ node_evolves i n0 n1.
  Proof.
    intros [L H] H1. destruct (nth_error g0 i) as [n0|] eqn:E.
    - exists n0. split; [reflexivity|]. eapply H; eauto.
    - apply nth_error_None in E. apply nth_error_some_lt in H1. lia.
  Qed.

  Lemma step_graph g0 g1 d :
    evolves g0 g1 -> dict_ok_graph g0 d -> evolves g0 (set_arg_graph g1 d).
  Proof.
    intros E Hd. destruct E as [L H]. split.
    - unfold set_arg_graph. now rewrite mapi_length.
    - intros i n0 n' H0 H'. unfold set_arg_graph in H'. rewrite mapi_nth in H'.
      destruct (nth_error g1 i) as [n1|] eqn:E1; [|discriminate]. simpl in H'. injection H' as <-.
      destruct (H i n0 n1 H0 E1) as [Hs Hk].
      split; [now rewrite skel_set_parameters|].
      intros k.
      destruct (set_parameters_changes n1 (node_keys i (name n1) d) k) as [Q|[v [lab [Q1 [Q2 [Q3 Q4]]]]]].
      + rewrite Q. apply Hk.
      + right. exists v. split; [exact Q1|].
        unfold node_keys in Q2. apply filter_In in Q2. destruct Q2 as [Q2 Q5]. simpl in Q5.
        rewrite (skel_name _ _ Hs) in Q5. rewrite <- Q4. eapply Hd; eauto.
  Qed.

  Lemma step_node g0 g1 i d :
    evolves g0 g1 -> dict_ok_node g0 i d -> evolves g0 (set_arg_node g1 i d).
  Proof.
    intros E Hd. destruct E as [L H]. split.
    - unfold set_arg_node. now rewrite mapi_length.
    - intros j n0 n' H0 H'. unfold set_arg_node in H'. rewrite mapi_nth in H'.
      destruct (nth_error g1 j) as [n1|] eqn:E1; [|discriminate]. simpl in H'. injection H' as <-.
      destruct (H j n0 n1 H0 E1) as [Hs Hk].
      destruct (Nat.eqb j i) eqn:Eji; [|split; assumption].
      apply Nat.eqb_eq in Eji. subst j.
      split; [now rewrite skel_set_parameters|].
      intros k.
      destruct (set_parameters_changes n1 d k) as [Q|[v [lab [Q1 [Q2 [Q3 Q4]]]]]].
      + rewrite Q. apply Hk.
      + right. exists v. split; [exact Q1|]. rewrite <- Q4. eapply Hd; eauto.
  Qed.
End Evolves.

(* weakening of the predicate *)
Lemma evolves_weaken (P Q : nat -> string -> string -> value -> Prop) g g' :
  (forall i nm k v, P i nm k v -> Q i nm k v) -> evolves P g g' -> evolves Q g g'.
Proof.
  intros W [L H]. split; [assumption|]. intros i n n' H1 H2. destruct (H i n n' H1 H2) as [Hs Hk].
  split; [assumption|]. intros k. destruct (Hk k) as [E|[v [E1 E2]]]; [now left|right; eauto].
Qed.

(* ---------------------------------------------------------------------------------- *)
(* proposers whose assignments satisfy P                                               *)
(* ---------------------------------------------------------------------------------- *)
Section Tuning.
  Variable obj : graph -> fitness.
  Variable sp : space.
  Variable cfg : config.
  Variable P : nat -> string -> string -> value -> Prop.

  Notation tunable := (tunable sp).

  (* the sequential tuner hands step k to the k-th tunable node of the order *)
  Fixpoint seq_ok (g0 : graph) (order : list nat) (steps : list seq_step) : Prop :=
    match order with
    | [] => True
    | i :: order' =>
        match nth_error g0 i with
        | None => True
        | Some n =>
            if tunable n then
              match steps with
              | [] => True
              | s :: steps' =>
                  Forall (dict_ok_node P g0 i) (st_trials s) /\ dict_ok_node P g0 i (st_best s) /\
                  seq_ok g0 order' steps'
              end
            else seq_ok g0 order' steps
        end
    end.

  Definition proposer_ok (g0 : graph) (p : proposer) : Prop :=
    match c_kind cfg with
    | Sequential inv => seq_ok g0 (nodes_order inv (List.length g0)) (p_steps p)
    | _ => Forall (dict_ok_graph P g0) (p_trials p) /\
           (forall d, p_final p = Some d -> dict_ok_graph P g0 d) /\
           Forall (dict_ok_graph P g0) (p_bests p)
    end.

  Lemma sim_trials_evolves g0 ts : forall g1,
    evolves P g0 g1 -> Forall (dict_ok_graph P g0) ts -> evolves P g0 (fst (sim_trials obj g1 ts)).
  Proof.
    induction ts as [|d ts IH]; intros g1 E F; simpl; [exact E|].
    inversion F as [|? ? Fd Ft]; subst.
    pose proof (step_graph P g0 g1 d E Fd) as E'.
    destruct (gmv obj (set_arg_graph g1 d)); simpl; auto.
  Qed.

  Lemma lib_trials_evolves g0 k ts : forall g1 b,
    evolves P g0 g1 -> Forall (dict_ok_graph P g0) ts -> evolves P g0 (fst (lib_trials obj k g1 ts b)).
  Proof.
    induction ts as [|d ts IH]; intros g1 b E F; simpl; [exact E|].
    inversion F as [|? ? Fd Ft]; subst. apply IH; [|assumption]. now apply step_graph.
  Qed.

  Lemma seq_node_trials_evolves g0 i ts : forall g1 g2,
    evolves P g0 g1 -> Forall (dict_ok_node P g0 i) ts ->
    seq_node_trials obj g1 i ts = Ok g2 -> evolves P g0 g2.
  Proof.
    induction ts as [|d ts IH]; intros g1 g2 E F; simpl.
    - intros H. injection H as <-. exact E.
    - inversion F as [|? ? Fd Ft]; subst.
      pose proof (step_node P g0 g1 i d E Fd) as E'.
      destruct (gmv obj (set_arg_node g1 i d)); try discriminate; intros H; eapply IH; eauto.
  Qed.

  Lemma tunable_name n n' : name n' = name n -> tunable n' = tunable n.
  Proof. unfold Tuner.tunable. now intros ->. Qed.

  Lemma seq_loop_evolves g0 order : forall steps st fg,
    evolves P g0 (ss_graph st) -> evolves P g0 (ss_final st) -> seq_ok g0 order steps ->
    seq_loop obj sp order steps st = Ok fg -> evolves P g0 fg.
  Proof.
    induction order as [|i order IH]; intros steps st fg Eg Ef Hok; simpl.
    - intros H. injection H as <-. exact Ef.
    - destruct (nth_error (ss_graph st) i) as [n1|] eqn:E1; [|discriminate].
      destruct (evolves_nth P g0 _ i n1 Eg E1) as [n0 [E0 [Hs _]]].
      simpl in Hok. rewrite E0 in Hok.
      rewrite (tunable_name n0 n1 (skel_name _ _ Hs)).
      destruct (tunable n0); simpl.
      + destruct steps as [|s steps']; [discriminate|].
        destruct Hok as [Ft [Fb Hok]].
        destruct (seq_node_trials obj (ss_graph st) i (st_trials s)) as [g1|e] eqn:En; [|discriminate].
        pose proof (seq_node_trials_evolves g0 i _ _ _ Eg Ft En) as E1'.
        pose proof (step_node P g0 g1 i (st_best s) E1' Fb) as E2.
        intros H. eapply IH; [| |exact Hok|exact H]; simpl; [exact E2|].
        destruct (metric_le (st_loss s) (ss_best st)); assumption.
      + intros H. eapply IH; eauto.
  Qed.

  Lemma run_tune_evolves g p init t :
    proposer_ok g p -> run_tune obj sp cfg p init g = Ok t ->
    match t with
    | TOne tg => evolves P g tg
    | TMany tgs => Forall (evolves P g) tgs
    end.
  Proof.
    unfold proposer_ok, run_tune. destruct (c_kind cfg) as [|inv| |] eqn:K.
    - (* simultaneous *)
      intros [Ft [Ff _]]. unfold tune_simultaneous.
      destruct (check_possible cfg false (has_params sp g) true init).
      + pose proof (sim_trials_evolves g (p_trials p) g (evolves_refl P g) Ft) as E.
        destruct (sim_trials obj g (p_trials p)) as [g1 ab]. simpl in E.
        destruct ab.
        * intros H. injection H as <-. exact E.
        * destruct (p_final p) as [d|] eqn:Fd; intros H; injection H as <-; [|exact E].
          apply step_graph; auto.
      + intros H. injection H as <-. apply evolves_refl.
    - (* sequential *)
      intros Hok. unfold tune_sequential.
      destruct (negb (is_nil g) && check_possible cfg false true true init).
      + destruct (seq_loop obj sp (nodes_order inv (List.length g)) (p_steps p)
                   {| ss_graph := g; ss_final := g; ss_best := init |}) as [fg|e] eqn:E; [|discriminate].
        intros H. injection H as <-.
        eapply seq_loop_evolves; [| |exact Hok|exact E]; simpl; apply evolves_refl.
      + intros H. injection H as <-. apply evolves_refl.
    - (* optuna *)
      intros [Ft [Ff Fb]]. unfold tune_lib.
      destruct (check_possible cfg true (has_params sp g) true init).
      + simpl.
        pose proof (lib_trials_evolves g (metric_len init) (p_trials p) g false (evolves_refl P g) Ft) as E.
        destruct (lib_trials obj (metric_len init) g (p_trials p) false) as [g1 ok]. simpl in E.
        destruct (Nat.ltb 1 (metric_len init)).
        * intros H. injection H as <-. apply Forall_forall. intros tg Hin. apply in_map_iff in Hin.
          destruct Hin as [d [<- Hd]]. apply step_graph; [exact E|]. rewrite Forall_forall in Fb. auto.
        * destruct (negb ok); [discriminate|].
          destruct (p_final p) as [d|] eqn:Fd; [|discriminate]. intros H. injection H as <-.
          apply step_graph; auto.
      + destruct (Nat.ltb 1 (metric_len init)); intros H; injection H as <-.
        * constructor; [apply evolves_refl|constructor].
        * apply evolves_refl.
    - (* iopt *)
      intros [Ft [Ff Fb]]. unfold tune_lib.
      destruct (check_possible cfg true (has_params sp g) false init).
      + simpl. destruct (negb (has_float sp g)); [discriminate|].
        pose proof (lib_trials_evolves g (metric_len init) (p_trials p) g false (evolves_refl P g) Ft) as E.
        destruct (lib_trials obj (metric_len init) g (p_trials p) false) as [g1 ok]. simpl in E.
        destruct (Nat.ltb 1 (metric_len init)).
        * intros H. injection H as <-. apply Forall_forall. intros tg Hin. apply in_map_iff in Hin.
          destruct Hin as [d [<- Hd]]. apply step_graph; [exact E|]. rewrite Forall_forall in Fb. auto.
        * destruct (p_final p) as [d|] eqn:Fd; [|discriminate]. intros H. injection H as <-.
          apply step_graph; auto.
      + destruct (Nat.ltb 1 (metric_len init)); intros H; injection H as <-.
        * constructor; [apply evolves_refl|constructor].
        * apply evolves_refl.
  Qed.
End Tuning.

(* ---------------------------------------------------------------------------------- *)
(* the final checks                                                                    *)
(* ---------------------------------------------------------------------------------- *)
Lemma Qle_bool_refl q : Qle_bool q q = true.
Proof. apply Qle_bool_iff. apply Qle_refl. Qed.

Lemma metric_le_refl m : (match m with MVec _ => False | _ => True end) -> metric_le m m = true.
Proof. destruct m; simpl; intros H; try reflexivity; [apply Qle_bool_refl|contradiction]. Qed.

Lemma dominates_irrefl l : Fitness.dominates_loop false l l = false.
Proof.
  induction l as [|a l IH]; simpl; [reflexivity|].
  assert (Fitness.Qlt_b a a = false) as -> by (apply FitnessProofs.Qlt_b_false_iff; apply Qle_refl).
  exact IH.
Qed.

Section Final.
  Variable obj : graph -> fitness.
  Variable sp : space.
  Variable cfg : config.

  Notation gmv := (gmv obj).

  Lemma threshold_le i : 0 <= c_dev cfg -> threshold cfg i <= i.
  Proof.
    intros H. unfold threshold. pose proof (Qabs_nonneg i) as A.
    assert (0 <= Qabs i * c_dev cfg / 100).
    { unfold Qdiv. apply Qmult_le_0_compat; [apply Qmult_le_0_compat; assumption|]. discriminate. }
    lra.
  Qed.

  (* everything _single_obj_final_check guarantees *)
  Lemma single_final_spec g tg fg r :
    single_final_check obj cfg g (gmv g) tg = Ok (fg, r) ->
    (fg = tg \/ fg = g) /\ r = RMetric (gmv fg) /\
    (match gmv g with MVec _ => False | _ => True end) /\
    (0 <= c_dev cfg -> metric_le (gmv fg) (gmv g) = true).
  Proof.
    unfold single_final_check.
    destruct (gmv tg) as [|o|ov] eqn:Et; destruct (gmv g) as [|i|iv] eqn:Eg; try discriminate.
    - intros H. injection H as <- <-. rewrite Eg. repeat split; auto.
    - intros H. injection H as <- <-. rewrite Eg. repeat split; auto. intros _. simpl. apply Qle_bool_refl.
    - intros H. injection H as <- <-. rewrite Eg. repeat split; auto.
    - destruct (Qle_bool o (threshold cfg i)) eqn:El; intros H; injection H as <- <-.
      + rewrite Et. repeat split; auto. intros Hd. simpl. apply Qle_bool_iff.
        apply Qle_bool_iff in El. pose proof (threshold_le i Hd). lra.
      + rewrite Eg. repeat split; auto. intros _. simpl. apply Qle_bool_refl.
  Qed.

  Lemma multi_filter_spec iv tgs : forall kept,
    multi_filter obj iv tgs = Ok kept ->
    Forall (fun gm => In (fst gm) tgs /\ snd gm = gmv (fst gm) /\
                      exists ov, gmv (fst gm) = MVec ov /\ Fitness.dominates_loop false iv ov = false) kept.
  Proof.
    induction tgs as [|tg tgs IH]; intros kept; simpl.
    - intros H. injection H as <-. constructor.
    - assert (W : forall k, Forall (fun gm => In (fst gm) tgs /\ snd gm = gmv (fst gm) /\
                      exists ov, gmv (fst gm) = MVec ov /\ Fitness.dominates_loop false iv ov = false) k ->
                  Forall (fun gm => In (fst gm) (tg :: tgs) /\ snd gm = gmv (fst gm) /\
                      exists ov, gmv (fst gm) = MVec ov /\ Fitness.dominates_loop false iv ov = false) k).
      { intros k F. eapply Forall_impl; [|exact F]. intros gm [A B]. split; [now right|exact B]. }
      destruct (gmv tg) as [| |ov] eqn:Et; try (intros H; apply W, IH, H).
      destruct (multi_filter obj iv tgs) as [k|e]; [|discriminate].
      specialize (IH k eq_refl).
      assert (IH' : Forall (fun gm => In (fst gm) (tg :: tgs) /\ snd gm = gmv (fst gm) /\
                      exists ov, gmv (fst gm) = MVec ov /\ Fitness.dominates_loop false iv ov = false) k).
      { eapply Forall_impl; [|exact IH]. intros gm [A B]. split; [now right|exact B]. }
      destruct (Fitness.dominates_loop false iv ov) eqn:Ed; intros H; injection H as <-; [exact IH'|].
      constructor; [|exact IH']. simpl. split; [now left|]. split; [now rewrite Et|]. exists ov. now rewrite Et.
  Qed.

  Lemma map_snd_gmv (l : list (graph * metric)) :
    Forall (fun gm => snd gm = gmv (fst gm)) l -> map snd l = map gmv (map fst l).
  Proof. induction 1 as [|a l E _ IH]; [reflexivity|]. cbn [map]. now rewrite E, IH. Qed.

  Lemma multi_final_spec g tgs fgs r :
    multi_final_check obj g (gmv g) tgs = Ok (fgs, r) ->
    exists iv, gmv g = MVec iv /\ fgs <> [] /\ r = RList (map gmv fgs) /\
    Forall (fun fg => (In fg tgs \/ fg = g) /\
                      exists ov, gmv fg = MVec ov /\ Fitness.dominates_loop false iv ov = false) fgs.
  Proof.
    unfold multi_final_check. destruct (gmv g) as [| |iv] eqn:Eg; try discriminate.
    destruct (multi_filter obj iv tgs) as [kept|e] eqn:Em; [|discriminate].
    pose proof (multi_filter_spec iv tgs kept Em) as S.
    destruct kept as [|gm kept].
    - intros H. injection H as <- <-. exists iv. repeat split; [discriminate|simpl; now rewrite Eg|].
      constructor; [|constructor]. split; [now right|]. exists iv. split; [exact Eg|apply dominates_irrefl].
    - intros H. injection H as <- <-. exists iv. repeat split; [discriminate| |].
      + f_equal. apply (map_snd_gmv (gm :: kept)). eapply Forall_impl; [|exact S]. intros a [_ [E _]]. exact E.
      + apply Forall_forall. intros fg Hin. change (In fg (map fst (gm :: kept))) in Hin.
        apply in_map_iff in Hin. destruct Hin as [a [<- Ha]].
        rewrite Forall_forall in S. destruct (S a Ha) as [A [_ B]]. split; [now left|exact B].
  Qed.

  (* ---- the theorems about tune ---- *)
  Section WithP.
    Variable P : nat -> string -> string -> value -> Prop.

    Theorem tune_evolves p g o :
      proposer_ok sp cfg P g p -> tune obj sp cfg p g = Ok o -> Forall (evolves P g) (out_graphs o).
    Proof.
      intros Hok. unfold tune.
      destruct (run_tune obj sp cfg p (gmv g) g) as [t|e] eqn:Er; [|discriminate].
      pose proof (run_tune_evolves obj sp cfg P g p _ t Hok Er) as E.
      destruct (multi_mode cfg (gmv g)).
      - destruct t as [tg|tgs]; [discriminate|].
        destruct (multi_final_check obj g (gmv g) tgs) as [[fgs r]|e] eqn:Ef; [|discriminate].
        intros H. injection H as <-. simpl.
        destruct (multi_final_spec g tgs fgs r Ef) as [iv [_ [_ [_ F]]]].
        apply Forall_forall. intros fg Hin. rewrite Forall_forall in F. destruct (F fg Hin) as [[A|A] _].
        + rewrite Forall_forall in E. auto.
        + subst. apply evolves_refl.
      - destruct t as [tg|tgs]; [|discriminate].
        destruct (single_final_check obj cfg g (gmv g) tg) as [[fg r]|e] eqn:Ef; [|discriminate].
        intros H. injection H as <-. simpl.
        destruct (single_final_spec g tg fg r Ef) as [[A|A] _]; subst; constructor; auto using evolves_refl.
    Qed.
  End WithP.

  (* shape of a successful outcome *)
  Lemma tune_shape p g o :
    tune obj sp cfg p g = Ok o ->
    out_init_metric o = gmv g /\
    if out_multi o then
      exists iv, gmv g = MVec iv /\ out_graphs o <> [] /\ out_reported o = RList (map gmv (out_graphs o)) /\
      Forall (fun fg => exists ov, gmv fg = MVec ov /\ Fitness.dominates_loop false iv ov = false) (out_graphs o)
    else
      exists fg, out_graphs o = [fg] /\ out_reported o = RMetric (gmv fg) /\
      (0 <= c_dev cfg -> metric_le (gmv fg) (gmv g) = true).
  Proof.
    unfold tune.
    destruct (run_tune obj sp cfg p (gmv g) g) as [t|e] eqn:Er; [|discriminate].
    destruct (multi_mode cfg (gmv g)).
    - destruct t as [tg|tgs]; [discriminate|].
      destruct (multi_final_check obj g (gmv g) tgs) as [[fgs r]|e] eqn:Ef; [|discriminate].
      intros H. injection H as <-. simpl. split; [reflexivity|].
      destruct (multi_final_spec g tgs fgs r Ef) as [iv [A [B [C F]]]].
      exists iv. repeat split; auto. eapply Forall_impl; [|exact F]. intros fg [_ X]. exact X.
    - destruct t as [tg|tgs]; [|discriminate].
      destruct (single_final_check obj cfg g (gmv g) tg) as [[fg r]|e] eqn:Ef; [|discriminate].
      intros H. injection H as <-. simpl. split; [reflexivity|].
      destruct (single_final_spec g tg fg r Ef) as [_ [B [_ D]]]. exists fg. auto.
  Qed.
End Final.

(* ---------------------------------------------------------------------------------- *)
(* reflection: the executable proposer hypotheses imply the Prop ones                  *)
(* ---------------------------------------------------------------------------------- *)
Section Reflect.
  Variable sp : space.
  Variable pb : nat -> string -> string -> value -> bool.
  Let P := fun i nm k v => pb i nm k v = true.

  Lemma forallb_id_mapi {A} (f : nat -> A -> bool) l :
    forallb (fun x => x) (mapi f l) = true -> forall i a, nth_error l i = Some a -> f i a = true.
  Proof.
    intros H i a Hn. rewrite forallb_forall in H. apply H.
    apply nth_error_In with (n := i). rewrite mapi_nth, Hn. reflexivity.
  Qed.

  Lemma dict_ok_graph_refl g d : dict_ok_graph_b pb g d = true -> dict_ok_graph P g d.
  Proof.
    unfold dict_ok_graph_b, dict_ok_graph. intros H lab v Hin Hv i n Hn Hp.
    rewrite forallb_forall in H. specialize (H _ Hin). simpl in H.
    apply orb_true_iff in H. destruct H as [H|H]; [destruct v; try discriminate; contradiction|].
    pose proof (forallb_id_mapi _ _ H i n Hn) as Q. simpl in Q. rewrite Hp in Q. exact Q.
  Qed.

  Lemma dict_ok_node_refl g i d : dict_ok_node_b pb g i d = true -> dict_ok_node P g i d.
  Proof.
    unfold dict_ok_node_b, dict_ok_node. intros H n Hn lab v Hin Hv. rewrite Hn in H.
    rewrite forallb_forall in H. specialize (H _ Hin). simpl in H.
    apply orb_true_iff in H. destruct H as [H|H]; [destruct v; try discriminate; contradiction|exact H].
  Qed.

  Lemma Forall_forallb {A} (f : A -> bool) (Q : A -> Prop) l :
    (forall a, f a = true -> Q a) -> forallb f l = true -> Forall Q l.
  Proof. intros W H. rewrite forallb_forall in H. apply Forall_forall. auto. Qed.

  Lemma seq_ok_refl g order : forall steps, seq_ok_b sp pb g order steps = true -> seq_ok sp P g order steps.
  Proof.
    induction order as [|i order IH]; intros steps; simpl; [trivial|].
    destruct (nth_error g i) as [n|]; [|trivial].
    destruct (tunable sp n); [|apply IH].
    destruct steps as [|s steps]; [trivial|].
    intros H. apply andb_true_iff in H. destruct H as [H H3]. apply andb_true_iff in H. destruct H as [H1 H2].
    split; [|split].
    - eapply Forall_forallb; [|exact H1]. intros a. apply dict_ok_node_refl.
    - now apply dict_ok_node_refl.
    - now apply IH.
  Qed.

  Lemma proposer_ok_refl cfg g p :
    proposer_ok_b sp pb (c_kind cfg) g p = true -> proposer_ok sp cfg P g p.
  Proof.
    unfold proposer_ok_b, proposer_ok. destruct (c_kind cfg); try apply seq_ok_refl;
      (intros H; apply andb_true_iff in H; destruct H as [H H3]; apply andb_true_iff in H; destruct H as [H1 H2];
       split; [|split];
       [eapply Forall_forallb; [|exact H1]; intros a; apply dict_ok_graph_refl
       |intros d Hd; rewrite Hd in H2; now apply dict_ok_graph_refl
       |eapply Forall_forallb; [|exact H3]; intros a; apply dict_ok_graph_refl]).
  Qed.
End Reflect.

(* ---------------------------------------------------------------------------------- *)
(* the C19 theorems                                                                    *)
(* ---------------------------------------------------------------------------------- *)
Lemma same_length_skel (g : graph) : forall g' : graph,
  List.length g' = List.length g ->
  (forall i n n', nth_error g i = Some n -> nth_error g' i = Some n' -> skel n' = skel n) ->
  map skel g' = map skel g.
Proof.
  induction g as [|n g IH]; intros [|n' g'] L H; simpl in *; try discriminate; [reflexivity|].
  f_equal.
  - apply (H 0%nat); reflexivity.
  - apply IH; [lia|]. intros i a a' H1 H2. apply (H (S i)); assumption.
Qed.

Lemma evolves_skel P g g' : evolves P g g' -> map skel g' = map skel g.
Proof.
  intros [L H]. apply same_length_skel; [exact L|]. intros i n n' H1 H2. now destruct (H i n n' H1 H2).
Qed.

Section Theorems.
  Variable obj : graph -> fitness.
  Variable sp : space.
  Variable cfg : config.

  Notation gmv := (gmv obj).
  Notation tune := (tune obj sp cfg).

  Definition PTrue : nat -> string -> string -> value -> Prop := fun _ _ _ _ => True.

  Lemma seq_ok_true g order : forall steps, seq_ok sp PTrue g order steps.
  Proof.
    induction order as [|i order IH]; intros steps; simpl; [trivial|].
    destruct (nth_error g i); [|trivial]. destruct (tunable sp n); [|apply IH].
    destruct steps; [trivial|]. split; [|split; [|apply IH]].
    - apply Forall_forall. intros d _ n' _ lab v _ _. exact I.
    - intros n' _ lab v _ _. exact I.
  Qed.

  Lemma proposer_ok_true g p : proposer_ok sp cfg PTrue g p.
  Proof.
    unfold proposer_ok. destruct (c_kind cfg); try apply seq_ok_true;
      (split; [|split]; [apply Forall_forall; intros d _|intros d _|apply Forall_forall; intros d _];
       intros lab v _ _ i n _ _; exact I).
  Qed.

  (* 1. the returned graphs have the nodes (uids, in the order of graph.nodes), names and edges of the input *)
  Theorem structure_preserved p g o :
    tune p g = Ok o -> Forall (fun fg => map skel fg = map skel g) (out_graphs o).
  Proof.
    intros H. pose proof (tune_evolves obj sp cfg PTrue p g o (proposer_ok_true g p) H) as E.
    eapply Forall_impl; [|exact E]. intros fg. apply evolves_skel.
  Qed.

  Definition PSpace : nat -> string -> string -> value -> Prop := fun _ nm k _ => in_space sp nm k = true.

  (* 2. parameters that are not in the search space of the node's operation are untouched *)
  Theorem outside_space_untouched p g o :
    proposer_ok sp cfg PSpace g p -> tune p g = Ok o ->
    forall fg, In fg (out_graphs o) ->
    forall i n n', nth_error g i = Some n -> nth_error fg i = Some n' ->
    forall k, in_space sp (name n) k = false -> dget (params n') k = dget (params n) k.
  Proof.
    intros Hok H fg Hin i n n' H1 H2 k Hk.
    pose proof (tune_evolves obj sp cfg PSpace p g o Hok H) as E. rewrite Forall_forall in E.
    destruct (E fg Hin) as [_ E']. destruct (E' i n n' H1 H2) as [_ Hd].
    destruct (Hd k) as [Q|[v [_ Q]]]; [exact Q|]. unfold PSpace in Q. congruence.
  Qed.

  Definition PRange : nat -> string -> string -> value -> Prop :=
    fun _ nm k v => exists ty, space_type sp nm k = Some ty /\ in_range ty v = true.

  (* 6. if the library proposes values inside the declared ranges, every parameter of the result
        either keeps its input value or lies in the declared range of a search-space parameter *)
  Theorem in_range_if_proposer_in_range p g o :
    proposer_ok sp cfg PRange g p -> tune p g = Ok o ->
    forall fg, In fg (out_graphs o) ->
    forall i n n', nth_error g i = Some n -> nth_error fg i = Some n' ->
    forall k, dget (params n') k = dget (params n) k \/
              exists v ty, dget (params n') k = Some v /\ space_type sp (name n) k = Some ty /\ in_range ty v = true.
  Proof.
    intros Hok H fg Hin i n n' H1 H2 k.
    pose proof (tune_evolves obj sp cfg PRange p g o Hok H) as E. rewrite Forall_forall in E.
    destruct (E fg Hin) as [_ E']. destruct (E' i n n' H1 H2) as [_ Hd].
    destruct (Hd k) as [Q|[v [Q1 [ty [Q2 Q3]]]]]; [now left|right; eauto].
  Qed.

  (* executable hypotheses *)
  Lemma labels_in_space_sound g p :
    labels_in_space_b sp (c_kind cfg) g p = true -> proposer_ok sp cfg PSpace g p.
  Proof. apply (proposer_ok_refl sp (pb_space sp)). Qed.

  Lemma proposals_in_range_sound g p :
    proposals_in_range_b sp (c_kind cfg) g p = true -> proposer_ok sp cfg PRange g p.
  Proof.
    intros H. pose proof (proposer_ok_refl sp (pb_range sp) cfg g p H) as R.
    assert (W : forall i nm k v, pb_range sp i nm k v = true -> PRange i nm k v).
    { unfold pb_range, PRange. intros i nm k v Q. destruct (space_type sp nm k) as [ty|]; [eauto|discriminate]. }
    clear H. revert R. unfold proposer_ok.
    assert (Wg : forall d, dict_ok_graph (fun i nm k v => pb_range sp i nm k v = true) g d -> dict_ok_graph PRange g d).
    { intros d Hd lab v A B i n C D. apply W. eapply Hd; eauto. }
    assert (Wn : forall i d, dict_ok_node (fun i nm k v => pb_range sp i nm k v = true) g i d -> dict_ok_node PRange g i d).
    { intros i d Hd n A lab v B C. apply W. eapply Hd; eauto. }
    destruct (c_kind cfg).
    - intros [A [B C]]. split; [|split]; [eapply Forall_impl; [|exact A]; auto|intros d Hd; auto|eapply Forall_impl; [|exact C]; auto].
    - generalize (p_steps p). generalize (nodes_order inverse_node_order (List.length g)).
      intros order. induction order as [|i order IH]; intros steps; simpl; [trivial|].
      destruct (nth_error g i); [|trivial]. destruct (tunable sp n); [|apply IH].
      destruct steps; [trivial|]. intros [A [B C]]. split; [|split]; [eapply Forall_impl; [|exact A]; auto|auto|auto].
    - intros [A [B C]]. split; [|split]; [eapply Forall_impl; [|exact A]; auto|intros d Hd; auto|eapply Forall_impl; [|exact C]; auto].
    - intros [A [B C]]. split; [|split]; [eapply Forall_impl; [|exact A]; auto|intros d Hd; auto|eapply Forall_impl; [|exact C]; auto].
  Qed.

  (* 3. never worse *)
  Theorem never_worse_single p g o :
    0 <= c_dev cfg -> tune p g = Ok o -> out_multi o = false ->
    exists fg, out_graphs o = [fg] /\ metric_le (gmv fg) (gmv g) = true.
  Proof.
    intros Hd H Hm. destruct (tune_shape obj sp cfg p g o H) as [_ S]. rewrite Hm in S.
    destruct S as [fg [A [_ C]]]. exists fg. auto.
  Qed.

  Theorem never_dominated_multi p g o :
    tune p g = Ok o -> out_multi o = true ->
    exists iv, gmv g = MVec iv /\ out_graphs o <> [] /\
    Forall (fun fg => exists ov, gmv fg = MVec ov /\ Fitness.dominates_loop false iv ov = false) (out_graphs o).
  Proof.
    intros H Hm. destruct (tune_shape obj sp cfg p g o H) as [_ S]. rewrite Hm in S.
    destruct S as [iv [A [B [_ D]]]]. exists iv. auto.
  Qed.

  (* 4. the reported metric is the objective of the returned graph(s); init_metric that of the input *)
  Theorem reported_metric_consistent p g o :
    tune p g = Ok o ->
    out_init_metric o = gmv g /\
    out_reported o = (if out_multi o then RList (map gmv (out_graphs o))
                      else match out_graphs o with [fg] => RMetric (gmv fg) | _ => RNone end).
  Proof.
    intros H. destruct (tune_shape obj sp cfg p g o H) as [I S]. split; [exact I|].
    destruct (out_multi o).
    - destruct S as [iv [_ [_ [C _]]]]. exact C.
    - destruct S as [fg [A [B _]]]. now rewrite A.
  Qed.

  (* 5. nothing to tune *)
  Lemma existsb_false_nth {A} (f : A -> bool) l i a : existsb f l = false -> nth_error l i = Some a -> f a = false.
  Proof.
    intros H Hn. destruct (f a) eqn:E; [|reflexivity].
    assert (existsb f l = true) by (apply existsb_exists; exists a; split; [eapply nth_error_In; eauto|exact E]). congruence.
  Qed.

  Lemma seq_loop_untunable g order : forall steps st fg,
    has_params sp g = false -> ss_graph st = g ->
    seq_loop obj sp order steps st = Ok fg -> fg = ss_final st.
  Proof.
    induction order as [|i order IH]; intros steps st fg Hn Hg; simpl.
    - intros H. now injection H as <-.
    - rewrite Hg. destruct (nth_error g i) as [n|] eqn:E; [|discriminate].
      rewrite (existsb_false_nth _ _ _ _ Hn E). simpl. intros H. eapply IH; eauto.
  Qed.

  Lemma run_tune_nothing p g t :
    has_params sp g = false -> run_tune obj sp cfg p (gmv g) g = Ok t -> t = TOne g \/ t = TMany [g].
  Proof.
    intros Hn. unfold run_tune. destruct (c_kind cfg).
    - unfold tune_simultaneous, check_possible. rewrite Hn. simpl.
      destruct (is_multi (gmv g) && true); intros H; injection H as <-; now left.
    - unfold tune_sequential.
      destruct (negb (is_nil g) && check_possible cfg false true true (gmv g)).
      + destruct (seq_loop obj sp (nodes_order inverse_node_order (List.length g)) (p_steps p)
                    {| ss_graph := g; ss_final := g; ss_best := gmv g |}) as [fg|e] eqn:E; [|discriminate].
        apply (seq_loop_untunable g) in E; [|exact Hn|reflexivity]. simpl in E. subst. intros H. injection H as <-. now left.
      + intros H. injection H as <-. now left.
    - unfold tune_lib, check_possible. rewrite Hn. simpl.
      destruct (is_multi (gmv g) && false); destruct (Nat.ltb 1 (metric_len (gmv g)));
        intros H; injection H as <-; auto.
    - unfold tune_lib, check_possible. rewrite Hn. simpl.
      destruct (is_multi (gmv g) && false); destruct (Nat.ltb 1 (metric_len (gmv g)));
        intros H; injection H as <-; auto.
  Qed.

  Theorem nothing_to_tune_unchanged p g o :
    has_params sp g = false -> tune p g = Ok o -> Forall (fun fg => fg = g) (out_graphs o).
  Proof.
    intros Hn. unfold Tuner.tune.
    destruct (run_tune obj sp cfg p (gmv g) g) as [t|e] eqn:Er; [|discriminate].
    destruct (run_tune_nothing p g t Hn Er) as [-> | ->].
    - destruct (multi_mode cfg (gmv g)); [discriminate|].
      destruct (single_final_check obj cfg g (gmv g) g) as [[fg r]|e] eqn:Ef; [|discriminate].
      intros H. injection H as <-. simpl.
      destruct (single_final_spec obj cfg g g fg r Ef) as [[A|A] _]; subst; constructor; auto.
    - destruct (multi_mode cfg (gmv g)); [|discriminate].
      destruct (multi_final_check obj g (gmv g) [g]) as [[fgs r]|e] eqn:Ef; [|discriminate].
      intros H. injection H as <-. simpl.
      destruct (multi_final_spec obj g [g] fgs r Ef) as [iv [_ [_ [_ F]]]].
      eapply Forall_impl; [|exact F]. intros fg [[[A|[]]|A] _]; auto.
  Qed.

  (* ... and, for a scalar objective value of the input, tune() does not raise *)
  Theorem nothing_to_tune_returns p g :
    has_params sp g = false -> (match gmv g with MVec _ => False | _ => True end) ->
    exists o, tune p g = Ok o /\ out_multi o = false /\ out_graphs o = [g] /\ out_reported o = RMetric (gmv g).
  Proof.
    intros Hn Hs.
    assert (Hord : forall inv i, In i (nodes_order inv (List.length g)) -> nth_error g i <> None).
    { intros inv i Hi. apply nth_error_Some. unfold nodes_order in Hi.
      destruct inv; [apply in_rev in Hi|]; apply in_seq in Hi; lia. }
    assert (R : run_tune obj sp cfg p (gmv g) g = Ok (TOne g)).
    { unfold run_tune. destruct (c_kind cfg) as [|inv| |].
      - unfold tune_simultaneous, check_possible. rewrite Hn. simpl. destruct (is_multi (gmv g) && true); reflexivity.
      - unfold tune_sequential.
        destruct (negb (is_nil g) && check_possible cfg false true true (gmv g)); [|reflexivity].
        assert (L : forall order steps st, ss_graph st = g ->
                      (forall i, In i order -> nth_error g i <> None) ->
                      seq_loop obj sp order steps st = Ok (ss_final st)).
        { induction order as [|i order IH]; intros steps st Hg Hi; simpl; [reflexivity|].
          rewrite Hg. destruct (nth_error g i) as [n|] eqn:E; [|exfalso; apply (Hi i); [now left|exact E]].
          rewrite (existsb_false_nth _ _ _ _ Hn E). simpl. apply IH; [exact Hg|]. intros j Hj. apply Hi. now right. }
        rewrite L; [reflexivity|reflexivity|]. intros i Hi. apply (Hord inv). exact Hi.
      - unfold tune_lib, check_possible. rewrite Hn. simpl.
        assert (Nat.ltb 1 (metric_len (gmv g)) = false) as ->.
        { destruct (gmv g); try reflexivity. contradiction. }
        destruct (is_multi (gmv g) && false); reflexivity.
      - unfold tune_lib, check_possible. rewrite Hn. simpl.
        assert (Nat.ltb 1 (metric_len (gmv g)) = false) as ->.
        { destruct (gmv g); try reflexivity. contradiction. }
        destruct (is_multi (gmv g) && false); reflexivity. }
    unfold Tuner.tune. rewrite R.
    assert (M : multi_mode cfg (gmv g) = false).
    { unfold multi_mode, is_multi. destruct (c_kind cfg); try reflexivity; destruct (gmv g); try reflexivity; contradiction. }
    rewrite M. unfold single_final_check.
    destruct (gmv g) as [|q|l] eqn:Eg; [| |contradiction].
    - eexists. split; [reflexivity|]. simpl. auto.
    - destruct (Qle_bool q (threshold cfg q)); eexists; (split; [reflexivity|]); simpl; auto.
  Qed.

  (* ---- the known findings as theorems of the faithful model ---- *)
  (* SimultaneousTuner / SequentialTuner on a multi-objective objective always raise *)
  Theorem multiobj_unsupported_raises p g :
    (c_kind cfg = Simultaneous \/ exists inv, c_kind cfg = Sequential inv) ->
    is_multi (gmv g) = true -> exists e, tune p g = Raise e.
  Proof.
    intros K Hm.
    assert (R : run_tune obj sp cfg p (gmv g) g = Ok (TOne g)).
    { unfold run_tune. destruct K as [K|[inv K]]; rewrite K.
      - unfold tune_simultaneous, check_possible. rewrite Hm. reflexivity.
      - unfold tune_sequential, check_possible. rewrite Hm. simpl. now rewrite andb_false_r. }
    unfold Tuner.tune. rewrite R.
    assert (M : multi_mode cfg (gmv g) = false) by (unfold multi_mode; destruct K as [K|[inv K]]; now rewrite K).
    rewrite M. unfold single_final_check. unfold is_multi in Hm.
    destruct (gmv g); try discriminate. eauto.
  Qed.

  (* IOptTuner with something to tune but no continuous parameter always raises *)
  Theorem iopt_no_float_raises p g :
    c_kind cfg = IOpt -> has_params sp g = true -> has_float sp g = false -> exists e, tune p g = Raise e.
  Proof.
    intros K Hp Hf. unfold Tuner.tune, run_tune. rewrite K. unfold tune_lib, check_possible.
    rewrite Hp, Hf. simpl. rewrite andb_false_r. simpl. eauto.
  Qed.
End Theorems.

(* ---------------------------------------------------------------------------------- *)
(* reflection of the oracle's sub-predicates                                           *)
(* ---------------------------------------------------------------------------------- *)
Lemma nat_list_eqb_iff (a b : list nat) :
  Nat.eqb (List.length a) (List.length b) && forallb (fun xy => Nat.eqb (fst xy) (snd xy)) (combine a b) = true
  <-> a = b.
Proof.
  revert b. induction a as [|x a IH]; intros [|y b]; simpl; split; intros H; try discriminate; try reflexivity.
  - apply andb_true_iff in H. destruct H as [L H]. apply andb_true_iff in H. destruct H as [E H].
    apply Nat.eqb_eq in E. subst. f_equal. apply IH. now rewrite L, H.
  - injection H as -> ->.
    assert (R : b = b) by reflexivity. apply IH in R. apply andb_true_iff in R. destruct R as [R1 R2].
    rewrite R1, R2, Nat.eqb_refl. reflexivity.
Qed.

Lemma skel_eqb_iff a b : skel_eqb a b = true <-> skel a = skel b.
Proof.
  unfold skel_eqb, skel. split.
  - intros H. apply andb_true_iff in H. destruct H as [H P]. apply andb_true_iff in H. destruct H as [U N].
    apply Nat.eqb_eq in U. apply String.eqb_eq in N. apply nat_list_eqb_iff in P. congruence.
  - intros H. injection H as U N P. rewrite U, N, P, Nat.eqb_refl, String.eqb_refl. simpl.
    now apply nat_list_eqb_iff.
Qed.

(* the oracle's structure test decides equality of uids, names and parent lists, node by node *)
Lemma same_structure_b_iff g g' : same_structure_b g g' = true <-> map skel g = map skel g'.
Proof.
  unfold same_structure_b. revert g'. induction g as [|n g IH]; intros [|n' g']; cbn [map forallb2]; split; intros H;
    try discriminate; try reflexivity.
  - apply andb_true_iff in H. destruct H as [A B]. apply skel_eqb_iff in A. apply IH in B. congruence.
  - apply andb_true_iff. split; [apply skel_eqb_iff|apply IH]; congruence.
Qed.

Lemma dget_dkeys d k : dget d k <> None -> In k (dkeys d).
Proof.
  induction d as [|[k' v] t IH]; simpl; [congruence|].
  destruct (String.eqb k' k) eqn:E; [apply String.eqb_eq in E; now left|right; auto].
Qed.

(* the oracle's "outside the space untouched" test covers every key *)
Lemma outside_untouched_node_sound sp nm a b :
  outside_untouched_node sp nm a b = true ->
  forall k, in_space sp nm k = false -> opt_value_eqb (dget a k) (dget b k) = true.
Proof.
  unfold outside_untouched_node. intros H k Hk. rewrite forallb_forall in H.
  destruct (dget a k) as [va|] eqn:Ea.
  - assert (In k (dkeys a ++ dkeys b)) as I by (apply in_or_app; left; apply dget_dkeys; congruence).
    specialize (H k I). rewrite Hk, Ea in H. exact H.
  - destruct (dget b k) as [vb|] eqn:Eb; [|reflexivity].
    assert (In k (dkeys a ++ dkeys b)) as I by (apply in_or_app; right; apply dget_dkeys; congruence).
    specialize (H k I). rewrite Hk, Ea, Eb in H. exact H.
Qed.

(* metric_le is <= on the extended reals (None = +infinity) *)
Lemma metric_le_fin a b : metric_le (MFin a) (MFin b) = true <-> a <= b.
Proof. simpl. apply Qle_bool_iff. Qed.

(* ---------------------------------------------------------------------------------- *)
(* SequentialTuner.tune_node                                                           *)
(* ---------------------------------------------------------------------------------- *)
Section TuneNode.
  Variable obj : graph -> fitness.
  Variable sp : space.
  Variable cfg : config.
  Variable P : nat -> string -> string -> value -> Prop.

  Definition node_step_ok (g : graph) (i : nat) (p : proposer) : Prop :=
    match p_steps p with
    | [] => True
    | s :: _ => Forall (dict_ok_node P g i) (st_trials s) /\ dict_ok_node P g i (st_best s)
    end.

  Theorem tune_node_spec p i g o :
    node_step_ok g i p -> tune_node obj sp cfg p i g = Ok o ->
    exists fg, out_multi o = false /\ out_graphs o = [fg] /\ out_init_metric o = gmv obj g /\
               out_reported o = RMetric (gmv obj fg) /\ evolves P g fg /\
               (0 <= c_dev cfg -> fg = g \/ metric_le (gmv obj fg) (gmv obj g) = true).
  Proof.
    unfold node_step_ok, tune_node. intros Hok.
    destruct (nth_error g i) as [n|]; [|discriminate].
    destruct (check_possible cfg false (Nat.ltb 1 (List.length (space_params sp (name n)))) true (gmv obj g)).
    - destruct (p_steps p) as [|s rest]; [discriminate|]. destruct Hok as [Ft Fb].
      destruct (seq_node_trials obj g i (st_trials s)) as [g1|e] eqn:En; [|discriminate].
      pose proof (seq_node_trials_evolves obj P g i _ _ _ (evolves_refl P g) Ft En) as E1.
      pose proof (step_node P g g1 i (st_best s) E1 Fb) as E2.
      destruct (single_final_check obj cfg g (gmv obj g) (set_arg_node g1 i (st_best s))) as [[fg r]|e] eqn:Ef;
        [|discriminate].
      intros H. injection H as <-. simpl.
      destruct (single_final_spec obj cfg g _ fg r Ef) as [A [B [_ D]]].
      exists fg. split; [reflexivity|]. split; [reflexivity|]. split; [reflexivity|]. split; [exact B|]. split.
      + destruct A as [-> | ->]; [exact E2|apply evolves_refl].
      + intros Hd. right. auto.
    - intros H. injection H as <-. simpl. exists g.
      split; [reflexivity|]. split; [reflexivity|]. split; [reflexivity|]. split; [reflexivity|].
      split; [apply evolves_refl|]. intros _. now left.
  Qed.
End TuneNode.

Lemma node_step_ok_refl pb g i p :
  node_step_ok_b pb g i p = true -> node_step_ok (fun i nm k v => pb i nm k v = true) g i p.
Proof.
  unfold node_step_ok_b, node_step_ok. destruct (p_steps p) as [|s rest]; [trivial|].
  intros H. apply andb_true_iff in H. destruct H as [H1 H2]. split.
  - eapply Forall_forallb; [|exact H1]. intros a. apply dict_ok_node_refl.
  - now apply dict_ok_node_refl.
Qed.
