(* Proofs about the tuner model (property C19). *)
From Coq Require Import List Bool String Ascii Arith ZArith QArith Qabs Lia Lqa.
From GolemV Require Fitness.Fitness Fitness.FitnessProofs.
From GolemV Require Import Tuning.Tuner.
Import ListNotations.
Local Open Scope string_scope.

(* ---------------------------------------------------------------------------------- *)
(* dicts                                                                               *)
(* ---------------------------------------------------------------------------------- *)
Lemma dget_In d k v : dget d k = Some v -> In (k, v) d.
Proof.
  induction d as [|[k' v'] t IH]; simpl; [discriminate|].
  destruct (String.eqb k' k) eqn:E.
  - intros H. injection H as <-. apply String.eqb_eq in E. subst. now left.
  - intros H. right. auto.
Qed.

Lemma In_dset d k v k0 v0 : In (k, v) (dset d k0 v0) -> (k = k0 /\ v = v0) \/ In (k, v) d.
Proof.
  induction d as [|[k' v'] t IH]; simpl.
  - intros [H|[]]. injection H as <- <-. now left.
  - destruct (String.eqb k' k0) eqn:E; simpl.
    + intros [H|H].
      * injection H as <- <-. apply String.eqb_eq in E. now left.
      * right. now right.
    + intros [H|H].
      * right. now left.
      * destruct (IH H) as [?|?]; [now left|right; now right].
Qed.

Lemma dget_dset d k v k' :
  dget (dset d k v) k' = if String.eqb k k' then Some v else dget d k'.
Proof.
  induction d as [|[k1 v1] t IH]; simpl.
  - reflexivity.
  - destruct (String.eqb k1 k) eqn:E; simpl.
    + apply String.eqb_eq in E. subst k1. destruct (String.eqb k k'); reflexivity.
    + destruct (String.eqb k1 k') eqn:E'.
      * apply String.eqb_eq in E'. subst k1.
        destruct (String.eqb k k') eqn:E2; [|reflexivity].
        apply String.eqb_eq in E2. subst. rewrite String.eqb_refl in E. discriminate.
      * apply IH.
Qed.

Lemma dupdate_spec new : forall d k,
  dget (dupdate d new) k = dget d k \/ exists v, dget (dupdate d new) k = Some v /\ In (k, v) new.
Proof.
  unfold dupdate. induction new as [|[k0 v0] new IH]; intros d k; simpl.
  - now left.
  - destruct (IH (dset d k0 v0) k) as [H|[v [H1 H2]]].
    + rewrite H, dget_dset. destruct (String.eqb k0 k) eqn:E.
      * apply String.eqb_eq in E. subst. right. exists v0. split; [reflexivity|now left].
      * now left.
    + right. exists v. split; [assumption|now right].
Qed.

(* convert_parameters: every stored pair comes from a labelled pair with a non-None value *)
Lemma convert_spec l k v :
  In (k, v) (convert_parameters l) ->
  exists lab, In (lab, v) l /\ v <> VNone /\ split_last lab = k.
Proof.
  unfold convert_parameters.
  assert (G : forall acc,
    In (k, v) (fold_left (fun acc kv => match snd kv with
                                        | VNone => acc
                                        | v => dset acc (split_last (fst kv)) v
                                        end) l acc) ->
    In (k, v) acc \/ exists lab, In (lab, v) l /\ v <> VNone /\ split_last lab = k).
  { induction l as [|[lab0 v0] l IH]; intros acc; simpl; [now left|].
    intros H. apply IH in H. destruct H as [H|[lab [H1 H2]]].
    - destruct v0; try (left; exact H);
        (apply In_dset in H; destruct H as [[-> ->]|H];
         [right; exists lab0; split; [now left|split; [discriminate|reflexivity]]|now left]).
    - right. exists lab. split; [now right|assumption]. }
  intros H. destruct (G [] H) as [[]|R]. exact R.
Qed.

(* ---------------------------------------------------------------------------------- *)
(* the parameters setter                                                               *)
(* ---------------------------------------------------------------------------------- *)
Lemma skel_with_params n p : skel (with_params n p) = skel n.
Proof. reflexivity. Qed.

Lemma skel_set_parameters n p : skel (set_parameters n p) = skel n.
Proof. unfold set_parameters. destruct (params n); reflexivity. Qed.

Lemma name_set_parameters n p : name (set_parameters n p) = name n.
Proof. unfold set_parameters. destruct (params n); reflexivity. Qed.

Lemma set_parameters_spec n newp k :
  dget (params (set_parameters n newp)) k = dget (params n) k \/
  exists v, dget (params (set_parameters n newp)) k = Some v /\ In (k, v) newp.
Proof.
  unfold set_parameters. destruct (params n) as [|kv t] eqn:E; simpl.
  - destruct (dget newp k) as [v|] eqn:D.
    + right. exists v. split; [reflexivity|apply dget_In, D].
    + now left.
  - apply dupdate_spec.
Qed.

Lemma set_parameters_changes n l k :
  dget (params (set_parameters n (convert_parameters l))) k = dget (params n) k \/
  exists v lab, dget (params (set_parameters n (convert_parameters l))) k = Some v /\
                In (lab, v) l /\ v <> VNone /\ split_last lab = k.
Proof.
  destruct (set_parameters_spec n (convert_parameters l) k) as [H|[v [H1 H2]]]; [now left|].
  right. destruct (convert_spec _ _ _ H2) as [lab [A [B C]]]. exists v, lab. auto.
Qed.

(* ---------------------------------------------------------------------------------- *)
(* mapi                                                                                *)
(* ---------------------------------------------------------------------------------- *)
Lemma mapi_from_length {A B} (f : nat -> A -> B) l : forall s, List.length (mapi_from f s l) = List.length l.
Proof. induction l; intros s; simpl; [reflexivity|now rewrite IHl]. Qed.

Lemma mapi_from_nth {A B} (f : nat -> A -> B) l : forall s i,
  nth_error (mapi_from f s l) i = option_map (f (s + i)%nat) (nth_error l i).
Proof.
  induction l as [|a l IH]; intros s i; simpl.
  - destruct i; reflexivity.
  - destruct i; simpl.
    + now rewrite Nat.add_0_r.
    + rewrite IH. now rewrite Nat.add_succ_r.
Qed.

Lemma mapi_nth {A B} (f : nat -> A -> B) l i :
  nth_error (mapi f l) i = option_map (f i) (nth_error l i).
Proof. unfold mapi. now rewrite mapi_from_nth. Qed.

Lemma mapi_length {A B} (f : nat -> A -> B) l : List.length (mapi f l) = List.length l.
Proof. apply mapi_from_length. Qed.

(* ---------------------------------------------------------------------------------- *)
(* the invariant: a graph evolves from g0 by assignments that satisfy P                *)
(* ---------------------------------------------------------------------------------- *)
Section Evolves.
  (* P node_id operation_name parameter_name value *)
  Variable P : nat -> string -> string -> value -> Prop.

  Definition node_evolves (i : nat) (n n' : node) : Prop :=
    skel n' = skel n /\
    forall k, dget (params n') k = dget (params n) k \/
              exists v, dget (params n') k = Some v /\ P i (name n) k v.

  Definition evolves (g g' : graph) : Prop :=
    List.length g' = List.length g /\
    forall i n n', nth_error g i = Some n -> nth_error g' i = Some n' -> node_evolves i n n'.

  Lemma evolves_refl g : evolves g g.
  Proof.
    split; [reflexivity|]. intros i n n' H1 H2. rewrite H1 in H2. injection H2 as <-.
    split; [reflexivity|]. intros k. now left.
  Qed.

  Lemma skel_name n n' : skel n' = skel n -> name n' = name n.
  Proof. unfold skel. intros H. now injection H. Qed.

  (* labelled dict acceptable for set_arg_graph on a graph with the names of g0 *)
  Definition dict_ok_graph (g0 : graph) (d : dict) : Prop :=
    forall lab v, In (lab, v) d -> v <> VNone ->
    forall i n, nth_error g0 i = Some n -> prefix (node_prefix i (name n)) lab = true ->
                P i (name n) (split_last lab) v.

  (* labelled dict acceptable for set_arg_node on node i *)
  Definition dict_ok_node (g0 : graph) (i : nat) (d : dict) : Prop :=
    forall n, nth_error g0 i = Some n ->
    forall lab v, In (lab, v) d -> v <> VNone -> P i (name n) (split_last lab) v.

  Lemma nth_error_some_lt {A} (l : list A) i a : nth_error l i = Some a -> (i < List.length l)%nat.
  Proof. intros H. apply nth_error_Some. congruence. Qed.

  Lemma evolves_nth g0 g1 i n1 :
    evolves g0 g1 -> nth_error g1 i = Some n1 -> exists n0, nth_error g0 i = Some n0 /\ node_evolves i n0 n1.
  Proof.
    intros [L H] H1. destruct (nth_error g0 i) as [n0|] eqn:E.
    - exists n0. split; [reflexivity|]. eapply H; eauto.
    - apply nth_error_None in E. apply nth_error_some_lt in H1. lia.
  Qed.

  Lemma step_graph g0 g1 d :
    evolves g0 g1 -> dict_ok_graph g0 d -> evolves g0 (set_arg_graph g1 d).
  Proof.
    intros E Hd. destruct E as [L H]. split.
    - unfold set_arg_graph. now rewrite mapi_length.
    - intros i n0 n' H0 H'. unfold set_arg_graph in H'. rewrite mapi_nth in H'.
      destruct (nth_error g1 i) as [n1|] eqn:E1; [|discriminate]. simpl in H'. injection H' as <-.
      destruct (H i n0 n1 H0 E1) as [Hs Hk].
      split; [now rewrite skel_set_parameters|].
      intros k.
      destruct (set_parameters_changes n1 (node_keys i (name n1) d) k) as [Q|[v [lab [Q1 [Q2 [Q3 Q4]]]]]].
      + rewrite Q. apply Hk.
      + right. exists v. split; [exact Q1|].
        unfold node_keys in Q2. apply filter_In in Q2. destruct Q2 as [Q2 Q5]. simpl in Q5.
        rewrite (skel_name _ _ Hs) in Q5. rewrite <- Q4. eapply Hd; eauto.
  Qed.

  Lemma step_node g0 g1 i d :
    evolves g0 g1 -> dict_ok_node g0 i d -> evolves g0 (set_arg_node g1 i d).
  Proof.
    intros E Hd. destruct E as [L H]. split.
    - unfold set_arg_node. now rewrite mapi_length.
    - intros j n0 n' H0 H'. unfold set_arg_node in H'. rewrite mapi_nth in H'.
      destruct (nth_error g1 j) as [n1|] eqn:E1; [|discriminate]. simpl in H'. injection H' as <-.
      destruct (H j n0 n1 H0 E1) as [Hs Hk].
      destruct (Nat.eqb j i) eqn:Eji; [|split; assumption].
      apply Nat.eqb_eq in Eji. subst j.
      split; [now rewrite skel_set_parameters|].
      intros k.
      destruct (set_parameters_changes n1 d k) as [Q|[v [lab [Q1 [Q2 [Q3 Q4]]]]]].
      + rewrite Q. apply Hk.
      + right. exists v. split; [exact Q1|]. rewrite <- Q4. eapply Hd; eauto.
  Qed.
End Evolves.

(* weakening of the predicate *)
Lemma evolves_weaken (P Q : nat -> string -> string -> value -> Prop) g g' :
  (forall i nm k v, P i nm k v -> Q i nm k v) -> evolves P g g' -> evolves Q g g'.
Proof.
  intros W [L H]. split; [assumption|]. intros i n n' H1 H2. destruct (H i n n' H1 H2) as [Hs Hk].
  split; [assumption|]. intros k. destruct (Hk k) as [E|[v [E1 E2]]]; [now left|right; eauto].
Qed.
